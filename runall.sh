#!/bin/sh
# usage: ./runall.sh <seed> [tier]  -- runs every claimed check (PAR at a time, default 3), prints one summary line per property
SEED=${1:-0}; TIER=${2:-quick}
cd "$(dirname "$0")" || exit 2
mkdir -p work/runall
/venv/bin/python -c "import json; [print(c['property_id']) for c in json.load(open('MANIFEST.json'))['checks']]" | \
xargs -P${PAR:-3} -I{} sh -c "VERIF_SEED=$SEED ./check {} --tier $TIER > work/runall/{}.log 2>&1; echo \"{} exit=\$? \$(grep -c '^VIOLATION' work/runall/{}.log) violations, \$(grep -c '^KNOWN-FINDING' work/runall/{}.log) known, \$(grep 'done:' work/runall/{}.log | sed 's/.*wall=//')\""
