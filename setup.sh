#!/bin/sh
# Build the framework offline from files on disk: regenerate coq/gen from /repo, full .vo build.
cd "$(dirname "$0")" || exit 2
export PYTHONHASHSEED=0 PYTHONDONTWRITEBYTECODE=1
export PYTHONPATH="/verif:/verif/stubs:${VERIF_REPO:-/repo}/sandbox/grist"
exec /venv/bin/python -m harness.setup_all
