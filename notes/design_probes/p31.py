import sys, logging, random, json
sys.path.insert(0,'/tmp/ftstub'); sys.path.insert(0,'/repo/sandbox/grist')
logging.disable(logging.CRITICAL)
import engine, useractions, actions
def ua(*a): return useractions.from_repr(list(a))
rnd=random.Random(31)
bad=0;n=0
for it in range(150):
    e = engine.Engine(); e.load_empty(); e.apply_user_actions([ua('InitNewDoc')])
    e.apply_user_actions([ua('AddEmptyTable','S')])
    e.apply_user_actions([ua('AddColumn','S','K',{'type':'Text','isFormula':False}), ua('AddColumn','S','F',{'type':'Any','isFormula':True,'formula':'len(S.lookupRecords(K=$K))'})])
    sref=e.docmodel.get_table_rec('S').id; kref=e.docmodel.get_column_rec('S','K').id
    e.apply_user_actions([ua('CreateViewSection', sref, 0, 'record', [kref], None)])
    summ=[t for t in e.tables if t.startswith('S_summary')][0]
    for step in range(6):
        rows=list(e.tables['S'].row_ids)
        k=rnd.choice(['add','upd','rm','addempty'])
        if k=='add' or not rows: act=ua('BulkAddRecord','S',[None,None],{'K':[rnd.choice('ab'),rnd.choice('abc')]})
        elif k=='upd': act=ua('UpdateRecord','S',rnd.choice(rows),{'K':rnd.choice('abcd')})
        elif k=='rm': act=ua('RemoveRecord','S',rnd.choice(rows))
        else: act=ua('UpdateRecord','S',rnd.choice(rows),{rnd.choice(['A','B','C']):rnd.choice([1,'x'])})
        out=e.apply_user_actions([act]); n+=1
        if len(out.stored)!=len(out.direct): bad+=1; print('LEN'); continue
        for a,d in zip(out.stored,out.direct):
            rep=actions.get_action_repr(a); name=rep[0]; tid=rep[1]
            exp=None
            if tid==summ and name.endswith('Record'): exp=False
            elif tid=='S' and name in ('UpdateRecord','BulkUpdateRecord') and set(rep[3])<= {'F'}: exp=False
            elif name=='ModifyColumn' or tid.startswith('_grist_'): exp=False   # empty column conversion while entering data
            elif tid=='S' and name in ('AddRecord','BulkAddRecord','RemoveRecord','BulkRemoveRecord','UpdateRecord','BulkUpdateRecord'): exp=True
            if exp is not None and d!=exp:
                bad+=1
                if bad<8: print('C31',k,rep[:3],'direct=',d,'expected',exp)
print('C31 bundles',n,'bad',bad)
