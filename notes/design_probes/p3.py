import sys, logging
sys.path.insert(0,'/tmp/ftstub'); sys.path.insert(0,'/repo/sandbox/grist')
logging.disable(logging.CRITICAL)
import engine, useractions, actions
def ua(*a): return useractions.from_repr(list(a))
def dump(e):
    return {t: actions.get_action_repr(e.fetch_table(t)) for t in sorted(e.tables)}
e = engine.Engine(); e.load_empty()
e.apply_user_actions([ua('InitNewDoc')])
e.apply_user_actions([ua('AddTable','T1',[{'id':'R','type':'RefList:T2','isFormula':False}])])
e.apply_user_actions([ua('AddTable','T2',[{'id':'X','type':'Text','isFormula':False}])])
e.apply_user_actions([ua('BulkAddRecord','T1',[None]*3,{})])
e.apply_user_actions([ua('BulkAddRecord','T2',[None]*3,{'X':['a','b','c']})])
r = e.apply_user_actions([ua('AddReverseColumn','T1','R')])
print(r.retValues)
print(e.fetch_table('T2').columns.keys())
# dup row ids in bulk update
try:
  out = e.apply_user_actions([ua('BulkUpdateRecord','T1',[1,1],{'R':[['L',1],['L',2]]})])
  print('T1.R', e.fetch_table('T1').columns['R'])
  t2 = e.fetch_table('T2'); print({k:v for k,v in t2.columns.items() if k not in ('X','manualSort')})
except Exception as ex:
  print('raised', type(ex).__name__, ex)
# C04: failing bundle after CopyFromColumn / formula change
e = engine.Engine(); e.load_empty()
e.apply_user_actions([ua('InitNewDoc')])
e.apply_user_actions([ua('AddTable','T',[{'id':'A','type':'Int','isFormula':False},{'id':'B','type':'Int','isFormula':True,'formula':'$A*2'},{'id':'C','type':'Int','isFormula':False}])])
e.apply_user_actions([ua('BulkAddRecord','T',[None,None],{'A':[1,2]})])
before = dump(e)
try:
  e.apply_user_actions([ua('UpdateRecord','T',1,{'A':10}), ua('CopyFromColumn','T','B','C',None), ua('RemoveRecord','Nope',1)])
except Exception as ex:
  print('raised', type(ex).__name__, ex)
after = dump(e)
print('unchanged after failed bundle:', after==before)
if after!=before:
  for t in before:
    if before[t]!=after[t]: print(t, before[t], after[t])
out = e.apply_user_actions([ua('Calculate')])
print('calc stored:', [actions.get_action_repr(a) for a in out.stored])
e.assert_schema_consistent()
