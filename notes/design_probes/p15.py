import sys, logging
sys.path.insert(0,'/tmp/ftstub'); sys.path.insert(0,'/repo/sandbox/grist')
logging.disable(logging.CRITICAL)
import engine, useractions, actions
def ua(*a): return useractions.from_repr(list(a))
def mk(when, deps_cols, formula='($A or 0) + 100 + ($cnt or 0)*0'):
    e = engine.Engine(); e.load_empty(); e.apply_user_actions([ua('InitNewDoc')])
    e.apply_user_actions([ua('AddTable','T',[{'id':'A','type':'Int','isFormula':False},{'id':'B','type':'Int','isFormula':False},
       {'id':'F','type':'Int','isFormula':True,'formula':'($B or 0)*2'},{'id':'cnt','type':'Int','isFormula':False},
       {'id':'Tr','type':'Int','isFormula':False,'formula':formula}])])
    cols={c.colId:c.id for c in e.docmodel.columns.all if c.tableId=='T'}
    e.apply_user_actions([ua('UpdateRecord','_grist_Tables_column',cols['Tr'],{'recalcWhen':when,'recalcDeps':(['L']+[cols[c] for c in deps_cols]) if deps_cols else None})])
    return e
def T(e): 
    t=e.fetch_table('T'); return list(zip(t.row_ids,t.columns.get('A',t.columns.get('A2')),t.columns['B'],t.columns['Tr']))
import itertools
ev=[0]
for when,deps in [(0,['A']),(0,['F']),(0,['A','Tr']),(0,[]),(1,['A']),(2,[])]:
    # use a counter formula to detect evaluation: value = previous value + 1
    e=mk(when,deps,formula='(value or 0) + 1')
    print('--- recalcWhen',when,'deps',deps)
    e.apply_user_actions([ua('BulkAddRecord','T',[None,None],{'A':[1,2]})]); print('add no value     ',T(e))
    e.apply_user_actions([ua('AddRecord','T',None,{'A':3,'Tr':50})]); print('add with value   ',T(e))
    e.apply_user_actions([ua('UpdateRecord','T',1,{'A':10})]); print('upd A row1       ',T(e))
    e.apply_user_actions([ua('UpdateRecord','T',1,{'A':10})]); print('upd A same value ',T(e))
    e.apply_user_actions([ua('UpdateRecord','T',2,{'B':7})]); print('upd B row2       ',T(e))
    e.apply_user_actions([ua('UpdateRecord','T',2,{'A':5,'Tr':77})]); print('upd A+Tr row2    ',T(e))
    e.apply_user_actions([ua('UpdateRecord','T',3,{'Tr':9})]); print('upd Tr row3      ',T(e))
    e.apply_user_actions([ua('RenameColumn','T','A','A2')]); print('rename A         ',T(e))
    e.apply_user_actions([ua('ModifyColumn','T','B',{'type':'Numeric'})]); print('modify B type    ',T(e))
