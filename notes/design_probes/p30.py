import sys, os, hashlib; sys.argv=['x']
exec(open('/tmp/probe/hist.py').read().split("if __name__=='__main__':")[0])
seed=int(os.environ['SEED'])
r=random.Random(seed); e=new_engine(); e.apply_user_actions([ua(['InitNewDoc'])])
digs=[]
for b in range(12):
    bundle=[rand_action(r,e) for _ in range(r.randint(1,3))]
    try:
        out=e.apply_user_actions([ua(copy.deepcopy(a)) for a in bundle])
        rep=json.dumps(out.get_repr(), sort_keys=True, default=repr)
    except Exception as ex:
        rep='EXC '+type(ex).__name__
    rep += json.dumps(dump(e), sort_keys=True, default=repr)
    digs.append(hashlib.sha1(rep.encode()).hexdigest()[:10])
print(' '.join(digs))
