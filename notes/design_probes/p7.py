import sys, random
sys.path.insert(0,'/tmp/ftstub'); sys.path.insert(0,'/repo/sandbox/grist')
import textbuilder
rnd=random.Random(2)
def rand_patches(text):
    n=len(text)
    cuts=sorted(rnd.sample(range(n+1), min(n+1, rnd.randint(0,6))))
    ps=[]; i=0; used=set()
    while i<len(cuts):
        s=cuts[i]
        if i+1<len(cuts) and rnd.random()<0.6: e=cuts[i+1]; i+=2
        else: e=s; i+=1
        if (s,e) in used: continue
        used.add((s,e))
        ps.append(textbuilder.make_patch(text,s,e,''.join(rnd.choice('xyz') for _ in range(rnd.randint(0,3)))))
    # avoid zero-length patch touching another patch start (sorted order ambiguity not an issue for Replacer but keep)
    return ps
def apply_with_prov(chars, patches):
    # chars: list of (ch, prov) ; returns new list
    out=[]; pos=0
    for p in sorted(patches):
        out.extend(chars[pos:p.start]); out.extend((c,None) for c in p.new_text); pos=p.end
    out.extend(chars[pos:]); return out
bad=0; n=0; refused=0; bad_examples=[]
for it in range(60000):
    src=''.join(rnd.choice('abcdefgh') for _ in range(rnd.randint(1,12)))
    b=textbuilder.Text(src,'v'); chars=[(c,i) for i,c in enumerate(src)]
    ok=True
    for _ in range(rnd.randint(1,3)):
        ps=rand_patches(b.get_text())
        # skip overlapping sets
        sp=sorted(ps); 
        if any(a.end>b2.start for a,b2 in zip(sp,sp[1:])): ok=False;break
        b=textbuilder.Replacer(b,ps); chars=apply_with_prov(chars,ps)
    if not ok: continue
    out=b.get_text(); assert out==''.join(c for c,_ in chars)
    if not out: continue
    s=rnd.randint(0,len(out)-1); e=rnd.randint(s+1,len(out))
    provs=[chars[i][1] for i in range(s,e)]
    if None in provs or any(y!=x+1 for x,y in zip(provs,provs[1:])): continue
    p=textbuilder.make_patch(out,s,e,'Q')
    try: _,_,ip=b.map_back_patch(p)
    except Exception as ex: refused+=1; continue
    n+=1
    if (ip.start,ip.end)!=(provs[0],provs[-1]+1) or ip.old_text!=p.old_text:
        bad+=1
        if len(bad_examples)<5: bad_examples.append((src,out,(s,e),(ip.start,ip.end),provs))
print('C37 in-segment mapped',n,'refused',refused,'bad',bad, bad_examples)
