import sys, logging, random, json, itertools
sys.path.insert(0,'/tmp/ftstub'); sys.path.insert(0,'/repo/sandbox/grist')
logging.disable(logging.CRITICAL)
import engine, useractions, actions, objtypes
def ua(*a): return useractions.from_repr(list(a))
rnd=random.Random(19)
def mk():
    e = engine.Engine(); e.load_empty(); e.apply_user_actions([ua('InitNewDoc')])
    e.apply_user_actions([ua('AddTable','S',[{'id':'K','type':'Text','isFormula':False},{'id':'CL','type':'ChoiceList','isFormula':False},{'id':'N','type':'Int','isFormula':False},{'id':'RL','type':'RefList:S','isFormula':False}])])
    return e
def colref(e,t,c): return e.docmodel.get_column_rec(t,c).id
def check(e):
    iss=[]
    S=e.fetch_table('S'); rows=[dict(id=r,**{c:S.columns[c][i] for c in S.columns}) for i,r in enumerate(S.row_ids)]
    for trec in e.docmodel.tables.all:
        if not trec.summarySourceTable: continue
        if trec.summarySourceTable.tableId!='S': continue
        t=trec.tableId
        gcols=[(c.colId,c.summarySourceCol.colId,c.summarySourceCol.type) for c in trec.columns if c.summarySourceCol]
        T=e.fetch_table(t)
        def keys_of(row):
            parts=[]
            for gc,sc,ty in gcols:
                v=row[sc]
                if ty=='ChoiceList' or ty.startswith('RefList'):
                    if isinstance(v,(str,bytes)): return []
                    if v is None: v=[]
                    try: s=set(v)
                    except TypeError: return []
                    if not s: s={''} if ty=='ChoiceList' else {0}
                    parts.append(sorted(s, key=repr))
                else: parts.append([v])
            return list(itertools.product(*parts))
        exp={}
        for row in rows:
            for k in keys_of(row): exp.setdefault(k,[]).append(row['id'])
        got={}
        for i,r in enumerate(T.row_ids):
            k=tuple(T.columns[gc][i] for gc,_,_ in gcols)
            if k in got: iss.append((t,'DUP KEY',k))
            g=T.columns['group'][i]
            got[k]=list(g) if g else []
        if set(got)!=set(exp): iss.append((t,'KEYS',sorted(map(repr,set(got)^set(exp)))[:4]))
        for k in exp:
            if k in got and got[k]!=sorted(exp[k]): iss.append((t,'GROUP',k,got[k],sorted(exp[k])))
    return iss
tot=0; bad=0
for it in range(60):
    e=mk()
    sref=e.docmodel.get_table_rec('S').id
    for cols in rnd.sample([['K'],['CL'],['K','CL'],['N'],['RL'],[]], rnd.randint(1,3)):
        e.apply_user_actions([ua('CreateViewSection', sref, 0, 'record', [colref(e,'S',c) for c in cols], None)])
    for step in range(14):
        rows=list(e.tables['S'].row_ids)
        k=rnd.choice(['add','add','upd','upd','rm','renK','typ','undo'])
        try:
            if k=='add' or not rows:
                n=rnd.randint(1,3)
                out=e.apply_user_actions([ua('BulkAddRecord','S',[None]*n,{'K':[rnd.choice(['a','b','']) for _ in range(n)],'CL':[rnd.choice([None,['L','x'],['L','x','y'],['L','y','y'],'alt']) for _ in range(n)],'N':[rnd.choice([1,2]) for _ in range(n)]})])
            elif k=='upd':
                rs=rnd.sample(rows,min(len(rows),2)); c=rnd.choice(['K','CL','N','RL'])
                vals={'K':['a','b','c',''],'CL':[None,['L','x'],['L','z','x'],'txt'],'N':[1,2,3],'RL':[None,['L']+rows[:1],['L']+rows[:2]]}[c]
                out=e.apply_user_actions([ua('BulkUpdateRecord','S',rs,{c:[rnd.choice(vals) for _ in rs]})])
            elif k=='rm': out=e.apply_user_actions([ua('BulkRemoveRecord','S',rnd.sample(rows,1))])
            elif k=='renK' and 'K' in e.schema['S'].columns: out=e.apply_user_actions([ua('RenameColumn','S','K','K')])
            elif k=='typ': out=e.apply_user_actions([ua('ModifyColumn','S','N',{'type':rnd.choice(['Int','Text','Numeric'])})])
            elif k=='undo' and 'out' in dir():
                out2=e.apply_user_actions([ua('ApplyUndoActions',[actions.get_action_repr(a) for a in out.undo])]); out=out2
        except Exception as ex:
            print('EXC',k,repr(ex)[:120]); bad+=1; break
        tot+=1
        iss=check(e)
        if iss:
            bad+=1
            if bad<8: print('ISSUE it',it,'step',step,k,iss[:3])
            break
print('C12 steps',tot,'bad',bad)
