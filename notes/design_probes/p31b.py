import sys, logging, json
sys.path.insert(0,'/tmp/ftstub'); sys.path.insert(0,'/repo/sandbox/grist')
logging.disable(logging.CRITICAL)
import engine, useractions, actions
def ua(*a): return useractions.from_repr(list(a))
e = engine.Engine(); e.load_empty(); e.apply_user_actions([ua('InitNewDoc')])
e.apply_user_actions([ua('AddEmptyTable','S')])
e.apply_user_actions([ua('BulkAddRecord','S',[None,None],{})])
out=e.apply_user_actions([ua('UpdateRecord','S',1,{'A':'x'})])
for a,d in zip(out.stored,out.direct): print(d, json.dumps(actions.get_action_repr(a))[:200])
