import sys, os; sys.argv=['x']
exec(open('/tmp/probe/hist.py').read().split("if __name__=='__main__':")[0])
import engine as engmod
orig=engmod.Engine._make_sorted_work_items
def run_hist(seed, perm_seed):
    pr=random.Random(perm_seed)
    def wrapped(self, nodes):
        items=orig(self,nodes)   # processed from the end; lookups are at the end
        if perm_seed is None: return items
        lk=[w for w in items if w.node.col_id.startswith('#lookup')]; other=[w for w in items if not w.node.col_id.startswith('#lookup')]
        pr.shuffle(lk); pr.shuffle(other)
        return other+lk
    engmod.Engine._make_sorted_work_items=wrapped
    r=random.Random(seed); e=new_engine(); e.apply_user_actions([ua(['InitNewDoc'])])
    res=[]
    for b in range(10):
        bundle=[rand_action(r,e) for _ in range(r.randint(1,3))]
        try:
            out=e.apply_user_actions([ua(copy.deepcopy(a)) for a in bundle])
            st=sorted(json.dumps(actions.get_action_repr(a),sort_keys=True,default=repr) for a in out.stored)
        except Exception as ex:
            st=['EXC '+type(ex).__name__]
            try: e.apply_user_actions([ua(['Calculate'])])
            except Exception: pass
        res.append((bundle, canon(dump(e)), st))
    return res
bad=0; n=0
for seed in range(2000,2060):
    base=run_hist(seed,None)
    for ps in (1,2,3):
        other=run_hist(seed,ps)
        for b,(x,y) in enumerate(zip(base,other)):
            n+=1
            if x[1]!=y[1]:
                bad+=1
                if bad<6:
                    A=json.loads(x[1]); B=json.loads(y[1])
                    print('C06 DIFF seed',seed,'perm',ps,'b',b,x[0],[t for t in A if A[t]!=B.get(t)])
                break
print('C06 compared',n,'bad',bad)
