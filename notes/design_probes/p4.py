import sys, itertools, random
sys.path.insert(0,'/tmp/ftstub'); sys.path.insert(0,'/repo/sandbox/grist')
from collections import namedtuple
from treeview import fix_indents
Item = namedtuple('Item','id indentation')
def valid(seq):
    prev=-1
    for i,x in enumerate(seq):
        if i==0 and x!=0: return False
        if x>prev+1: return False
        if x<0: return False
        prev=x
    return True
bad=0; n=0
for L in range(0,6):
  for inds in itertools.product(range(0,4), repeat=L):
    for delmask in range(1<<L):
      items=[Item(i,inds[i]) for i in range(L)]
      dele={i for i in range(L) if delmask>>i&1}
      adj=fix_indents(items,dele); n+=1
      fm=dict(adj)
      rem=[fm.get(it.id,it.indentation) for it in items if it.id not in dele]
      ok = valid(rem) and all(fm[i]<inds[i] for i in fm) and not (set(fm)&dele)
      # changed only if violating: recompute allowed
      mx=0
      for it in items:
          ind=min(mx,it.indentation)
          if it.id in fm:
              ok = ok and it.indentation>mx and fm[it.id]==mx
          elif it.id not in dele:
              ok = ok and it.indentation<=mx
          mx = ind if it.id in dele else ind+1
      # no deletion & valid input => no adj
      if not dele and valid(list(inds)): ok = ok and adj==[]
      if not ok: bad+=1; print('BAD',inds,dele,adj)
print('C36 cases',n,'bad',bad)
