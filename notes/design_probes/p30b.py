import sys, logging
sys.path.insert(0,'/tmp/ftstub'); sys.path.insert(0,'/repo/sandbox/grist')
logging.disable(logging.CRITICAL)
import engine, useractions, actions
def ua(*a): return useractions.from_repr(list(a))
e = engine.Engine(); e.load_empty(); e.apply_user_actions([ua('InitNewDoc')])
e.apply_user_actions([ua('AddTable','T',[{'id':'A','type':'Text','isFormula':False},{'id':'S','type':'Any','isFormula':True,'formula':'{$A, "x", "yy", "zzz"}'},{'id':'D','type':'Any','isFormula':True,'formula':'{"k": {$A, "b", "c"}}'},{'id':'L','type':'Any','isFormula':True,'formula':'list({$A, "p", "q", "r"})'}])])
out=e.apply_user_actions([ua('AddRecord','T',None,{'A':'a'})])
print([actions.get_action_repr(a) for a in out.stored][1:])
