import sys, random, math, bisect
sys.path.insert(0,'/tmp/ftstub'); sys.path.insert(0,'/repo/sandbox/grist')
import relabeling
from sortedcontainers import SortedListWithKey
rnd=random.Random(5)
nf=relabeling.nextfloat; pf=relabeling.prevfloat
def gen_orig():
    mode=rnd.choice(['ints','dense','mixed','tiny','huge','neg','inf','dup'])
    n=rnd.randint(0,12)
    if mode=='ints': xs=[float(i+1) for i in range(n)]
    elif mode=='dense':
        x=rnd.choice([1.0,0.5,3.0,1e-5,1e10]); xs=[]
        for _ in range(n): xs.append(x); x=nf(x) if rnd.random()<0.8 else nf(nf(nf(x)))
    elif mode=='mixed': xs=sorted(rnd.uniform(0,10) for _ in range(n))
    elif mode=='tiny': xs=sorted(rnd.uniform(0,1e-300) for _ in range(n))
    elif mode=='huge': xs=sorted(rnd.uniform(1e300,1.7e308) for _ in range(n))
    elif mode=='neg': xs=sorted(rnd.uniform(-5,5) for _ in range(n))
    elif mode=='inf': xs=sorted([rnd.uniform(0,10) for _ in range(n)])+[float('inf')]*rnd.randint(0,2)
    else: xs=sorted(rnd.choice([1.0,2.0,3.0]) for _ in range(n))
    return xs
def gen_keys(orig):
    k=rnd.randint(1,8); out=[]
    for _ in range(k):
        c=rnd.random()
        if orig and c<0.5: out.append(rnd.choice(orig))
        elif orig and c<0.6: out.append(nf(rnd.choice(orig)))
        elif c<0.7: out.append(float('inf'))
        elif c<0.75: out.append(float('-inf'))
        elif c<0.8: out.append(0.0)
        else: out.append(rnd.uniform(-1,12))
    return out
stats={'ok':0,'exc':0,'spec':0}; ex=[]
for it in range(40000):
    orig=gen_orig(); keys=gen_keys(orig)
    # input validity for "existing positions": distinct finite sorted? property says "any existing positions"; track
    distinct_in = all(a<b for a,b in zip(orig,orig[1:])) and all(math.isfinite(x) for x in orig)
    sl=SortedListWithKey(list(range(len(orig))), key=lambda i: orig[i])
    try:
        adj, new = relabeling.prepare_inserts(sl, keys)
    except Exception as e:
        stats['exc']+=1
        if len(ex)<6: ex.append(('EXC',repr(e)[:60],orig[:6],keys))
        continue
    adj=list(adj)
    pos=list(orig)
    for i,p in adj: pos[sl[i]] = p   # index into sorted list -> element
    ok=True; why=[]
    # existing rows keep order
    order_before=[sl[i] for i in range(len(sl))]
    vals=[pos[j] for j in order_before]
    if distinct_in and not all(a<b for a,b in zip(vals,vals[1:])): ok=False; why.append('existing order/distinct')
    allv=vals+list(new)
    if not all(math.isfinite(x) for x in new): ok=False; why.append('new not finite')
    if distinct_in and len(set(allv))!=len(allv): ok=False; why.append('not distinct')
    # placement: new row i goes before first existing row with orig >= key (bisect_left on orig)
    if distinct_in:
        for k,nv in zip(keys,new):
            idx=bisect.bisect_left(orig,k)
            lo = vals[idx-1] if idx>0 else -math.inf
            hi = vals[idx] if idx<len(vals) else math.inf
            if not (lo<nv<hi): ok=False; why.append('placement'); break
        # new rows keep order of requested positions (stable for ties)
        idxs=sorted(range(len(keys)), key=lambda i:(keys[i],i))
        nn=[new[i] for i in idxs]
        if not all(a<b for a,b in zip(nn,nn[1:])): ok=False; why.append('new order')
    if ok: stats['ok']+=1
    else:
        stats['spec']+=1
        if len(ex)<12: ex.append(('SPEC',why,orig[:8],keys,adj[:4],new))
print(stats)
for e in ex: print(e)
