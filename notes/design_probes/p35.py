import sys, random, datetime
sys.path.insert(0,'/tmp/ftstub'); sys.path.insert(0,'/repo/sandbox/grist')
from functions.schedule import Schedule, _round_down_to_unit, SCHEDULE
import moment
rnd=random.Random(23)
def brute(spec, start, end, count, horizon=400):
    sch=Schedule(spec)
    from functions.date import DTIME
    start=DTIME(start); end=end and DTIME(end)
    base=_round_down_to_unit(start, sch._interval_unit)
    outs=[]; t=base
    for k in range(horizon):
        for s in sch._slots: outs.append(s.add_to(t))
        t=sch._interval.add_to(t)
    outs=sorted(o for o in outs if o>=start and (end is None or o<=end))
    return outs[:max(count,0)]
specs=['annual: Jan-15, Apr-15, Jul-15, Oct-15','annual: 1/15, 4/15 2pm','monthly: /1 2pm, /15 5pm','3-months: /10, +1m /20','weekly: Mo 9am, Tu 9am, Fr 2pm',
 '2-weeks: Mo, +1w Tu','daily: 07:30, 21:00','2-day: 12am, 4pm, +1d 8am','hourly: :15, :45','4-hour: :00, +1H :20, +2H :40','10-minute: +0S','90-second: +0S, +30S','monthly: /31','monthly: /29 11pm','1-year: 2/29','weekly: Su, Sa 11:59pm','5-day: +0d, +4d 23:00', '7-hour: :00, +6H :59']
bad=0;n=0
zones=[None,'America/New_York','Asia/Tehran','UTC']
for it in range(3000):
    spec=rnd.choice(specs)
    z=rnd.choice(zones)
    start=datetime.datetime(rnd.randint(2015,2024), rnd.randint(1,12), rnd.randint(1,28), rnd.randint(0,23), rnd.choice([0,15,30,59]), rnd.choice([0,0,30]), tzinfo=moment.tzinfo(z) if z else None)
    end=None if rnd.random()<0.5 else start+datetime.timedelta(days=rnd.choice([0,1,10,100,400]), hours=rnd.randint(0,5))
    count=rnd.choice([0,1,3,10,25])
    try:
        got=list(Schedule(spec).series(start,end,count=count))
        exp=brute(spec,start,end,count)
    except Exception as ex:
        bad+=1; print('EXC',spec,start,repr(ex)[:80]); continue
    n+=1
    if got!=exp:
        bad+=1
        if bad<8: print('DIFF',spec,start,end,count,'\n got',[str(x) for x in got[:5]],'\n exp',[str(x) for x in exp[:5]])
print('C35 cases',n,'bad',bad)
for s in ['', 'daily', 'daily:', 'foo: 1', '0-day: 1am', 'weekly: Xx', 'daily: 25:00', 'daily: 9am 10am', 'monthly: Jan-1', 'hourly: 9am', '2-fortnight: Mo', 'daily: +1d +2d', 'annual: Foo-1', 'daily: 13pm', 'monthly: /0', 'daily: ,', '-1-day: 1am', '1.5-day: 1am']:
    try:
        r=list(SCHEDULE(s, start=datetime.datetime(2020,1,1), count=2)); print(repr(s),'ACCEPTED',[str(x) for x in r])
    except ValueError as e: pass
    except Exception as e: print(repr(s),'OTHER',type(e).__name__,e)
