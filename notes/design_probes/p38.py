import sys, re, math
sys.path.insert(0,'/tmp/ftstub'); sys.path.insert(0,'/repo/sandbox/grist')
import usertypes
ts=open('/repo/app/common/gristTypes.ts').read()
m=re.search(r'_defaultValues[^=]*=\s*\{(.*?)\n\};', ts, re.S)
d={}
for line in m.group(1).splitlines():
    mm=re.match(r'\s*(\w+):\s*\[(.+?),\s+"', line)
    if mm: d[mm.group(1)]=mm.group(2).strip()
conv={'null':None,'false':False,'""':'','0':0,'Number.POSITIVE_INFINITY':float('inf')}
bad=[]
for k,v in usertypes._type_defaults.items():
    if k not in d: bad.append((k,'missing in ts')); continue
    tv=conv[d[k]]
    if not (tv==v and (type(tv)==type(v) or (isinstance(v,float) and isinstance(tv,(int,float)) and not isinstance(tv,bool)))): bad.append((k,v,tv))
for k in d:
    if k not in usertypes._type_defaults: bad.append((k,'missing in py'))
print('C38 defaults', len(d), 'bad', bad)
