import sys, random, itertools, datetime, math, json, marshal
sys.path.insert(0,'/tmp/ftstub'); sys.path.insert(0,'/repo/sandbox/grist')
import objtypes, moment, predicate_formula
from imports import import_json
# C40: odd constants
for f in ['...', "b'x'", '1j', '-1', 'rec.a > -1', '+1', 'a if b else c', 'f"x{a}"', 'a[0]', '{1}', '(1,2) == [1,2]', 'a < b < c', 'x := 1', 'lambda: 1', '1 and 2 #c', 'not a', '~a', 'a // b', 'a ** b', 'a @ b','rec.x is not None','f(a, b=1)', 'f(*a)', 'f(**k)', '[x for x in y]', '1_0', '0x10', '"a" "b"', "1.", 'True', 'None', 'inf','1e999']:
    try:
        t = predicate_formula.parse_predicate_formula(f)
        try: j=json.dumps(t)
        except Exception as e: j='NOT-JSON '+repr(e)
        print(repr(f),'->',j)
    except SyntaxError as e: print(repr(f),'SyntaxError')
    except Exception as e: print(repr(f),'OTHER',type(e).__name__,e)
# C24 sanity
vals=[{1,2},{'a','b'},2**70,{1:2},{'a':{'b':[1,(2,3)]}}, b'\xff', float('nan'), datetime.datetime(2020,1,2,3,4,5,123456,tzinfo=moment.tzinfo('Asia/Tehran')), datetime.date(1,1,1), datetime.datetime(9999,12,31,23,59,59,999999), objtypes.RaisedException(ValueError('x'),user_input={1:2})]
l=[]; l.append(l); vals.append(l)
d=[]; 
cur=d
for i in range(5000):
    n=[]; cur.append(n); cur=n
vals.append(d)
for v in vals:
    try:
        e=objtypes.encode_object(v)
        m=marshal.dumps(e,2)
        e2=objtypes.encode_object(objtypes.decode_object(e))
        print(type(v).__name__, 'marshal ok len',len(m),'roundtrip', e2==e or (repr(e2)==repr(e)), (repr(e)[:70]))
    except Exception as ex:
        print(type(v).__name__, 'FAIL', type(ex).__name__, str(ex)[:80])
