import sys, random, itertools, datetime, math, json
sys.path.insert(0,'/tmp/ftstub'); sys.path.insert(0,'/repo/sandbox/grist')
import usertypes, objtypes, moment, records
from usertypes import *
rnd=random.Random(3)
class S(str): pass
class I(int): pass
vals = [None, True, False, 0, 1, -1, 2**31, -2**31-1, 2**70, 0.0, -0.0, 1.0, 1.5, float('inf'), float('-inf'), float('nan'), 1e22, 2.0**53,
 '', ' ', 'a', '1', '1.5', 'nan', 'inf', '1e400', '1_000', 'true', 'No', '[1,2]', '[1, -2]', '["a","b"]', '[', '[true]', '[1.0]', 'RecordList([1,2], group_by=None, sort_by=None)', '2020-01-02', '2020-01-02T03:04:05Z','2020-13-45',
 b'x', b'\xff', [], [1,2], [1,'a'], ['a','b'], (1,2), ('a',), [[1]], [True], [0], [1.0], {}, {'a':1}, {1:2}, {1,2}, set(),
 datetime.date(2020,1,2), datetime.datetime(2020,1,2,3,4,5), datetime.datetime(2020,1,2,3,4,5,tzinfo=moment.tzinfo('America/New_York')),
 objtypes.AltText('x','Int'), objtypes.AltText('12','Int'), objtypes.RaisedException(ValueError('boom')), objtypes.RaisedException(ValueError('b'),user_input=3),
 S('sub'), I(5), object(), 1+2j, Ellipsis, lambda: 1]
types = [Text(), Blob(), Any(), Bool(), Int(), Numeric(), Date(), DateTime(), DateTime('Asia/Tehran'), Choice(), ChoiceList(), PositionNumber(), ManualSortPos(), Id(), Reference('T'), ReferenceList('T'), Attachments()]
def enc(v):
    try: return json.dumps(objtypes.encode_object(v), sort_keys=True)
    except Exception as e: return 'ENCERR '+repr(e)
bad=[]
for T in types:
    for v in vals:
        try:
            w = T.convert(v)
        except Exception as e:
            bad.append(('RAISE', T.typename(), repr(v)[:40], repr(e)[:60])); continue
        ok_type = T.is_right_type(w) or isinstance(w, objtypes.RaisedException) or isinstance(w, str)
        try:
            w2 = T.convert(w)
        except Exception as e:
            bad.append(('RAISE2', T.typename(), repr(v)[:40], repr(e)[:60])); continue
        same = (type(w)==type(w2)) and (enc(w)==enc(w2))
        if not ok_type or not same:
            bad.append((T.typename(), repr(v)[:40], repr(w)[:40], repr(w2)[:40], 'type_ok=%s same=%s'%(ok_type,same)))
print('C22 checked', len(types)*len(vals), 'bad', len(bad))
for b in bad[:40]: print(b)
