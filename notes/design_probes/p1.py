import sys, logging
sys.path.insert(0,'/tmp/ftstub'); sys.path.insert(0,'/repo/sandbox/grist')
logging.disable(logging.CRITICAL)
import engine, useractions, actions
def ua(*a): return useractions.from_repr(list(a))
def mk():
    e = engine.Engine(); e.load_empty()
    e.apply_user_actions([ua('InitNewDoc')])
    e.apply_user_actions([ua('AddTable','T',[{'id':'A','type':'Int','isFormula':False},{'id':'B','type':'Any','isFormula':True,'formula':'$A*2'}])])
    return e
def dump(e):
    return {t: actions.get_action_repr(e.fetch_table(t)) for t in sorted(e.tables)}
for ids in ([5,5],[0],[None,3,None],[-1,-1],[1000001],[2,1]):
    e = mk()
    e.apply_user_actions([ua('BulkAddRecord','T',[None,None],{'A':[1,2]})])
    before = dump(e)
    try:
        out = e.apply_user_actions([ua('BulkAddRecord','T',ids,{'A':[7]*len(ids)})])
        print(ids, '->', out.retValues, e.fetch_table('T').row_ids, e.fetch_table('T').columns['A'])
    except Exception as ex:
        print(ids, 'raised', type(ex).__name__, ex, 'unchanged=', dump(e)==before)
