import sys, logging, random, json, copy, traceback, marshal
sys.path.insert(0,'/tmp/ftstub'); sys.path.insert(0,'/repo/sandbox/grist')
logging.disable(logging.CRITICAL)
import engine, useractions, actions, schema, table_data_set, objtypes
def ua(a): return useractions.from_repr(a)
def dump(e, formulas=True):
    return {t: actions.get_action_repr(e.fetch_table(t, formulas=formulas)) for t in sorted(e.tables)}
def _norm(x):
    if isinstance(x,bool) or x is None or isinstance(x,str): return x
    if isinstance(x,(int,float)):
        if x!=x: return 'NaN'
        return float(x) if abs(x)<2**53 else repr(x)
    if isinstance(x,(list,tuple)): return [_norm(i) for i in x]
    if isinstance(x,dict): return {k:_norm(v) for k,v in x.items()}
    return repr(x)
def canon(d): return json.dumps(_norm(d), sort_keys=True, default=repr)
def new_engine():
    e = engine.Engine(); e.load_empty(); return e
TYPES=['Text','Int','Numeric','Bool','Date','Choice','ChoiceList','Any']
def rand_val(r):
    return r.choice([None, 0, 1, 2, 3, -1, 1.5, 'a', 'b', '', True, False, ['L','a','b'], 'x1'])
def user_tables(e):
    return [t for t in e.tables if not t.startswith('_grist_')]
def cols_of(e, t, data_only=False):
    out=[]
    for c in e.schema[t].columns.values():
        if c.colId in ('manualSort',) or c.colId.startswith('gristHelper'): continue
        if data_only and c.isFormula and c.formula: continue
        out.append(c.colId)
    return out
def rand_formula(r, e, t):
    cs = cols_of(e,t,True) or ['id']
    c1=r.choice(cs); c2=r.choice(cs)
    tabs=user_tables(e); t2=r.choice(tabs); cs2=cols_of(e,t2,True) or ['id']
    k=r.choice(cs2)
    return r.choice([
      '$%s'%c1, '($%s or 0)'%c1, 'str($%s) + str($%s)'%(c1,c2), 'len(%s.lookupRecords(%s=$%s))'%(t2,k,c1),
      '%s.lookupOne(%s=$%s).id'%(t2,k,c1), 'rec.id * 2', 'len(%s.all)'%t2, '$%s.id if hasattr($%s,"id") else 0'%(c1,c1),
      'sum(r.id for r in %s.lookupRecords(%s=$%s, order_by="-id"))'%(t2,k,c1), 'NoSuch', '1/0', '$id'])
def rand_action(r, e):
    tabs=user_tables(e)
    kind = r.choice(['addrec']*5+['updrec']*5+['rmrec']*2+['addcol']*3+['rmcol']*2+['rencol']*2+['modcol']*3+['addtable','rmtable','rentable','addref','summary','tempids'])
    if not tabs or kind=='addtable':
        n=r.choice(['T','Foo','Bar baz','t1'])
        return ['AddTable', n, [{'id':r.choice(['A','B','name']), 'type':r.choice(TYPES), 'isFormula':False},{'id':'F','type':'Any','isFormula':True,'formula':'$id+1'}]]
    t=r.choice(tabs); rows=list(e.tables[t].row_ids)
    dcols=cols_of(e,t,True); cs=cols_of(e,t)
    if kind=='addrec':
        n=r.randint(1,3); cols=r.sample(dcols, min(len(dcols), r.randint(0,2)))
        return ['BulkAddRecord', t, [None]*n, {c:[rand_val(r) for _ in range(n)] for c in cols}]
    if kind=='tempids':
        return ['BulkAddRecord', t, [-1,-2], {}]
    if kind=='updrec' and rows and dcols:
        rs=r.sample(rows, min(len(rows), r.randint(1,3))); cols=r.sample(dcols, min(len(dcols), r.randint(1,2)))
        return ['BulkUpdateRecord', t, rs, {c:[rand_val(r) for _ in rs] for c in cols}]
    if kind=='rmrec' and rows:
        return ['BulkRemoveRecord', t, r.sample(rows, min(len(rows), r.randint(1,2)))]
    if kind=='addcol':
        isf=r.random()<0.5
        return ['AddColumn', t, r.choice(['X','Y','Z','A','new col']), {'type': 'Any' if isf else r.choice(TYPES), 'isFormula':isf, 'formula': rand_formula(r,e,t) if isf else ''}]
    if kind=='rmcol' and cs: return ['RemoveColumn', t, r.choice(cs)]
    if kind=='rencol' and cs: return ['RenameColumn', t, r.choice(cs), r.choice(['X','Y','Q','A','ren 1'])]
    if kind=='modcol' and cs:
        c=r.choice(cs)
        return ['ModifyColumn', t, c, r.choice([{'type':r.choice(TYPES)}, {'formula':rand_formula(r,e,t)}, {'isFormula':r.choice([True,False])}, {'isFormula':True,'formula':rand_formula(r,e,t)}])]
    if kind=='rmtable': return ['RemoveTable', t]
    if kind=='rentable': return ['RenameTable', t, r.choice(['T','Foo','R2','Bar'])]
    if kind=='addref':
        return ['AddColumn', t, 'ref', {'type': r.choice(['Ref:','RefList:'])+r.choice(tabs), 'isFormula':False}]
    if kind=='summary' and dcols:
        tref = e.docmodel.get_table_rec(t).id
        if e.docmodel.get_table_rec(t).summarySourceTable: return ['Calculate']
        c = e.docmodel.get_column_rec(t, r.choice(dcols)).id
        return ['CreateViewSection', tref, 0, 'record', [c], None]
    return ['Calculate']
def run(seed, nb=12, verbose=False):
    r=random.Random(seed); e=new_engine()
    tds=table_data_set.TableDataSet()
    out=e.apply_user_actions([ua(['InitNewDoc'])]); tds.apply_doc_actions(out.stored)
    hist=[]; issues=[]
    for b in range(nb):
        bundle=[rand_action(r,e) for _ in range(r.randint(1,3))]
        before=dump(e); before_schema=schema.clone_schema(e.schema)
        try:
            out=e.apply_user_actions([ua(copy.deepcopy(a)) for a in bundle])
        except Exception as ex:
            after=dump(e)
            if canon(after)!=canon(before): issues.append(('C04',b,bundle,type(ex).__name__))
            try: e.assert_schema_consistent()
            except Exception as ex2: issues.append(('C08-after-fail',b,bundle,str(ex2)[:80]))
            o2=e.apply_user_actions([ua(['Calculate'])])
            if o2.stored:
                issues.append(('C04-calc',b,bundle,[actions.get_action_repr(a) for a in o2.stored][:2]))
                tds.apply_doc_actions(o2.stored)
            continue
        hist.append(bundle)
        after=dump(e)
        # C02
        try:
            tds.apply_doc_actions([actions.action_from_repr(actions.get_action_repr(a)) for a in out.stored])
            for t in after:
                td=tds.all_tables.get(t)
                if td is None: issues.append(('C02-missing',b,bundle,t)); continue
                A=after[t]; 
                ecols={k:v for k,v in A[3].items()}
                tcols={k: [objtypes.encode_object(x) for x in v] for k,v in td.columns.items() if k in ecols}
                order={rid:i for i,rid in enumerate(td.row_ids)}
                if sorted(td.row_ids)!=list(A[2]): issues.append(('C02-rows',b,bundle,t)); continue
                for k in ecols:
                    if k not in tcols: issues.append(('C02-col',b,bundle,(t,k))); continue
                    tv=[tcols[k][order[rid]] for rid in A[2]]
                    if canon(tv)!=canon(ecols[k]): issues.append(('C02-val',b,bundle,(t,k,tv[:4],ecols[k][:4]))); break
            for t in tds.all_tables:
                if t not in after: issues.append(('C02-extra',b,bundle,t))
        except Exception as ex:
            issues.append(('C02-exc',b,bundle,repr(ex)[:100]))
        if any(i[0].startswith('C02') for i in issues): return hist,issues
        # C08
        try: e.assert_schema_consistent()
        except Exception as ex2: issues.append(('C08',b,bundle,str(ex2)[:80]))
        # C01/C03: undo then redo on same engine
        undo=[actions.get_action_repr(a) for a in out.undo]; stored=[actions.get_action_repr(a) for a in out.stored]
        try:
            o=e.apply_user_actions([ua(['ApplyUndoActions', undo])])
            u=dump(e)
            if canon(u)!=canon(before):
                diff=[t for t in set(u)|set(before) if canon(u.get(t))!=canon(before.get(t))]
                issues.append(('C01',b,bundle,diff))
            try:
                o=e.apply_user_actions([ua(['ApplyDocActions', stored])])
                rd=dump(e)
                if canon(rd)!=canon(after):
                    diff=[t for t in set(rd)|set(after) if canon(rd.get(t))!=canon(after.get(t))]
                    issues.append(('C03',b,bundle,diff))
                    return hist,issues
            except Exception as ex:
                issues.append(('C03-exc',b,bundle,repr(ex)[:100])); return hist,issues
        except Exception as ex:
            issues.append(('C01-exc',b,bundle,repr(ex)[:100])); return hist,issues
        # C05: fresh engine
        try:
            f=new_engine()
            mt=e.fetch_table('_grist_Tables'); mc=e.fetch_table('_grist_Tables_column')
            f.load_meta_tables(mt,mc)
            for t in e.tables:
                if t in ('_grist_Tables','_grist_Tables_column'): continue
                f.load_table(e.fetch_table(t, formulas=False))
            f.apply_user_actions([ua(['Calculate'])])
            fd=dump(f)
            if canon(fd)!=canon(after):
                diff=[t for t in set(fd)|set(after) if canon(fd.get(t))!=canon(after.get(t))]
                issues.append(('C05',b,bundle,diff))
        except Exception as ex:
            issues.append(('C05-exc',b,bundle,repr(ex)[:100]))
    return hist,issues
if __name__=='__main__':
    import collections
    cnt=collections.Counter(); ex={}
    N=int(sys.argv[1]) if len(sys.argv)>1 else 50
    for seed in range(N):
        try:
            h,iss=run(seed)
        except Exception as exn:
            cnt['HARNESS']+=1; ex.setdefault('HARNESS',(seed,traceback.format_exc()[-400:])); continue
        for i in iss:
            cnt[i[0]]+=1; ex.setdefault(i[0],(seed,)+i[1:])
    print(cnt)
    for k,v in ex.items(): print(k, json.dumps(v, default=repr)[:600])
