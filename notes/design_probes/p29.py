import sys, os; sys.argv=['x']
exec(open('/tmp/probe/hist.py').read().split("if __name__=='__main__':")[0])
import formula_prompt
def snapshot(e): return canon(dump(e))
issues=[]
def ro_calls(e, r):
    tabs=user_tables(e)
    for t in tabs:
        e.fetch_table(t); e.fetch_table(t, formulas=False, query={'id':[1,2]})
    e.fetch_meta_tables()
    for t in tabs:
        tbl=e.tables[t]; rows=list(tbl.row_ids)
        for c in list(e.schema[t].columns.values()):
            if not rows: break
            rid=r.choice(rows)
            try: e.get_formula_error(t,c.colId,rid)
            except Exception as ex: pass
            if c.formula:
                try: formula_prompt.evaluate_formula(e,t,c.colId,rid)
                except Exception as ex: pass
                try: formula_prompt.get_formula_prompt(e,t,c.colId)
                except Exception as ex: pass
            for txt in ['$', 'rec.', '$'+c.colId+'.', t+'.lookupRecords(', 'user.', 'MA']:
                try: e.autocomplete(txt,t,c.colId,rid,{'Name':'x','Email':'e','Access':'owners','UserID':1,'UserRef':'1','LinkKey':{},'Origin':None,'SessionID':'s','IsLoggedIn':True,'ShareRef':None})
                except Exception as ex: pass
        try: e.find_col_from_values(['a','b',1], 0, None); e.find_col_from_values([1,2], 2, t)
        except Exception as ex: issues.append(('find_col exc',repr(ex)[:80]))
bad=0; n=0
for seed in range(60):
    r=random.Random(seed); e=new_engine(); e.apply_user_actions([ua(['InitNewDoc'])])
    for b in range(10):
        bundle=[rand_action(r,e) for _ in range(r.randint(1,3))]
        try: out=e.apply_user_actions([ua(copy.deepcopy(a)) for a in bundle])
        except Exception: 
            pass   # leave possibly-dirty state on purpose
        else:
            # C31 check: parallel flags, calc-only actions non-direct
            if len(out.stored)!=len(out.direct): issues.append(('C31 len',seed,b))
        before=snapshot(e)
        ro_calls(e,r); n+=1
        after=snapshot(e)
        if after!=before:
            bad+=1
            if bad<5: 
                A=json.loads(after); B=json.loads(before)
                print('C29 CHANGED seed',seed,'b',b,bundle,[t for t in A if A[t]!=B.get(t)])
        try:
            out=e.apply_user_actions([ua(['Calculate'])])
            if out.stored:
                bad+=1
                if bad<8: print('C29 CALC EMITS seed',seed,'b',b,bundle,[actions.get_action_repr(a) for a in out.stored][:2])
        except Exception as ex:
            bad+=1
            print('C29 CALC RAISES seed',seed,'b',b,repr(ex)[:120]); break
print('C29 rounds',n,'bad',bad, issues[:5])
