import sys; sys.argv=['x']
exec(open('hist.py').read().split("if __name__=='__main__':")[0])
seen=[]
for seed in range(200,700):
    try: h,iss=run(seed)
    except Exception as ex: print('HARNESS',seed,repr(ex)[:100]); continue
    for i in iss:
        if i[0] in ('C01','C03','C05','C01-exc','C03-exc','C05-exc','C08','C08-after-fail','C02-val','C02-rows','C02-exc','C02-col','C02-missing','C02-extra'):
            print(seed, json.dumps(i, default=repr)[:330])
