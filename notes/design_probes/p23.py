import sys, logging, random, json
sys.path.insert(0,'/tmp/ftstub'); sys.path.insert(0,'/repo/sandbox/grist')
logging.disable(logging.CRITICAL)
import engine, useractions, actions, objtypes, usertypes, gencode
def ua(*a): return useractions.from_repr(list(a))
rnd=random.Random(29)
TYPES=['Text','Int','Numeric','Bool','Date','DateTime:UTC','Choice','ChoiceList','Any','Ref:O','RefList:O','Attachments']
VALS=[None,0,1,2,-1,1.5,2.0,'a','','1','2.5','true','2020-01-02',True,False,['L','a','b'],['L',1,2],['L'],'[1,2]','["x"]',1e12, 86400]
def enc(v): return json.dumps(objtypes.encode_object(v),sort_keys=True)
bad=0;n=0;exc=0
for it in range(400):
    t0=rnd.choice(TYPES); t1=rnd.choice(TYPES)
    e = engine.Engine(); e.load_empty(); e.apply_user_actions([ua('InitNewDoc')])
    e.apply_user_actions([ua('AddTable','O',[{'id':'n','type':'Text','isFormula':False}])]); e.apply_user_actions([ua('BulkAddRecord','O',[None]*3,{'n':['a','b','c']})])
    e.apply_user_actions([ua('AddTable','T',[{'id':'X','type':t0,'isFormula':False},{'id':'Y','type':'Text','isFormula':False},{'id':'F','type':'Any','isFormula':True,'formula':'repr($X)'},{'id':'G','type':'Any','isFormula':True,'formula':'$Y'}])])
    k=rnd.randint(1,6)
    VV=[v for v in VALS if not (t0.startswith(('Ref','Att')) and v==-1)]
    e.apply_user_actions([ua('BulkAddRecord','T',[None]*k,{'X':[rnd.choice(VV) for _ in range(k)],'Y':[rnd.choice(['p','q']) for _ in range(k)]})])
    before={t:e.fetch_table(t) for t in e.tables}
    old=[e.tables['T'].get_column('X').raw_get(r) for r in e.tables['T'].row_ids]
    try:
        out=e.apply_user_actions([ua('ModifyColumn','T','X',{'type':t1})])
    except Exception as ex:
        exc+=1; print('EXC',t0,t1,repr(ex)[:100]); continue
    n+=1
    col=e.tables['T'].get_column('X')
    new=[col.raw_get(r) for r in e.tables['T'].row_ids]
    # expected via fresh type object of new type
    tyobj=eval(gencode.get_grist_type(t1).replace('grist.','usertypes.'))
    for o,nv in zip(old,new):
        ex_=tyobj.convert(o)
        # column-level normalisation on set
        if enc(ex_)!=enc(nv):
            bad+=1
            if bad<10: print('MISMATCH',t0,'->',t1,repr(o),'got',repr(nv),'exp',repr(ex_))
            break
    after={t:e.fetch_table(t) for t in e.tables}
    for t in after:
        for c in after[t].columns:
            if (t,c) in (('T','X'),('T','F')) or t=='_grist_Tables_column' or t=='_grist_Views_section_field': continue
            if [enc(v) for v in after[t].columns[c]]!=[enc(v) for v in before[t].columns.get(c,[])]:
                bad+=1; print('FRAME',t0,t1,t,c); break
print('C23 cases',n,'bad',bad,'exc',exc)
