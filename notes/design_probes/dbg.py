import sys; sys.argv=['x']
exec(open('hist.py').read().split("if __name__=='__main__':")[0])
import difflib
def replay(seed, upto):
    r=random.Random(seed); e=new_engine()
    e.apply_user_actions([ua(['InitNewDoc'])])
    for b in range(upto+1):
        bundle=[rand_action(r,e) for _ in range(r.randint(1,3))]
        if b==upto: return e,bundle
        try: 
            out=e.apply_user_actions([ua(copy.deepcopy(a)) for a in bundle])
            # mimic hist: undo+redo
            before=None
            undo=[actions.get_action_repr(a) for a in out.undo]; stored=[actions.get_action_repr(a) for a in out.stored]
            e.apply_user_actions([ua(['ApplyUndoActions', undo])]); e.apply_user_actions([ua(['ApplyDocActions', stored])])
        except Exception as ex:
            e.apply_user_actions([ua(['Calculate'])])
seed=int(sys.argv[1]) if len(sys.argv)>1 else 127
import os
seed=int(os.environ.get('SEED',127)); upto=int(os.environ.get('UPTO',5))
e,bundle=replay(seed,upto)
print('bundle',bundle)
t=bundle[0][1]
print('schema', [(c.colId,c.type,c.isFormula,c.formula) for c in e.schema[t].columns.values()])
before=dump(e); print('before',before[t])
out=e.apply_user_actions([ua(copy.deepcopy(a)) for a in bundle])
print('stored',[actions.get_action_repr(a) for a in out.stored])
print('undo',[actions.get_action_repr(a) for a in out.undo])
after=dump(e); print('after',after[t])
e.apply_user_actions([ua(['ApplyUndoActions',[actions.get_action_repr(a) for a in out.undo]])])
u=dump(e); print('undone',u[t])
