import sys, os; sys.argv=['x']
exec(open('hist.py').read().split("if __name__=='__main__':")[0])
seed=int(os.environ.get('SEED',624)); upto=int(os.environ.get('UPTO',5))
r=random.Random(seed); e=new_engine(); e.apply_user_actions([ua(['InitNewDoc'])])
for b in range(upto+1):
    bundle=[rand_action(r,e) for _ in range(r.randint(1,3))]
    before=dump(e)
    try: out=e.apply_user_actions([ua(copy.deepcopy(a)) for a in bundle])
    except Exception as ex:
        e.apply_user_actions([ua(['Calculate'])]); continue
    after=dump(e)
    undo=[actions.get_action_repr(a) for a in out.undo]; stored=[actions.get_action_repr(a) for a in out.stored]
    if b==upto:
        print('bundle',bundle); 
        for t in user_tables(e): print('schema',t,[(c.colId,c.type,c.isFormula,c.formula) for c in e.schema[t].columns.values()])
        print('stored',json.dumps(stored)[:1500]); print('undo',json.dumps(undo)[:1500])
    o1=e.apply_user_actions([ua(['ApplyUndoActions', undo])])
    u=dump(e)
    o2=e.apply_user_actions([ua(['ApplyDocActions', stored])])
    rd=dump(e)
    if b==upto:
        for t in set(rd)|set(after):
            if canon(rd.get(t))!=canon(after.get(t)): print('REDO DIFF',t,'\n after',json.dumps(after.get(t))[:600],'\n redo ',json.dumps(rd.get(t))[:600])
        for t in set(u)|set(before):
            if canon(u.get(t))!=canon(before.get(t)): print('UNDO DIFF',t,'\n before',json.dumps(before.get(t))[:600],'\n undone',json.dumps(u.get(t))[:600])
        print('redo-out stored', json.dumps([actions.get_action_repr(a) for a in o2.stored])[:800])
