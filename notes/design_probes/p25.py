import sys, logging, random, json, copy
sys.path.insert(0,'/tmp/ftstub'); sys.path.insert(0,'/repo/sandbox/grist')
logging.disable(logging.CRITICAL)
import actions, schema, table_data_set, migrations, test_migrations, usertypes
rnd=random.Random(41)
TEXTS=['', 'x', '{}', '[]', '{"a":1}', 'null', '[1,2]', '{"visibleCol": 3}', '{"visibleCol": "x"}', 'not json', '{"filter": 1}', '[[', '{"included":["a"]}', '5', '"s"', '{"text":"x"}', '{"userName":"u","text":"t","timeCreated":1,"timeUpdated":2,"resolved":true}', '{"timeCreated":"x"}', '{"resolved":5}', '-Table1', 'Ref:Foo','RefList:','DateTime:Zone']
def rand_for(col_type, table_rows, tdset):
    t=usertypes.get_pure_type(col_type)
    if t in ('Text','Choice','Any'): return rnd.choice(TEXTS)
    if t in ('Int',): return rnd.choice([0,1,2,-1,None])
    if t in ('Numeric','PositionNumber','DateTime','Date','ManualSortPos'): return rnd.choice([0.0,1.0,2.5,None]) if t!='PositionNumber' else rnd.choice([1.0,2.0,3.5])
    if t=='Bool': return rnd.choice([True,False])
    if t=='Ref':
        tgt=col_type.split(':',1)[1]; rows=tdset.all_tables.get(tgt); ids=list(rows.row_ids) if rows else []
        return rnd.choice(ids+[0]) if ids else 0
    if t=='RefList':
        tgt=col_type.split(':',1)[1]; rows=tdset.all_tables.get(tgt); ids=list(rows.row_ids) if rows else []
        return rnd.sample(ids, min(len(ids), rnd.randint(0,2))) or None
    if t=='ChoiceList': return rnd.choice([None, ('a',), ('add','update')])
    return None
def build_at(version):
    tdset=table_data_set.TableDataSet()
    tdset.apply_doc_actions(test_migrations.schema_version0())
    for v in range(1, version+1):
        m=migrations.all_migrations.get(v, migrations.noop_migration)
        tdset.apply_doc_actions(m(tdset) or []) if False else m(tdset)   # migrations apply to tdset themselves
    return tdset
bad=0; n=0; fails={}
cur={a.table_id:{c['id']:c for c in a.columns} for a in schema.schema_create_actions()}
for it in range(400):
    v=rnd.randint(0, schema.SCHEMA_VERSION)
    try: tdset=build_at(v)
    except Exception as ex: print('BUILD FAIL',v,repr(ex)[:100]); continue
    # populate: DocInfo first
    if '_grist_DocInfo' in tdset.all_tables and not tdset.all_tables['_grist_DocInfo'].row_ids:
        tdset.apply_doc_action(actions.AddRecord('_grist_DocInfo',1,{'schemaVersion':v} if 'schemaVersion' in tdset.all_tables['_grist_DocInfo'].columns else {}))
    else:
        if 'schemaVersion' in tdset.all_tables['_grist_DocInfo'].columns: tdset.apply_doc_action(actions.UpdateRecord('_grist_DocInfo',1,{'schemaVersion':v}))
    for rnd_pass in range(2):
        for t in sorted(tdset.all_tables):
            if t=='_grist_DocInfo': continue
            k=rnd.randint(0,3); base=max(list(tdset.all_tables[t].row_ids)+[0])
            ids=[base+i+1 for i in range(k)]
            sch=tdset.get_schema()[t]
            vals={c:[rand_for(sch[c].get('type','Text'), None, tdset) for _ in ids] for c in tdset.all_tables[t].columns}
            if ids: tdset.apply_doc_action(actions.BulkAddRecord(t, ids, vals))
    # user tables listed in _grist_Tables with random tableId text won't exist as tables; keep tableId sane
    T=tdset.all_tables['_grist_Tables']
    for i in range(len(T.row_ids)): T.columns['tableId'][i]='Table%d'%(i+1)
    C=tdset.all_tables['_grist_Tables_column']
    for i in range(len(C.row_ids)):
        C.columns['colId'][i]='c%d'%i; C.columns['type'][i]=rnd.choice(['Text','Int','Ref:Table1','Any','Numeric'])
        if 'parentId' in C.columns and T.row_ids: C.columns['parentId'][i]=rnd.choice(list(T.row_ids))
    if T.row_ids and C.row_ids:
        used=set(C.columns['parentId'])
    all_tables=copy.deepcopy(tdset.all_tables)
    n+=1
    try:
        acts=migrations.create_migrations(all_tables)
        t2=table_data_set.TableDataSet()
        # rebuild a tds with the same state to apply actions on
        tdset.apply_doc_actions(acts)
        sch=tdset.get_schema()
        diffs=[(t,c) for t in cur for c in cur[t] if sch.get(t,{}).get(c,{}).get('type')!=cur[t][c]['type']]
        sv=tdset.all_tables['_grist_DocInfo'].columns['schemaVersion'][0]
        if diffs or sv!=schema.SCHEMA_VERSION:
            bad+=1
            if bad<6: print('SCHEMA DIFF from v',v,diffs[:4],sv)
    except Exception as ex:
        bad+=1; key=(type(ex).__name__, str(ex)[:60]); fails.setdefault(key,[]).append(v)
print('C25 docs',n,'bad',bad)
for k,vs in fails.items(): print(k, sorted(set(vs))[:12], len(vs))
