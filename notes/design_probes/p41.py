import sys, logging, random, json
sys.path.insert(0,'/tmp/ftstub'); sys.path.insert(0,'/repo/sandbox/grist')
logging.disable(logging.CRITICAL)
import engine, useractions, actions, objtypes
def ua(*a): return useractions.from_repr(list(a))
rnd=random.Random(7)
def mk():
    e = engine.Engine(); e.load_empty(); e.apply_user_actions([ua('InitNewDoc')])
    e.apply_user_actions([ua('AddTable','T',[{'id':'A','type':'Any','isFormula':False},{'id':'B','type':'Text','isFormula':False},{'id':'C','type':'ChoiceList','isFormula':False},{'id':'Ch','type':'Choice','isFormula':False},
        {'id':'F','type':'Any','isFormula':True,'formula':'[$A, $B]'}])])
    return e
VALS=[None,0,1,1.0,True,False,'a','b','',['L','a'],['L','a','b'],['L'],2,'1']
# ---------- C41
bad=0; n=0
for it in range(300):
    e=mk(); k=rnd.randint(0,8)
    e.apply_user_actions([ua('BulkAddRecord','T',[None]*k,{'A':[rnd.choice(VALS) for _ in range(k)],'B':[rnd.choice(['a','b','',None,'1']) for _ in range(k)],'C':[rnd.choice([None,['L','a'],['L','a','b']]) for _ in range(k)]})])
    if k>2: e.apply_user_actions([ua('RemoveRecord','T',rnd.randint(1,k))])
    full=e.fetch_table('T')
    for q in range(6):
        query={}
        for c in rnd.sample(['A','B','C','F','id'], rnd.randint(1,2)):
            query[c]=[objtypes.decode_object(v) if c!='id' else rnd.randint(0,9) for v in rnd.sample(VALS, rnd.randint(0,3))] if c!='id' else [rnd.randint(0,9) for _ in range(2)]
            if c in ('C',): query[c]=[tuple(x) if isinstance(x,list) else x for x in query[c]]
            if c=='F' and rnd.random()<0.5: query[c]=[[1,'a'],[None,'b']]
        formulas=rnd.choice([True,False]); n+=1
        try:
            got=e.fetch_table('T', formulas=formulas, query=query)
        except Exception as ex:
            bad+=1; print('EXC',query,repr(ex)[:80]); continue
        t=e.tables['T']
        exp=[]
        for r in full.row_ids:
            ok=True
            for c,vals in query.items():
                v=t.get_column(c).raw_get(r)
                if not any((v==x) for x in vals): ok=False
            if ok: exp.append(r)
        expcols=set(c for c in full.columns if formulas or c!='F')
        if list(got.row_ids)!=exp or set(got.columns)!=expcols:
            bad+=1
            if bad<6: print('BAD',query,got.row_ids,exp,set(got.columns)^expcols)
print('C41 queries',n,'bad',bad)
# ---------- C39
bad=0;n=0
for it in range(200):
    e=mk(); k=rnd.randint(1,8)
    choices=['x','y','z','w']
    e.apply_user_actions([ua('BulkAddRecord','T',[None]*k,{'Ch':[rnd.choice(choices+['',None,5]) for _ in range(k)],'C':[rnd.choice([None,['L']+rnd.sample(choices,rnd.randint(1,3)),'alt']) for _ in range(k)]})])
    colref={c.colId:c.id for c in e.docmodel.columns.all if c.tableId=='T'}
    e.apply_user_actions([ua('AddRecord','_grist_Filters',None,{'colRef':colref['Ch'],'filter':json.dumps({'included':['x','y',1,None]})}), ua('AddRecord','_grist_Filters',None,{'colRef':colref['C'],'filter':json.dumps({'excluded':['z','x']})}), ua('AddRecord','_grist_Filters',None,{'colRef':colref['A'],'filter':json.dumps({'included':['x']})})])
    ren=dict(zip(rnd.sample(choices,2), rnd.sample(choices+['new'],2)))
    if rnd.random()<0.3: ren={'x':'y','y':'x'}
    before=e.fetch_table('T'); fb=e.fetch_table('_grist_Filters')
    col=rnd.choice(['Ch','C']); n+=1
    e.apply_user_actions([ua('RenameChoices','T',col,ren)])
    after=e.fetch_table('T'); fa=e.fetch_table('_grist_Filters')
    ok=True
    for c in before.columns:
        for vb,va in zip(before.columns[c],after.columns[c]):
            if c==col:
                if isinstance(vb,str) and col=='Ch': exp=ren.get(vb,vb)
                elif isinstance(vb,(tuple,list)) and col=='C': exp=tuple(ren.get(x,x) for x in vb)
                else: exp=vb
            else: exp=vb
            if (list(exp) if isinstance(exp,tuple) else exp)!=(list(va) if isinstance(va,tuple) else va): ok=False; print('BAD39',c,col,ren,vb,va,exp)
    for cr,fbv,fav in zip(fb.columns['colRef'],fb.columns['filter'],fa.columns['filter']):
        jb=json.loads(fbv); ja=json.loads(fav)
        exp={k:[ren.get(x,x) if isinstance(x,str) else x for x in v] for k,v in jb.items()} if cr==colref[col] else jb
        if ja!=exp: ok=False; print('BAD39 filter',cr,col,ren,jb,ja)
    if not ok: bad+=1
print('C39 cases',n,'bad',bad)
