import sys, logging, random, json, functools
sys.path.insert(0,'/tmp/ftstub'); sys.path.insert(0,'/repo/sandbox/grist')
logging.disable(logging.CRITICAL)
import engine, useractions, actions, objtypes
def ua(*a): return useractions.from_repr(list(a))
rnd=random.Random(11)
SPECS={
 'R1':('K=$q', None, 'id'), 'R2':('K=$q, order_by="N"', ('N',), 'ms'), 'R3':('K=$q, order_by="-N"', ('-N',), 'ms'),
 'R4':('K=$q, order_by=("M","-N")', ('M','-N'), 'ms'), 'R5':('K=$q, sort_by="N"', ('N',), 'id'), 'R6':('K=$q, order_by=None', (), 'ms'),
 'R7':('L=CONTAINS($q)', None, 'id'), 'R8':('L=CONTAINS($q, match_empty="")', None, 'id'), 'R10':('K=$q, order_by=("N","id")', ('N',), 'id'),
}
def mk():
    e = engine.Engine(); e.load_empty(); e.apply_user_actions([ua('InitNewDoc')])
    e.apply_user_actions([ua('AddTable','Data',[{'id':'K','type':'Text','isFormula':False},{'id':'L','type':'ChoiceList','isFormula':False},{'id':'N','type':'Numeric','isFormula':False},{'id':'M','type':'Text','isFormula':False},
      {'id':'P','type':'Any','isFormula':True,'formula':'PREVIOUS(rec, group_by="K", order_by="N").id'},
      {'id':'NX','type':'Any','isFormula':True,'formula':'NEXT(rec, group_by="K", order_by=("M","-N")).id'},
      {'id':'RK','type':'Any','isFormula':True,'formula':'RANK(rec, group_by="K", order_by="N")'},
      {'id':'RKd','type':'Any','isFormula':True,'formula':'RANK(rec, order_by="-N", order="desc")'}])])
    cols=[{'id':'q','type':'Text','isFormula':False},{'id':'x','type':'Numeric','isFormula':False}]
    for name,(args,_,_) in SPECS.items():
        cols.append({'id':name,'type':'Any','isFormula':True,'formula':'[r.id for r in Data.lookupRecords(%s)]'%args})
    cols.append({'id':'R9','type':'Any','isFormula':True,'formula':'Data.lookupOne(K=$q, order_by="-N").id'})
    for op in ('lt','le','gt','ge','eq'):
        cols.append({'id':'F'+op,'type':'Any','isFormula':True,'formula':'Data.lookupRecords(K=$q, order_by="N").find.%s($x).id'%op})
    e.apply_user_actions([ua('AddTable','Q',cols)])
    return e
KS=['a','b','c','']; NS=[0.0,1.0,1.0,2.0,2.5,-1.0,3.0]; MS=['x','y','x','']
def sorted_rows(rows, spec, fallback):
    def cmp(r1,r2):
        for s in spec:
            c=s.lstrip('-'); sign=-1 if s.startswith('-') else 1
            a,b=r1[c],r2[c]
            if a<b: return -sign
            if b<a: return sign
        if fallback=='ms':
            if r1['manualSort']!=r2['manualSort']: return -1 if r1['manualSort']<r2['manualSort'] else 1
        return -1 if r1['id']<r2['id'] else (1 if r1['id']>r2['id'] else 0)
    return sorted(rows, key=functools.cmp_to_key(cmp))
def check(e):
    d=e.fetch_table('Data'); q=e.fetch_table('Q'); issues=[]
    rows=[dict(id=r, **{c:d.columns[c][i] for c in d.columns}) for i,r in enumerate(d.row_ids)]
    for i,qr in enumerate(q.row_ids):
        qv=q.columns['q'][i]; xv=q.columns['x'][i]
        for name,(args,spec,fb) in SPECS.items():
            if name in ('R7','R8'):
                me = name=='R8'
                m=[r for r in rows if (isinstance(r['L'],(list,tuple)) and qv in r['L']) or (me and qv=='' and not r['L'] and not isinstance(r['L'],str))]
                exp=[r['id'] for r in sorted_rows(m, (), 'id')]
            else:
                m=[r for r in rows if r['K']==qv]
                exp=[r['id'] for r in sorted_rows(m, spec or (), fb)]
            got=q.columns[name][i]
            if list(got or [])!=exp: issues.append((name,qv,got,exp))
        m=sorted_rows([r for r in rows if r['K']==qv], ('-N',), 'ms')
        exp9 = m[0]['id'] if m else 0
        if q.columns['R9'][i]!=exp9: issues.append(('R9',qv,q.columns['R9'][i],exp9))
        m=sorted_rows([r for r in rows if r['K']==qv], ('N',), 'ms')
        def idof(l): return l['id'] if l else 0
        lt=[r for r in m if r['N']<xv]; le=[r for r in m if r['N']<=xv]; gt=[r for r in m if r['N']>xv]; ge=[r for r in m if r['N']>=xv]; eq=[r for r in m if r['N']==xv]
        exps={'lt':idof(lt[-1] if lt else None),'le':idof(le[-1] if le else None),'gt':idof(gt[0] if gt else None),'ge':idof(ge[0] if ge else None),'eq':idof(eq[0] if eq else None)}
        for op,ex in exps.items():
            if q.columns['F'+op][i]!=ex: issues.append(('F'+op,qv,xv,q.columns['F'+op][i],ex))
    # prev/next/rank
    for r in rows:
        g=sorted_rows([x for x in rows if x['K']==r['K']], ('N',), 'ms'); idx=[x['id'] for x in g].index(r['id'])
        if r['P']!=(g[idx-1]['id'] if idx>0 else 0): issues.append(('P',r['id'],r['P'],g[idx-1]['id'] if idx>0 else 0))
        if r['RK']!=idx+1: issues.append(('RK',r['id'],r['RK'],idx+1))
        g2=sorted_rows([x for x in rows if x['K']==r['K']], ('M','-N'), 'ms'); i2=[x['id'] for x in g2].index(r['id'])
        if r['NX']!=(g2[i2+1]['id'] if i2+1<len(g2) else 0): issues.append(('NX',r['id'],r['NX']))
        g3=sorted_rows(rows, ('-N',), 'ms'); i3=[x['id'] for x in g3].index(r['id'])
        if r['RKd']!=len(g3)-i3: issues.append(('RKd',r['id'],r['RKd'],len(g3)-i3))
    return issues
tot=0; badruns=0
for it in range(60):
    e=mk()
    e.apply_user_actions([ua('BulkAddRecord','Q',[None]*4,{'q':['a','b','','zz'],'x':[1.0,2.0,0.0,5.0]})])
    for step in range(12):
        d=e.fetch_table('Data'); rows=list(d.row_ids)
        k=rnd.choice(['add','add','upd','upd','rm','q','ms'])
        if k=='add' or not rows:
            n=rnd.randint(1,3)
            act=ua('BulkAddRecord','Data',[None]*n,{'K':[rnd.choice(KS) for _ in range(n)],'N':[rnd.choice(NS) for _ in range(n)],'M':[rnd.choice(MS) for _ in range(n)],'L':[rnd.choice([None,['L','a'],['L','a','b'],['L','c','a','a']]) for _ in range(n)]})
        elif k=='upd':
            rs=rnd.sample(rows,min(len(rows),rnd.randint(1,3))); c=rnd.choice(['K','N','M','L'])
            vals={'K':KS,'N':NS,'M':MS,'L':[None,['L','a'],['L','b','a'],['L','']]}[c]
            act=ua('BulkUpdateRecord','Data',rs,{c:[rnd.choice(vals) for _ in rs]})
        elif k=='rm': act=ua('BulkRemoveRecord','Data',rnd.sample(rows,1))
        elif k=='ms': act=ua('UpdateRecord','Data',rnd.choice(rows),{'manualSort':rnd.choice([0.5,1.5,2.5,100.0])})
        else: act=ua('UpdateRecord','Q',rnd.randint(1,4),{'q':rnd.choice(KS+['zz']),'x':rnd.choice(NS)})
        e.apply_user_actions([act])
        iss=check(e); tot+=1
        if iss:
            badruns+=1
            if badruns<6: print('ISSUE it',it,'step',step,actions.get_action_repr(act) if hasattr(act,'_fields') else act, iss[:3])
            break
print('C13/C14 steps',tot,'bad runs',badruns)
