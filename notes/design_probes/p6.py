import sys, random, keyword, re, string, datetime, math
sys.path.insert(0,'/tmp/ftstub'); sys.path.insert(0,'/repo/sandbox/grist')
import identifiers, textbuilder, usertypes, objtypes, moment
rnd=random.Random(1)
alphabet = list("abcABC_019 -$é́ßİıǅﬁ中Ⅰ.:") + ['class','None','def','True','id','Table','A','a']
def rs():
    return ''.join(rnd.choice(alphabet) for _ in range(rnd.randint(0,5)))
valid_re = re.compile(r'^[A-Za-z][A-Za-z0-9_]*$')
bad=0
for it in range(60000):
    avoid = {rs() for _ in range(rnd.randint(0,6))}
    name = rnd.choice([None, rs(), rs(), rs()+rs()])
    c = identifiers.pick_col_ident(name, avoid=avoid)
    t = identifiers.pick_table_ident(name, avoid=avoid)
    up = {a.upper() for a in avoid}
    for kind,x in (('c',c),('t',t)):
        ok = bool(valid_re.match(x)) and not keyword.iskeyword(x) and x.upper() not in up and x.isidentifier()
        if kind=='t': ok = ok and x[0].isupper()
        if name and valid_re.match(name) and not keyword.iskeyword(name) and name.upper() not in up and (kind=='c' or name[0].isupper()):
            ok = ok and x==name
        if not ok:
            bad+=1
            if bad<10: print('BAD ident',kind,repr(name),avoid,repr(x))
    names=[rnd.choice([None,rs()]) for _ in range(rnd.randint(0,5))]
    out=identifiers.pick_col_ident_list(names, avoid=avoid)
    if len({o.upper() for o in out})!=len(out) or any(o.upper() in up for o in out):
        bad+=1; print('BAD list',names,avoid,out)
print('C21 bad',bad)

# C37 commutation on random nested replacers
def rand_patches(text):
    pos=sorted(rnd.sample(range(len(text)+1), min(len(text)+1, rnd.randint(0,6))))
    ps=[]
    i=0
    while i+1<len(pos)+1 and i<len(pos):
        s=pos[i]; e=pos[i+1] if i+1<len(pos) and rnd.random()<0.7 else s
        if e==s: i+=1
        else: i+=2
        ps.append(textbuilder.make_patch(text,s,e,''.join(rnd.choice('xyz') for _ in range(rnd.randint(0,3)))))
    # remove duplicates of zero-length at same pos (ambiguous order)
    seen=set(); out=[]
    for p in ps:
        if (p.start,p.end) in seen: continue
        seen.add((p.start,p.end)); out.append(p)
    return out
def apply_patch(text,p): 
    assert text[p.start:p.end]==p.old_text
    return text[:p.start]+p.new_text+text[p.end:]
bad=0; n=0; refused=0
for it in range(30000):
    src=''.join(rnd.choice('abcdefgh') for _ in range(rnd.randint(0,12)))
    def build(s):
        b=textbuilder.Text(s,'v'); specs=[]
        for _ in range(rnd.randint(1,3)):
            ps=rand_patches(b.get_text()); specs.append(ps)
            b=textbuilder.Replacer(b,ps)
        return b,specs
    try:
        b,specs=build(src)
    except ValueError:
        continue
    out=b.get_text()
    if not out: continue
    s=rnd.randint(0,len(out)); e=rnd.randint(s,len(out))
    p=textbuilder.make_patch(out,s,e,'Q')
    try:
        res=b.map_back_patch(p)
    except (AssertionError,ValueError):
        refused+=1; continue
    _,_,ip=res
    n+=1
    if src[ip.start:ip.end]!=ip.old_text or ip.old_text!=p.old_text: bad+=1; continue
print('C37 mapped',n,'refused',refused,'bad(old_text mismatch)',bad)
