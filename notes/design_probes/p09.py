import sys, os; sys.argv=['x']
exec(open('/tmp/probe/hist.py').read().split("if __name__=='__main__':")[0])
def tab(e,t):
    d=e.fetch_table(t); return {r:{c:d.columns[c][i] for c in d.columns} for i,r in enumerate(d.row_ids)}
def refs_resolve(e):
    iss=[]
    T=tab(e,'_grist_Tables'); C=tab(e,'_grist_Tables_column'); V=tab(e,'_grist_Views'); S=tab(e,'_grist_Views_section'); F=tab(e,'_grist_Views_section_field')
    P=tab(e,'_grist_Pages'); TB=tab(e,'_grist_TabBar')
    for cid,c in C.items():
        if c['parentId'] not in T: iss.append(('col.parentId',cid,c['parentId']))
        for k in ('displayCol','visibleCol','summarySourceCol','reverseCol'):
            if c[k] and c[k] not in C: iss.append(('col.'+k,cid,c[k]))
        for r in (c['rules'] or []):
            if r not in C: iss.append(('col.rules',cid,r))
        for r in (c['recalcDeps'] or []):
            if r not in C: iss.append(('col.recalcDeps',cid,r))
    for fid,f in F.items():
        if f['parentId'] not in S: iss.append(('field.parentId',fid,f['parentId'])); continue
        if f['colRef'] not in C: iss.append(('field.colRef',fid,f['colRef'])); continue
        sec=S[f['parentId']]
        if C[f['colRef']]['parentId']!=sec['tableRef']: iss.append(('field.colRef wrong table',fid,f['colRef'],sec['tableRef']))
        if f['displayCol'] and f['displayCol'] not in C: iss.append(('field.displayCol',fid))
    for sid,s in S.items():
        if s['tableRef'] not in T: iss.append(('section.tableRef',sid,s['tableRef']))
        if s['parentId'] and s['parentId'] not in V: iss.append(('section.parentId',sid,s['parentId']))
    for tid,t in T.items():
        if t['rawViewSectionRef'] not in S: iss.append(('table.raw',tid,t['rawViewSectionRef']))
        if t['recordCardViewSectionRef'] and t['recordCardViewSectionRef'] not in S: iss.append(('table.card',tid))
        if t['primaryViewId'] and t['primaryViewId'] not in V: iss.append(('table.primaryView',tid))
        if t['summarySourceTable'] and t['summarySourceTable'] not in T: iss.append(('table.summarySource',tid))
    for pid,p in P.items():
        if p['viewRef'] not in V: iss.append(('page.viewRef',pid,p['viewRef']))
    for bid,b in TB.items():
        if b['viewRef'] not in V: iss.append(('tabbar.viewRef',bid,b['viewRef']))
    ids=[t['tableId'] for t in T.values()]
    ut=[t for t in e.tables if not t.startswith('_grist_')]
    if sorted(ids)!=sorted(ut): iss.append(('tables mismatch',sorted(ids),sorted(ut)))
    # helper columns have users
    for cid,c in C.items():
        if c['colId'].startswith('gristHelper_Display'):
            users=[x for x in C.values() if x['displayCol']==cid]+[x for x in F.values() if x['displayCol']==cid]
            if not users: iss.append(('unused display helper',cid,c['colId']))
    return iss
bad=0;n=0; bad16=0
for seed in range(1000,1150):
    r=random.Random(seed); e=new_engine(); e.apply_user_actions([ua(['InitNewDoc'])])
    for b in range(12):
        bundle=[rand_action(r,e) for _ in range(r.randint(1,3))]
        # C16: pure rename bundles -> values unchanged
        only_ren = all(a[0] in ('RenameColumn','RenameTable') for a in bundle)
        before={t:tab(e,t) for t in user_tables(e)} if only_ren else None
        try: out=e.apply_user_actions([ua(copy.deepcopy(a)) for a in bundle])
        except Exception: continue
        n+=1
        iss=refs_resolve(e)
        if iss:
            bad+=1
            if bad<8: print('C09 seed',seed,'b',b,bundle,iss[:3])
            break
        if only_ren:
            after={t:tab(e,t) for t in user_tables(e)}
            bv=sorted(json.dumps(sorted((r_, sorted(map(lambda x: json.dumps(x,default=repr), row.values()))) for r_,row in tb.items()),default=repr) for tb in before.values())
            av=sorted(json.dumps(sorted((r_, sorted(map(lambda x: json.dumps(x,default=repr), row.values()))) for r_,row in tb.items()),default=repr) for tb in after.values())
            if bv!=av:
                bad16+=1
                if bad16<5: print('C16 seed',seed,'b',b,bundle)
print('C09 bundles',n,'bad',bad,'C16 bad',bad16)
