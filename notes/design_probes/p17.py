import sys, logging, random, json, ast
sys.path.insert(0,'/tmp/ftstub'); sys.path.insert(0,'/repo/sandbox/grist')
logging.disable(logging.CRITICAL)
import engine, useractions, actions, predicate_formula
def ua(*a): return useractions.from_repr(list(a))
rnd=random.Random(37)
def rename_tree(t, pred):
    # pred(tree_parent, attr) -> newname or None ; t is parsed tree
    if isinstance(t, list):
        if t and t[0]=='Attr':
            par=rename_tree(t[1],pred); nn=pred(t[1],t[2])
            return ['Attr',par, nn if nn else t[2]]
        return [rename_tree(x,pred) for x in t]
    return t
FORMS=['rec.A == 1','$A == "x" and newRec.B != rec.A','user.Email == rec.A  # $A memo','rec.A in ["A", "rec.A"] or rec.AA','user.Cust.A == rec.B and user.Cust.B','rec.A.A.A','not rec.B or (rec.A + rec.AA) > 2','rec . A == 1','"$A" == rec.A','rec.A ==','user.Other.A == 1','A == 1 and rec.A','f(rec.A, k=rec.B)','rec.A if','newRec.A is None', 'rec.A==$A==1']
bad=0;n=0
for it in range(80):
    e = engine.Engine(); e.load_empty(); e.apply_user_actions([ua('InitNewDoc')])
    e.apply_user_actions([ua('AddTable','T',[{'id':'A','type':'Text','isFormula':False},{'id':'AA','type':'Text','isFormula':False},{'id':'B','type':'Ref:C','isFormula':False}])])
    e.apply_user_actions([ua('AddTable','C',[{'id':'A','type':'Text','isFormula':False},{'id':'B','type':'Text','isFormula':False}])])
    e.apply_user_actions([ua('BulkAddRecord','_grist_ACLResources',[-1,-2,-3],{'tableId':['T','C','*'],'colIds':['A,AA','*','*']})])
    forms=[rnd.choice(FORMS) for _ in range(4)]
    res=[rnd.choice([-1,-2]) for _ in forms]
    e.apply_user_actions([ua('BulkAddRecord','_grist_ACLResources',[None,None],{'tableId':['T','C'],'colIds':['A,B','A']})])
    rids=list(e.tables['_grist_ACLResources'].row_ids)
    tT=[r for r in rids if e.tables['_grist_ACLResources'].get_column('tableId').raw_get(r)=='T'][0]
    tC=[r for r in rids if e.tables['_grist_ACLResources'].get_column('tableId').raw_get(r)=='C'][0]
    e.apply_user_actions([ua('AddRecord','_grist_ACLRules',None,{'resource':rids[-1] if False else tT,'userAttributes':json.dumps({'name':'Cust','tableId':'C','lookupColId':'A','charId':'Email'})})])
    rule_tables=[rnd.choice(['T','C']) for _ in forms]
    e.apply_user_actions([ua('BulkAddRecord','_grist_ACLRules',[None]*len(forms),{'resource':[tT if t=='T' else tC for t in rule_tables],'aclFormula':forms})])
    # dropdown condition on T.B (Ref:C)
    dc=rnd.choice(['choice.A == rec.A','choice.B == $AA and rec.B','choice.A ==','rec.A'])
    colB=e.docmodel.get_column_rec('T','B').id
    e.apply_user_actions([ua('UpdateRecord','_grist_Tables_column',colB,{'widgetOptions':json.dumps({'dropdownCondition':{'text':dc}})})])
    tbl,old=rnd.choice([('T','A'),('C','A'),('T','B'),('C','B'),('T','AA')]); new=rnd.choice(['Z','A2','name'])
    R=e.fetch_table('_grist_ACLRules'); before=list(zip(R.row_ids,R.columns['aclFormula'],R.columns['resource']))
    try: e.apply_user_actions([ua('RenameColumn',tbl,old,new)])
    except Exception as ex: print('EXC',repr(ex)[:100]); bad+=1; continue
    R=e.fetch_table('_grist_ACLRules'); after={r:(f,p) for r,f,p in zip(R.row_ids,R.columns['aclFormula'],R.columns['aclFormulaParsed'])}
    for rid,f,resr in before:
        if not f: continue
        n+=1
        rt = 'T' if resr==tT else 'C'
        nf,parsed=after[rid]
        try: oldtree=predicate_formula.parse_predicate_formula(f)
        except SyntaxError:
            if nf!=f: bad+=1; print('INVALID CHANGED',f,nf)
            continue
        def pred(par,attr):
            if par in (['Name','rec'],['Name','newRec']) and rt==tbl and attr==old: return new
            if isinstance(par,list) and par[:2]==['Attr',['Name','user']] and par[2]=='Cust' and tbl=='C' and attr==old: return new
            return None
        exp=rename_tree(oldtree,pred)
        if exp and exp[0]=='Comment': pass
        got=predicate_formula.parse_predicate_formula(nf)
        if got!=exp or (parsed and json.loads(parsed)!=got):
            bad+=1
            if bad<8: print('C17 ACL',tbl,old,'->',new,'rule on',rt,repr(f),'=>',repr(nf))
    # dropdown
    wo=json.loads(e.docmodel.get_column_rec('T','B' if not (tbl=='T' and old=='B') else new).widgetOptions)
    ndc=wo['dropdownCondition']['text']
    try: ot=predicate_formula.parse_predicate_formula(dc)
    except SyntaxError:
        if ndc!=dc: bad+=1; print('DC INVALID CHANGED')
        continue
    def predd(par,attr):
        if par==['Name','choice'] and tbl=='C' and attr==old: return new
        if par==['Name','rec'] and tbl=='T' and attr==old: return new
        return None
    exp=rename_tree(ot,predd); got=predicate_formula.parse_predicate_formula(ndc); n+=1
    if got!=exp or wo['dropdownCondition'].get('parsed') and json.loads(wo['dropdownCondition']['parsed'])!=got:
        bad+=1
        if bad<8: print('C17 DC',tbl,old,new,repr(dc),'=>',repr(ndc),wo['dropdownCondition'].get('parsed'))
print('C17 formulas',n,'bad',bad)
