import sys, datetime, random
sys.path.insert(0,'/tmp/ftstub'); sys.path.insert(0,'/repo/sandbox/grist')
import moment
# C34: round trip at boundaries for all zones
bad=0; n=0; badzones=set(); first=[]
lo = -62135596800+86400*400   # ~ year 2
hi = 253402300799-86400*400
for name in moment.get_tz_data():
    z = moment.get_zone(name)
    pts=set()
    for u in z.untils:
        s=u/1000.0
        for d in (-7200,-3601,-3600,-1800,-1,0,1,1800,3599,3600,3601,7200, -86400, 86400):
            pts.add(int(s)+d)
    for ts in pts:
        if not (lo<ts<hi): continue
        n+=1
        try:
            dt = moment.ts_to_dt(float(ts), z)
            back = moment.dt_to_ts(dt)
        except Exception as e:
            back = repr(e)
        if back != ts:
            bad+=1; badzones.add(name)
            if len(first)<8: first.append((name,ts,back))
print('C34 points',n,'bad',bad,'zones',len(badzones),sorted(badzones)[:10]); print(first)
# offset_untils sorted?
uns=[name for name in moment.get_tz_data() if (lambda z: any(a>=b for a,b in zip(z.offset_untils,z.offset_untils[1:])))(moment.get_zone(name))]
print('zones with unsorted offset_untils:',len(uns),uns[:10])
