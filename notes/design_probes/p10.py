import sys, logging, random, json, copy
sys.path.insert(0,'/tmp/ftstub'); sys.path.insert(0,'/repo/sandbox/grist')
logging.disable(logging.CRITICAL)
import engine, useractions, actions, objtypes
def ua(*a): return useractions.from_repr(list(a))
rnd=random.Random(17)
def dump(e): return json.dumps({t: actions.get_action_repr(e.fetch_table(t)) for t in sorted(e.tables)}, sort_keys=True)
def mk():
    e = engine.Engine(); e.load_empty(); e.apply_user_actions([ua('InitNewDoc')])
    e.apply_user_actions([ua('AddTable','P',[{'id':'name','type':'Text','isFormula':False}])])
    e.apply_user_actions([ua('AddTable','C',[{'id':'r','type':'Ref:P','isFormula':False},{'id':'rl','type':'RefList:P','isFormula':False},{'id':'self','type':'Ref:C','isFormula':False},{'id':'any','type':'Any','isFormula':False},
       {'id':'f','type':'RefList:P','isFormula':True,'formula':'P.lookupRecords(name="a")'}])])
    return e
def refs_ok(e):
    issues=[]
    for t in e.tables:
        if t.startswith('_grist_'): pass
        tbl=e.tables[t]
        for cid,c in tbl.all_columns.items():
            ty=getattr(c.type_obj,'table_id',None)
            if ty is None or c.is_formula() or cid.startswith('#'): continue
            tgt=e.tables.get(ty)
            if not tgt: continue
            for r in tbl.row_ids:
                v=c.raw_get(r)
                ids = [v] if isinstance(v,int) and not isinstance(v,bool) else (list(v) if isinstance(v,(list,tuple)) else [])
                for i in ids:
                    if i and i not in tgt.row_ids: issues.append((t,cid,r,v))
                if isinstance(v,list) and len(v)==0: issues.append((t,cid,r,'EMPTYLIST'))
    return issues
# C10
bad=0;n=0
for it in range(150):
    e=mk()
    np_=rnd.randint(1,6); e.apply_user_actions([ua('BulkAddRecord','P',[None]*np_,{'name':[rnd.choice('ab') for _ in range(np_)]})])
    nc=rnd.randint(1,6)
    def rl(): 
        k=rnd.randint(0,3); return (['L']+[rnd.randint(1,np_) for _ in range(k)]) if k else None
    e.apply_user_actions([ua('BulkAddRecord','C',[None]*nc,{'r':[rnd.randint(0,np_) for _ in range(nc)],'rl':[rl() for _ in range(nc)],'self':[rnd.randint(0,nc) for _ in range(nc)]})])
    for step in range(6):
        k=rnd.choice(['rmP','rmC','upd','rmtable','auto'])
        before_rl={r:v for r,v in zip(e.fetch_table('C').row_ids, e.fetch_table('C').columns['rl'])} if 'C' in e.tables else {}
        try:
            if k=='rmP' and 'P' in e.tables and list(e.tables['P'].row_ids):
                rows=rnd.sample(list(e.tables['P'].row_ids), rnd.randint(1,min(2,len(list(e.tables['P'].row_ids)))))
                e.apply_user_actions([ua('BulkRemoveRecord','P',rows)])
                if 'C' in e.tables:
                    after={r:v for r,v in zip(e.fetch_table('C').row_ids, e.fetch_table('C').columns['rl'])}
                    for r,v in before_rl.items():
                        if isinstance(v,list):
                            exp=[x for x in v if x not in rows] or None
                            if after.get(r)!=exp: bad+=1; print('RL ORDER',v,rows,after.get(r),exp)
            elif k=='rmC' and 'C' in e.tables and list(e.tables['C'].row_ids):
                e.apply_user_actions([ua('BulkRemoveRecord','C',rnd.sample(list(e.tables['C'].row_ids),1))])
            elif k=='upd' and 'C' in e.tables and list(e.tables['C'].row_ids) and 'P' in e.tables:
                r=rnd.choice(list(e.tables['C'].row_ids)); e.apply_user_actions([ua('UpdateRecord','C',r,{'r':rnd.randint(0,np_),'rl':rl()})])
            elif k=='rmtable' and rnd.random()<0.2 and 'P' in e.tables:
                e.apply_user_actions([ua('RemoveTable','P')])
        except Exception as ex:
            print('EXC',k,repr(ex)[:100]); bad+=1
        n+=1
        iss=refs_ok(e)
        if iss: bad+=1; print('DANGLING',k,iss[:3])
print('C10 steps',n,'bad',bad)
# C26
bad=0;n=0
for it in range(300):
    e=mk(); e.apply_user_actions([ua('BulkAddRecord','P',[None]*2,{'name':['a','b']})])
    before=dump(e)
    k=rnd.randint(1,3); temps=[-(i+1) for i in range(k)]
    acts=[['BulkAddRecord','P',temps,{'name':['n%d'%i for i in range(k)]}]]
    refv=rnd.choice(temps+[-9, 1, 0]); rlv=['L']+rnd.sample(temps+[1,2,-9], rnd.randint(1,3))
    acts.append(['AddRecord','C',-1,{'r':refv,'rl':rlv,'self':-1}])
    if rnd.random()<0.5: acts.append(['UpdateRecord','P',rnd.choice(temps+[-9]),{'name':'upd'}])
    if rnd.random()<0.3: acts.append(['RemoveRecord','P',rnd.choice(temps)])
    n+=1
    unresolved = (refv==-9) or (-9 in rlv) or any(a[0]=='UpdateRecord' and a[2]==-9 for a in acts)
    try:
        out=e.apply_user_actions([ua(*a) for a in acts])
    except Exception as ex:
        if not unresolved: bad+=1; print('UNEXPECTED REJECT',acts,repr(ex)[:80])
        elif dump(e)!=before: bad+=1; print('TRACE LEFT',acts)
        continue
    if unresolved: bad+=1; print('NOT REJECTED',acts,out.retValues); continue
    ids=out.retValues[0]; m=dict(zip(temps,ids))
    P=e.fetch_table('P'); C=e.fetch_table('C')
    removed=[m[a[2]] for a in acts if a[0]=='RemoveRecord']
    cr=C.columns['r'][-1]; crl=C.columns['rl'][-1]; cself=C.columns['self'][-1]
    exp_r = m.get(refv,refv); exp_rl=[m.get(x,x) for x in rlv[1:]]
    if removed: exp_r = 0 if exp_r in removed else exp_r; exp_rl=[x for x in exp_rl if x not in removed] or None
    if cr!=exp_r or (crl or None)!=(exp_rl or None) or cself!=out.retValues[1]:
        bad+=1; print('MISMATCH',acts,ids,cr,crl,cself,exp_r,exp_rl)
print('C26 cases',n,'bad',bad)
