import sys, os; sys.argv=['x']
exec(open('/tmp/probe/hist.py').read().split("if __name__=='__main__':")[0])
def vals(e):
    out=[]
    for t in user_tables(e):
        d=e.fetch_table(t)
        out.append(sorted(json.dumps([d.columns[c][i] for i in range(len(d.row_ids))],default=repr) for c in d.columns))
    return sorted(map(json.dumps,out))
bad=0;n=0
NAMES=['X','Y','Q','A','ren 1','class','1abc','_x','é t','id','B','F','T','Foo','group','count']
for seed in range(3000,3200):
    r=random.Random(seed); e=new_engine(); e.apply_user_actions([ua(['InitNewDoc'])])
    for b in range(10):
        bundle=[rand_action(r,e) for _ in range(r.randint(1,2))]
        try: e.apply_user_actions([ua(copy.deepcopy(a)) for a in bundle])
        except Exception:
            try: e.apply_user_actions([ua(['Calculate'])])
            except Exception: break
    # now a rename
    for k in range(3):
        tabs=user_tables(e)
        if not tabs: break
        t=r.choice(tabs); cs=cols_of(e,t)
        kind=r.choice(['col','col','table','label'])
        if kind=='col' and cs: act=['RenameColumn',t,r.choice(cs),r.choice(NAMES)]
        elif kind=='table': act=['RenameTable',t,r.choice(NAMES)]
        elif kind=='label' and cs:
            c=e.docmodel.get_column_rec(t,r.choice(cs)); act=['UpdateRecord','_grist_Tables_column',c.id,{'label':r.choice(NAMES)}]
        else: continue
        before=vals(e)
        try: out=e.apply_user_actions([ua(act)])
        except Exception as ex: continue
        n+=1
        after=vals(e)
        if before!=after:
            bad+=1
            if bad<8:
                print('C16 seed',seed,act)
                for t2 in user_tables(e): print('   ',t2,[(c.colId,c.isFormula,c.formula) for c in e.schema[t2].columns.values() if c.formula])
print('C16 renames',n,'bad',bad)
