import sys, logging
sys.path.insert(0,'/tmp/ftstub'); sys.path.insert(0,'/repo/sandbox/grist')
logging.disable(logging.CRITICAL)
import engine, useractions, actions
def ua(*a): return useractions.from_repr(list(a))
e = engine.Engine(); e.load_empty(); e.apply_user_actions([ua('InitNewDoc')])
e.apply_user_actions([ua('AddTable','T',[{'id':'A','type':'Text','isFormula':False}])])
e.apply_user_actions([ua('AddRecord','T',None,{'A':'a'})])
out=e.apply_user_actions([ua('BulkUpdateRecord','T',[1,1],{'A':['q','a']})])
print([actions.get_action_repr(a) for a in out.stored], e.fetch_table('T').columns['A'])
out=e.apply_user_actions([ua('BulkUpdateRecord','T',[1,1],{'A':['x','y']})])
print([actions.get_action_repr(a) for a in out.stored], [actions.get_action_repr(a) for a in out.undo], e.fetch_table('T').columns['A'])
