import sys, logging
sys.path.insert(0,'/tmp/ftstub'); sys.path.insert(0,'/repo/sandbox/grist')
logging.disable(logging.CRITICAL)
import engine, useractions, actions
def ua(*a): return useractions.from_repr(list(a))
def mk():
    e = engine.Engine(); e.load_empty()
    e.apply_user_actions([ua('InitNewDoc')])
    e.apply_user_actions([ua('AddTable','T',[{'id':'A','type':'Int','isFormula':False},{'id':'B','type':'Any','isFormula':True,'formula':'$A*2'},{'id':'C','type':'Any','isFormula':True,'formula':''}])])
    e.apply_user_actions([ua('BulkAddRecord','T',[None,None],{'A':[1,2]})])
    return e
for f in ['foo(\rbar', '1 +\r 2', '"""a\r$A"""', 'x = 1\rreturn x', '$A\x0c+1', 'if True:\r  return 1\rreturn 2', '(\r', '"\\', 'lambda: (yield)']:
    e = mk()
    try:
        e.apply_user_actions([ua('ModifyColumn','T','C',{'formula': f})])
        t = e.fetch_table('T')
        print(repr(f), 'B=', t.columns['B'], 'C=', [actions.encode_objects(v) if not isinstance(v,(int,str,type(None))) else v for v in t.columns['C']][:2])
    except Exception as ex:
        print(repr(f), 'RAISED', type(ex).__name__, str(ex)[:150])
