import sys, logging, random, json, copy
sys.path.insert(0,'/tmp/ftstub'); sys.path.insert(0,'/repo/sandbox/grist')
logging.disable(logging.CRITICAL)
import engine, useractions, actions, objtypes
def ua(*a): return useractions.from_repr(list(a))
rnd=random.Random(13)
def dump(e): return {t: actions.get_action_repr(e.fetch_table(t)) for t in sorted(e.tables)}
def mk():
    e = engine.Engine(); e.load_empty(); e.apply_user_actions([ua('InitNewDoc')])
    e.apply_user_actions([ua('AddTable','T',[{'id':'A','type':'Text','isFormula':False},{'id':'B','type':'Int','isFormula':False},{'id':'C','type':'Text','isFormula':False},{'id':'F','type':'Any','isFormula':True,'formula':'$A.upper() if $A else ""'}])])
    k=rnd.randint(0,6)
    e.apply_user_actions([ua('BulkAddRecord','T',[None]*k,{'A':[rnd.choice(['a','b','c']) for _ in range(k)],'B':[rnd.choice([1,2]) for _ in range(k)],'C':['c0']*k})])
    return e
bad=0; n=0; rej=0
for it in range(1500):
    e=mk(); before=dump(e); t0=e.fetch_table('T')
    rows=[dict(id=r,A=t0.columns['A'][i],B=t0.columns['B'][i],C=t0.columns['C'][i],F=t0.columns['F'][i]) for i,r in enumerate(t0.row_ids)]
    m=rnd.randint(0,3)
    reqkeys=rnd.sample(['A','B','F'], rnd.randint(0,2)); valkeys=rnd.sample(['B','C','A'], rnd.randint(0,2))
    require={k:[rnd.choice({'A':['a','b','z'],'B':[1,2,9],'F':['A','B','Z']}[k]) for _ in range(m)] for k in reqkeys}
    colv={k:[rnd.choice({'A':['a','q'],'B':[5,6],'C':['n1','n2']}[k]) for _ in range(m)] for k in valkeys}
    if rnd.random()<0.1 and colv: colv[list(colv)[0]]=colv[list(colv)[0]]+[colv[list(colv)[0]][0] if colv[list(colv)[0]] else {'A':'a','B':5,'C':'n1'}[list(colv)[0]]]   # mismatched lengths
    opts={}
    if rnd.random()<0.5: opts['on_many']=rnd.choice(['first','all','none','bogus'])
    if rnd.random()<0.3: opts['update']=rnd.choice([True,False])
    if rnd.random()<0.3: opts['add']=rnd.choice([True,False])
    if rnd.random()<0.4: opts['allow_empty_require']=True
    n+=1
    # reference
    def ref():
        on_many=opts.get('on_many','first')
        if on_many not in ('first','all','none'): return 'ERR'
        if not require and not opts.get('allow_empty_require',False): return 'ERR'
        if not require and not colv: return dict(recordIds=[],addRecordIds=[],updateRecordIds=[]), rows
        lens={len(v) for v in list(require.values())+list(colv.values())}
        if len(lens)!=1: return 'ERR'
        L=lens.pop()
        if require and len(set(zip(*require.values())))<L: return 'ERR'
        newrows=copy.deepcopy(rows); nextid=max([r['id'] for r in rows],default=0)+1
        res=dict(recordIds=[[] for _ in range(L)],addRecordIds=[],updateRecordIds=[])
        adds=[]; upds=[]
        for i in range(L):
            match=[r for r in rows if all(r[k]==require[k][i] for k in require)]
            if not match and opts.get('add',True):
                vals={k:require[k][i] for k in require if k!='F'}; vals.update({k:colv[k][i] for k in colv})
                adds.append((i,vals))
            if match and opts.get('update',True):
                if len(match)>1:
                    if on_many=='first': match=match[:1]
                    elif on_many=='none': continue
                for r in match: upds.append((r['id'],{k:colv[k][i] for k in colv}))
                res['recordIds'][i]=[r['id'] for r in match]; res['updateRecordIds'].append([r['id'] for r in match])
        for i,vals in adds:
            nr=dict(id=nextid,A='',B=0,C='',F=''); nr.update(vals); newrows.append(nr); res['recordIds'][i]=[nextid]; res['addRecordIds'].append(nextid); nextid+=1
        for rid,vals in upds:
            for r in newrows:
                if r['id']==rid: r.update(vals)
        for r in newrows: r['F']=r['A'].upper() if r['A'] else ''
        return res,newrows
    exp=ref()
    try:
        out=e.apply_user_actions([ua('BulkAddOrUpdateRecord','T',require,colv,opts)])
        got=out.retValues[0]
    except Exception as ex:
        rej+=1
        if exp!='ERR':
            bad+=1; print('UNEXPECTED REJECT',require,colv,opts,repr(ex)[:100])
        elif json.dumps(dump(e),sort_keys=True)!=json.dumps(before,sort_keys=True):
            bad+=1; print('REJECT CHANGED STATE',require,colv,opts)
        continue
    if exp=='ERR': bad+=1; print('EXPECTED REJECT',require,colv,opts,got); continue
    res,newrows=exp
    t1=e.fetch_table('T')
    gotrows=[dict(id=r,A=t1.columns['A'][i],B=t1.columns['B'][i],C=t1.columns['C'][i],F=t1.columns['F'][i]) for i,r in enumerate(t1.row_ids)]
    if got!=res or gotrows!=newrows:
        bad+=1
        if bad<8: print('MISMATCH',require,colv,opts,'\n got',got,'\n exp',res,'\n rows',[r for r in gotrows if r not in newrows],[r for r in newrows if r not in gotrows])
print('C28 cases',n,'rejected',rej,'bad',bad)
