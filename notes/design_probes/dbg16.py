import sys, os; sys.argv=['x']
exec(open('/tmp/probe/hist.py').read().split("if __name__=='__main__':")[0])
seed=int(os.environ.get('SEED',1010)); upto=int(os.environ.get('UPTO',10))
r=random.Random(seed); e=new_engine(); e.apply_user_actions([ua(['InitNewDoc'])])
for b in range(upto+1):
    bundle=[rand_action(r,e) for _ in range(r.randint(1,3))]
    if b==upto:
        for t in user_tables(e): print('schema',t,[(c.colId,c.type,c.isFormula,c.formula) for c in e.schema[t].columns.values()])
        before=dump(e)
    try: out=e.apply_user_actions([ua(copy.deepcopy(a)) for a in bundle])
    except Exception as ex: print('exc',b,ex); continue
print('bundle',bundle)
print('stored',json.dumps([actions.get_action_repr(a) for a in out.stored],default=repr)[:1500])
after=dump(e)
for t in user_tables(e): print('schema',t,[(c.colId,c.type,c.isFormula,c.formula) for c in e.schema[t].columns.values()])
for t in after:
    if not t.startswith('_grist') : print(t, json.dumps(before.get(t),default=repr)[:500],'\n   ->', json.dumps(after[t],default=repr)[:500])
