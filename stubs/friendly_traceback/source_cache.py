class _Cache(object):
  def __init__(self):
    self.sources = {}
  def add(self, filename, source):
    self.sources[filename] = source
cache = _Cache()
