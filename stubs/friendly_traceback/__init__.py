# Minimal stand-in for the third-party friendly_traceback package, which /venv lacks.
# codebuilder.save_to_linecache only needs source_cache.cache.add(filename, source).
