#!/venv/bin/python
import json,sys
for l in open('/verif/properties.jsonl'):
    d=json.loads(l)
    if d['id'] in sys.argv[1:]:
        print(d['id'],d['title']); print(d['statement']); print('Q:',d['quantifier']['text'])
        for m in d['anchors']['mechanism']: print('  mech:',m['name'],'@',m['where'])
        for s in d['anchors'].get('state',[]): print('  state:',s['name'],s['meaning'],'@',s['where'])
        print('  obs:',d['anchors']['observe_at']); print('  why:',d['why_tests_cant'][-300:]);print()
