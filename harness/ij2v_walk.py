"""ij2v, fourth part: Tables.add_row.  The object state (self._tables and the Row objects it holds, which are mutated after
they were appended) is an explicit event log `st : list event` threaded through every statement:
    rows = self._tables.setdefault(T, [])          rows stands for "the rows of table T"; len(rows) = count T st
    row = Row(OrderedDict(), P, Ref(T', e))        v_row := Some (T', e)   (a Row is named by its ref)
    rows.append(row)                               st := st ++ [ERow T P]
    X.values[k] = e                                st := st ++ [ECell (table of X) (rowid of X) k e]
    y = self.add_row(T, v[, P])                    '(st, v_y) := rec T v P st      (open recursion; None when P is omitted)
Model/JsonImport.v (rtables) decodes such a log into the content of self._tables.  Everything else goes through ij2v.Tr."""
import ast

from harness.ij2v import Tr, Untranslatable, fail, coerce, coq_ty
from harness import ij2v_stmt
from harness.ij2v_spec import FUNCS, SELF_FIELDS, GLOB, find

OREF = ('O', 'ref')


class Walk(Tr):
  def __init__(self):
    Tr.__init__(self, FUNCS, SELF_FIELDS, GLOB)
    self.pending = {}
    self.targets = set()

  def call(self, n):
    f = n.func
    if isinstance(f, ast.Name) and f.id == 'len' and len(n.args) == 1 and isinstance(n.args[0], ast.Name) and \
       isinstance(self.env.get(n.args[0].id), tuple) and self.env[n.args[0].id][0] == 'ROWS':
      return '(count %s st)' % self.env[n.args[0].id][1], 'nat'
    if isinstance(f, ast.Name) and f.id == 'Ref' and len(n.args) == 2 and not n.keywords:
      a, ta = self.expr(n.args[0])
      b, tb = self.expr(n.args[1])
      if (ta, tb) != ('str', 'nat'):
        fail(n, 'Ref(%r, %r)' % (ta, tb))
      return '(%s, %s)' % (a, b), 'ref'
    return ij2v_stmt.call(self, n)

  def rec_call(self, n):
    if n.keywords or not (2 <= len(n.args) <= 3):
      fail(n, 'call of add_row')
    t, tt = self.expr(n.args[0])
    v, tv = self.expr(n.args[1])
    p, tp = self.expr(n.args[2]) if len(n.args) == 3 else ('None', 'none')       # parent = None
    if tt != 'str' or tv != 'json':
      fail(n, 'add_row(%r, %r)' % (tt, tv))
    return 'rec %s %s %s st' % (t, v, coerce(p, tp, OREF, n))

  def is_rec(self, n):
    return isinstance(n, ast.Call) and isinstance(n.func, ast.Attribute) and isinstance(n.func.value, ast.Name) and \
      n.func.value.id == 'self' and n.func.attr == 'add_row'

  def live(self, stmts):
    return [v for v in ij2v_stmt.assigned(stmts) if v in self.env and v not in self.targets and
            not (isinstance(self.env[v], tuple) and self.env[v][0] == 'ROWS')]

  def state(self, names):
    return '(' + ', '.join(['st'] + [self.var(v) for v in names]) + ')' if names else 'st'

  def state_pat(self, names):
    return "'" + self.state(names) if names else 'st'

  def wblock(self, stmts, tail):
    if not stmts:
      if tail is None:
        fail('end of add_row', 'a path without return')
      return tail
    s, rest = stmts[0], stmts[1:]
    nxt = lambda: self.wblock(rest, tail)
    if isinstance(s, ast.Expr) and isinstance(s.value, ast.Constant) and isinstance(s.value.value, str):
      return nxt()
    if isinstance(s, ast.Return) and s.value is not None:
      c, t = self.expr(s.value)
      return '(st, %s)' % coerce(c, t, OREF, s)
    if isinstance(s, ast.Assign) and len(s.targets) == 1 and isinstance(s.targets[0], ast.Name):
      name, v = s.targets[0].id, s.value
      if isinstance(v, ast.Constant) and v.value is None:
        self.env[name] = OREF
        return 'let %s := (None : option ref) in\n  %s' % (self.var(name), nxt())
      if isinstance(v, ast.Call) and isinstance(v.func, ast.Attribute) and v.func.attr == 'setdefault' and \
         ast.dump(v.func.value) == ast.dump(ast.parse('self._tables', mode='eval').body) and len(v.args) == 2 and \
         isinstance(v.args[1], ast.List) and not v.args[1].elts:
        t, tt = self.expr(v.args[0])
        if tt != 'str':
          fail(s, 'table name')
        self.env[name] = ('ROWS', t)
        return nxt()
      if isinstance(v, ast.Call) and isinstance(v.func, ast.Name) and v.func.id == 'Row' and len(v.args) == 3:
        if ast.dump(v.args[0]) != ast.dump(ast.parse('OrderedDict()', mode='eval').body):
          fail(s, 'a new Row starts with empty values')
        p, tp = self.expr(v.args[1])
        r, tr_ = self.expr(v.args[2])
        if tr_ != 'ref':
          fail(s, 'third field of Row')
        self.pending[name] = coerce(p, tp, OREF, s)
        self.env[name] = OREF
        return 'let %s := Some %s in\n  %s' % (self.var(name), r, nxt())
      if self.is_rec(v):
        code = self.rec_call(v)
        self.env[name] = OREF
        return "let '(st, %s) := %s in\n  %s" % (self.var(name), code, nxt())
      c, t = self.expr(v)
      self.env[name] = t
      return 'let %s := %s in\n  %s' % (self.var(name), c, nxt())
    if isinstance(s, ast.Assign) and len(s.targets) == 1 and isinstance(s.targets[0], ast.Subscript) and \
       isinstance(s.targets[0].value, ast.Attribute) and s.targets[0].value.attr == 'values' and \
       isinstance(s.targets[0].value.value, ast.Name) and self.env.get(s.targets[0].value.value.id) == OREF:
      x = self.var(s.targets[0].value.value.id)
      k, tk = self.expr(s.targets[0].slice)
      c, t = self.expr(s.value)
      return 'let st := st ++ [ECell (ref_table_name (parent_ref %s)) (ref_rowid (parent_ref %s)) %s %s] in\n  %s' % (
        x, x, coerce(k, tk, 'str', s), coerce(c, t, 'cell', s), nxt())
    if isinstance(s, ast.Expr) and isinstance(s.value, ast.Call):
      v = s.value
      if self.is_rec(v):
        return "let '(st, _) := %s in\n  %s" % (self.rec_call(v), nxt())
      if isinstance(v.func, ast.Attribute) and v.func.attr == 'append' and isinstance(v.func.value, ast.Name) and \
         isinstance(self.env.get(v.func.value.id), tuple) and self.env[v.func.value.id][0] == 'ROWS' and \
         len(v.args) == 1 and isinstance(v.args[0], ast.Name) and v.args[0].id in self.pending:
        return 'let st := st ++ [ERow %s %s] in\n  %s' % (self.env[v.func.value.id][1], self.pending.pop(v.args[0].id),
                                                         nxt())
      fail(s, 'unsupported call statement')
    if isinstance(s, ast.If):
      if any(isinstance(x, ast.Return) for x in ast.walk(s)):
        fail(s, 'return inside if')
      names = self.live(s.body + s.orelse)
      test = self.truthy(s.test)
      saved = dict(self.env)
      then = self.wblock(s.body, self.state(names))
      self.env = dict(saved)
      other = self.wblock(s.orelse, self.state(names))
      self.env = saved
      return 'let %s := (if %s then %s else %s) in\n  %s' % (self.state_pat(names), test, then, other, nxt())
    if isinstance(s, ast.For) and not s.orelse:
      if any(isinstance(x, (ast.Return, ast.Break, ast.Continue)) for x in ast.walk(s)):
        fail(s, 'return/break/continue inside for')
      it, ity = self.expr(s.iter)
      if ity == 'json':
        it, ity = '(json_elems %s)' % it, ('L', 'json')
      saved, saved_t = dict(self.env), set(self.targets)
      p = self.pat(s.target, self.elem_ty(ity, s))
      self.targets |= {x.id for x in ast.walk(s.target) if isinstance(x, ast.Name)}
      names = self.live(s.body)
      body = self.wblock(s.body, self.state(names))
      self.env, self.targets = saved, saved_t
      return 'let %s := fold_left (fun %s %s => %s) %s %s in\n  %s' % (
        self.state_pat(names), self.state_pat(names), p, body, it, self.state(names), nxt())
    fail(s, 'unsupported statement in add_row')


HEADER = '''(* GENERATED by harness/ij2v.py from %s -- do not edit.
   Regenerated on every run of ./check C33; bridged to Model/JsonImport.v in Proofs/JsonImport_bridge*.v. *)
From Coq Require Import ZArith List Bool Arith.
Import ListNotations.
Require Import Grist.Model.JsonImport Grist.Model.JsonImportPy.

'''


def generate(path):
  """The text of coq/gen/JsonImport_gen.v for the import_json.py at `path`."""
  from harness import ij2v_spec as sp
  with open(path) as f:
    tree = ast.parse(f.read())
  sp.check_pinned(tree)
  ret = find(tree, '_dump_table').body[-1]
  if not (isinstance(ret, ast.Return) and isinstance(ret.value, ast.Dict) and
          [getattr(k, 'value', None) for k in ret.value.keys] == ['column_metadata', 'table_data', 'table_name']):
    raise Untranslatable('_dump_table no longer returns {column_metadata, table_data, table_name}')
  parts = [HEADER % 'sandbox/grist/imports/import_json.py', sp.grist_types(tree)]
  parts += sp.init_options(tree)
  parts.append(sp.pure_function(tree, 'Tables._is_included', ['property_path'], SELF_FIELDS))
  parts.append(sp.first_available_key(tree))
  for name, params in [('_grist_type', ['value']), ('_dump_value', ['value']), ('_transpose', ['rows']),
                       ('_dump_table', ['name', 'rows']), ('_dictify', ['value'])]:
    parts.append(sp.pure_function(tree, name, params))
  parts.append(add_row(tree))
  return '\n'.join(parts)


def add_row(tree):
  fn = find(tree, 'Tables.add_row')
  args = [a.arg for a in fn.args.args]
  if args != ['self', 'table', 'value', 'parent'] or len(fn.args.defaults) != 1 or \
     not (isinstance(fn.args.defaults[0], ast.Constant) and fn.args.defaults[0].value is None):
    raise Untranslatable('signature of Tables.add_row changed')
  w = Walk()
  w.env.update({'table': 'str', 'value': 'json', 'parent': OREF})
  body = w.wblock(fn.body, None)
  if w.pending:
    raise Untranslatable('a Row is created but never appended')
  sig = '(self_includes_opt self_excludes_opt : list str)'
  rec_ty = 'str -> json -> option ref -> list event -> list event * option ref'
  return ('Definition gen_add_row_body %s\n  (rec : %s)\n  (v_table : str) (v_value : json) (v_parent : option ref) '
          '(st : list event) : list event * option ref :=\n  %s.\n\n'
          'Fixpoint gen_add_row (fuel : nat) %s (v_table : str) (v_value : json) (v_parent : option ref)\n'
          '  (st : list event) : list event * option ref :=\n  match fuel with\n  | O => (st, None)\n'
          '  | S f => gen_add_row_body self_includes_opt self_excludes_opt\n'
          '             (gen_add_row f self_includes_opt self_excludes_opt) v_table v_value v_parent st\n  end.\n'
          % (sig, rec_ty, body, sig))
