"""
mo2v -- fail-closed translator for the datetime-level functions of sandbox/grist/moment.py (C34).

Typed, table-driven: every Python value has one of the types below and every operator / call / method is
translated only if the table has an entry for exactly those operand types; anything else raises Untranslatable.

  types: 'sec' 'ms' 'td' (numbers of seconds / ms, timedelta: Z ticks), 'date' (day number), 'dt' (pydt),
         'tz' (tzinfo), 'zone', 'bool', ('O', t) Optional, 'none' (the constant None)
  statements: x = e;  `if X is None: X = e` (Optional unwrapped afterwards);  `if not X: return e` (X Optional,
         unwrapped afterwards);  `if c: x = e`;  a final return
  expressions: names, module constants EPOCH/EPOCH_UTC/DATE_EPOCH, None, + - between dt/td/date/sec, `sec * 1000`,
         td != td, `a or b` (a Optional), `e if X else f` (X Optional name), self.zone/self._favor_offset,
         timedelta(seconds=..), timedelta(0), utc_to_ts_ms(dt), and the methods in METHODS.
The Coq vocabulary is coq/theories/Model/MomentDt.v; Zone.offset / Zone.dt_offset are the py2v translations in
GristGen.Moment_gen (their `dt` parameter stands for utc_to_ts_ms(dt), its only use there).
"""
import ast


class Untranslatable(Exception):
  pass


def fail(node, msg):
  raise Untranslatable('%s (line %s: %s)' % (msg, getattr(node, 'lineno', '?'), ast.unparse(node)[:100]))


COQ_TYPE = {'sec': 'Z', 'ms': 'Z', 'td': 'Z', 'date': 'Z', 'dt': 'pydt', 'tz': 'tzinfo', 'zone': 'zone', 'bool': 'bool'}


def coq_type(t):
  if isinstance(t, tuple) and t[0] == 'O':
    return '(option %s)' % coq_type(t[1])
  return COQ_TYPE[t]


GLOBALS = {'EPOCH': ('EPOCH', 'dt'), 'EPOCH_UTC': ('EPOCH_UTC', 'dt'), 'DATE_EPOCH': ('DATE_EPOCH', 'date')}
BINOPS = {
  (ast.Add, 'dt', 'td'): ('(py_dt_add %s %s)', 'dt'), (ast.Sub, 'dt', 'td'): ('(py_dt_sub_td %s %s)', 'dt'),
  (ast.Sub, 'dt', 'dt'): ('(py_dt_sub_dt oob__ %s %s)', 'td'), (ast.Sub, 'sec', 'sec'): ('(%s - %s)', 'sec'),
  (ast.Sub, 'date', 'date'): ('(py_date_sub %s %s)', 'td'), (ast.Add, 'date', 'td'): ('(py_date_add_td %s %s)', 'date'),
}


class Tr(object):
  def __init__(self, done):
    self.done = done          # names of functions already generated (callable from later ones)

  def opt(self, v, t, want):
    """Coerce (v, t) to Optional `want`."""
    if t == 'none':
      return 'None'
    if t == want:
      return '(Some %s)' % v
    if t == ('O', want):
      return v
    raise Untranslatable('expected Optional %s, got %r' % (want, t))

  def expr(self, e, env):
    if isinstance(e, ast.Name):
      if e.id in env:
        return e.id, env[e.id]
      if e.id in GLOBALS:
        return GLOBALS[e.id]
      fail(e, 'unbound name')
    if isinstance(e, ast.Constant) and e.value is None:
      return 'None', 'none'
    if isinstance(e, ast.Attribute):
      v, t = self.expr(e.value, env)
      if t == 'tz' and e.attr == 'zone':
        return '(tz_zone %s)' % v, 'zone'
      if t == 'tz' and e.attr == '_favor_offset':
        return '(tz_favor %s)' % v, ('O', 'td')
      fail(e, 'attribute .%s of %r' % (e.attr, t))
    if isinstance(e, ast.BinOp):
      l, lt = self.expr(e.left, env)
      if isinstance(e.op, ast.Mult) and lt == 'sec' and isinstance(e.right, ast.Constant) and e.right.value == 1000 \
         and type(e.right.value) is int:
        return '(py_sec_to_ms %s)' % l, 'ms'
      r, rt = self.expr(e.right, env)
      ent = BINOPS.get((type(e.op), lt, rt))
      if ent is None:
        fail(e, 'operator %s on %r, %r' % (type(e.op).__name__, lt, rt))
      return ent[0] % (l, r), ent[1]
    if isinstance(e, ast.Compare) and len(e.ops) == 1 and isinstance(e.ops[0], ast.NotEq):
      l, lt = self.expr(e.left, env)
      r, rt = self.expr(e.comparators[0], env)
      if lt == rt == 'td':
        return '(negb (Z.eqb %s %s))' % (l, r), 'bool'
      fail(e, '!= on %r, %r' % (lt, rt))
    if isinstance(e, ast.BoolOp) and isinstance(e.op, ast.Or) and len(e.values) == 2:
      a, at = self.expr(e.values[0], env)
      b, bt = self.expr(e.values[1], env)
      if at == ('O', bt) and bt in ('tz', 'zone'):      # objects without __bool__/__len__: truthy iff not None
        return '(match %s with Some v__ => v__ | None => %s end)' % (a, b), bt
      fail(e, '`or` on %r, %r' % (at, bt))
    if isinstance(e, ast.IfExp) and isinstance(e.test, ast.Name):
      n = e.test.id
      t = env.get(n)
      if isinstance(t, tuple) and t[1] in ('tz', 'zone'):
        a, at = self.expr(e.body, dict(env, **{n: t[1]}))
        b, bt = self.expr(e.orelse, env)
        if at == bt:
          return '(match %s with Some %s => %s | None => %s end)' % (n, n, a, b), at
      fail(e, 'conditional expression')
    if isinstance(e, ast.Call):
      return self.call(e, env)
    fail(e, 'expression %s' % type(e).__name__)

  def call(self, e, env):
    kw = {k.arg: k.value for k in e.keywords}
    if None in kw:
      fail(e, '**kwargs')
    if isinstance(e.func, ast.Name):
      f = e.func.id
      if f in env:
        fail(e, 'call of a local')
      if f == 'timedelta' and not e.args and list(kw) == ['seconds']:
        v, t = self.expr(kw['seconds'], env)
        if t == 'sec':
          return '(py_timedelta_seconds %s)' % v, 'td'
      if f == 'timedelta' and not kw and len(e.args) == 1 and isinstance(e.args[0], ast.Constant) \
         and type(e.args[0].value) is int and e.args[0].value == 0:
        return '0', 'td'
      if f == 'utc_to_ts_ms' and not kw and len(e.args) == 1 and 'moment_utc_to_ts_ms' in self.done:
        v, t = self.expr(e.args[0], env)
        if t == 'dt':
          return '(moment_utc_to_ts_ms oob__ %s)' % v, 'ms'
      fail(e, 'call of %s' % f)
    if not isinstance(e.func, ast.Attribute):
      fail(e, 'call')
    r, rt = self.expr(e.func.value, env)
    m = e.func.attr
    args = [self.expr(a, env) for a in e.args]
    if (rt, m) == ('zone', 'dt_offset') and not kw and len(args) in (1, 2) and args[0][1] == 'dt' \
       and 'moment_utc_to_ts_ms' in self.done:
      fav = self.opt(args[1][0], args[1][1], 'td') if len(args) == 2 else 'None'     # favor_offset=None default
      return '(zone_dt_offset oob__ %s (moment_utc_to_ts_ms oob__ %s) %s)' % (r, args[0][0], fav), 'td'
    if (rt, m) == ('zone', 'offset') and not kw and len(args) == 1 and args[0][1] == 'ms':
      return '(zone_offset oob__ %s %s)' % (r, args[0][0]), 'td'
    if (rt, m) == ('zone', 'get_tzinfo') and not kw and len(args) == 1:
      return '(py_get_tzinfo %s %s)' % (r, self.opt(args[0][0], args[0][1], 'td')), 'tz'
    if (rt, m) == ('dt', 'utcoffset') and not kw and not args and 'TzInfo_utcoffset' in self.done:
      return '(py_dt_utcoffset oob__ %s)' % r, ('O', 'td')
    if (rt, m) == ('dt', 'replace') and not args and list(kw) == ['tzinfo']:
      v, t = self.expr(kw['tzinfo'], env)
      return '(py_replace_tzinfo %s %s)' % (r, self.opt(v, t, 'tz')), 'dt'
    if (rt, m) == ('dt', 'astimezone') and not kw and len(args) == 1 and args[0][1] == 'tz' \
       and 'TzInfo_fromutc' in self.done:
      return '(py_astimezone oob__ %s %s)' % (r, args[0][0]), 'dt'
    if (rt, m) == ('td', 'total_seconds') and not kw and not args:
      return '(py_total_seconds %s)' % r, 'sec'
    fail(e, 'method .%s of %r with %r' % (m, rt, [t for _, t in args]))

  def block(self, stmts, env, ret):
    if not stmts:
      raise Untranslatable('function can fall off the end')
    s, rest = stmts[0], stmts[1:]
    if isinstance(s, ast.Expr) and isinstance(s.value, ast.Constant) and isinstance(s.value.value, str):
      return self.block(rest, env, ret)
    if isinstance(s, ast.Return) and s.value is not None:
      if rest:
        fail(s, 'code after return')
      v, t = self.expr(s.value, env)
      if t != ret:
        fail(s, 'returns %r, binding says %r' % (t, ret))
      return v
    if isinstance(s, ast.Assign) and len(s.targets) == 1 and isinstance(s.targets[0], ast.Name):
      n = s.targets[0].id
      v, t = self.expr(s.value, env)
      if n in GLOBALS or (n in env and env[n] != t) or t == 'none':
        fail(s, 'assignment changes the type of %s' % n)
      return 'let %s := %s in\n%s' % (n, v, self.block(rest, dict(env, **{n: t}), ret))
    if isinstance(s, ast.If) and not s.orelse and len(s.body) == 1:
      b, c = s.body[0], s.test
      assign = isinstance(b, ast.Assign) and len(b.targets) == 1 and isinstance(b.targets[0], ast.Name)
      # if X is None: X = e
      if assign and isinstance(c, ast.Compare) and len(c.ops) == 1 and isinstance(c.ops[0], ast.Is) \
         and isinstance(c.left, ast.Name) and isinstance(c.comparators[0], ast.Constant) \
         and c.comparators[0].value is None and b.targets[0].id == c.left.id:
        n = c.left.id
        t = env.get(n)
        v, vt = self.expr(b.value, env)
        if isinstance(t, tuple) and vt == t[1]:
          return 'let %s := match %s with Some v__ => v__ | None => %s end in\n%s' % (
            n, n, v, self.block(rest, dict(env, **{n: vt}), ret))
        fail(s, '`is None` refinement of %r with %r' % (t, vt))
      # if not X: return e        (X Optional object: truthy iff not None)
      if isinstance(b, ast.Return) and b.value is not None and isinstance(c, ast.UnaryOp) \
         and isinstance(c.op, ast.Not) and isinstance(c.operand, ast.Name):
        n = c.operand.id
        t = env.get(n)
        v, vt = self.expr(b.value, env)
        if isinstance(t, tuple) and t[1] in ('tz', 'zone') and vt == ret:
          return 'match %s with\n| None => %s\n| Some %s =>\n%s\nend' % (
            n, v, n, self.block(rest, dict(env, **{n: t[1]}), ret))
        fail(s, '`if not %s: return`' % n)
      # if c: x = e
      if assign:
        cv, ct = self.expr(c, env)
        n = b.targets[0].id
        v, vt = self.expr(b.value, env)
        if ct == 'bool' and env.get(n) == vt:
          return 'let %s := (if %s then %s else %s) in\n%s' % (n, cv, v, n, self.block(rest, env, ret))
      fail(s, 'if statement')
    fail(s, 'statement %s' % type(s).__name__)

  def function(self, fn, coq_name, params, ret, decorators=()):
    """params: [(python name, type)] in order; Optional parameters must default to None."""
    a = fn.args
    if a.vararg or a.kwarg or a.kwonlyargs or a.posonlyargs:
      fail(fn, 'signature')
    if [x.arg for x in a.args] != [p for p, _ in params]:
      fail(fn, 'parameters are %r, binding expects %r' % ([x.arg for x in a.args], [p for p, _ in params]))
    if [ast.unparse(d) for d in fn.decorator_list] != list(decorators):
      fail(fn, 'decorators %r' % [ast.unparse(d) for d in fn.decorator_list])
    ndef = len(a.defaults)
    for (p, t), d in zip(params[len(params) - ndef:], a.defaults):
      if not (isinstance(d, ast.Constant) and d.value is None and isinstance(t, tuple)):
        fail(fn, 'default of %s' % p)
    body = self.block(fn.body, dict(params), ret)
    sig = ' '.join('(%s : %s)' % (p, coq_type(t)) for p, t in [('oob__', 'sec')] + list(params))
    self.done.add(coq_name)
    return 'Definition %s %s : %s :=\n%s.\n' % (coq_name, sig, coq_type(ret), body)


def find(tree, qualname):
  body, node = tree.body, None
  for p in qualname.split('.'):
    node = next((s for s in body if isinstance(s, (ast.FunctionDef, ast.ClassDef)) and s.name == p), None)
    if node is None:
      raise Untranslatable('no definition %s' % qualname)
    body = node.body
  return node


# Glue that is not translated: the model (Model/MomentDt.v) was written from exactly this text.
PINNED_ASSIGNS = {
  'EPOCH': 'datetime(1970, 1, 1)', 'DATE_EPOCH': 'EPOCH.date()', 'TZ_UTC': "tzinfo('UTC')",
  'EPOCH_UTC': 'EPOCH.replace(tzinfo=TZ_UTC)', '_zone_cache': '{}',
}
PINNED_DEFS = {
  'get_zone': "return _zone_cache.get(zonelabel) or _zone_cache.setdefault(zonelabel, Zone(zonelabel))",
  'tzinfo': "return get_zone(zonelabel).get_tzinfo(favor_offset)",
  'Zone.get_tzinfo': "return self._tzinfo.get(favor_offset) or self._tzinfo.setdefault(favor_offset, TzInfo(self, favor_offset))",
  'TzInfo.__init__': "super(TzInfo, self).__init__()\nself.zone = zone\nself._favor_offset = favor_offset",
}


PINNED_SIGS = {       # defaults that callers translated here rely on
  'Zone.dt_offset': 'self, dt, favor_offset=None', 'Zone.offset': 'self, timestamp_ms',
  'Zone.get_tzinfo': 'self, favor_offset', 'TzInfo.__init__': 'self, zone, favor_offset',
  'tzinfo': 'zonelabel, favor_offset=None', 'get_zone': 'zonelabel',
}


def check_pins(tree):
  for q, exp in PINNED_SIGS.items():
    if ast.unparse(find(tree, q).args) != exp:
      raise Untranslatable('signature of %s is (%s), expected (%s)' % (q, ast.unparse(find(tree, q).args), exp))
  seen = {}
  for s in tree.body:
    if isinstance(s, ast.Assign) and len(s.targets) == 1 and isinstance(s.targets[0], ast.Name):
      n = s.targets[0].id
      if n in PINNED_ASSIGNS or n in GLOBALS:
        if n in seen:
          raise Untranslatable('%s is assigned twice' % n)
        seen[n] = ast.unparse(s.value)
  for n, exp in PINNED_ASSIGNS.items():
    if seen.get(n) != exp:
      raise Untranslatable('module constant %s is %r, the model was written for %r' % (n, seen.get(n), exp))
  for q, exp in PINNED_DEFS.items():
    fn = find(tree, q)
    body = [s for s in fn.body
            if not (isinstance(s, ast.Expr) and isinstance(s.value, ast.Constant) and isinstance(s.value.value, str))]
    got = '\n'.join(ast.unparse(s) for s in body)
    if got != exp:
      raise Untranslatable('%s is no longer the pinned glue: %r' % (q, got[:200]))
  for s in ast.walk(tree):        # nobody rebinds the constants inside a function
    if isinstance(s, ast.Global) and set(s.names) & set(PINNED_ASSIGNS):
      raise Untranslatable('global statement on a pinned constant')


# CPython: datetime.utcoffset() asks the tzinfo (None when naive); datetime.astimezone(tz) is
#   offset = self.utcoffset(); utc = (self - offset).replace(tzinfo=tz); return tz.fromutc(utc)
# (the shortcut `if tz is self.tzinfo: return self` is not modelled: it returns the same instant, with the
# tzinfo object it already had; a naive self would use the system zone: outside the model, oob).
CPYTHON_GLUE = '''(* CPython's datetime.utcoffset() and datetime.astimezone(tz), in terms of the tzinfo methods above *)
Definition py_dt_utcoffset (oob__ : Z) (d : pydt) : option Z :=
  match d_tz d with None => None | Some t => Some (TzInfo_utcoffset oob__ t d) end.
Definition py_astimezone (oob__ : Z) (d : pydt) (tz : tzinfo) : pydt :=
  match py_dt_utcoffset oob__ d with
  | None => mk_dt oob__ None
  | Some offset => TzInfo_fromutc oob__ tz (py_replace_tzinfo (py_dt_sub_td d offset) (Some tz))
  end.
'''
HEADER = '''(* GENERATED by /verif/harness/mo2v.py from %s -- do not edit; regenerated on every run. *)
From Coq Require Import ZArith List Bool.
Import ListNotations.
Require Import Grist.Lib.PyPrelude Grist.Lib.PyList Grist.Model.Moment GristGen.Moment_gen Grist.Model.MomentDt.
Open Scope Z_scope.

'''
OT = lambda t: ('O', t)
FUNCTIONS = [
  ('utc_to_ts_ms', 'moment_utc_to_ts_ms', [('dt', 'dt')], 'ms', ()),
  ('TzInfo.utcoffset', 'TzInfo_utcoffset', [('self', 'tz'), ('dt', 'dt')], 'td', ()),
  ('TzInfo.fromutc', 'TzInfo_fromutc', [('self', 'tz'), ('dt', 'dt')], 'dt', ()),
  None,     # CPYTHON_GLUE goes here
  ('ts_to_dt', 'moment_ts_to_dt', [('timestamp', 'sec'), ('zone', 'zone'), ('tzinfo', OT('tz'))], 'dt',
   ('lru_cache(maxsize=1024)',)),
  ('dt_to_ts', 'moment_dt_to_ts', [('dt', 'dt'), ('timezone', OT('zone'))], 'sec', ()),
  ('ts_to_date', 'moment_ts_to_date', [('timestamp', 'sec')], 'date', ('lru_cache(maxsize=1024)',)),
  ('date_to_ts', 'moment_date_to_ts', [('date', 'date'), ('timezone', OT('zone'))], 'sec', ()),
]


def translate_module(source_path):
  with open(source_path) as f:
    tree = ast.parse(f.read())
  check_pins(tree)
  tr = Tr(set())
  parts = [HEADER % source_path]
  for ent in FUNCTIONS:
    if ent is None:
      parts.append(CPYTHON_GLUE)
      continue
    qual, name, params, ret, decos = ent
    parts.append('(* %s *)\n%s' % (qual, tr.function(find(tree, qual), name, params, ret, decos)))
  return '\n'.join(parts)


if __name__ == '__main__':
  import sys
  print(translate_module(sys.argv[1]))
