import argparse
import importlib
import json
import os
import sys

from harness import core


def main():
  ap = argparse.ArgumentParser()
  ap.add_argument('prop')
  ap.add_argument('--tier', default=os.environ.get('VERIF_TIER', 'quick'), choices=['quick', 'thorough'])
  ap.add_argument('--seed', type=int, default=int(os.environ.get('VERIF_SEED', '0') or 0))
  ap.add_argument('--replay')
  args = ap.parse_args()
  mod = importlib.import_module('harness.props.' + args.prop.lower())
  if args.replay:
    core.setup_impl_path()
    with open(args.replay) as f:
      rec = json.load(f)
    ctx = core.Ctx(mod, args.tier, args.seed)
    v = rec.get('violation')
    if v is None:
      print('replay names broken obligations only:', json.dumps(rec.get('broken'), indent=1))
      sys.exit(1)
    desc = mod.replay(ctx, v['replay'])
    print('REPLAY %s: %s' % (args.prop, desc or 'does not fail on the current tree'))
    sys.exit(1 if desc else 0)
  sys.exit(core.run_check(mod, args.tier, args.seed))


if __name__ == '__main__':
  main()
