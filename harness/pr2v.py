"""
pr2v -- fail-closed translator for acl.perform_acl_rule_renames (C17): a procedure over the rows of two metadata
tables, with loops, a try/except around JSON access, a dict built in one pass and used in another, and a closure
(the renamer) handed to process_renames.  Output: a pure Gallina function over the opaque primitives of
Model/PredicateRename.v (`acl_prims`): JSON access, the table of a resource, process_renames and
parse_predicate_formula_json are parameters; column lists, the renames dict and the user-attribute dict are modelled.

  statements   x = e | x.append(e) | d[k] = e | info[k] = e | for v in rows: ... (continue) | if/elif/else |
               try: x = <raising primitive>; ... except Exception as e: log.warning(...) | def renamer(subject): ... |
               useractions.doBulkUpdateFromPairs(<table>, <list>) (the outputs) | docstring
  expressions  typed by `BIND` below; anything else raises Untranslatable.
Loop-carried variables are the locals a loop body updates; loops become fold_left over a tuple of them.
"""
import ast


class Untranslatable(Exception):
  pass


def fail(node, msg):
  raise Untranslatable('%s (line %s: %s)' % (msg, getattr(node, 'lineno', '?'),
                                             ast.unparse(node)[:90] if isinstance(node, ast.AST) else node))


def cstr(s):
  if not all(32 <= ord(c) <= 126 for c in s):
    raise Untranslatable('non-ASCII literal %r' % (s,))
  return '"%s"%%string' % s.replace('"', '""')


# record fields: (python attribute) -> (coq projection, type)
RECORDS = {
  'res': {'tableId': ('res_tableId', 'str'), 'colIds': ('res_colIds', 'str')},
  'rule': {'resource': ('rule_resource', 'int'), 'aclFormula': ('rule_aclFormula', 'str'),
           'userAttributes': ('rule_userAttributes', 'str')},
  'subject': {'type': ('s_type', 'str'), 'name': ('s_name', 'str'), 'extra': ('s_extra', 'ostr')},
}
# iterables of the document model (opaque: the rows are parameters of the generated function)
ROWS = {'useractions.get_docmodel().aclResources.all': ('resources', 'res'),
        'useractions.get_docmodel().aclRules.all': ('rules', 'rule')}
TABLE_HANDLE = 'useractions.get_docmodel().aclResources.table'


class T(object):
  def __init__(self, term, ty):
    self.term, self.ty = term, ty


class Fn(object):
  """Translation of one function."""

  def __init__(self, fn, params):
    self.fn = fn
    self.env = dict(params)        # python name -> (coq name, type)
    self.outputs = []

  def v(self, name):
    return name if name not in ('end', 'at', 'in', 'fun', 'type') else name + '_'

  # ---- expressions
  def tr(self, e):
    if isinstance(e, ast.Constant):
      if isinstance(e.value, str):
        return T('(lit %s)' % cstr(e.value), 'str')
      if e.value is None:
        return T('None', 'none')
      fail(e, 'constant')
    if isinstance(e, ast.Name):
      if e.id in self.env:
        return T(*self.env[e.id])
      fail(e, 'unknown name')
    if isinstance(e, ast.List) and not e.elts:
      return T('[]', 'emptylist')
    if isinstance(e, ast.Dict) and not e.keys:
      return T('[]', 'odict')
    if isinstance(e, ast.Dict):
      items = []
      for k, val in zip(e.keys, e.values):
        x = self.tr(val)
        if not (isinstance(k, ast.Constant) and isinstance(k.value, str)) or x.ty != 'str':
          fail(e, 'update record')
        items.append('(%s, %s)' % (cstr(k.value), x.term))
      return T('[' + '; '.join(items) + ']', 'upd')
    if isinstance(e, ast.Tuple) and len(e.elts) == 2:
      a, b = self.tr(e.elts[0]), self.tr(e.elts[1])
      if a.ty in ('res', 'rule') and b.ty == 'upd':
        return T('(%s, %s)' % (a.term, b.term), 'pair_' + a.ty)
      fail(e, 'tuple')
    if isinstance(e, ast.Attribute):
      x = self.tr(e.value)
      if x.ty in RECORDS and e.attr in RECORDS[x.ty]:
        proj, ty = RECORDS[x.ty][e.attr]
        return T('(%s %s)' % (proj, x.term), ty)
      fail(e, 'attribute %s of %s' % (e.attr, x.ty))
    if isinstance(e, ast.UnaryOp) and isinstance(e.op, ast.Not):
      return T('(negb %s)' % self.truth(e.operand), 'bool')
    if isinstance(e, ast.BoolOp):
      if isinstance(e.op, ast.And):
        return T('(' + ' && '.join(self.truth(v) for v in e.values) + ')', 'bool')
      if len(e.values) == 2:                         # x or c : the first truthy one
        a, b = self.tr(e.values[0]), self.tr(e.values[1])
        if a.ty == 'ostr' and b.ty == 'str':
          return T('(ostr_or %s %s)' % (a.term, b.term), 'str')
      fail(e, 'or')
    if isinstance(e, ast.Compare) and len(e.ops) == 1:
      a, b = self.tr(e.left), self.tr(e.comparators[0])
      if a.ty == b.ty == 'str' and isinstance(e.ops[0], (ast.Eq, ast.NotEq)):
        t = '(str_eqb %s %s)' % (a.term, b.term)
        return T(t if isinstance(e.ops[0], ast.Eq) else '(negb %s)' % t, 'bool')
      fail(e, 'comparison')
    if isinstance(e, ast.Subscript):
      fail(e, 'subscript read')
    if isinstance(e, ast.Call):
      return self.call(e)
    fail(e, 'expression')

  def truth(self, e):
    x = self.tr(e)
    if x.ty == 'bool':
      return x.term
    if x.ty == 'str':
      return '(str_truthy %s)' % x.term
    if x.ty == 'ostr':
      return '(ostr_truthy %s)' % x.term
    fail(e, 'truth value of %s' % x.ty)

  def call(self, e):
    src = ast.unparse(e.func)
    args = e.args
    if e.keywords:
      fail(e, 'keyword arguments')
    # the renames dict: {(table_id, col_id): new_col_id}
    if src == 'col_renames_dict.get' and len(args) == 1 and isinstance(args[0], ast.Tuple) and len(args[0].elts) == 2:
      t, c = self.tr(args[0].elts[0]), self.tr(args[0].elts[1])
      if t.ty == 'str' and c.ty == 'str':
        return T('(renames_get col_renames_dict %s %s)' % (t.term, c.term), 'ostr')
      if t.ty == 'ostr' and c.ty in ('str', 'ostr'):
        return T('(renames_get_oo col_renames_dict %s %s)' % (t.term, c.term if c.ty == 'ostr' else '(Some %s)' % c.term), 'ostr')
      fail(e, 'renames key of types %s, %s' % (t.ty, c.ty))
    if src == 'user_attr_tables.get' and len(args) == 1:
      k = self.tr(args[0])
      if self.env.get('user_attr_tables', (None, None))[1] == 'odict' and k.ty == 'ostr':
        return T('(odict_get %s %s)' % (self.env['user_attr_tables'][0], k.term), 'ostr')
      fail(e, 'user_attr_tables.get')
    if src == 'rule_info.get' and len(args) == 1 and isinstance(args[0], ast.Constant) and isinstance(args[0].value, str):
      x = self.tr(e.func.value)
      if x.ty == 'info':
        return T('(info_get P %s %s)' % (x.term, cstr(args[0].value)), 'ostr')
    if src == 'json.dumps' and len(args) == 1:
      x = self.tr(args[0])
      if x.ty == 'info':
        return T('(json_dumps P %s)' % x.term, 'str')
    if src == 'parse_predicate_formula_json' and len(args) == 1:
      x = self.tr(args[0])
      if x.ty == 'str':
        return T('(parse_json P %s)' % x.term, 'str')
    if src == 'predicate_formula.process_renames' and len(args) == 3:
      f, r = self.tr(args[0]), self.tr(args[2])
      if ast.unparse(args[1]) != '_ACLEntityCollector()' or f.ty != 'str' or r.ty != 'renamer':
        fail(e, 'process_renames arguments')
      return T('(process_renames_acl P %s %s)' % (f.term, r.term), 'str')
    if src == 'acl_resources_table.get_record' and len(args) == 1 and ast.unparse(args[0]).startswith('int('):
      fail(e, 'get_record must be followed by .tableId')
    # ','.join(<generator over x.split(',')>)
    if isinstance(e.func, ast.Attribute) and e.func.attr == 'join' and ast.unparse(e.func.value) == "','" and \
       len(args) == 1 and isinstance(args[0], ast.GeneratorExp):
      g = args[0]
      if len(g.generators) != 1 or g.generators[0].ifs or not isinstance(g.generators[0].target, ast.Name):
        fail(e, 'generator')
      it = g.generators[0].iter
      if not (isinstance(it, ast.Call) and isinstance(it.func, ast.Attribute) and it.func.attr == 'split' and
              len(it.args) == 1 and ast.unparse(it.args[0]) == "','"):
        fail(e, 'join over something else than split')
      s = self.tr(it.func.value)
      name = g.generators[0].target.id
      saved = self.env.get(name)
      self.env[name] = (self.v(name), 'str')
      body = self.tr(g.elt)
      if saved is None:
        del self.env[name]
      else:
        self.env[name] = saved
      if s.ty != 'str' or body.ty != 'str':
        fail(e, 'join/split types')
      return T('(join_comma (map (fun %s => %s) (split_comma %s)))' % (self.v(name), body.term, s.term), 'str')
    fail(e, 'call')

  def attr_of_record_call(self, e):
    """acl_resources_table.get_record(int(rule_rec.resource)).tableId"""
    if isinstance(e, ast.Attribute) and e.attr == 'tableId' and isinstance(e.value, ast.Call) and \
       ast.unparse(e.value.func) == 'acl_resources_table.get_record' and len(e.value.args) == 1:
      a = e.value.args[0]
      if isinstance(a, ast.Call) and ast.unparse(a.func) == 'int' and len(a.args) == 1 and \
         self.env.get('acl_resources_table', (None, None))[1] == 'handle':
        x = self.tr(a.args[0])
        if x.ty == 'int':
          return T('(resource_tableId P %s)' % x.term, 'str')
    return None

  # ---- statements (continuation passing: k() is the term for what follows, in the environment at that point)
  LIST_TYPES = {'resource_updates': 'lpair_res', 'rule_updates': 'lpair_rule'}

  def assigned(self, stmts):
    out = []
    for s in stmts:
      if isinstance(s, ast.Assign) and len(s.targets) == 1:
        t = s.targets[0]
        if isinstance(t, ast.Name):
          out.append(t.id)
        elif isinstance(t, ast.Subscript) and isinstance(t.value, ast.Name):
          out.append(t.value.id)
      elif isinstance(s, ast.Expr) and isinstance(s.value, ast.Call) and isinstance(s.value.func, ast.Attribute) and \
          s.value.func.attr == 'append' and isinstance(s.value.func.value, ast.Name):
        out.append(s.value.func.value.id)
      elif isinstance(s, ast.If):
        out += self.assigned(s.body) + self.assigned(s.orelse)
      elif isinstance(s, ast.Try):
        out += self.assigned(s.body)
      elif isinstance(s, ast.For):
        out += self.assigned(s.body)
    return [x for i, x in enumerate(out) if x not in out[:i]]

  def branch(self, stmts, k):
    saved = dict(self.env)
    t = self.stmts(stmts, k)
    self.env = saved
    return t

  def stmts(self, ss, k):
    if not ss:
      return k()
    s, rest = ss[0], ss[1:]
    nxt = lambda: self.stmts(rest, k)
    if isinstance(s, ast.Expr) and isinstance(s.value, ast.Constant) and isinstance(s.value.value, str):
      return nxt()
    if isinstance(s, ast.Continue):
      if self.loop_tuple is None:
        fail(s, 'continue outside a loop')
      return self.loop_tuple
    if isinstance(s, ast.Assign) and len(s.targets) == 1:
      return self.assign(s, nxt)
    if isinstance(s, ast.Expr) and isinstance(s.value, ast.Call):
      c = s.value
      if isinstance(c.func, ast.Attribute) and c.func.attr == 'append' and isinstance(c.func.value, ast.Name) and len(c.args) == 1:
        name = c.func.value.id
        if name not in self.env:
          fail(s, 'append to an unknown list')
        x = self.tr(c.args[0])
        if self.env[name][1] != 'l' + x.ty:
          fail(s, 'append of %s to %s' % (x.ty, self.env[name][1]))
        return '(let %s := %s ++ [%s] in %s)' % (self.v(name), self.v(name), x.term, nxt())
      if ast.unparse(c.func) == 'useractions.doBulkUpdateFromPairs' and len(c.args) == 2 and \
         isinstance(c.args[0], ast.Constant) and isinstance(c.args[1], ast.Name) and self.loop_tuple is None:
        self.outputs.append((c.args[0].value, self.tr(c.args[1])))
        return nxt()
      fail(s, 'call statement')
    if isinstance(s, ast.If):
      return self.if_(s, nxt)
    if isinstance(s, ast.For):
      return self.for_(s, nxt)
    if isinstance(s, ast.Try):
      return self.try_(s, nxt)
    if isinstance(s, ast.FunctionDef):
      return self.closure(s, nxt)
    fail(s, 'statement')

  def assign(self, s, nxt):
    t = s.targets[0]
    if isinstance(t, ast.Subscript) and isinstance(t.value, ast.Name) and t.value.id in self.env:
      name = t.value.id
      cont, ty = self.env[name]
      val = self.tr(s.value)
      if ty == 'odict':
        key = self.tr(t.slice)
        if key.ty != 'ostr' or val.ty != 'ostr':
          fail(s, 'dict item types %s -> %s' % (key.ty, val.ty))
        return '(let %s := odict_set %s %s %s in %s)' % (cont, cont, key.term, val.term, nxt())
      if ty == 'info' and isinstance(t.slice, ast.Constant) and isinstance(t.slice.value, str) and val.ty == 'str':
        return '(let %s := info_set P %s %s %s in %s)' % (cont, cont, cstr(t.slice.value), val.term, nxt())
      fail(s, 'item assignment')
    if not isinstance(t, ast.Name):
      fail(s, 'assignment target')
    if ast.unparse(s.value) == TABLE_HANDLE:
      self.env[t.id] = ('', 'handle')
      return nxt()
    special = self.attr_of_record_call(s.value)
    x = special or self.tr(s.value)
    ty = x.ty
    if ty == 'emptylist':
      ty = self.LIST_TYPES.get(t.id)
      if ty is None:
        fail(s, 'list %s of unknown element type' % t.id)
    if ty in ('none', 'handle'):
      fail(s, 'assignment of %s' % ty)
    self.env[t.id] = (self.v(t.id), ty)
    return '(let %s := %s in %s)' % (self.v(t.id), x.term, nxt())

  def if_(self, s, nxt):
    # `if x:` on an optional string narrows x to a (non-empty) string inside the branch
    if isinstance(s.test, ast.Name) and self.env.get(s.test.id, (None, None))[1] == 'ostr':
      name = self.v(s.test.id)
      saved = dict(self.env)
      self.env[s.test.id] = (name + "'", 'str')
      then = self.stmts(s.body, nxt)
      self.env = saved
      els = self.branch(s.orelse, nxt)
      return "(match %s with Some %s' => if str_truthy %s' then %s else %s | None => %s end)" % (
        name, name, name, then, els, els)
    c = self.truth(s.test)
    return '(if %s then %s else %s)' % (c, self.branch(s.body, nxt), self.branch(s.orelse, nxt))

  def for_(self, s, nxt):
    src = ast.unparse(s.iter)
    if src not in ROWS or s.orelse or not isinstance(s.target, ast.Name) or self.loop_tuple is not None:
      fail(s, 'loop')
    rows, ty = ROWS[src]
    carried = [x for x in self.assigned(s.body) if x in self.env]
    if not carried:
      fail(s, 'loop without effect')
    names = [self.v(x) for x in carried]
    tup = names[0] if len(names) == 1 else '(' + ', '.join(names) + ')'
    pat = names[0] if len(names) == 1 else "'" + tup
    saved = dict(self.env)
    self.env[s.target.id] = (self.v(s.target.id), ty)
    self.loop_tuple = tup
    body = self.stmts(s.body, lambda: tup)
    self.loop_tuple = None
    types = {x: self.env[x] for x in carried}
    self.env = saved
    self.env.update(types)
    return '(let %s := fold_left (fun acc_ %s => let %s := acc_ in %s) %s %s in %s)' % (
      pat, self.v(s.target.id), pat, body, rows, tup, nxt())

  def try_(self, s, nxt):
    h = s.handlers
    if len(h) != 1 or s.orelse or s.finalbody or ast.unparse(h[0].type) != 'Exception' or len(h[0].body) != 1 or \
       not ast.unparse(h[0].body[0]).startswith('log.warning('):
      fail(s, 'try shape')
    first = s.body[0]
    if not (isinstance(first, ast.Assign) and len(first.targets) == 1 and isinstance(first.targets[0], ast.Name) and
            isinstance(first.value, ast.Call) and ast.unparse(first.value.func) == 'json.loads' and len(first.value.args) == 1):
      fail(s, 'the try block must start with x = json.loads(...)')
    arg = self.tr(first.value.args[0])
    if arg.ty != 'str':
      fail(s, 'json.loads argument')
    name = first.targets[0].id
    failed = self.branch([], nxt)
    saved = dict(self.env)
    self.env[name] = (self.v(name), 'info')
    ok = self.stmts(s.body[1:], nxt)
    self.env = saved
    return '(match json_loads P %s with Some %s => %s | None => %s end)' % (arg.term, self.v(name), ok, failed)

  def closure(self, s, nxt):
    if [a.arg for a in s.args.args] != ['subject'] or s.args.defaults or s.decorator_list or s.name != 'renamer':
      fail(s, 'closure signature')
    saved = dict(self.env)
    self.env['subject'] = ('subject', 'subject')
    body = self.fbody(s.body)
    self.env = saved
    self.env[s.name] = (s.name, 'renamer')
    return '(let %s := fun subject : gsubject => %s in %s)' % (s.name, body, nxt())

  def fbody(self, ss):
    """Body of the closure: a term of type option str."""
    if not ss:
      raise Untranslatable('a path through renamer does not return')
    s, rest = ss[0], ss[1:]
    if isinstance(s, ast.Return):
      x = self.tr(s.value) if s.value is not None else T('None', 'none')
      if x.ty not in ('ostr', 'none'):
        fail(s, 'renamer returns %s' % x.ty)
      return x.term
    if isinstance(s, ast.Assign) and len(s.targets) == 1 and isinstance(s.targets[0], ast.Name):
      x = self.attr_of_record_call(s.value) or self.tr(s.value)
      if x.ty not in ('str', 'ostr'):
        fail(s, 'local of type %s' % x.ty)
      saved = dict(self.env)
      self.env[s.targets[0].id] = (self.v(s.targets[0].id), x.ty)
      body = self.fbody(rest)
      self.env = saved
      return '(let %s := %s in %s)' % (self.v(s.targets[0].id), x.term, body)
    if isinstance(s, ast.If):
      c = self.truth(s.test)
      saved = dict(self.env)
      then = self.fbody(list(s.body) + rest)
      self.env = dict(saved)
      els = self.fbody(list(s.orelse) + rest)
      self.env = saved
      return '(if %s then %s else %s)' % (c, then, els)
    fail(s, 'statement in renamer')


def translate_perform_acl(path):
  with open(path) as f:
    mod = ast.parse(f.read())
  fns = [s for s in mod.body if isinstance(s, ast.FunctionDef) and s.name == 'perform_acl_rule_renames']
  if len(fns) != 1:
    raise Untranslatable('perform_acl_rule_renames not found')
  fn = fns[0]
  if [a.arg for a in fn.args.args] != ['useractions', 'col_renames_dict'] or fn.args.defaults or fn.decorator_list:
    fail(fn, 'signature')
  t = Fn(fn, {})
  t.loop_tuple = None
  def final():
    if [name for name, _ in t.outputs] != ['_grist_ACLResources', '_grist_ACLRules'] or \
       [x.ty for _, x in t.outputs] != ['lpair_res', 'lpair_rule']:
      raise Untranslatable('the outputs are not the two doBulkUpdateFromPairs calls')
    return '(%s, %s)' % (t.outputs[0][1].term, t.outputs[1][1].term)
  body = t.stmts(fn.body, final)
  return ('Definition gen_perform_acl (P : acl_prims) (col_renames_dict : renames) (resources : list resource)\n'
          '  (rules : list rule) : list (resource * upd) * list (rule * upd) :=\n  %s.\n' % body)


# ---------------------------------------------------------------------------------------------
# predicate_formula.process_renames

PR_OPAQUE = """opaque calls and what they become (Model/PredicateRename.v):
  get_dollar_replacer(formula)                     the parameter `dollars : option (list Z)` (None: SyntaxError)
  dollar_replacer.get_text()                       undollar_text formula dollars
  ast.parse(formula_nodollar, mode='eval') inside asttokens.ASTTokens(...)
                                                   the parameter `parsed : option expr` (None: SyntaxError)
  collector.visit(atok.tree)                       gen_visit (Some k) tree []  (GristGen.Predicate_gen)
  collector.entities                               the entities that visit appended
  dollar_replacer.map_back_patch(textbuilder.make_patch(text, a, b, new))   map_back_patch dollars a b new
  textbuilder.Replacer(textbuilder.Text(formula), patches).get_text()       apply_patches formula patches"""


class ProcessRenames(object):
  """Statements in an exception monad: SyntaxError inside `try ... except SyntaxError:` runs the handler, outside it
  escapes (PRSyntaxError); an internal error of the collector escapes as PRInternal."""

  def __init__(self):
    self.env = {'formula': ('formula', 'str'), 'renamer': ('renamer', 'renamer'), 'collector': ('', 'collector')}

  def expr(self, e):
    if isinstance(e, ast.Name) and e.id in self.env:
      return T(*self.env[e.id])
    if isinstance(e, ast.Attribute) and isinstance(e.value, ast.Name) and self.env.get(e.value.id, (0, 0))[1] == 'subject':
      f = {'start_pos': ('g_pos', 'int'), 'name': ('g_name', 'str')}.get(e.attr)
      if f:
        return T('(%s %s)' % (f[0], self.env[e.value.id][0]), f[1])
    if isinstance(e, ast.BinOp) and isinstance(e.op, ast.Add):
      a, b = self.expr(e.left), self.expr(e.right)
      if a.ty == b.ty == 'int':
        return T('(%s + %s)' % (a.term, b.term), 'int')
    if isinstance(e, ast.Call) and ast.unparse(e.func) == 'len' and len(e.args) == 1:
      x = self.expr(e.args[0])
      if x.ty == 'str':
        return T('(Z.of_nat (List.length %s))' % x.term, 'int')
    if isinstance(e, ast.Call) and ast.unparse(e.func) == 'renamer' and len(e.args) == 1 and not e.keywords:
      x = self.expr(e.args[0])
      if x.ty == 'subject':
        return T('(renamer %s)' % x.term, 'ostr')
    if isinstance(e, ast.Call) and ast.unparse(e.func) == 'dollar_replacer.get_text' and not e.args and \
       self.env.get('dollar_replacer', (0, 0))[1] == 'dollars':
      return T('(undollar_text formula dollar_replacer)', 'str')
    fail(e, 'expression')

  def block(self, ss, k, handler):
    """handler: term to run when a SyntaxError is raised here (None: it escapes)."""
    raise_ = handler if handler is not None else 'PRSyntaxError'
    if not ss:
      return k()
    s, rest = ss[0], ss[1:]
    nxt = lambda: self.block(rest, k, handler)
    src = ast.unparse(s)
    if isinstance(s, ast.Expr) and isinstance(s.value, ast.Constant):
      return nxt()
    if src == 'patches = []':
      self.env['patches'] = ('patches', 'lpatch')
      return '(let patches := [] in %s)' % nxt()
    if src == 'dollar_replacer = get_dollar_replacer(formula)':
      self.env['dollar_replacer'] = ('dollar_replacer', 'dollars')
      return '(match dollars with Some dollar_replacer => %s | None => %s end)' % (nxt(), raise_)
    if isinstance(s, ast.Assign) and len(s.targets) == 1 and isinstance(s.targets[0], ast.Name) and \
       isinstance(s.value, ast.Call) and ast.unparse(s.value.func) == 'dollar_replacer.get_text':
      x = self.expr(s.value)
      self.env[s.targets[0].id] = (s.targets[0].id, 'nodollar')
      return '(let %s := %s in %s)' % (s.targets[0].id, x.term, nxt())
    if isinstance(s, ast.Assign) and len(s.targets) == 1 and isinstance(s.targets[0], ast.Name) and \
       isinstance(s.value, ast.Call) and ast.unparse(s.value.func) == 'asttokens.ASTTokens':
      c = s.value
      if len(c.args) != 1 or self.env.get(ast.unparse(c.args[0]), (0, 0))[1] != 'nodollar' or len(c.keywords) != 1 or \
         c.keywords[0].arg != 'tree' or ast.unparse(c.keywords[0].value) != "ast.parse(%s, mode='eval')" % ast.unparse(c.args[0]):
        fail(s, 'ASTTokens call')
      self.env[s.targets[0].id] = ('tree', 'atok')
      return '(match parsed with Some tree => %s | None => %s end)' % (nxt(), raise_)
    if isinstance(s, ast.Expr) and isinstance(s.value, ast.Call) and ast.unparse(s.value.func) == 'collector.visit' and \
       len(s.value.args) == 1 and isinstance(s.value.args[0], ast.Attribute) and s.value.args[0].attr == 'tree' and \
       self.env.get(ast.unparse(s.value.args[0].value), (0, 0))[1] == 'atok':
      self.env['collector.entities'] = ('entities', 'lsubject')
      return ('(match gen_visit (Some k) tree [] with GOk (_, entities) => %s | GFail (GErr _) => %s '
              '| GFail (GInternal w) => PRInternal w end)' % (nxt(), raise_))
    if isinstance(s, ast.Try):
      h = s.handlers
      if len(h) != 1 or s.orelse or s.finalbody or ast.unparse(h[0].type) != 'SyntaxError' or h[0].name:
        fail(s, 'try shape')
      saved = dict(self.env)
      hterm = self.block(h[0].body, lambda: fail(s, 'the handler must return'), handler)
      self.env = saved
      return self.block(s.body, nxt, hterm)
    if isinstance(s, ast.Return):
      if src == 'return textbuilder.Replacer(textbuilder.Text(formula), patches).get_text()' and 'patches' in self.env:
        return '(PRText (apply_patches formula patches))'
      x = self.expr(s.value)
      if x.ty == 'str':
        return '(PRText %s)' % x.term
      fail(s, 'return')
    if isinstance(s, ast.For):
      if ast.unparse(s.iter) != 'collector.entities' or 'collector.entities' not in self.env or s.orelse or \
         not isinstance(s.target, ast.Name):
        fail(s, 'loop')
      saved = dict(self.env)
      self.env[s.target.id] = (s.target.id, 'subject')
      body = self.block(s.body, lambda: 'patches', None)
      self.env = saved
      return '(let patches := fold_left (fun patches %s => %s) entities patches in %s)' % (s.target.id, body, nxt())
    if isinstance(s, ast.Assign) and len(s.targets) == 1 and isinstance(s.targets[0], ast.Name):
      x = self.expr(s.value)
      self.env[s.targets[0].id] = (s.targets[0].id, x.ty)
      return '(let %s := %s in %s)' % (s.targets[0].id, x.term, nxt())
    if isinstance(s, ast.If) and not s.orelse and isinstance(s.test, ast.Compare) and len(s.test.ops) == 1 and \
       isinstance(s.test.ops[0], ast.IsNot) and ast.unparse(s.test.comparators[0]) == 'None' and \
       isinstance(s.test.left, ast.Name) and self.env.get(s.test.left.id, (0, 0))[1] == 'ostr':
      name = s.test.left.id
      saved = dict(self.env)
      self.env[name] = (name + "'", 'str')
      then = self.block(s.body, nxt, handler)
      self.env = saved
      return "(match %s with Some %s' => %s | None => %s end)" % (name, name, then, nxt())
    if isinstance(s, ast.Assign) and len(s.targets) == 1 and isinstance(s.targets[0], ast.Tuple) and \
       [ast.unparse(t) for t in s.targets[0].elts[:2]] == ['_', '_'] and len(s.targets[0].elts) == 3 and \
       isinstance(s.value, ast.Call) and ast.unparse(s.value.func) == 'dollar_replacer.map_back_patch' and \
       len(s.value.args) == 1 and isinstance(s.value.args[0], ast.Call) and \
       ast.unparse(s.value.args[0].func) == 'textbuilder.make_patch' and len(s.value.args[0].args) == 4:
      mp = s.value.args[0].args
      text, a, b, new = [self.expr(x) for x in mp]
      if ast.unparse(mp[0]) != 'dollar_replacer.get_text()' or (a.ty, b.ty, new.ty) != ('int', 'int', 'str'):
        fail(s, 'make_patch arguments')
      name = ast.unparse(s.targets[0].elts[2])
      self.env[name] = (name, 'patch')
      return '(let %s := map_back_patch dollar_replacer %s %s %s in %s)' % (name, a.term, b.term, new.term, nxt())
    if isinstance(s, ast.Expr) and isinstance(s.value, ast.Call) and ast.unparse(s.value.func) == 'patches.append' and \
       len(s.value.args) == 1 and self.env.get(ast.unparse(s.value.args[0]), (0, 0))[1] == 'patch':
      return '(let patches := patches ++ [%s] in %s)' % (ast.unparse(s.value.args[0]), nxt())
    fail(s, 'statement')


def translate_process_renames(path):
  with open(path) as f:
    mod = ast.parse(f.read())
  fns = [s for s in mod.body if isinstance(s, ast.FunctionDef) and s.name == 'process_renames']
  if len(fns) != 1 or [a.arg for a in fns[0].args.args] != ['formula', 'collector', 'renamer'] or fns[0].args.defaults:
    raise Untranslatable('process_renames(formula, collector, renamer) not found')
  t = ProcessRenames()
  body = t.block(fns[0].body, lambda: fail(fns[0], 'process_renames falls off its end'), None)
  return ('Definition gen_process_renames (k : collector) (renamer : gent -> option str) (formula : str)\n'
          '  (dollars : option (list Z)) (parsed : option expr) : pr_result :=\n  %s.\n' % body)


# ---------------------------------------------------------------------------------------------
# predicate_formula.parse_predicate_formula

PF_PINNED_PROLOGUE = "if isinstance(formula, bytes):\n    formula = formula.decode('utf8')"
PF_PINNED_HANDLER = ("_, _, exc_traceback = sys.exc_info()\n"
                     "raise SyntaxError('%s on line %s col %s' % (e.args[0], e.lineno, e.offset)).with_traceback(exc_traceback)")
PF_OPAQUE = """opaque calls of parse_predicate_formula and what they become:
  get_dollar_replacer(formula).get_text()          the parameter `dollar_ok : bool` (false: SyntaxError); the text after
                                                   it is what `parsed` and `tokens` are about
  ast.parse(formula, mode='eval')                  the parameter `parsed : option expr` (None: SyntaxError)
  TreeConverter().visit(tree)                      gen_visit None tree []  (GristGen.Predicate_gen)
  tokenize.generate_tokens(io.StringIO(formula).readline)
                                                   the parameter `tokens : list (bool * str)`: (type == COMMENT, string)
  the except handler re-raises SyntaxError with line/column appended to the message (pinned text): the same error"""


class ParseFormula(object):
  def __init__(self):
    self.env = {}

  def expr(self, e):
    """Expressions of the comment loop: part[0] == tokenize.COMMENT, part[1], s.startswith('#'), s[1:], s.strip(), [..]"""
    if isinstance(e, ast.Name) and e.id in self.env:
      return T(*self.env[e.id])
    if isinstance(e, ast.Constant) and isinstance(e.value, str):
      return T('(lit %s)' % cstr(e.value), 'str')
    if isinstance(e, ast.Subscript) and isinstance(e.value, ast.Name) and self.env.get(e.value.id, (0, 0))[1] == 'token' and \
       isinstance(e.slice, ast.Constant) and e.slice.value in (0, 1):
      return T('(%s %s)' % ('fst' if e.slice.value == 0 else 'snd', self.env[e.value.id][0]),
               'is_comment' if e.slice.value == 0 else 'str')
    if isinstance(e, ast.Subscript) and isinstance(e.slice, ast.Slice) and e.slice.upper is None and e.slice.step is None and \
       isinstance(e.slice.lower, ast.Constant) and isinstance(e.slice.lower.value, int) and e.slice.lower.value >= 0:
      x = self.expr(e.value)
      if x.ty == 'str':
        return T('(skipn %d %s)' % (e.slice.lower.value, x.term), 'str')
    if isinstance(e, ast.Compare) and len(e.ops) == 1 and isinstance(e.ops[0], ast.Eq) and \
       ast.unparse(e.comparators[0]) == 'tokenize.COMMENT':
      x = self.expr(e.left)
      if x.ty == 'is_comment':
        return T(x.term, 'bool')
    if isinstance(e, ast.BoolOp) and isinstance(e.op, ast.And):
      vals = [self.expr(v) for v in e.values]
      if all(v.ty == 'bool' for v in vals):
        return T('(' + ' && '.join(v.term for v in vals) + ')', 'bool')
    if isinstance(e, ast.Call) and isinstance(e.func, ast.Attribute) and not e.keywords:
      x = self.expr(e.func.value)
      if x.ty == 'str' and e.func.attr == 'strip' and not e.args:
        return T('(py_strip %s)' % x.term, 'str')
      if x.ty == 'str' and e.func.attr == 'startswith' and len(e.args) == 1 and isinstance(e.args[0], ast.Constant) and \
         isinstance(e.args[0].value, str) and len(e.args[0].value) == 1:
        return T('(match %s with c_ :: _ => c_ =? %d | [] => false end)' % (x.term, ord(e.args[0].value)), 'bool')
    if isinstance(e, ast.List):
      items = []
      for el in e.elts:
        x = self.expr(el)
        if x.ty == 'pv':
          items.append(x.term)
        elif x.ty == 'str':
          items.append('(PLeaf (CStr %s))' % x.term)
        else:
          fail(el, 'list element')
      return T('(PList [%s])' % '; '.join(items), 'pv')
    fail(e, 'expression')

  def body(self, ss, raise_):
    """The statements of the try block; returns a term of type gres pyval."""
    if not ss:
      raise Untranslatable('parse_predicate_formula falls off the end of its try block')
    s, rest = ss[0], ss[1:]
    src = ast.unparse(s)
    if src == 'formula = get_dollar_replacer(formula).get_text()':
      return '(if dollar_ok then %s else %s)' % (self.body(rest, raise_), raise_('ErrParser'))
    if src == "tree = ast.parse(formula, mode='eval')":
      self.env['tree'] = ('tree', 'node')
      return '(match parsed with Some tree => %s | None => %s end)' % (self.body(rest, raise_), raise_('ErrParser'))
    if isinstance(s, ast.Assign) and len(s.targets) == 1 and isinstance(s.targets[0], ast.Name) and \
       ast.unparse(s.value) == 'TreeConverter().visit(tree)' and 'tree' in self.env:
      name = s.targets[0].id
      self.env[name] = (name, 'pv')
      return ('(match gen_visit None tree [] with GOk (%s, _) => %s | GFail (GErr e_) => %s '
              '| GFail (GInternal w_) => GFail (GInternal w_) end)' % (name, self.body(rest, raise_), raise_('e_')))
    if isinstance(s, ast.For):
      # for part in tokens: if <cond>: <one assignment>; break      (the first matching token, if any)
      if ast.unparse(s.iter) != 'tokenize.generate_tokens(io.StringIO(formula).readline)' or s.orelse or \
         not isinstance(s.target, ast.Name) or len(s.body) != 1 or not isinstance(s.body[0], ast.If) or s.body[0].orelse:
        fail(s, 'token loop')
      iff = s.body[0]
      if len(iff.body) != 2 or not isinstance(iff.body[1], ast.Break) or not isinstance(iff.body[0], ast.Assign) or \
         len(iff.body[0].targets) != 1 or not isinstance(iff.body[0].targets[0], ast.Name):
        fail(s, 'token loop body')
      part = s.target.id
      saved = dict(self.env)
      self.env[part] = (part, 'token')
      cond = self.expr(iff.test)
      val = self.expr(iff.body[0].value)
      self.env = saved
      name = iff.body[0].targets[0].id
      if cond.ty != 'bool' or val.ty != 'pv' or self.env.get(name, (0, 0))[1] != 'pv':
        fail(s, 'token loop types')
      return '(let %s := match find (fun %s => %s) tokens with Some %s => %s | None => %s end in %s)' % (
        name, part, cond.term, part, val.term, name, self.body(rest, raise_))
    if isinstance(s, ast.Return) and isinstance(s.value, ast.Name) and self.env.get(s.value.id, (0, 0))[1] == 'pv':
      return '(GOk %s)' % s.value.id
    fail(s, 'statement')


def translate_parse_formula(path):
  with open(path) as f:
    mod = ast.parse(f.read())
  fns = [s for s in mod.body if isinstance(s, ast.FunctionDef) and s.name == 'parse_predicate_formula']
  if len(fns) != 1 or [a.arg for a in fns[0].args.args] != ['formula'] or fns[0].args.defaults:
    raise Untranslatable('parse_predicate_formula(formula) not found')
  ss = list(fns[0].body)
  if ss and isinstance(ss[0], ast.Expr) and isinstance(ss[0].value, ast.Constant):
    ss = ss[1:]
  if len(ss) != 2 or ast.unparse(ss[0]) != PF_PINNED_PROLOGUE or not isinstance(ss[1], ast.Try):
    raise Untranslatable('parse_predicate_formula: expected the bytes prologue and one try statement')
  t = ss[1]
  if len(t.handlers) != 1 or t.orelse or t.finalbody or ast.unparse(t.handlers[0].type) != 'SyntaxError' or \
     t.handlers[0].name != 'e' or '\n'.join(ast.unparse(x) for x in t.handlers[0].body) != PF_PINNED_HANDLER:
    raise Untranslatable('parse_predicate_formula: the except handler is pinned to the re-raise with line and column')
  body = ParseFormula().body(t.body, lambda err: '(GFail (GErr %s))' % err)
  return ('Definition gen_parse_predicate_formula (dollar_ok : bool) (parsed : option expr) (tokens : list (bool * str))\n'
          '  : gres pyval :=\n  %s.\n' % body)
