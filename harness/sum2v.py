"""
sum2v -- fail-closed translator of the summary-table maintenance code of table.py / column.py into Gallina
(coq/gen/Summary_gen.v), over the prelude coq/theories/Lib/SmPrelude.v.  Property C12.

Translated: Table._add_update_summary_col: both `_updateSummary` helper formulas (simple and list mode),
Table.lookupOrAddDerived, Table.getSummarySourceGroup, BaseReferenceColumn/ReferenceListColumn._raw_get_without.
Anything outside the subset raises Untranslatable (the check turns it into core.TieBroken).

Method: statements become terms of the `flow` monad (fall through with the live variables / return / TypeError /
other exception); a loop is a fold over its iterable carrying the variables it assigns; an `if` joins the variables
assigned in its branches.  Variables are typed on the fly (a Python variable may change type: `lookup_value` is a
cell, then a list of elements).  The engine objects the code touches are bound by BIND below.
"""
import ast


class Untranslatable(Exception):
  pass


def bad(node, why):
  raise Untranslatable('%s at line %s: %s' % (why, getattr(node, 'lineno', '?'), ast.dump(node)[:160]))


# types: cell, elem, elems (list elem), elemss, Z, zs, units, kind, gc (kind * cell), gcs, bool, lval
LOCALS = {'lookup_values': 'elemss', 'result': 'zs', 'values_to_add': 'elemss', 'new_row_ids': 'units'}
CLASSES = {'column.ChoiceListColumn': 'ChoiceListColumn', 'column.ReferenceListColumn': 'ReferenceListColumn',
           'bytes': 'Tbytes', 'str': 'Tstr'}
SETDEFAULT_IDIOM = ("For(target=Tuple(elts=[Name(id='col', ctx=Store()), Name(id='value', ctx=Store())], ctx=Store()), "
                    "iter=Call(func=Attribute(value=Name(id='values_dict', ctx=Load()), attr='items', ctx=Load()), "
                    "args=[], keywords=[]), body=[Expr(value=Call(func=Attribute(value=Call(func=Attribute("
                    "value=Name(id='values_to_add', ctx=Load()), attr='setdefault', ctx=Load()), args=[Name(id='col', "
                    "ctx=Load()), List(elts=[], ctx=Load())], keywords=[]), attr='append', ctx=Load()), "
                    "args=[Name(id='value', ctx=Load())], keywords=[]))], orelse=[])")


def src(node):
  return ast.unparse(node)


def setdefault_idiom(s):
  """`for c, v in D.items(): V.setdefault(c, []).append(v)` -> (V, D) (appends the row D to the column-major V)."""
  try:
    a, b = s.target.elts
    call = s.body[0].value
    inner = call.func.value
    ok = (isinstance(s, ast.For) and not s.orelse and len(s.body) == 1 and isinstance(s.iter, ast.Call)
          and s.iter.func.attr == 'items' and not s.iter.args and not s.iter.keywords
          and call.func.attr == 'append' and inner.func.attr == 'setdefault'
          and [src(x) for x in inner.args] == [a.id, '[]'] and [src(x) for x in call.args] == [b.id]
          and not call.keywords and not inner.keywords)
    return (inner.func.value.id, s.iter.func.value.id) if ok else None
  except (AttributeError, ValueError, IndexError):
    return None


class Tr(object):
  def __init__(self):
    self.n = 0

  def fresh(self, base):
    self.n += 1
    return '%s_%d' % (base.strip('$'), self.n)

  # ---------------------------------------------------------------- expressions -> (binds, term, type)
  def expr(self, e, env):
    if isinstance(e, ast.Name):
      if e.id not in env:
        bad(e, 'unknown name')
      return [], env[e.id][0], env[e.id][1]
    if isinstance(e, ast.Constant):
      if isinstance(e.value, str):
        return [], '(EAtom (AStr [%s]))' % '; '.join('%d%%Z' % ord(c) for c in e.value), 'elem'
      if isinstance(e.value, int) and not isinstance(e.value, bool):
        return [], '(EAtom (AInt (%d)%%Z))' % e.value, 'elem'
      if e.value is None:
        return [], 'tt', 'unit'
      bad(e, 'constant')
    if isinstance(e, ast.Set) and len(e.elts) == 1:
      b, t, ty = self.expr(e.elts[0], env)
      if ty != 'elem':
        bad(e, 'set display of a non-constant')
      return b, '[%s]' % t, 'elems'
    if isinstance(e, ast.List) and len(e.elts) == 1:
      b, t, ty = self.expr(e.elts[0], env)
      if ty != 'cell':
        bad(e, 'list display')
      return b, '(py_list1 %s)' % t, 'elems'
    if isinstance(e, ast.UnaryOp) and isinstance(e.op, ast.Not):
      b, t, ty = self.expr(e.operand, env)
      if ty in ('elems', 'elemss', 'zs', 'units', 'empty'):
        return b, '(py_empty %s)' % t, 'bool'
      if ty == 'Z':
        return b, '(negb (py_truthy_z %s))' % t, 'bool'
      if ty == 'bool':
        return b, '(negb %s)' % t, 'bool'
      bad(e, 'not of type ' + ty)
    if isinstance(e, ast.BoolOp) and isinstance(e.op, ast.And):
      bs, ts = [], []
      for v in e.values:
        b, t, ty = self.truth(v, env)
        bs += b
        ts.append(t)
      return bs, '(%s)' % ' && '.join(ts), 'bool'
    if isinstance(e, ast.Subscript) and src(e.value) == 'self.all_columns' and isinstance(e.slice, ast.Name) \
       and env.get(e.slice.id, (None, None))[1] == 'gc':
      return [], '(fst %s)' % env[e.slice.id][0], 'kind'
    if isinstance(e, ast.Attribute) and e.attr == '_row_id':
      b, t, ty = self.expr(e.value, env)
      if ty != 'Z':
        bad(e, '_row_id of a non-record')
      return b, t, 'Z'
    if isinstance(e, ast.Call):
      return self.call(e, env)
    bad(e, 'expression')

  def truth(self, e, env):
    b, t, ty = self.expr(e, env)
    if ty == 'bool':
      return b, t, ty
    if ty in ('elems', 'elemss', 'zs', 'units', 'empty'):
      return b, '(negb (py_empty %s))' % t, 'bool'
    if ty == 'Z':
      return b, '(py_truthy_z %s)' % t, 'bool'
    bad(e, 'truth value of type ' + ty)

  def classes(self, node):
    elts = node.elts if isinstance(node, ast.Tuple) else [node]
    out = []
    for x in elts:
      if src(x) not in CLASSES:
        bad(x, 'unknown class')
      out.append(CLASSES[src(x)])
    return '[%s]' % '; '.join(out)

  def call(self, e, env):
    f = src(e.func)
    if f == 'isinstance' and len(e.args) == 2 and not e.keywords:
      b, t, ty = self.expr(e.args[0], env)
      fn = {'kind': 'kind_isinstance', 'cell': 'cell_isinstance'}.get(ty) or bad(e, 'isinstance on ' + ty)
      return b, '(%s %s %s)' % (fn, t, self.classes(e.args[1])), 'bool'
    if f == 'set' and len(e.args) == 1 and not e.keywords:
      b, t, ty = self.expr(e.args[0], env)
      if ty != 'cell':
        bad(e, 'set() of ' + ty)
      v = self.fresh('set')
      return b + [(v, '(py_set %s)' % t)], v, 'elems'
    if f == 'getattr' and len(e.args) == 2 and not e.keywords and src(e.args[0]) == 'rec' \
       and isinstance(e.args[1], ast.Name) and env.get(e.args[1].id, (None, None))[1] == 'gc':
      v = self.fresh('attr')
      return [(v, '(py_getattr (snd %s))' % env[e.args[1].id][0])], v, 'cell'
    if f == 'sorted' and len(e.args) == 1 and not e.keywords and isinstance(e.args[0], ast.Call) \
       and src(e.args[0].func) == 'itertools.product' and not e.args[0].keywords and len(e.args[0].args) == 1 \
       and isinstance(e.args[0].args[0], ast.Starred) and isinstance(e.args[0].args[0].value, ast.Name) \
       and env.get(e.args[0].args[0].value.id, (None, None))[1] == 'elemss':
      return [], '(py_sorted_product %s)' % env[e.args[0].args[0].value.id][0], 'elemss'
    if f == 'dict' and len(e.args) == 1 and not e.keywords and isinstance(e.args[0], ast.Call) \
       and src(e.args[0].func) == 'zip' and len(e.args[0].args) == 2 and src(e.args[0].args[0]) == 'groupby_cols' \
       and isinstance(e.args[0].args[1], ast.Name) and env.get(e.args[0].args[1].id, (None, None))[1] == 'elems':
      return [], env[e.args[0].args[1].id][0], 'elems'
    if f in ('summary_table.lookup_one_record', 'self.lookup_one_record') and not e.args and len(e.keywords) == 1 \
       and e.keywords[0].arg is None:
      b, t, ty = self.expr(e.keywords[0].value, env)
      if ty != 'elems':
        bad(e, 'lookup of ' + ty)
      v = self.fresh('rowid')
      return b + [(v, '(py_lookup_one %s %s)' % (env['$summ'][0], t))], v, 'Z'
    if f == 'self._engine.is_triggered_by_table_action' and len(e.args) == 1 and src(e.args[0]).endswith('.table_id'):
      return [], 'triggered', 'bool'
    bad(e, 'call')

  # ---------------------------------------------------------------- statements
  def assigned(self, stmts):
    """Python names (and '$summ') the statements may rebind."""
    out = []
    def add(x):
      if x not in out:
        out.append(x)
    for s in stmts:
      if isinstance(s, ast.Assign) and len(s.targets) == 1:
        t = s.targets[0]
        add(t.id if isinstance(t, ast.Name) else t.value.id if isinstance(t, ast.Attribute) and t.attr == '_row_id'
            and isinstance(t.value, ast.Name) else bad(s, 'assignment target'))
        if 'user_actions.AddRecord' in src(s.value):
          add('$summ')
      elif isinstance(s, ast.AugAssign) and isinstance(s.target, ast.Name):
        add(s.target.id)
        add('$summ')
      elif isinstance(s, ast.Expr) and isinstance(s.value, ast.Call) and isinstance(s.value.func, ast.Attribute) \
          and s.value.func.attr == 'append' and isinstance(s.value.func.value, ast.Name):
        add(s.value.func.value.id)
      elif isinstance(s, ast.For) and setdefault_idiom(s):
        add(setdefault_idiom(s)[0])
      elif isinstance(s, (ast.If, ast.For, ast.With, ast.Try)):
        for sub in ([s.body, s.orelse] if not isinstance(s, (ast.With, ast.Try)) else
                    [s.body] + [h.body for h in getattr(s, 'handlers', [])]):
          for x in self.assigned(sub):
            add(x)
      elif isinstance(s, ast.Return):
        pass
      else:
        bad(s, 'statement')
    return out

  def binds(self, bs, body):
    for v, t in reversed(bs):
      body = 'bind %s (fun %s =>\n%s)' % (t, v, body)
    return body

  def pack(self, names, env):
    return 'tt' if not names else '(%s)' % ', '.join(env[n][0] for n in names)

  def unpack(self, names, env, types):
    env = dict(env)
    pats = []
    for n in names:
      v = self.fresh(n)
      env[n] = (v, types[n])
      pats.append(v)
    return ("_" if not names else "'(%s)" % ', '.join(pats)), env

  def block(self, stmts, env, k):
    if not stmts:
      return k(env)
    s, rest = stmts[0], stmts[1:]
    nxt = lambda e2: self.block(rest, e2, k)
    if isinstance(s, ast.Return):
      if rest:
        bad(s, 'code after return')
      b, t, ty = self.expr(s.value, env) if not (isinstance(s.value, ast.List) and not s.value.elts) else ([], '[]', 'zs')
      if ty == 'Z':
        t, ty = '[%s]' % t, 'zs'
      if ty != 'zs':
        bad(s, 'return of ' + ty)
      return self.binds(b, 'Ret (%s, %s)' % (env['$summ'][0], t))
    if isinstance(s, ast.Assign):
      t0 = s.targets[0]
      name = t0.id if isinstance(t0, ast.Name) else t0.value.id
      if isinstance(s.value, (ast.List, ast.Dict)) and not getattr(s.value, 'elts', getattr(s.value, 'keys', None)):
        v = self.fresh(name)
        e2 = dict(env); e2[name] = (v, 'empty')
        return 'let %s := [] in\n%s' % (v, nxt(e2))
      if 'user_actions.AddRecord' in src(s.value):
        c = s.value
        if not (src(c.func) == 'self._engine.user_actions.AddRecord' and len(c.args) == 3 and src(c.args[1]) == 'None'
                and src(c.args[0]).endswith('table_id') and not c.keywords):
          bad(s, 'AddRecord call')
        b, t, ty = self.expr(c.args[2], env)
        sv, v = self.fresh('summ'), self.fresh(name)
        e2 = dict(env); e2['$summ'] = (sv, 'summ'); e2[name] = (v, 'Z')
        return self.binds(b, "let '(%s, %s) := py_add_record %s %s in\n%s" % (sv, v, env['$summ'][0], t, nxt(e2)))
      b, t, ty = self.expr(s.value, env)
      v = self.fresh(name)
      e2 = dict(env); e2[name] = (v, ty)
      return self.binds(b, 'let %s := %s in\n%s' % (v, t, nxt(e2)))
    if isinstance(s, ast.AugAssign):
      c = s.value
      if not (isinstance(s.op, ast.Add) and isinstance(c, ast.Call)
              and src(c.func) == 'self._engine.user_actions.BulkAddRecord' and len(c.args) == 3 and not c.keywords
              and src(c.args[0]).endswith('table_id')):
        bad(s, 'augmented assignment')
      b1, t1, ty1 = self.expr(c.args[1], env)
      b2, t2, ty2 = self.expr(c.args[2], env)
      if (ty1, ty2, env[s.target.id][1]) != ('units', 'elemss', 'zs'):
        bad(s, 'BulkAddRecord argument types')
      sv, iv, v = self.fresh('summ'), self.fresh('ids'), self.fresh(s.target.id)
      e2 = dict(env); e2['$summ'] = (sv, 'summ'); e2[s.target.id] = (v, 'zs')
      return self.binds(b1 + b2, "let '(%s, %s) := py_bulk_add %s %s %s in\nlet %s := %s ++ %s in\n%s"
                        % (sv, iv, env['$summ'][0], t1, t2, v, env[s.target.id][0], iv, nxt(e2)))
    if isinstance(s, ast.Expr):
      c = s.value
      name = c.func.value.id
      b, t, ty = self.expr(c.args[0], env)
      lty = env[name][1]
      if lty == 'empty':
        lty = {'elems': 'elemss', 'Z': 'zs', 'unit': 'units'}.get(ty) or bad(s, 'append of ' + ty)
      want = {'elemss': 'elems', 'zs': 'Z', 'units': 'unit'}.get(lty)
      if len(c.args) != 1 or c.keywords or ty != want:
        bad(s, 'append of %s to %s' % (ty, lty))
      v = self.fresh(name)
      e2 = dict(env); e2[name] = (v, lty)
      return self.binds(b, 'let %s := %s ++ [%s] in\n%s' % (v, env[name][0], t, nxt(e2)))
    if isinstance(s, ast.For) and setdefault_idiom(s):
      vn, dn = setdefault_idiom(s)
      if env.get(vn, (0, 0))[1] not in ('empty', 'elemss') or env.get(dn, (0, 0))[1] != 'elems':
        bad(s, 'setdefault idiom on other types')
      v = self.fresh(vn)
      e2 = dict(env); e2[vn] = (v, 'elemss')
      return 'let %s := %s ++ [%s] in\n%s' % (v, env[vn][0], env[dn][0], nxt(e2))
    if isinstance(s, ast.With):
      if [src(i.context_expr) for i in s.items] != ['self._engine.user_actions.indirect_actions()']:
        bad(s, 'with')
      return self.block(s.body + rest, env, k)
    if isinstance(s, (ast.If, ast.For, ast.Try)):
      mods = [m for m in self.assigned([s]) if m in env]
      types = {}
      def leave(envb):
        for m in mods:
          t0, t1 = types.setdefault(m, envb[m][1]), envb[m][1]
          if t0 == 'empty':
            types[m] = t1
          elif t1 not in ('empty', t0):
            bad(s, 'variable %s has different types after the branches' % m)
        return 'Go %s' % self.pack(mods, envb)
      if isinstance(s, ast.If):
        b, t, _ = self.truth(s.test, env)
        th = self.block(s.body, env, leave)
        el = self.block(s.orelse, env, leave)
        m = 'bind (if %s then (%s) else (%s))' % (t, th, el)
      elif isinstance(s, ast.Try):
        if len(s.handlers) != 1 or src(s.handlers[0].type) != 'TypeError' or s.orelse or s.finalbody:
          bad(s, 'try')
        b = []
        m = 'bind (catch_type (%s) (%s))' % (self.block(s.body, env, leave), self.block(s.handlers[0].body, env, leave))
      else:
        if s.orelse or not isinstance(s.target, ast.Name):
          bad(s, 'for')
        b, it, ity = self.expr(s.iter, env)
        ety = {'gcs': 'gc', 'elemss': 'elems'}.get(ity) or bad(s, 'loop over ' + ity)
        tv = self.fresh(s.target.id)
        pat0, env0 = self.unpack(mods, env, {m: env[m][1] for m in mods})
        env0[s.target.id] = (tv, ety)
        body = self.block(s.body, env0, leave)
        for mm in mods:
          if env[mm][1] not in ('empty', types.get(mm)):
            bad(s, 'loop changes the type of ' + mm)
        m = 'bind (fold_flow (fun %s %s => %s) %s %s)' % (pat0 if mods else '(_ : unit)', tv, body, it,
                                                          self.pack(mods, env))
      pat, e2 = self.unpack(mods, env, types)
      return self.binds(b, '%s (fun %s =>\n%s)' % (m, pat, nxt(e2)))
    bad(s, 'statement')


# ------------------------------------------------------------------------------------------------
# the functions

def find_method(tree, cls, name):
  for node in ast.walk(tree):
    if isinstance(node, ast.ClassDef) and node.name == cls:
      for fn in node.body:
        if isinstance(fn, ast.FunctionDef) and fn.name == name:
          return fn
  raise Untranslatable('%s.%s not found' % (cls, name))


def strip_doc(body):
  return [b for b in body if not (isinstance(b, ast.Expr) and isinstance(b.value, ast.Constant) and isinstance(b.value.value, str))]


def helper_formulas(tree):
  """The two nested `_updateSummary` definitions of Table._add_update_summary_col: (simple, list mode)."""
  fn = find_method(tree, 'Table', '_add_update_summary_col')
  for s in fn.body:
    if isinstance(s, ast.If) and src(s.test) == 'summary_table._summary_simple':
      a = [x for x in s.body if isinstance(x, ast.FunctionDef)]
      b = [x for x in s.orelse if isinstance(x, ast.FunctionDef)]
      if len(a) == len(b) == 1 and len(s.body) == len(s.orelse) == 1 and a[0].name == b[0].name == '_updateSummary' \
         and [x.arg for x in a[0].args.args] == [x.arg for x in b[0].args.args] == ['rec', 'table']:
        return a[0], b[0]
  raise Untranslatable('_add_update_summary_col: `if summary_table._summary_simple:` with the two formulas not found')


def gen_list_mode(fn):
  tr = Tr()
  env = {'$summ': ('summ', 'summ'), 'groupby_cols': ('groupby_cols', 'gcs')}
  body = tr.block(strip_doc(fn.body), env, lambda e: 'Go tt')
  return ('Definition gen_update_summary_list (triggered : bool) (groupby_cols : list (kind * cell)) (summ : list mrow)\n'
          '  : flow unit :=\n%s.\n' % body)


def gen_lookup_or_add(fn):
  if [a.arg for a in fn.args.args] != ['self'] or fn.args.kwarg is None or fn.args.kwarg.arg != 'kwargs':
    raise Untranslatable('lookupOrAddDerived signature')
  tr = Tr()
  env = {'$summ': ('summ', 'summ'), 'kwargs': ('kwargs', 'elems')}
  body = tr.block(strip_doc(fn.body), env, lambda e: 'Go tt')
  return ('Definition gen_lookup_or_add (triggered : bool) (summ : list mrow) (kwargs : list elem) : flow unit :=\n%s.\n'
          % body)


def gen_simple_mode(fn):
  want = ("with self._engine.user_actions.indirect_actions():\n"
          "    return summary_table.lookupOrAddDerived(**{c: getattr(rec, c) for c in groupby_cols})")
  body = strip_doc(fn.body)
  if len(body) != 1 or src(body[0]) != want:
    raise Untranslatable('simple-mode _updateSummary is not `return summary_table.lookupOrAddDerived(**{c: getattr(rec, c) '
                         'for c in groupby_cols})`: %s' % src(fn)[:200])
  return ('Definition gen_update_summary_simple (triggered : bool) (groupby_cols : list (kind * cell)) (summ : list mrow)\n'
          '  : flow unit :=\n  bind (py_getattr_all (map snd groupby_cols)) (fun kwargs => gen_lookup_or_add triggered summ kwargs).\n')


def gen_group(fn):
  """getSummarySourceGroup: strict shape, the deciding tokens (which lookup, CONTAINS or not, `not result`) are read
  from the text."""
  body = strip_doc(fn.body)
  if len(body) != 1 or not isinstance(body[0], ast.If) or src(body[0].test) != 'self._summary_source_table' \
     or [src(x) for x in body[0].orelse] != ['return None']:
    raise Untranslatable('getSummarySourceGroup: outer if')
  ss = [x for x in body[0].body]
  if len(ss) != 4:
    raise Untranslatable('getSummarySourceGroup: %d statements' % len(ss))
  a, b, c, d = ss
  if not (isinstance(a, ast.Assign) and src(a.targets[0]) == 'lookup_value' and isinstance(a.value, ast.IfExp)):
    raise Untranslatable('getSummarySourceGroup: lookup_value')
  def lval(e):
    if src(e) == 'rec':
      return 'LRec rec'
    if src(e) == 'functions.CONTAINS(rec)':
      return 'LContains rec'
    raise Untranslatable('lookup value %s' % src(e))
  test = {'self._summary_simple': 'simple', 'not self._summary_simple': 'negb simple'}.get(src(a.value.test))
  if test is None:
    raise Untranslatable('getSummarySourceGroup: test %s' % src(a.value.test))
  lv = 'if %s then %s else %s' % (test, lval(a.value.body), lval(a.value.orelse))
  if src(b) != 'result = self._summary_source_table.lookup_records(**{self._summary_helper_col_id: lookup_value})':
    raise Untranslatable('getSummarySourceGroup: the lookup is %s' % src(b))
  if not (isinstance(c, ast.Expr) and isinstance(c.value, ast.Call) and src(c.value.func) == 'self._engine.docmodel.setAutoRemove'
          and len(c.value.args) == 2 and src(c.value.args[0]) == 'rec'):
    raise Untranslatable('getSummarySourceGroup: setAutoRemove')
  mark = {'not result': 'py_empty result', 'result': 'negb (py_empty result)'}.get(src(c.value.args[1]))
  if mark is None or src(d) != 'return result':
    raise Untranslatable('getSummarySourceGroup: mark/return')
  return ('Definition gen_group (simple : bool) (hs : list (Z * list Z)) (rec : Z) : list Z * bool :=\n'
          '  let lookup_value := %s in\n  let result := py_lookup_helper hs lookup_value in\n  (result, %s).\n' % (lv, mark))


def gen_without(col_tree):
  """column.py: BaseReferenceColumn._raw_get_without (a Reference cell: the default) and
  ReferenceListColumn._raw_get_without (the list without the removed ids; empty -> None)."""
  base = strip_doc(find_method(col_tree, 'BaseReferenceColumn', '_raw_get_without').body)
  if [src(x) for x in base] != ['return self.getdefault()']:
    raise Untranslatable('BaseReferenceColumn._raw_get_without: %s' % [src(x) for x in base])
  lst = strip_doc(find_method(col_tree, 'ReferenceListColumn', '_raw_get_without').body)
  want = ['raw = self.raw_get(row_id)', None, 'return raw']
  if len(lst) != 3 or src(lst[0]) != want[0] or src(lst[2]) != want[2] or not isinstance(lst[1], ast.If) \
     or src(lst[1].test) != 'self.type_obj.is_right_type(raw)' or lst[1].orelse or len(lst[1].body) != 1:
    raise Untranslatable('ReferenceListColumn._raw_get_without shape')
  asg = lst[1].body[0]
  if not (isinstance(asg, ast.Assign) and src(asg.targets[0]) == 'raw' and isinstance(asg.value, ast.BoolOp)
          and isinstance(asg.value.op, ast.Or) and len(asg.value.values) == 2 and src(asg.value.values[1]) == 'None'
          and isinstance(asg.value.values[0], ast.ListComp)):
    raise Untranslatable('ReferenceListColumn._raw_get_without: assignment %s' % src(asg))
  lc = asg.value.values[0]
  g = lc.generators[0]
  if not (len(lc.generators) == 1 and src(lc.elt) == src(g.target) and src(g.iter) == 'raw' and len(g.ifs) == 1):
    raise Untranslatable('ReferenceListColumn._raw_get_without: comprehension %s' % src(lc))
  v = src(g.target)
  cond = {'%s not in target_row_ids' % v: 'negb (atom_in_ids r rem)', '%s in target_row_ids' % v: 'atom_in_ids r rem'}.get(src(g.ifs[0]))
  if cond is None:
    raise Untranslatable('ReferenceListColumn._raw_get_without: condition %s' % src(g.ifs[0]))
  return ('Definition gen_ref_without (rem : list Z) (c : cell) : cell := CAtom (AInt 0).\n\n'
          'Definition gen_reflist_without (rem : list Z) (c : cell) : cell :=\n'
          '  match c with\n  | CSeq raw => CSeq (filter (fun r => %s) raw)   (* is_right_type; `or None` reads as the empty list *)\n'
          '  | other => other\n  end.\n' % cond)


HEADER = '''(* GENERATED by harness/sum2v.py from %s -- do not edit.
   Table._add_update_summary_col (_updateSummary, both modes), Table.lookupOrAddDerived,
   Table.getSummarySourceGroup; column.py _raw_get_without.  Bridged to Model/Summary.v in Proofs/Summary_bridge.v. *)
From Coq Require Import ZArith List Bool.
Import ListNotations.
Require Import Grist.Model.Summary Grist.Lib.SmPrelude.
Open Scope Z_scope.

Definition atom_in_ids (a : atom) (ids : list Z) : bool := match a with AInt j => mem_z j ids | _ => false end.

'''


def translate(table_py, column_py):
  with open(table_py) as f:
    tree = ast.parse(f.read())
  with open(column_py) as f:
    ctree = ast.parse(f.read())
  simple, lst = helper_formulas(tree)
  parts = [HEADER % 'sandbox/grist/table.py, column.py',
           gen_lookup_or_add(find_method(tree, 'Table', 'lookupOrAddDerived')),
           gen_simple_mode(simple), gen_list_mode(lst),
           gen_group(find_method(tree, 'Table', 'getSummarySourceGroup')), gen_without(ctree)]
  return '\n'.join(parts)
