"""
C16: fail-closed translation of the deciding code of renames into Gallina (coq/gen/Renames_gen.v), and AST pins for the
glue that is not translated.  Regenerated from core.GRIST on every run by harness/props/c16.py:regenerate.

Translated (a statement or expression outside the recognised forms raises Untranslatable):
  useractions.UserActions._prepare_formula_renames      -> gen_prepare_loop1, gen_prepare_formula_renames
  gencode.GenCode.grist_names                            -> gen_grist_names
  useractions.UserActions._adjust_one_column_update.add  -> gen_add
  useractions.UserActions._updateTableRecords: the `table_renames = {...}` comprehension -> gen_table_renames
  useractions.UserActions._updateColumnRecords: the merge of the rewritten formulas into col_updates -> gen_merge_formulas
Pinned by hash of the AST with local names canonicalised and docstrings dropped (comments / layout / renaming of locals
do not matter): see PINNED.
"""
import ast
import copy
import hashlib
import json
import os


class Untranslatable(Exception):
  pass


def parse(path):
  with open(path) as f:
    return ast.parse(f.read())


def find(tree, qual):
  """A (nested) function or class by dotted name."""
  node = tree
  for part in qual.split('.'):
    for ch in ast.walk(node) if node is not tree else node.body:
      if isinstance(ch, (ast.FunctionDef, ast.ClassDef)) and ch.name == part and ch is not node:
        node = ch
        break
    else:
      raise Untranslatable('%s: no %s' % (qual, part))
  return node


def strip_doc(body):
  if body and isinstance(body[0], ast.Expr) and isinstance(body[0].value, ast.Constant) and isinstance(body[0].value.value, str):
    return body[1:]
  return body


def local_names(fn):
  names = set(a.arg for a in fn.args.args + fn.args.kwonlyargs)
  for n in ast.walk(fn):
    if isinstance(n, ast.Name) and isinstance(n.ctx, ast.Store):
      names.add(n.id)
    elif isinstance(n, ast.arg):
      names.add(n.arg)
  return names - {'self'}


class _Canon(ast.NodeTransformer):
  def __init__(self, names):
    self.locals, self.map = set(names), {}

  def canon(self, name):
    if name not in self.locals:
      return name
    return self.map.setdefault(name, 'v%d' % len(self.map))

  def visit_Name(self, node):
    return ast.copy_location(ast.Name(id=self.canon(node.id), ctx=node.ctx), node)

  def visit_arg(self, node):
    return ast.copy_location(ast.arg(arg=self.canon(node.arg), annotation=None), node)

  def visit_FunctionDef(self, node):
    node = self.generic_visit(node)
    node.body = strip_doc(node.body) or [ast.Pass()]
    if node.name in self.locals:
      node.name = self.canon(node.name)
    return node


def norm_hash(node):
  n = _Canon(local_names(node) if isinstance(node, ast.FunctionDef) else ()).visit(copy.deepcopy(node))
  return hashlib.sha1(ast.dump(n, annotate_fields=False, include_attributes=False).encode()).hexdigest()[:16]


# what is pinned: file -> dotted names (whole function / class bodies)
PINNED = {
  'useractions.py': ['UserActions._updateTableRecords', 'UserActions._updateColumnRecords',
                     'UserActions._adjust_one_column_update', 'UserActions._prepare_formula_renames',
                     'UserActions._pick_col_name', 'UserActions.RenameColumn', 'UserActions.RenameTable'],
  'gencode.py': ['GenCode.__init__', 'GenCode._make_formula_field', 'GenCode._make_data_field', 'GenCode._make_field',
                 'GenCode._make_table_model', 'GenCode.make_module', 'GenCode.grist_names'],
  'codebuilder.py': ['parse_grist_names', 'parse_order_group_by', 'infer', '_is_table', '_is_local', 'use_inferences',
                     'InferReferenceColumn', 'InferReferenceFormula', 'InferLookupReference', 'InferAllReference',
                     'InferLookupFindResult', 'InferPrevNextResult', 'InferComprehensionBase', 'make_formula_body',
                     '_do_make_formula_body', 'get_dollar_replacer'],
  'textbuilder.py': ['make_patch', 'validate_patch', 'Text', 'Replacer', 'Combiner'],
  'summary.py': ['skip_rules_update', 'decode_summary_table_name', 'encode_summary_table_name'],
}
PIN_FILE = os.path.join(os.path.dirname(os.path.abspath(__file__)), 'c16_pins.json')


def current_pins(grist_dir):
  out = {}
  for fn, quals in PINNED.items():
    tree = parse(os.path.join(grist_dir, fn))
    for q in quals:
      out['%s:%s' % (fn, q)] = norm_hash(find(tree, q))
  return out


def check_pins(grist_dir):
  """Names whose normalised AST differs from the text the model and the translator were written against."""
  with open(PIN_FILE) as f:
    want = json.load(f)
  have = current_pins(grist_dir)
  return sorted(k for k in want if have.get(k) != want[k]) + sorted(k for k in have if k not in want)


# ---- translation --------------------------------------------------------------------------------
def src(node):
  return ast.unparse(node)


def is_call(node, dotted):
  return isinstance(node, ast.Call) and src(node.func) == dotted


class Tr(object):
  """Expressions and straight-line statements of _prepare_formula_renames."""
  def __init__(self):
    self.opt = set()        # names holding the result of renames.get(...): an optional text

  def expr(self, e):
    if isinstance(e, ast.Name):
      return e.id
    if is_call(e, 'renames.get') and len(e.args) == 1 and isinstance(e.args[0], ast.Tuple) and len(e.args[0].elts) == 2 \
        and not e.keywords:
      return '(renames_get %s %s)' % tuple(self.expr(x) for x in e.args[0].elts)
    if is_call(e, 'self._docmodel.get_column_rec') and len(e.args) == 2 and not e.keywords:
      return '(get_column_rec %s %s)' % (self.expr(e.args[0]), self.expr(e.args[1]))
    if isinstance(e, ast.BoolOp) and isinstance(e.op, ast.Or) and len(e.values) == 2:
      return '(py_or_name %s %s)' % (self.expr(e.values[0]), self.expr(e.values[1]))
    if isinstance(e, ast.Attribute) and e.attr == 'formula' and isinstance(e.value, ast.Name):
      return '(formula_of %s)' % e.value.id
    if is_call(e, 'textbuilder.make_patch') and len(e.args) == 4 and not e.keywords:
      a = [self.expr(x) for x in e.args]
      if isinstance(e.args[3], ast.Name) and e.args[3].id in self.opt:
        a[3] = '(opt_text %s)' % a[3]
      return '(make_patch %s)' % ' '.join(a)
    if isinstance(e, ast.BinOp) and isinstance(e.op, ast.Add):
      return '(%s + %s)' % (self.expr(e.left), self.expr(e.right))
    if is_call(e, 'len') and len(e.args) == 1:
      return '(tlen %s)' % self.expr(e.args[0])
    if is_call(e, 'textbuilder.Replacer') and len(e.args) == 2 and is_call(e.args[0], 'textbuilder.Text') \
        and len(e.args[0].args) == 1 and not e.keywords and not e.args[0].keywords:
      return '(mk_replacer %s %s)' % (self.expr(e.args[0].args[0]), self.expr(e.args[1]))
    if isinstance(e, ast.Call) and isinstance(e.func, ast.Attribute) and e.func.attr == 'get_text' and not e.args \
        and isinstance(e.func.value, ast.Name):
      return '(replacer_get_text %s)' % e.func.value.id
    raise Untranslatable('expression %s' % src(e))

  def stmts(self, body, state, final):
    """Nested lets for `body`; `state` is the dict being built, `final` the Coq term the block evaluates to."""
    if not body:
      return final
    st, rest = body[0], body[1:]
    if isinstance(st, ast.Assign) and len(st.targets) == 1:
      t = st.targets[0]
      if isinstance(t, ast.Name):
        if is_call(st.value, 'renames.get'):
          self.opt.add(t.id)
        return 'let %s := %s in\n%s' % (t.id, self.expr(st.value), self.stmts(rest, state, final))
      if isinstance(t, ast.Tuple) and all(isinstance(x, ast.Name) for x in t.elts) and isinstance(st.value, ast.Name):
        return "let '(%s) := %s in\n%s" % (', '.join(x.id for x in t.elts), st.value.id, self.stmts(rest, state, final))
    if isinstance(st, ast.If) and not st.orelse and isinstance(st.test, ast.Name) and st.test.id in self.opt and not rest:
      return 'if py_truthy_opt %s then\n%s\nelse %s' % (st.test.id, self.stmts(st.body, state, final), final)
    if isinstance(st, ast.Expr) and isinstance(st.value, ast.Call) and not rest:
      c = st.value
      if isinstance(c.func, ast.Attribute) and c.func.attr == 'append' and len(c.args) == 1 and \
          is_call(c.func.value, state + '.setdefault') and len(c.func.value.args) == 2 and \
          isinstance(c.func.value.args[1], ast.List) and not c.func.value.args[1].elts:
        return 'dict_setdefault_append %s %s %s' % (state, self.expr(c.func.value.args[0]), self.expr(c.args[0]))
    raise Untranslatable('statement %s' % src(st))


def tr_prepare(fn):
  body = strip_doc(fn.body)
  if [a.arg for a in fn.args.args] != ['self', 'renames'] or len(body) != 5:
    raise Untranslatable('_prepare_formula_renames: signature / statement count')
  s0, l1, s2, l2, ret = body
  ok = (isinstance(s0, ast.Assign) and src(s0) == 'patches_map = {}' and isinstance(s2, ast.Assign) and
        src(s2) == 'result = {}' and isinstance(ret, ast.Return) and src(ret) == 'return result' and
        isinstance(l1, ast.For) and not l1.orelse and src(l1.iter) == 'self._engine.gencode.grist_names()' and
        isinstance(l1.target, ast.Tuple) and len(l1.target.elts) == 4 and
        isinstance(l2, ast.For) and not l2.orelse and src(l2.iter) == 'patches_map.items()' and
        src(l2.target) in ('(col_rec, patches)', 'col_rec, patches'))
  if not ok:
    raise Untranslatable('_prepare_formula_renames: outline')
  names = [src(x) for x in l1.target.elts]
  t = Tr()
  loop1 = ("Definition gen_prepare_loop1 (patches_map : pdict) (it : gname) : pdict :=\nlet '(%s) := it in\n%s.\n"
           % (', '.join(names), t.stmts(l1.body, 'patches_map', 'patches_map')))
  # second loop: straight-line lets ending in `result[col_rec] = <expr>`
  last = l2.body[-1]
  if not (isinstance(last, ast.Assign) and src(last.targets[0]) == 'result[col_rec]'):
    raise Untranslatable('_prepare_formula_renames: second loop must end in result[col_rec] = ...')
  t2 = Tr()
  inner = t2.stmts(l2.body[:-1], 'result', '(col_rec, %s)' % t2.expr(last.value))
  main = ("Definition gen_prepare_formula_renames (names : list gname) : list (colkey * R text) :=\n"
          "let patches_map := fold_left gen_prepare_loop1 names [] in\n"
          "map (fun kv => let '(col_rec, patches) := kv in\n%s) patches_map.\n" % inner)
  return loop1 + '\n' + main


def tr_grist_names(fn):
  body = strip_doc(fn.body)
  if len(body) != 1 or not isinstance(body[0], ast.Return) or \
      src(body[0].value) != 'codebuilder.parse_grist_names(self._full_builder)' or [a.arg for a in fn.args.args] != ['self']:
    raise Untranslatable('GenCode.grist_names is not `return codebuilder.parse_grist_names(self._full_builder)`: %s'
                         % '; '.join(src(s) for s in body)[:200])
  return ('Definition gen_grist_names {B N : Type} (parse_grist_names : B -> N) (self_full_builder : B) : N :=\n'
          '  parse_grist_names self_full_builder.\n')


def tr_add(fn):
  body = strip_doc(fn.body)
  args = [a.arg for a in fn.args.args]
  if len(body) != 1 or not isinstance(body[0], ast.Expr) or not is_call(body[0].value, 'results.extend') or len(args) != 2:
    raise Untranslatable('add(): not a single results.extend(...): %s' % '; '.join(src(s) for s in body)[:200])
  g = body[0].value.args[0] if len(body[0].value.args) == 1 else None
  if not (isinstance(g, ast.GeneratorExp) and len(g.generators) == 1 and not g.generators[0].ifs and
          isinstance(g.generators[0].target, ast.Name) and src(g.generators[0].iter) == args[0] and
          isinstance(g.elt, ast.Tuple) and len(g.elt.elts) == 2):
    raise Untranslatable('add(): generator shape')
  var = g.generators[0].target.id

  def ex(e):
    if isinstance(e, ast.Name) and e.id in (var, args[1]):
      return e.id
    if is_call(e, 'summary.skip_rules_update') and len(e.args) == 2 and not e.keywords:
      return '(skip_rules_update %s %s)' % (ex(e.args[0]), ex(e.args[1]))
    raise Untranslatable('add(): expression %s' % src(e))
  return ('Definition gen_add {C D : Type} (skip_rules_update : C -> D -> D) (results : list (C * D)) (%s : list C) '
          '(%s : D) : list (C * D) :=\n  results ++ map (fun %s => (%s, %s)) %s.\n'
          % (args[0], args[1], var, ex(g.elt.elts[0]), ex(g.elt.elts[1]), args[0]))


def tr_table_renames(fn):
  assigns = [n for n in ast.walk(fn) if isinstance(n, (ast.Assign, ast.AugAssign)) and
             any('table_renames' == getattr(x, 'id', None) or
                 (isinstance(x, ast.Subscript) and getattr(x.value, 'id', None) == 'table_renames')
                 for t in (n.targets if isinstance(n, ast.Assign) else [n.target]) for x in [t])]
  if len(assigns) != 1 or not isinstance(assigns[0].value, ast.DictComp):
    raise Untranslatable('_updateTableRecords: table_renames must be built by one dict comprehension (%d assignments)'
                         % len(assigns))
  c = assigns[0].value
  if not (len(c.generators) == 1 and src(c.generators[0].target) in ('(t, values)', 't, values') and
          src(c.generators[0].iter) == 'update_pairs' and len(c.generators[0].ifs) == 1 and
          src(c.generators[0].ifs[0]) == "has_diff_value(values, 'tableId', t.tableId)" and
          src(c.key) == 't.tableId' and src(c.value) == "values['tableId']"):
    raise Untranslatable('_updateTableRecords: table_renames comprehension: %s' % src(c)[:200])
  return ("Definition gen_table_renames {T V : Type} (tableId : T -> name) (values_tableId : V -> name)\n"
          "    (has_diff_value : V -> name -> bool) (update_pairs : list (T * V)) : list (name * name) :=\n"
          "  map (fun tv => let '(t, values) := tv in (tableId t, values_tableId values))\n"
          "      (filter (fun tv => let '(t, values) := tv in has_diff_value values (tableId t)) update_pairs).\n")


def tr_merge(fn):
  loops = [n for n in ast.walk(fn) if isinstance(n, ast.For) and src(n.iter) == 'sorted(formula_updates.items())']
  if len(loops) != 1:
    raise Untranslatable('_updateColumnRecords: expected one loop over sorted(formula_updates.items())')
  l = loops[0]
  if not (src(l.target) in ('(col_rec, new_formula)', 'col_rec, new_formula') and len(l.body) == 1 and not l.orelse and
          src(l.body[0]) == "col_updates.setdefault(col_rec, {}).setdefault('formula', new_formula)"):
    raise Untranslatable('_updateColumnRecords: formula merge loop: %s' % src(l)[:200])
  return ("Definition gen_merge_formulas (sorted_items : list (colkey * text) -> list (colkey * text))\n"
          "    (col_updates : udict) (formula_updates : list (colkey * text)) : udict :=\n"
          "  fold_left (fun col_updates it => let '(col_rec, new_formula) := it in\n"
          "             upd_setdefault_formula (upd_setdefault col_updates col_rec) col_rec new_formula)\n"
          "            (sorted_items formula_updates) col_updates.\n")


HEADER = '''(* GENERATED by /verif/harness/c16v.py from %s/{useractions,gencode}.py -- do not edit; regenerated on every run. *)
From Coq Require Import ZArith List Bool.
Import ListNotations.
Require Import Grist.Model.Renames Grist.Lib.RenPrelude.
Open Scope Z_scope.

Section Prepare.
  Variable renames_get : name -> option name -> option text.      (* renames.get((table_id, col_id)) *)
  Variable formula_of : colkey -> text.                            (* col_rec.formula *)

%s
End Prepare.

%s
'''


def generate(grist_dir):
  ua = parse(os.path.join(grist_dir, 'useractions.py'))
  gc = parse(os.path.join(grist_dir, 'gencode.py'))
  prep = tr_prepare(find(ua, 'UserActions._prepare_formula_renames'))
  rest = '\n'.join([tr_grist_names(find(gc, 'GenCode.grist_names')),
                    tr_add(find(ua, 'UserActions._adjust_one_column_update.add')),
                    tr_table_renames(find(ua, 'UserActions._updateTableRecords')),
                    tr_merge(find(ua, 'UserActions._updateColumnRecords'))])
  return HEADER % (grist_dir, '\n'.join('  ' + l if l else l for l in prep.split('\n')), rest)
