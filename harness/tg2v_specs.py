"""
Specs for harness/tg2v.py: which functions of /repo/sandbox/grist are translated for C15, their Gallina signature, and the
pinned glue of each (hash of the normalised statement -> what it is).  Order = dependency order of the generated file.
`generate(grist_dir)` returns the text of coq/gen/Trigger_gen.v.
"""
import ast
import os

from harness import tg2v

RW = {'RecalcWhen.DEFAULT': ('RecalcWhen_DEFAULT', 'Z'), 'RecalcWhen.NEVER': ('RecalcWhen_NEVER', 'Z'),
      'RecalcWhen.MANUAL_UPDATES': ('RecalcWhen_MANUAL_UPDATES', 'Z')}
ALLC = '(all_columns : list colinfo)'

SPECS = [
  dict(name='gen_recalcOnChangesToSelf', src='docmodel.py',
       path=['MetaTableExtras', '_grist_Tables_column', 'recalcOnChangesToSelf'], nested=True,
       params=[('rec', 'col'), ('table', None)], kind='expr', ret='bool', consts=RW),
  dict(name='gen_get_affected_rows', src='relation.py', path=['SingleRowsIdentityRelation', 'get_affected_rows'],
       params=[('input_rows', 'rows')], kind='expr', ret='rows', consts={'depend.ALL_ROWS': ('AllRows', 'allrows')}),
  dict(name='gen_is_formula', src='column.py', path=['BaseColumn', 'is_formula'], params=[], kind='expr', ret='bool',
       extra=['(_is_formula : bool)'], consts={'self._is_formula': ('_is_formula', 'bool')}),
  dict(name='gen_prevent_recalc', src='engine.py', path=['Engine', 'prevent_recalc'], kind='setfn',
       params=[('node', None), ('row_ids', 'zlist'), ('should_prevent', 'bool')], extra=['(prevented : list Z)'],
       setvar=('prevented', 'prevented'), setsource='5d41f0597593'),   # self._prevent_recompute_map.setdefault(node, set())
  dict(name='gen_trim_update_action', src='engine.py', path=['Engine', 'trim_update_action'], kind='expr', ret='action',
       params=[('action', 'action')], extra=['(raw_get : Z -> Z -> Z)'], columns_as_keys=True),
  dict(name='gen_invalidate_column', src='engine.py', path=['Engine', 'invalidate_column'],
       params=[('col_obj', 'col'), ('row_ids', 'rows'), ('recompute_data_col', 'bool')]),
  dict(name='gen_invalidate_records', src='engine.py', path=['Engine', 'invalidate_records'], extra=[ALLC],
       params=[('table_id', None), ('row_ids', 'rows'), ('col_ids', 'optzlist'), ('data_cols_to_recompute', 'zlist')]),
  dict(name='gen_add_records', src='engine.py', path=['Engine', 'add_records'], extra=[ALLC],
       params=[('table_id', None), ('row_ids', 'zlist'), ('column_values', 'dict')],
       glue={'74db6c4b8320': 'growto_size = ...', 'aed63238cbaa': "id_column = table.get_column('id')",
             'bbd3b6eacd58': 'id_column.growto(growto_size)', '2186038fa26b': 'id_column.set(row_id, row_id)',
             '06e2676a9c54': 'table.grow_to_max()', 'bbd3b6eacd58': 'column.growto(growto_size)',
             '7c3f1d0ed038': 'for row_id, value in zip(row_ids, values): column.set(row_id, value)'}),
  dict(name='gen_doc_BulkAddRecord', src='docactions.py', path=['DocActions', 'BulkAddRecord'], extra=[ALLC],
       params=[('table_id', None), ('row_ids', 'zlist'), ('column_values', 'dict')],
       glue={'84420ddb0c56': 'assert row_id not in table.row_ids', '2b93d38ede39': 'undo.append(BulkRemoveRecord)',
             'df7b64d9983c': 'summary.add_records'}),
  dict(name='gen_doc_BulkUpdateRecord', src='docactions.py', path=['DocActions', 'BulkUpdateRecord'], extra=[ALLC],
       params=[('table_id', None), ('row_ids', 'zlist'), ('columns', 'dict')],
       glue={'68d83484015a': 'assert row_id in table.row_ids', '61f96efcdae3': 'undo_values = {}',
             'ca7d1b37a432': 'undo_values[col_id] = [col.raw_get(r) for r in row_ids]',
             '2123e988cca9': 'undo.append(BulkUpdateRecord(undo_values))',
             '7c3f1d0ed038': 'for row_id, value in zip(row_ids, values): col.set(row_id, value)',
             'fb5efb8f8eab': "if table_id == '_grist_Tables_column' and (...): trigger_columns_changed()"}),
  dict(name='gen_doc_BulkRemoveRecord', src='docactions.py', path=['DocActions', 'BulkRemoveRecord'],
       extra=[ALLC, '(existing_rows : list Z -> list Z)'],
       params=[('table_id', None), ('row_ids', 'zlist')],
       glue={'f34ebf39258c': ('bind', 'row_ids', '(existing_rows row_ids)', 'zlist'),   # rows that exist in the table
             '61f96efcdae3': 'undo_values = {}', '2f61e5fbbd29': 'collect the undo values of the column',
             '33161c4373f1': 'column.unset(row_id)', '5a74b36ef6e0': 'undo.append(BulkAddRecord(undo_values))',
             'eca738e40b93': 'summary.remove_records'}),
  dict(name='gen_doBulkAddOrReplace', src='useractions.py', path=['UserActions', 'doBulkAddOrReplace'],
       extra=[ALLC, '(is_meta : bool)', '(filled_row_ids : list Z)'], consts=RW,
       params=[('table_id', None), ('row_ids', None), ('column_values', 'dict'), ('replace', None)],
       env={'filled_row_ids': ('filled_row_ids', 'zlist')}, action_kind={'action': 'BulkAddRecord'},
       glue={'157054854965': 'next_row_id = ...',
             '21ffaccf8f4b': 'validation of explicitly requested row ids',
             '3d007166eb2e': 'filled_row_ids = row_ids[:]', '812fed9ef17a': 'fill in automatic row ids',
             '74f9c865495a': 'summary.update_new_rows_map', '909e930b1c8c': 'ActionType = ...',
             # values are converted to the column types; the row ids and the set of columns stay
             '8da31eb41a02': ('bind', 'action', '(filled_row_ids, column_values)', 'action'),
             '76b0e01c356d': 'for a in extra_actions: self._do_extra_doc_action(a)',
             '6b81d965cdc7': "if table_id == '_grist_Validations': ...", 'e4fccc965f07': 'return filled_row_ids'}),
  dict(name='gen_doBulkUpdateRecord', src='useractions.py', path=['UserActions', 'doBulkUpdateRecord'],
       extra=[ALLC, '(raw_get : Z -> Z -> Z)', '(translate_new_row_ids : list Z -> list Z)',
              '(convert_action_values : bulk_action -> bulk_action)'], consts=RW,
       params=[('table_id', None), ('row_ids', 'zlist'), ('columns', 'dict')],
       opaque={'self._engine.out_actions.summary.translate_new_row_ids': ('translate_new_row_ids', [None, 'zlist'], 'zlist'),
               'self._engine.convert_action_values': ('convert_action_values', ['action'], 'action'),
               'self._engine.trim_update_action': ('gen_trim_update_action raw_get', ['action'], 'action')},
       glue_names=('extra_actions',), action_kind={'action': 'BulkUpdateRecord'},
       glue={'dda4d9c086bc': 'keep the last occurrence of a repeated row id (no-op without repeated ids)',
             '53ec0e0617b7': 'raw view sections', 'c50c9ed65a23': 'fields of raw view sections',
             'c2ab5ec26961': 'record card sections', 'b6b159f54abb': 'fields of record card sections',
             '76b0e01c356d': 'for a in extra_actions: self._do_extra_doc_action(a)'}),
  dict(name='gen_trigger_dependencies', src='engine.py', path=['Engine', '_maybe_update_trigger_dependencies'],
       extra=[ALLC, '(is_meta : bool)'], consts=RW, params=[],
       glue={'f1f23585b2fc': 'if not self._have_trigger_columns_changed: return',
             '6d09e3e821b8': 'self._have_trigger_columns_changed = False',
             '6fccde56d49f': 'self._recompute_edge_set.add(edge)'},
       # `rel` is a fresh SingleRowsIdentityRelation object, so the edge is never in the set already
       true_tests={'d457461b019d': 'edge not in self._recompute_edge_set'}),
]


def spec(name):
  return [s for s in SPECS if s['name'] == name][0]


# Functions the hand model was written from and that are NOT translated: pinned as a whole by the hash of their
# normalised AST (docstrings, comments, layout and the names of locals do not matter).
PINS = [
  ('engine.py', ['Engine', 'apply_user_actions'], 'PIN', 'exemptions cleared per user action; recalculation after the last'),
  ('engine.py', ['Engine', '_recompute_step'], 'PIN', 'dirty rows minus exempt rows; existing rows only'),
  ('engine.py', ['Engine', '_bring_all_up_to_date'], 'PIN', 'one recalculation pass per bundle'),
  ('engine.py', ['Engine', 'apply_doc_action'], 'PIN', 'dispatch of doc actions'),
  ('engine.py', ['Engine', 'trigger_columns_changed'], 'PIN', 'edges rebuilt only when flagged'),
  ('engine.py', ['Engine', 'delete_column'], 'PIN', 'a deleted column: ALL_ROWS to dependents, own edges cleared'),
  ('engine.py', ['Engine', '_update_table_model'], 'PIN', 'schema change = columns deleted and added'),
  ('depend.py', ['Graph', 'invalidate_deps'], 'PIN', 'transitive invalidation; ALL_ROWS clears and skips'),
  ('depend.py', ['Graph', 'clear_dependencies'], 'PIN', 'edges of an out-node'),
  ('column.py', ['BaseColumn', 'has_formula'], 'PIN', 'has_formula = a method is attached'),
  ('docactions.py', ['DocActions', 'RenameColumn'], 'PIN', 'rename = new column object under a new id'),
  ('docactions.py', ['DocActions', 'ModifyColumn'], 'PIN', 'type change = column object replaced under the same id'),
  ('docactions.py', ['DocActions', 'AddRecord'], 'PIN', 'AddRecord -> BulkAddRecord'),
  ('docactions.py', ['DocActions', 'UpdateRecord'], 'PIN', 'UpdateRecord -> BulkUpdateRecord'),
  ('docactions.py', ['DocActions', 'RemoveRecord'], 'PIN', 'RemoveRecord -> BulkRemoveRecord'),
  ('useractions.py', ['UserActions', '_do_doc_action'], 'PIN', 'a doc action is applied unless it affects no rows'),
  ('useractions.py', ['UserActions', 'BulkAddRecord'], 'PIN', 'user-level add -> doBulkAddOrReplace'),
  ('useractions.py', ['UserActions', 'BulkUpdateRecord'], 'PIN', 'user-level update -> _BulkUpdateRecord_decoded'),
  ('useractions.py', ['UserActions', '_BulkUpdateRecord_decoded'], 'PIN', '... -> doBulkUpdateRecord'),
  ('useractions.py', ['UserActions', 'ApplyUndoActions'], 'PIN', 'undo = doc actions in reverse order'),
  ('useractions.py', ['UserActions', 'BulkRemoveRecord'], 'PIN', 'user-level remove'),
]


PIN_HASHES = {
  'Engine.apply_user_actions': 'd63bee34b491', 'Engine._recompute_step': '0f055a6980bf',
  'Engine._bring_all_up_to_date': '19ad2c2e008a', 'Engine.apply_doc_action': 'e6f435e18e66',
  'Engine.trigger_columns_changed': '473eb272d720', 'Engine.delete_column': 'd61063c6535d',
  'Engine._update_table_model': 'e69ec747732e', 'Graph.invalidate_deps': 'b60f37d69689',
  'Graph.clear_dependencies': '986a6f16f71c', 'BaseColumn.has_formula': '0f88e50af589',
  'DocActions.RenameColumn': '3470f9faa4b0', 'DocActions.ModifyColumn': '1302acee6b82',
  'DocActions.AddRecord': '577331afcf65', 'DocActions.UpdateRecord': 'c9b63d6956b8',
  'DocActions.RemoveRecord': 'cf1bcfde364e', 'UserActions._do_doc_action': '98c86163d994',
  'UserActions.BulkAddRecord': 'e995471322d1', 'UserActions.BulkUpdateRecord': 'b3bb2ae72ce9',
  'UserActions._BulkUpdateRecord_decoded': 'ffde213e4604', 'UserActions.ApplyUndoActions': 'd235e72cc5fd',
  'UserActions.BulkRemoveRecord': '2d8a7662c3f6',
}


def pin_hash(tree, path):
  """Statement by statement (the dump of a FunctionDef node itself differs between Python versions)."""
  import hashlib
  fn = tg2v.find_func(tree, path)
  names = tg2v.local_names(fn)
  parts = [tg2v.norm_hash(s, names) for s in tg2v.strip_doc(fn.body)]
  parts.append('args=%d' % len(fn.args.args))
  parts.append('defaults=' + ','.join(ast.dump(d) for d in fn.args.defaults))
  parts.append('decorators=' + ','.join(tg2v.dotted(d) or ast.dump(d) for d in fn.decorator_list))
  return hashlib.sha1('|'.join(parts).encode()).hexdigest()[:12]


def check_pins(grist_dir):
  """-> list of 'file function: why' for pinned functions that no longer have the recorded shape."""
  bad = []
  trees = {}
  for src, path, _, why in PINS:
    want = PIN_HASHES.get('.'.join(path))
    if src not in trees:
      with open(os.path.join(grist_dir, src)) as fh:
        trees[src] = ast.parse(fh.read())
    try:
      got = pin_hash(trees[src], path)
    except tg2v.Untranslatable as e:
      bad.append('%s %s: %s' % (src, '.'.join(path), e))
      continue
    if got != want:
      bad.append('%s %s changed (pinned %s, now %s): %s' % (src, '.'.join(path), want, got, why))
  return bad


HEADER = '''(* GENERATED by harness/tg2v.py from %s on every run of ./check C15 -- do not edit. *)
From Coq Require Import ZArith List Bool.
Import ListNotations.
Require Import Grist.Lib.TrigEff.
Open Scope Z_scope.
'''


def recalc_when_consts(tree):
  """schema.RecalcWhen: class attributes NAME = <int>."""
  cls = [n for n in tree.body if isinstance(n, ast.ClassDef) and n.name == 'RecalcWhen']
  if len(cls) != 1:
    raise tg2v.Untranslatable('schema.RecalcWhen not found')
  out = []
  for s in tg2v.strip_doc(cls[0].body):
    if not (isinstance(s, ast.Assign) and len(s.targets) == 1 and isinstance(s.targets[0], ast.Name)
            and isinstance(s.value, ast.Constant) and isinstance(s.value.value, int) and not isinstance(s.value.value, bool)):
      raise tg2v.Untranslatable('schema.RecalcWhen: line %d is not NAME = <int>' % s.lineno)
    out.append('Definition RecalcWhen_%s : Z := %d.' % (s.targets[0].id, s.value.value))
  names = sorted(l.split()[1] for l in out)
  if names != ['RecalcWhen_DEFAULT', 'RecalcWhen_MANUAL_UPDATES', 'RecalcWhen_NEVER']:
    raise tg2v.Untranslatable('schema.RecalcWhen has constants %r' % names)
  return '\n'.join(out) + '\n'


def generate(grist_dir, only=None):
  trees = {}
  def tree(f):
    if f not in trees:
      with open(os.path.join(grist_dir, f)) as fh:
        trees[f] = ast.parse(fh.read())
    return trees[f]
  parts = [HEADER % grist_dir, recalc_when_consts(tree('schema.py'))]
  for sp in SPECS:
    if only and sp['name'] not in only:
      continue
    try:
      parts.append('(* %s %s *)\n' % (sp['src'], '.'.join(sp['path'])) + tg2v.translate_function(tree(sp['src']), sp))
    except tg2v.Untranslatable as e:
      raise tg2v.Untranslatable('%s %s: %s' % (sp['src'], '.'.join(sp['path']), e))
  return '\n'.join(parts)
