"""
Specs for harness/tg2v.py: which functions of /repo/sandbox/grist are translated for C15, their Gallina signature, and the
pinned glue of each (hash of the normalised statement -> what it is).  Order = dependency order of the generated file.
`generate(grist_dir)` returns the text of coq/gen/Trigger_gen.v.
"""
import ast
import os

from harness import tg2v

RW = {'RecalcWhen.DEFAULT': ('RecalcWhen_DEFAULT', 'Z'), 'RecalcWhen.NEVER': ('RecalcWhen_NEVER', 'Z'),
      'RecalcWhen.MANUAL_UPDATES': ('RecalcWhen_MANUAL_UPDATES', 'Z')}
ALLC = '(all_columns : list colinfo)'

SPECS = [
  dict(name='gen_recalcOnChangesToSelf', src='docmodel.py',
       path=['MetaTableExtras', '_grist_Tables_column', 'recalcOnChangesToSelf'], nested=True,
       params=[('rec', 'col'), ('table', None)], kind='expr', ret='bool', consts=RW),
  dict(name='gen_get_affected_rows', src='relation.py', path=['SingleRowsIdentityRelation', 'get_affected_rows'],
       params=[('input_rows', 'rows')], kind='expr', ret='rows', consts={'depend.ALL_ROWS': ('AllRows', 'allrows')}),
  dict(name='gen_is_formula', src='column.py', path=['BaseColumn', 'is_formula'], params=[], kind='expr', ret='bool',
       extra=['(_is_formula : bool)'], consts={'self._is_formula': ('_is_formula', 'bool')}),
  dict(name='gen_prevent_recalc', src='engine.py', path=['Engine', 'prevent_recalc'], kind='setfn',
       params=[('node', None), ('row_ids', 'zlist'), ('should_prevent', 'bool')], extra=['(prevented : list Z)'],
       setvar=('prevented', 'prevented'), setsource='5d41f0597593'),   # self._prevent_recompute_map.setdefault(node, set())
  dict(name='gen_trim_update_action', src='engine.py', path=['Engine', 'trim_update_action'], kind='expr', ret='action',
       params=[('action', 'action')], extra=['(raw_get : Z -> Z -> Z)'], columns_as_keys=True),
  dict(name='gen_invalidate_column', src='engine.py', path=['Engine', 'invalidate_column'],
       params=[('col_obj', 'col'), ('row_ids', 'rows'), ('recompute_data_col', 'bool')]),
  dict(name='gen_invalidate_records', src='engine.py', path=['Engine', 'invalidate_records'], extra=[ALLC],
       params=[('table_id', None), ('row_ids', 'rows'), ('col_ids', 'optzlist'), ('data_cols_to_recompute', 'zlist')]),
  dict(name='gen_add_records', src='engine.py', path=['Engine', 'add_records'], extra=[ALLC],
       params=[('table_id', None), ('row_ids', 'zlist'), ('column_values', 'dict')],
       glue={'7b8a6659ec0c': 'growto_size = ...', '730fdc2388d8': "id_column = table.get_column('id')",
             '6a0a22432df6': 'id_column.growto(growto_size)', 'e98579010731': 'id_column.set(row_id, row_id)',
             '1818ca9ebafe': 'table.grow_to_max()', '43fb33f4eac1': 'column.growto(growto_size)',
             'a5d943d1d501': 'for row_id, value in zip(row_ids, values): column.set(row_id, value)'}),
  dict(name='gen_doc_BulkAddRecord', src='docactions.py', path=['DocActions', 'BulkAddRecord'], extra=[ALLC],
       params=[('table_id', None), ('row_ids', 'zlist'), ('column_values', 'dict')],
       glue={'53acd70324b5': 'assert row_id not in table.row_ids', '2b93d38ede39': 'undo.append(BulkRemoveRecord)',
             'df7b64d9983c': 'summary.add_records'}),
  dict(name='gen_doc_BulkUpdateRecord', src='docactions.py', path=['DocActions', 'BulkUpdateRecord'], extra=[ALLC],
       params=[('table_id', None), ('row_ids', 'zlist'), ('columns', 'dict')],
       glue={'f3bd0d902163': 'assert row_id in table.row_ids', '6cd7b7409995': 'undo_values = {}',
             '6595643b923a': 'undo_values[col_id] = [col.raw_get(r) for r in row_ids]',
             '81b7641f080a': 'undo.append(BulkUpdateRecord(undo_values))',
             '1ad0bbc21b58': 'for row_id, value in zip(row_ids, values): col.set(row_id, value)',
             'c028dd6f423a': "if table_id == '_grist_Tables_column' and (...): trigger_columns_changed()"}),
  dict(name='gen_doc_BulkRemoveRecord', src='docactions.py', path=['DocActions', 'BulkRemoveRecord'],
       extra=[ALLC, '(existing_rows : list Z -> list Z)'],
       params=[('table_id', None), ('row_ids', 'zlist')],
       glue={'6ad5e135c1ba': ('bind', 'row_ids', '(existing_rows row_ids)', 'zlist'),   # rows that exist in the table
             'a96b7bf3819f': 'undo_values = {}', '9eb99c933fa9': 'collect the undo values of the column',
             '00593ef69b8e': 'column.unset(row_id)', 'c3acaa5f6e69': 'undo.append(BulkAddRecord(undo_values))',
             'eca738e40b93': 'summary.remove_records'}),
  dict(name='gen_doBulkAddOrReplace', src='useractions.py', path=['UserActions', 'doBulkAddOrReplace'],
       extra=[ALLC, '(is_meta : bool)', '(filled_row_ids : list Z)'], consts=RW,
       params=[('table_id', None), ('row_ids', None), ('column_values', 'dict'), ('replace', None)],
       env={'filled_row_ids': ('filled_row_ids', 'zlist')}, action_kind={'action': 'BulkAddRecord'},
       glue={'56030cb43027': 'next_row_id = ...', '17948438c33d': 'seen = set()',
             '324c4e0171ad': 'validation of explicitly requested row ids',
             '6377d2ea46e9': 'filled_row_ids = row_ids[:]', '81ea0c4c7c21': 'fill in automatic row ids',
             'bce366748486': 'summary.update_new_rows_map', 'c87095f82ff5': 'ActionType = ...',
             # values are converted to the column types; the row ids and the set of columns stay
             '8a2aba51aef3': ('bind', 'action', '(filled_row_ids, column_values)', 'action'),
             '9f20c986142e': 'for a in extra_actions: self._do_extra_doc_action(a)',
             '123aa9b22a1c': "if table_id == '_grist_Validations': ...", 'c4648b193760': 'return filled_row_ids'}),
  dict(name='gen_doBulkUpdateRecord', src='useractions.py', path=['UserActions', 'doBulkUpdateRecord'],
       extra=[ALLC, '(raw_get : Z -> Z -> Z)', '(translate_new_row_ids : list Z -> list Z)',
              '(convert_action_values : bulk_action -> bulk_action)'], consts=RW,
       params=[('table_id', None), ('row_ids', 'zlist'), ('columns', 'dict')],
       opaque={'self._engine.out_actions.summary.translate_new_row_ids': ('translate_new_row_ids', [None, 'zlist'], 'zlist'),
               'self._engine.convert_action_values': ('convert_action_values', ['action'], 'action'),
               'self._engine.trim_update_action': ('gen_trim_update_action raw_get', ['action'], 'action')},
       glue_names=('extra_actions',), action_kind={'action': 'BulkUpdateRecord'},
       glue={'af028b363fec': 'keep the last occurrence of a repeated row id (no-op without repeated ids)',
             'c0c627f83786': 'raw view sections', 'd79cac4664f3': 'fields of raw view sections',
             '258a89bc9f48': 'record card sections', '530390b5b2d2': 'fields of record card sections',
             '2d5a6f2b974e': 'for a in extra_actions: self._do_extra_doc_action(a)'}),
  dict(name='gen_trigger_dependencies', src='engine.py', path=['Engine', '_maybe_update_trigger_dependencies'],
       extra=[ALLC, '(is_meta : bool)'], consts=RW, params=[],
       glue={'f1f23585b2fc': 'if not self._have_trigger_columns_changed: return',
             '6d09e3e821b8': 'self._have_trigger_columns_changed = False',
             '70c3b020dcbe': 'self._recompute_edge_set.add(edge)'},
       # `rel` is a fresh SingleRowsIdentityRelation object, so the edge is never in the set already
       true_tests={'357f0a6f97c2': 'edge not in self._recompute_edge_set'}),
]


def spec(name):
  return [s for s in SPECS if s['name'] == name][0]


HEADER = '''(* GENERATED by harness/tg2v.py from %s on every run of ./check C15 -- do not edit. *)
From Coq Require Import ZArith List Bool.
Import ListNotations.
Require Import Grist.Lib.TrigEff.
Open Scope Z_scope.
'''


def recalc_when_consts(tree):
  """schema.RecalcWhen: class attributes NAME = <int>."""
  cls = [n for n in tree.body if isinstance(n, ast.ClassDef) and n.name == 'RecalcWhen']
  if len(cls) != 1:
    raise tg2v.Untranslatable('schema.RecalcWhen not found')
  out = []
  for s in tg2v.strip_doc(cls[0].body):
    if not (isinstance(s, ast.Assign) and len(s.targets) == 1 and isinstance(s.targets[0], ast.Name)
            and isinstance(s.value, ast.Constant) and isinstance(s.value.value, int) and not isinstance(s.value.value, bool)):
      raise tg2v.Untranslatable('schema.RecalcWhen: line %d is not NAME = <int>' % s.lineno)
    out.append('Definition RecalcWhen_%s : Z := %d.' % (s.targets[0].id, s.value.value))
  names = sorted(l.split()[1] for l in out)
  if names != ['RecalcWhen_DEFAULT', 'RecalcWhen_MANUAL_UPDATES', 'RecalcWhen_NEVER']:
    raise tg2v.Untranslatable('schema.RecalcWhen has constants %r' % names)
  return '\n'.join(out) + '\n'


def generate(grist_dir, only=None):
  trees = {}
  def tree(f):
    if f not in trees:
      with open(os.path.join(grist_dir, f)) as fh:
        trees[f] = ast.parse(fh.read())
    return trees[f]
  parts = [HEADER % grist_dir, recalc_when_consts(tree('schema.py'))]
  for sp in SPECS:
    if only and sp['name'] not in only:
      continue
    try:
      parts.append('(* %s %s *)\n' % (sp['src'], '.'.join(sp['path'])) + tg2v.translate_function(tree(sp['src']), sp))
    except tg2v.Untranslatable as e:
      raise tg2v.Untranslatable('%s %s: %s' % (sp['src'], '.'.join(sp['path']), e))
  return '\n'.join(parts)
