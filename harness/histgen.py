"""
Shared generator of documents and user-action histories (DESIGN.md section 4.5).

Formula programs are kept ACYCLIC, counting a lookup's key columns and order_by columns as dependencies of
the looking-up column: every column gets a level at creation (kept by metadata row id, so it survives
renames) and a formula may only mention columns of strictly lower level.  Streams that want cycles
(C18/C06) ask for them explicitly.

All random choices come from the rng handed in.  The generator looks at the engine only through
fetch_table of the metadata tables and table row ids.
"""
import collections

from harness import gristenv as G

TYPES = ['Text', 'Int', 'Numeric', 'Bool', 'Date', 'DateTime:UTC', 'Choice', 'ChoiceList', 'Any']
COL_NAMES = ['A', 'B', 'C', 'D', 'E', 'X', 'Y', 'Z', 'Q', 'name', 'amount', 'new col', 'x1', 'class', 'Éa']
TABLE_NAMES = ['T', 'Foo', 'Bar baz', 'People', 'items', 'R2', 'Table1']

DEFAULT_WEIGHTS = collections.OrderedDict([
  ('addrec', 10), ('updrec', 10), ('rmrec', 4), ('tempids', 2),
  ('addcol', 5), ('addformula', 5), ('rmcol', 3), ('rencol', 3), ('modtype', 3), ('modformula', 4),
  ('toformula', 1), ('todata', 1),
  ('addtable', 2), ('rmtable', 1), ('rentable', 2), ('addref', 3), ('addreverse', 1),
  ('summary', 2), ('summaryformula', 2), ('updsummary', 1), ('label', 1), ('renamechoices', 1), ('upsert', 1),
  ('invalid', 2),
])


class Meta(object):
  """A view of the metadata tables of an engine."""
  def __init__(self, e):
    self.e = e
    t = G.actions.get_action_repr(e.fetch_table('_grist_Tables'))
    c = G.actions.get_action_repr(e.fetch_table('_grist_Tables_column'))
    self.tables = {}      # tableRef -> dict
    for i, rid in enumerate(t[2]):
      self.tables[rid] = {k: v[i] for k, v in t[3].items()}
      self.tables[rid]['id'] = rid
    self.cols = {}        # colRef -> dict
    for i, rid in enumerate(c[2]):
      self.cols[rid] = {k: v[i] for k, v in c[3].items()}
      self.cols[rid]['id'] = rid
    self.by_table = collections.defaultdict(list)
    for rid, col in sorted(self.cols.items(), key=lambda kv: (kv[1]['parentId'], kv[1]['parentPos'])):
      self.by_table[col['parentId']].append(col)
    self.table_by_id = {tt['tableId']: tt for tt in self.tables.values()}

  def user_tables(self, summary=False):
    return [t for t in sorted(self.tables.values(), key=lambda t: t['id'])
            if bool(t['summarySourceTable']) == summary]

  def visible_cols(self, tref):
    return [c for c in self.by_table[tref]
            if c['colId'] != 'manualSort' and not c['colId'].startswith('gristHelper_')
            and not c['colId'].startswith('#')]

  def data_cols(self, tref):
    return [c for c in self.visible_cols(tref) if not c['isFormula']]

  def formula_cols(self, tref):
    return [c for c in self.visible_cols(tref) if c['isFormula']]

  def rows(self, table_id):
    return sorted(self.e.tables[table_id].row_ids)


class HistGen(object):
  def __init__(self, rng, weights=None, max_tables=3, allow_cycles=False, trigger_formulas=False):
    self.r = rng
    self.w = collections.OrderedDict(DEFAULT_WEIGHTS)
    if weights:
      self.w.update(weights)
    self.levels = {}          # colRef -> level
    self.max_tables = max_tables
    self.allow_cycles = allow_cycles
    self.trigger_formulas = trigger_formulas
    self.stats = collections.Counter()

  # ---- values ------------------------------------------------------------------------------
  def value(self, ctype, meta=None):
    r = self.r
    if r.random() < 0.12:
      return None
    if r.random() < 0.08:       # a value of the wrong type: stored as alt text or converted
      return r.choice(['a', '', 'x1', 5, 2.5, True, '12', '1e3', '2020-01-02'])
    base = ctype.split(':')[0]
    if base == 'Text':
      return r.choice(['a', 'b', '', 'x1', 'hello world', 'A', '12', 'é'])
    if base == 'Int':
      return r.choice([0, 1, 2, 3, -1, 10, 7, 2 ** 31, 100])
    if base == 'Numeric':
      return r.choice([0, 1, 1.5, -2.25, 3, 1e10, 0.1, 7])
    if base == 'Bool':
      return r.choice([True, False])
    if base == 'Date':
      return r.choice([0, 86400, 1577836800, 1600000000 - 1600000000 % 86400])
    if base == 'DateTime':
      return r.choice([0, 1577836800, 1600000000, 1600000000.5])
    if base == 'Choice':
      return r.choice(['red', 'green', 'blue', ''])
    if base == 'ChoiceList':
      return r.choice([None, ['L'], ['L', 'red'], ['L', 'red', 'green'], ['L', 'blue', 'red']])
    if base == 'Ref':
      rows = self._target_rows(meta, ctype)
      return r.choice(rows + [0]) if rows else 0
    if base == 'RefList':
      rows = self._target_rows(meta, ctype)
      k = r.randint(0, min(3, len(rows)))
      sel = r.sample(rows, k)
      return ['L'] + sel if sel else None
    return r.choice([None, 0, 1, 2, 3, -1, 1.5, 'a', 'b', '', True, False, ['L', 'a', 'b'], 'x1'])

  def _target_rows(self, meta, ctype):
    tid = ctype.split(':', 1)[1]
    if meta is None or tid not in meta.e.tables:
      return []
    return meta.rows(tid)

  # ---- formulas ----------------------------------------------------------------------------
  def level_of(self, col):
    return self.levels.get(col['id'], 0)

  def lower_cols(self, meta, tref, level):
    if self.allow_cycles:
      return meta.visible_cols(tref)
    return [c for c in meta.visible_cols(tref) if self.level_of(c) < level]

  def formula(self, meta, tref, level):
    """A formula for a column of table tref at the given level (mentions only lower-level columns)."""
    r = self.r
    own = self.lower_cols(meta, tref, level)
    others = [t for t in meta.user_tables() if True]
    t2 = r.choice(others)
    cols2 = self.lower_cols(meta, t2['id'], level)
    tid2 = t2['tableId']
    c1 = r.choice(own)['colId'] if own else 'id'
    c2 = r.choice(own)['colId'] if own else 'id'
    k = r.choice(cols2)['colId'] if cols2 else 'id'
    k2 = r.choice(cols2)['colId'] if cols2 else 'id'
    refcols = [c for c in own if c['type'].startswith('Ref:')]
    reflists = [c for c in own if c['type'].startswith('RefList:')]
    choices = [
      '$%s' % c1,
      '($%s or 0)' % c1,
      'str($%s) + "/" + str($%s)' % (c1, c2),
      'len(%s.lookupRecords(%s=$%s))' % (tid2, k, c1),
      '%s.lookupOne(%s=$%s).id' % (tid2, k, c1),
      '[r.id for r in %s.lookupRecords(%s=$%s, order_by="-%s")]' % (tid2, k, c1, k2),
      '[r.id for r in %s.lookupRecords(%s=$%s, sort_by="%s")]' % (tid2, k, c1, k2),
      '%s.lookupOne(%s=$%s, order_by="%s").%s' % (tid2, k, c1, k2, k2),
      'rec.id * 2',
      'len(%s.all)' % tid2,
      'sum(r.id for r in %s.lookupRecords(%s=$%s))' % (tid2, k, c1),
      'NoSuchName',
      '1/0' if r.random() < 0.5 else '$id % 3',
      '$id',
      'IF($%s, 1, 2)' % c1,
      'UPPER(str($%s))' % c1,
    ]
    listcols = [c for c in cols2 if c['type'] in ('ChoiceList',) or c['type'].startswith('RefList:')]
    if listcols:
      lc = r.choice(listcols)['colId']
      choices.append('len(%s.lookupRecords(%s=CONTAINS($%s)))' % (tid2, lc, c1))
      choices.append('[r.id for r in %s.lookupRecords(%s=CONTAINS($%s, match_empty=""))]' % (tid2, lc, c1))
    for rc in refcols:
      tt = rc['type'].split(':', 1)[1]
      if tt in meta.table_by_id:
        tc = self.lower_cols(meta, meta.table_by_id[tt]['id'], level)
        if tc:
          choices.append('$%s.%s' % (rc['colId'], r.choice(tc)['colId']))
          choices.append('$%s.id' % rc['colId'])
    for rc in reflists:
      tt = rc['type'].split(':', 1)[1]
      if tt in meta.table_by_id:
        tc = self.lower_cols(meta, meta.table_by_id[tt]['id'], level)
        if tc:
          choices.append('list($%s.%s)' % (rc['colId'], r.choice(tc)['colId']))
          choices.append('len($%s)' % rc['colId'])
    if cols2:
      choices.append('PREVIOUS(rec, order_by="%s").id' % c1)
      choices.append('RANK(rec, order_by="%s")' % c1)
      choices.append('NEXT(rec, group_by="%s", order_by="%s").id' % (c1, c2))
    return r.choice(choices)

  # ---- documents ---------------------------------------------------------------------------
  def init_doc(self, e, n_tables=None):
    """Create 1-3 tables with columns of assorted types, some formulas, some rows."""
    r = self.r
    n_tables = n_tables or r.randint(1, 2)
    for _ in range(n_tables):
      self._do(e, [self.gen_addtable(Meta(e))])
    for _ in range(r.randint(1, 3)):
      m = Meta(e)
      a = self.gen('addformula', m) or ['Calculate']
      self._do(e, [a])
    for _ in range(r.randint(1, 3)):
      m = Meta(e)
      self._do(e, [self.gen('addrec', m) or ['Calculate']])
    return e

  def _do(self, e, bundle):
    try:
      out = G.apply(e, bundle)
      self.after_bundle(e)
      return out
    except Exception:
      G.clean(e)
      return None

  def after_bundle(self, e):
    """Assign levels to columns that have appeared."""
    m = Meta(e)
    for ref, col in m.cols.items():
      if ref not in self.levels:
        self.levels[ref] = self._pending_level.pop((m.tables[col['parentId']]['tableId'], col['colId']), None) \
          if hasattr(self, '_pending_level') else None
        if self.levels[ref] is None:
          # group-by columns of summary tables mirror data columns (level 0); other unknown formula
          # columns (summary formulas, reverse columns) sit above everything the generator references
          self.levels[ref] = 9 if col['isFormula'] else 0
    if hasattr(self, '_pending_level'):
      self._pending_level.clear()

  def pend(self, table_id, col_id, level):
    if not hasattr(self, '_pending_level'):
      self._pending_level = {}
    self._pending_level[(table_id, col_id)] = level

  # ---- single actions ----------------------------------------------------------------------
  def gen_addtable(self, meta):
    r = self.r
    name = r.choice(TABLE_NAMES)
    cols = []
    used = set()
    for _ in range(r.randint(1, 4)):
      cid = r.choice(COL_NAMES)
      if cid in used:
        continue
      used.add(cid)
      cols.append({'id': cid, 'type': r.choice(TYPES), 'isFormula': False})
    if r.random() < 0.5:
      cols.append({'id': 'F', 'type': 'Any', 'isFormula': True, 'formula': r.choice(['$id + 1', 'rec.id', '"k"'])})
    return ['AddTable', name, cols]

  def pick_table(self, meta, summary=False):
    ts = meta.user_tables(summary=summary)
    return self.r.choice(ts) if ts else None

  def gen(self, kind, meta):
    """Returns a user action (repr list) of the given kind, or None if not applicable in this state."""
    r = self.r
    t = self.pick_table(meta)
    if kind == 'addtable':
      if len(meta.user_tables()) >= self.max_tables:
        return None
      return self.gen_addtable(meta)
    if t is None:
      return None
    tid, tref = t['tableId'], t['id']
    rows = meta.rows(tid)
    dcols = meta.data_cols(tref)
    vcols = meta.visible_cols(tref)
    if kind == 'addrec':
      n = r.randint(1, 3)
      cols = r.sample(dcols, min(len(dcols), r.randint(0, 3)))
      return ['BulkAddRecord', tid, [None] * n,
              {c['colId']: [self.value(c['type'], meta) for _ in range(n)] for c in cols}]
    if kind == 'tempids':
      refs = [c for c in dcols if c['type'] in ('Ref:' + tid, 'RefList:' + tid)]
      vals = {}
      if refs:
        c = r.choice(refs)
        vals[c['colId']] = [-2, -1] if c['type'].startswith('Ref:') else [['L', -2], ['L', -1, -2]]
      return ['BulkAddRecord', tid, [-1, -2], vals]
    if kind == 'updrec':
      if not rows or not dcols:
        return None
      rs = r.sample(rows, min(len(rows), r.randint(1, 3)))
      cols = r.sample(dcols, min(len(dcols), r.randint(1, 2)))
      return ['BulkUpdateRecord', tid, rs, {c['colId']: [self.value(c['type'], meta) for _ in rs] for c in cols}]
    if kind == 'rmrec':
      if not rows:
        return None
      return ['BulkRemoveRecord', tid, r.sample(rows, min(len(rows), r.randint(1, 2)))]
    if kind == 'addcol':
      cid = r.choice(COL_NAMES)
      self.pend(tid, cid, r.choice([0, 0, 1, 2]))
      return ['AddColumn', tid, cid, {'type': r.choice(TYPES), 'isFormula': False}]
    if kind == 'addformula':
      cid = r.choice(COL_NAMES)
      level = r.choice([1, 2, 3])
      self.pend(tid, cid, level)
      return ['AddColumn', tid, cid, {'type': r.choice(['Any', 'Any', 'Text', 'Int', 'Numeric']), 'isFormula': True,
                                      'formula': self.formula(meta, tref, level)}]
    if kind == 'rmcol':
      if not vcols:
        return None
      return ['RemoveColumn', tid, r.choice(vcols)['colId']]
    if kind == 'rencol':
      if not vcols:
        return None
      return ['RenameColumn', tid, r.choice(vcols)['colId'], r.choice(COL_NAMES + ['ren 1', 'if', '2x'])]
    if kind == 'modtype':
      if not vcols:
        return None
      c = r.choice(vcols)
      newt = r.choice(TYPES + ['Ref:' + tid, 'RefList:' + tid])
      return ['ModifyColumn', tid, c['colId'], {'type': newt}]
    if kind == 'modformula':
      fc = meta.formula_cols(tref)
      if not fc:
        return None
      c = r.choice(fc)
      return ['ModifyColumn', tid, c['colId'], {'formula': self.formula(meta, tref, max(1, self.level_of(c)))}]
    if kind == 'toformula':
      if not dcols:
        return None
      c = r.choice(dcols)
      lvl = self.level_of(c)
      f = self.formula(meta, tref, lvl) if lvl > 0 else r.choice(['$id', 'rec.id * 3', '"c"'])
      return ['ModifyColumn', tid, c['colId'], {'isFormula': True, 'formula': f}]
    if kind == 'todata':
      fc = meta.formula_cols(tref)
      if not fc:
        return None
      return ['ModifyColumn', tid, r.choice(fc)['colId'], {'isFormula': False}]
    if kind == 'rmtable':
      if len(meta.user_tables()) < 2:
        return None
      return ['RemoveTable', tid]
    if kind == 'rentable':
      return ['RenameTable', tid, r.choice(TABLE_NAMES)]
    if kind == 'addref':
      target = self.pick_table(meta)['tableId']
      cid = r.choice(['ref', 'ref2', 'parent', 'links'])
      self.pend(tid, cid, 0)
      return ['AddColumn', tid, cid, {'type': r.choice(['Ref:', 'RefList:']) + target, 'isFormula': False}]
    if kind == 'addreverse':
      refs = [c for c in dcols if c['type'].split(':')[0] in ('Ref', 'RefList') and not c.get('reverseCol')]
      if not refs:
        return None
      return ['AddReverseColumn', tid, r.choice(refs)['colId']]
    if kind == 'summary':
      if not dcols:
        return None
      gb = r.sample(dcols, min(len(dcols), r.randint(1, 2)))
      return ['CreateViewSection', tref, 0, 'record', [c['id'] for c in gb], None]
    if kind == 'summaryformula':
      st = self.pick_table(meta, summary=True)
      if st is None:
        return None
      src = meta.tables.get(st['summarySourceTable'])
      if src is None:
        return None
      sc = meta.visible_cols(src['id'])
      x = r.choice(sc)['colId'] if sc else 'id'
      cid = r.choice(['total', 'n', 'S', 'agg'])
      f = r.choice(['SUM(r.id for r in $group)', 'len($group)', 'list($group.%s)' % x, 'MAX($group.id)',
                    'SUM(x for x in $group.%s if isinstance(x, (int, float)))' % x])
      return ['AddColumn', st['tableId'], cid, {'type': 'Any', 'isFormula': True, 'formula': f}]
    if kind == 'updsummary':
      st = self.pick_table(meta, summary=True)
      if st is None:
        return None
      sec = self._section_of(meta, st['id'])
      src = meta.tables.get(st['summarySourceTable'])
      if sec is None or src is None:
        return None
      d = meta.data_cols(src['id'])
      gb = r.sample(d, min(len(d), r.randint(0, 2)))
      return ['UpdateSummaryViewSection', sec, [c['id'] for c in gb]]
    if kind == 'label':
      if not vcols:
        return None
      c = r.choice(vcols)
      return ['UpdateRecord', '_grist_Tables_column', c['id'], {'label': r.choice(COL_NAMES + ['My Label'])}]
    if kind == 'renamechoices':
      cc = [c for c in dcols if c['type'] in ('Choice', 'ChoiceList')]
      if not cc:
        return None
      return ['RenameChoices', tid, r.choice(cc)['colId'],
              r.choice([{'red': 'blue'}, {'red': 'green', 'green': 'red'}, {'blue': 'cyan'}])]
    if kind == 'upsert':
      if not dcols:
        return None
      kc = r.choice(dcols)
      oc = r.choice(dcols)
      return ['AddOrUpdateRecord', tid, {kc['colId']: self.value(kc['type'], meta)},
              {oc['colId']: self.value(oc['type'], meta)}, {}]
    if kind == 'invalid':
      return r.choice([
        ['UpdateRecord', tid, 999999, {}],
        ['RemoveColumn', tid, 'NoSuchColumn'],
        ['AddColumn', tid, (vcols[0]['colId'] if vcols else 'A') if False else 'id', {}],
        ['RemoveRecord', 'NoSuchTable', 1],
        ['ModifyColumn', tid, 'NoSuchColumn', {'type': 'Int'}],
        ['BulkAddRecord', tid, [None], {'NoSuchColumn': [1]}],
        ['RenameTable', tid, '_grist_Bad'],
      ])
    raise ValueError(kind)

  def _section_of(self, meta, tref):
    rep = G.actions.get_action_repr(meta.e.fetch_table('_grist_Views_section'))
    for i, rid in enumerate(rep[2]):
      if rep[3]['tableRef'][i] == tref and rep[3]['parentId'][i]:
        return rid
    return None

  def action(self, e, exclude=()):
    meta = Meta(e)
    kinds = [k for k in self.w if self.w[k] > 0 and k not in exclude]
    weights = [self.w[k] for k in kinds]
    for _ in range(20):
      k = self.r.choices(kinds, weights)[0]
      if not meta.user_tables() and k != 'addtable':
        k = 'addtable'
      a = self.gen(k, meta)
      if a is not None:
        self.stats[k] += 1
        return a
    return ['Calculate']

  def bundle(self, e, max_len=3):
    """A bundle of 1..max_len user actions generated against the state BEFORE the bundle (so later actions
    may refer to things earlier ones removed or renamed: such bundles fail or not, as the engine decides)."""
    n = self.r.choice([1, 1, 1, 2, 2, 3][:max(1, max_len * 2)])
    n = min(n, max_len)
    return [self.action(e) for _ in range(n)]


def shrink_list(items, fails, max_steps=200):
  """Delta-debugging on a list: smallest sublist (greedy) on which `fails` still returns True."""
  items = list(items)
  n = 2
  steps = 0
  while len(items) >= 2 and steps < max_steps:
    chunk = max(1, len(items) // n)
    removed = False
    for i in range(0, len(items), chunk):
      cand = items[:i] + items[i + chunk:]
      steps += 1
      if cand and fails(cand):
        items = cand
        n = max(n - 1, 2)
        removed = True
        break
    if not removed:
      if chunk == 1:
        break
      n = min(len(items), n * 2)
  return items
