"""
up2v -- fail-closed translator for UserActions.BulkAddOrUpdateRecord / AddOrUpdateRecord (C28).

Python AST -> Gallina over the combinators of coq/theories/Lib/UpsertPrelude.v.  Statements are translated
structurally (assignments, if/elif/else with a join continuation, for loops over a tuple of loop-carried
variables, continue, raise, return, the mutating calls append/update/pop and subscript assignment); expressions
by a typed recursive translator.  What the action calls on the table, on column objects, on the metadata and the two
record actions become fields of the opaque `oenv`.  Anything else raises Untranslatable (-> core.TieBroken).
Three computed quantities are not translated but pinned by AST equality (PINNED) and replaced by the expression the
model was written from.
"""
import ast


class Untranslatable(Exception):
  pass


def fail(node, why):
  raise Untranslatable('%s (line %s): %s' % (type(node).__name__, getattr(node, 'lineno', '?'), why))


def norm(src):
  return ast.dump(ast.parse(src.strip()).body[0])


# statements computed "by formula" in the model: pinned text -> (variable, Gallina, type)
PINNED = [
  ("lengths = {}", None),
  ("lengths.update({'require ' + k: len(v) for k, v in require.items()})", None),
  ("lengths.update({'col_values ' + k: len(v) for k, v in col_values.items()})", None),
  ("unique_lengths = set(lengths.values())",
   ('unique_lengths', 'dedup Nat.eqb (map (@List.length val) (all_lists require col_values))', 'natset')),
  ("num_unique_keys = len(set(zip(*decoded_require.values())))",
   ('num_unique_keys', 'List.length (dedup (list_eqb val_eqb) (map (fun i => map snd (row_at i decoded_require)) (seq 0 length)))',
    'nat')),
  ("table = self._engine.tables[table_id]", ('table', None, 'table')),
]
PINNED_DUMPS = {norm(src): val for src, val in PINNED}

OPTIONS = {'update': ('o_update', True, 'bool'), 'add': ('o_add', True, 'bool'),
           'on_many': ('o_on_many', 'first', 'om'), 'allow_empty_require': ('o_allow_empty', False, 'bool')}
ON_MANY = {'first': 'OnFirst', 'none': 'OnNone', 'all': 'OnAll'}
ACTIONS = {'NONE': 'ANone', 'ADD': 'AAdd', 'UPDATE': 'AUpdate'}
ERRORS = [("on_many should be", 'EOnMany'), ("require is empty but", 'EEmptyRequire'),
          ("Value lists must all have the same length", 'ELengths'), ("require values must be unique", 'EUnique')]
RESULT_FIELDS = {'recordIds': ('r_record_ids', 'ret_set_record_ids', 'idss'),
                 'addRecordIds': ('r_add_ids', 'ret_set_add_ids', 'ids'),
                 'updateRecordIds': ('r_update_ids', 'ret_set_update_ids', 'idss')}
COQ_TYPES = {'bool': 'bool', 'om': 'on_many', 'kv': 'kv', 'cells': 'cells', 'nat': 'nat', 'ids': 'list Z',
             'idss': 'list (list Z)', 'optvals': 'list (option val)', 'cols': 'list col', 'ret': 'retval',
             'nats': 'list nat', 'natset': 'list nat', 'tbl': 'table'}
ELEM = {'ids': 'Z', 'idss': 'ids', 'cols': 'col', 'nats': 'nat', 'vals': 'val', 'optvals': 'optval'}


def tup(names):
  return names[0] if len(names) == 1 else '(' + ', '.join(names) + ')'


def pat(names):
  return names[0] if len(names) == 1 else "'(" + ', '.join(names) + ')'


class Fn(object):
  """Translation of one function body."""

  def __init__(self, params):
    self.types = dict(params)          # variable -> type tag
    self.fresh = 0
    self.loops = []                    # stack of carried-variable lists

  # ------------------------------------------------------------------ expressions
  def truth(self, node):
    """Python truth value of an expression, as a Coq bool."""
    code, ty = self.expr(node)
    if ty == 'bool':
      return code
    if ty in ('kv', 'cells', 'ids', 'idss', 'optvals', 'cols', 'nats'):
      return 'negb (isnil %s)' % code
    fail(node, 'truth value of a %s' % ty)

  def const_col(self, node):
    if isinstance(node, ast.Constant) and node.value == 'id':
      return 'id_col'
    fail(node, 'only the column name "id" may be written literally')

  def expr(self, node):
    m = getattr(self, 'e_' + type(node).__name__, None)
    if m is None:
      fail(node, 'expression form outside the subset')
    return m(node)

  def e_Name(self, n):
    if n.id not in self.types:
      fail(n, 'unknown variable %s' % n.id)
    return n.id, self.vtype(n.id)

  def vtype(self, name):
    """An empty list gets its element type from the first value appended to it."""
    t = self.types.get(name)
    if t == 'empty':
      t = getattr(self, 'refined', {}).get(name, 'empty')
    return t

  def refine(self, name, elem):
    lists = {'Z': 'ids', 'nat': 'nats', 'optval': 'optvals', 'ids': 'idss', 'val': 'vals'}
    if self.vtype(name) == 'empty' and elem in lists:
      self.refined = dict(getattr(self, 'refined', {}))
      self.refined[name] = lists[elem]

  def e_Constant(self, n):
    if n.value is True or n.value is False:
      return ('true' if n.value else 'false'), 'bool'
    if isinstance(n.value, str) and n.value in ON_MANY:
      return ON_MANY[n.value], 'om'
    if isinstance(n.value, str) and n.value in ACTIONS:
      return ACTIONS[n.value], 'act'
    if isinstance(n.value, int):
      return '%d%%nat' % n.value, 'nat'
    fail(n, 'constant %r' % (n.value,))

  def e_UnaryOp(self, n):
    if not isinstance(n.op, ast.Not):
      fail(n, 'unary operator')
    return 'negb (%s)' % self.truth(n.operand), 'bool'

  def e_BoolOp(self, n):
    op = ' && ' if isinstance(n.op, ast.And) else ' || '
    return '(' + op.join('(%s)' % self.truth(v) for v in n.values) + ')', 'bool'

  def e_Compare(self, n):
    if len(n.ops) != 1:
      fail(n, 'chained comparison')
    op, right = n.ops[0], n.comparators[0]
    lc, lt = self.expr(n.left)
    if isinstance(op, (ast.In, ast.NotIn)) and lt == 'om' and isinstance(right, ast.Tuple):
      items = [self.expr(e) for e in right.elts]
      if any(t != 'om' for _, t in items):
        fail(n, 'membership in a tuple of other things than on_many names')
      code = 'existsb (on_many_eqb %s) [%s]' % (lc, '; '.join(c for c, _ in items))
      return ('negb (%s)' % code if isinstance(op, ast.NotIn) else code), 'bool'
    if (isinstance(op, ast.Eq) and lt == 'idss' and isinstance(right, ast.List) and len(right.elts) == 1
        and isinstance(right.elts[0], ast.Constant) and right.elts[0].value is None):
      return 'false', 'bool'            # a list of lists of row ids is never [None]
    rc, rt = self.expr(right)
    if lt == 'om' and rt == 'om' and isinstance(op, ast.Eq):
      return 'on_many_eqb %s %s' % (lc, rc), 'bool'
    if lt == 'nat' and rt == 'nat':
      ops = {ast.Gt: '(%s <? %s)%%nat' % (rc, lc), ast.Lt: '(%s <? %s)%%nat' % (lc, rc),
             ast.NotEq: 'negb (%s =? %s)%%nat' % (lc, rc), ast.Eq: '(%s =? %s)%%nat' % (lc, rc),
             ast.GtE: '(%s <=? %s)%%nat' % (rc, lc), ast.LtE: '(%s <=? %s)%%nat' % (lc, rc)}
      if type(op) in ops:
        return ops[type(op)], 'bool'
    fail(n, 'comparison')

  def e_Call(self, n):
    f = n.func
    # len(x)
    if isinstance(f, ast.Name) and f.id == 'len' and len(n.args) == 1 and not n.keywords:
      c, t = self.expr(n.args[0])
      if t in ('ids', 'idss', 'optvals', 'cols', 'nats', 'natset', 'kv', 'cells'):
        return 'List.length (%s)' % c, 'nat'
    # range(n)
    if isinstance(f, ast.Name) and f.id == 'range' and len(n.args) == 1 and not n.keywords:
      c, t = self.expr(n.args[0])
      if t == 'nat':
        return 'seq 0 %s' % c, 'nats'
    # options.get("key", default)
    if (isinstance(f, ast.Attribute) and f.attr == 'get' and isinstance(f.value, ast.Name) and f.value.id == 'options'
        and len(n.args) == 2 and all(isinstance(a, ast.Constant) for a in n.args) and not n.keywords):
      key, default = n.args[0].value, n.args[1].value
      if key in OPTIONS and OPTIONS[key][1] == default and type(OPTIONS[key][1]) is type(default):
        return '%s opts' % OPTIONS[key][0], OPTIONS[key][2]
      fail(n, 'option %r with default %r' % (key, default))
    # set(d.keys())
    if (isinstance(f, ast.Name) and f.id == 'set' and len(n.args) == 1 and isinstance(n.args[0], ast.Call)
        and isinstance(n.args[0].func, ast.Attribute) and n.args[0].func.attr == 'keys' and not n.args[0].args):
      c, t = self.expr(n.args[0].func.value)
      if t in ('kv', 'cells'):
        return 'py_set (map fst %s)' % c, 'cols'
    # list(table.lookup_records(**d))
    if (isinstance(f, ast.Name) and f.id == 'list' and len(n.args) == 1 and isinstance(n.args[0], ast.Call)):
      g = n.args[0]
      if (isinstance(g.func, ast.Attribute) and g.func.attr == 'lookup_records' and self.is_obj(g.func.value, 'table')
          and not g.args and len(g.keywords) == 1 and g.keywords[0].arg is None):
        c, t = self.expr(g.keywords[0].value)
        if t == 'cells':
          return 'oe_lookup oe t %s' % c, 'ids'
    # actions.decode_bulk_values(d): the identity on the values of the model (None, ints, strings)
    if (isinstance(f, ast.Attribute) and f.attr == 'decode_bulk_values' and isinstance(f.value, ast.Name)
        and f.value.id == 'actions' and len(n.args) == 1 and not n.keywords):
      c, t = self.expr(n.args[0])
      if t == 'kv':
        return c, 'kv'
    fail(n, 'call outside the subset')

  def is_obj(self, node, name):
    return isinstance(node, ast.Name) and node.id == name and self.types.get(name) == 'table'

  def e_Attribute(self, n):
    # record.id : records are represented by their row ids
    if n.attr == 'id':
      c, t = self.expr(n.value)
      if t == 'Z':
        return c, 'Z'
    fail(n, 'attribute access')

  def e_Subscript(self, n):
    # records[:k]
    if isinstance(n.slice, ast.Slice):
      s = n.slice
      if s.lower is None and s.step is None and isinstance(s.upper, ast.Constant) and isinstance(s.upper.value, int):
        c, t = self.expr(n.value)
        if t == 'ids':
          return 'firstn %d %s' % (s.upper.value, c), 'ids'
      fail(n, 'slice')
    # result['field']
    if isinstance(n.value, ast.Name) and self.types.get(n.value.id) == 'ret' and isinstance(n.slice, ast.Constant):
      if n.slice.value in RESULT_FIELDS:
        fld = RESULT_FIELDS[n.slice.value]
        return '%s %s' % (fld[0], n.value.id), fld[2]
    c, t = self.expr(n.value)
    i, it = self.expr(n.slice)
    if t == 'vals' and it == 'nat':
      return 'nth %s %s VNone' % (i, c), 'val'
    if t == 'ids' and it == 'nat':
      return 'nth %s %s 0' % (i, c), 'Z'
    if t == 'idss' and it == 'nat':
      return 'nth %s (%s) []' % (i, c), 'ids'
    fail(n, 'subscript')

  def e_BinOp(self, n):
    lc, lt = self.expr(n.left)
    rc, rt = self.expr(n.right)
    if lt == 'cols' and rt == 'cols':
      if isinstance(n.op, ast.BitOr):
        return 'set_union (%s) (%s)' % (lc, rc), 'cols'
      if isinstance(n.op, ast.Sub):
        return 'set_diff (%s) (%s)' % (lc, rc), 'cols'
    fail(n, 'binary operator')

  def e_Set(self, n):
    return '[%s]' % '; '.join(self.const_col(e) for e in n.elts), 'cols'

  def e_List(self, n):
    if not n.elts:
      return '[]', 'empty'
    items = [self.expr(e) for e in n.elts]
    if all(t == 'Z' for _, t in items):
      return '[%s]' % '; '.join(c for c, _ in items), 'ids'
    if all(t == 'val' for _, t in items):
      return '[%s]' % '; '.join(c for c, _ in items), 'vals'
    fail(n, 'list display')

  def e_Dict(self, n):
    # the result dictionary: constant keys, all three fields, empty lists
    keys = [k.value if isinstance(k, ast.Constant) else None for k in n.keys]
    if sorted(keys, key=str) == sorted(RESULT_FIELDS) and all(isinstance(v, ast.List) and not v.elts for v in n.values):
      return 'empty_ret', 'ret'
    if keys == ['recordIds', 'action']:
      ic, it = self.expr(n.values[0])
      ac, at = self.expr(n.values[1])
      if it in ('ids', 'empty') and at == 'act':
        return '(%s, %s)' % (ic, ac), 'sret'
    fail(n, 'dict display')

  def comp1(self, n):
    if len(n.generators) != 1 or n.generators[0].is_async:
      fail(n, 'comprehension with several generators')
    return n.generators[0]

  def e_ListComp(self, n):
    g = self.comp1(n)
    # [[] for i in range(n)]
    if isinstance(n.elt, ast.List) and not n.elt.elts and not g.ifs and isinstance(g.target, ast.Name):
      c, t = self.expr(g.iter)
      if t == 'nats' and c.startswith('seq 0 '):
        return 'repeat [] %s' % c[6:], 'idss'
    # [f(i, x) for i, x in enumerate(l) if cond(i, x)]
    it = g.iter
    if (isinstance(it, ast.Call) and isinstance(it.func, ast.Name) and it.func.id == 'enumerate' and len(it.args) == 1
        and isinstance(g.target, ast.Tuple) and len(g.target.elts) == 2
        and all(isinstance(e, ast.Name) for e in g.target.elts) and len(g.ifs) <= 1):
      c, t = self.expr(it.args[0])
      if t in ELEM:
        a, b = g.target.elts[0].id, g.target.elts[1].id
        saved = dict(self.types)
        self.types[a], self.types[b] = 'nat', ELEM[t]
        try:
          ec, et = self.expr(n.elt)
          cond = self.truth(g.ifs[0]) if g.ifs else 'true'
        finally:
          self.types = saved
        bind = 'let %s := fst ix_ in let %s := snd ix_ in' % (a, b)
        if et in ('nat', 'Z'):
          return ('map (fun ix_ => %s %s) (filter (fun ix_ => %s %s) (py_enumerate (%s)))' % (bind, ec, bind, cond, c),
                  'nats' if et == 'nat' else 'ids')
    # [record.id for record in records]
    if isinstance(g.target, ast.Name) and not g.ifs:
      c, t = self.expr(g.iter)
      if t in ELEM:
        saved = dict(self.types)
        self.types[g.target.id] = ELEM[t]
        ec, et = self.expr(n.elt)
        self.types = saved
        if et == 'Z':
          return 'map (fun %s => %s) %s' % (g.target.id, ec, c), 'ids'
    fail(n, 'list comprehension')

  def bind_items(self, g):
    """`for k, v in d.items()` -> (pair variable bindings, iterated code)."""
    it = g.iter
    if (isinstance(g.target, ast.Tuple) and len(g.target.elts) == 2 and all(isinstance(e, ast.Name) for e in g.target.elts)
        and isinstance(it, ast.Call) and isinstance(it.func, ast.Attribute) and it.func.attr == 'items' and not it.args):
      c, t = self.expr(it.func.value)
      if t in ('kv', 'cells'):
        k, v = g.target.elts[0].id, g.target.elts[1].id
        return k, v, c, ('vals' if t == 'kv' else 'val')
    return None

  # ------------------------------------------------------------------ monadic sub-expressions
  def newvar(self, stem='x'):
    self.fresh += 1
    return '%s%d_' % (stem, self.fresh)

  def mexpr(self, node):
    """Translate; monadic parts are returned as a list of (variable, code) to bind first, in evaluation order."""
    saved = getattr(self, 'binds', None)
    self.binds = []
    try:
      code, ty = self.expr(node)
      return self.binds, code, ty
    finally:
      self.binds = saved

  @staticmethod
  def wrap(binds, inner):
    for var, code in reversed(binds):
      inner = 'rbind (%s) (fun %s => %s)' % (code, var, inner)
    return inner

  def push(self, code, stem='x'):
    if getattr(self, 'binds', None) is None:
      raise Untranslatable('a call that may raise appears where only a pure expression is translated: %s' % code)
    v = self.newvar(stem)
    self.binds.append((v, code))
    return v

  def resolve(self, node):
    sub = getattr(self, 'subst', {})
    while isinstance(node, ast.Name) and node.id in sub:
      node = sub[node.id]
    return node

  def column_of(self, node):
    """table.get_column(<col>) -> code of <col>"""
    node = self.resolve(node)
    if (isinstance(node, ast.Call) and isinstance(node.func, ast.Attribute) and node.func.attr == 'get_column'
        and self.is_obj(node.func.value, 'table') and len(node.args) == 1 and not node.keywords):
      c, t = self.expr(node.args[0])
      if t == 'col':
        return c
    return None


def _install():
  base_call, base_attr, base_sub, base_bool = Fn.e_Call, Fn.e_Attribute, Fn.e_Subscript, Fn.e_BoolOp

  def e_Call(self, n):
    f = n.func
    # <column object>.is_formula() / .has_formula()
    if isinstance(f, ast.Attribute) and f.attr in ('is_formula', 'has_formula') and not n.args and not n.keywords:
      col = self.column_of(f.value)
      if col is not None:
        return self.push('oe_%s oe %s' % (f.attr, col), 'b'), 'bool'
    # call of a nested one-expression function: expanded in place
    inline = getattr(self, 'inline', {})
    if isinstance(f, ast.Name) and f.id in inline and not n.keywords:
      params, body = inline[f.id]
      if len(params) != len(n.args):
        fail(n, 'arity of %s' % f.id)
      saved = dict(getattr(self, 'subst', {}))
      self.subst = dict(saved)
      self.subst.update(zip(params, n.args))
      try:
        return self.expr(body)
      finally:
        self.subst = saved
    return base_call(self, n)

  def e_Attribute(self, n):
    # self._engine.docmodel.get_column_rec(table_id, key).formula   (only its truth value is used)
    if n.attr == 'formula' and isinstance(n.value, ast.Call):
      g = n.value
      if (ast.dump(g.func) == ast.dump(ast.parse('self._engine.docmodel.get_column_rec').body[0].value)
          and len(g.args) == 2 and isinstance(g.args[0], ast.Name) and g.args[0].id == 'table_id' and not g.keywords):
        c, t = self.expr(g.args[1])
        if t == 'col':
          return 'oe_rec_formula oe %s' % c, 'bool'
    return base_attr(self, n)

  def e_Subscript(self, n):
    # d[key] of a dict of lists: KeyError when absent
    if not isinstance(n.slice, ast.Slice) and isinstance(n.value, ast.Name) and self.types.get(n.value.id) == 'kv':
      i, it = self.expr(n.slice)
      if it == 'col':
        return self.push('kv_lookup %s %s' % (n.value.id, i), 'l'), 'vals'
    return base_sub(self, n)

  def e_BoolOp(self, n):
    # `a and b` / `a or b` where b may raise: b is evaluated only when a does not decide
    if len(n.values) == 2:
      lb, lc, lt = self.mexpr(n.values[0])
      rb, rc, rt = self.mexpr(n.values[1])
      if rb:
        if lt != 'bool' or rt != 'bool':
          fail(n, 'short-circuit operator on non-booleans')
        for b in lb:
          self.binds.append(b) if self.binds is not None else fail(n, 'raising expression in a pure context')
        if isinstance(n.op, ast.And):
          code = 'if %s then %s else Ok false' % (lc, Fn.wrap(rb, 'Ok (%s)' % rc))
        else:
          code = 'if %s then Ok true else %s' % (lc, Fn.wrap(rb, 'Ok (%s)' % rc))
        return self.push(code, 'b'), 'bool'
    return base_bool(self, n)

  def e_SetComp(self, n):
    g = self.comp1(n)
    if isinstance(g.target, ast.Name) and isinstance(n.elt, ast.Name) and n.elt.id == g.target.id and len(g.ifs) <= 1:
      c, t = self.expr(g.iter)
      if t == 'kv':                     # iterating a dict gives its keys
        c, t = 'map fst %s' % c, 'cols'
      if t == 'cols':
        saved = dict(self.types)
        self.types[g.target.id] = 'col'
        try:
          if not g.ifs:
            return 'py_set (%s)' % c, 'cols'
          b, cc, ct = self.mexpr(g.ifs[0])
          if ct != 'bool':
            cc = self.truth(g.ifs[0])
        finally:
          self.types = saved
        if not b:
          return 'py_set (filter (fun %s => %s) (%s))' % (g.target.id, cc, c), 'cols'
        v = self.push('filter_m (fun %s => %s) (%s)' % (g.target.id, Fn.wrap(b, 'Ok (%s)' % cc), c), 's')
        return 'py_set %s' % v, 'cols'
    fail(n, 'set comprehension')

  def e_DictComp(self, n):
    g = self.comp1(n)
    if g.ifs:
      fail(n, 'dict comprehension with a condition')
    # {k: [] for k in <set>}
    if isinstance(n.value, ast.List) and not n.value.elts and isinstance(g.target, ast.Name) \
       and isinstance(n.key, ast.Name) and n.key.id == g.target.id:
      c, t = self.expr(g.iter)
      if t == 'cols':
        return 'cm_new (%s)' % c, 'kv'
    items = self.bind_items(g)
    saved = dict(self.types)
    try:
      if items:                         # {k: f(k, v) for k, v in d.items()}
        k, v, c, vt = items
        self.types[k], self.types[v] = 'col', vt
        kc, kt = self.expr(n.key)
        b, ec, et = self.mexpr(n.value)
        if kt == 'col' and et in ('val', 'vals') and not b:
          return (('map (fun kv_ => let %s := fst kv_ in let %s := snd kv_ in (%s, %s)) %s' % (k, v, kc, ec, c)),
                  'cells' if et == 'val' else 'kv')
      elif isinstance(g.target, ast.Name):     # {k: f(k) for k in <set>}
        c, t = self.expr(g.iter)
        if t == 'cols':
          self.types[g.target.id] = 'col'
          kc, kt = self.expr(n.key)
          b, ec, et = self.mexpr(n.value)
          if kt == 'col' and et == 'val':
            if not b:
              return 'map (fun %s => (%s, %s)) (%s)' % (g.target.id, kc, ec, c), 'cells'
            self.types = saved
            return self.push('map_m (fun %s => %s) (%s)' % (g.target.id, Fn.wrap(b, 'Ok (%s, %s)' % (kc, ec)), c), 'd'), 'cells'
    finally:
      self.types = saved
    fail(n, 'dict comprehension')

  Fn.e_Call, Fn.e_Attribute, Fn.e_Subscript, Fn.e_BoolOp = e_Call, e_Attribute, e_Subscript, e_BoolOp
  Fn.e_SetComp, Fn.e_DictComp = e_SetComp, e_DictComp


_install()


# ---------------------------------------------------------------------------------------------
# statements

def assigned(stmts):
  """Variables (re)bound or mutated by the statements ('t' = the table, changed by the two record actions)."""
  out = set()
  for s in stmts:
    for n in ast.walk(s):
      if isinstance(n, ast.Assign):
        for tg in n.targets:
          base = tg
          while isinstance(base, ast.Subscript):
            base = base.value
          if isinstance(base, ast.Name):
            out.add(base.id)
          elif isinstance(base, (ast.Tuple, ast.List)):
            out.update(e.id for e in base.elts if isinstance(e, ast.Name))
      elif isinstance(n, ast.Call) and isinstance(n.func, ast.Attribute):
        if n.func.attr in ('append', 'update', 'pop'):
          base = n.func.value
          while isinstance(base, ast.Subscript):
            base = base.value
          if isinstance(base, ast.Name):
            out.add(base.id)
        if n.func.attr in ('BulkAddRecord', 'BulkUpdateRecord'):
          out.add('t')
      elif isinstance(n, (ast.For, ast.comprehension)):
        pass
  return out


def _stmts():
  def block(self, stmts, defined, k):
    """Code of the statements followed by k(defined)."""
    if not stmts:
      return k(defined)
    return self.stmt(stmts[0], defined, lambda d: self.block(stmts[1:], d, k))

  def stmt(self, s, defined, k):
    dump = ast.dump(s)
    if dump in PINNED_DUMPS:
      val = PINNED_DUMPS[dump]
      if val is None:
        return k(defined)
      var, code, ty = val
      self.types[var] = ty
      if code is None:
        return k(defined | {var})
      return 'let %s := %s in\n%s' % (var, code, k(defined | {var}))
    m = getattr(self, 's_' + type(s).__name__, None)
    if m is None:
      fail(s, 'statement form outside the subset')
    return m(s, defined, k)

  def carried(self, stmts, defined):
    """Loop-carried / joined variables, in an order that does not depend on their names: the table first, then by the
    line of the last assignment at the top level of the function (else of the first assignment anywhere)."""
    return sorted(assigned(stmts) & defined, key=lambda v: (self.order.get(v, 10 ** 9), v))

  def s_Assign(self, s, defined, k):
    if len(s.targets) != 1:
      fail(s, 'multiple assignment targets')
    tg = s.targets[0]
    # [length] = unique_lengths
    if isinstance(tg, ast.List) and len(tg.elts) == 1 and isinstance(tg.elts[0], ast.Name):
      c, t = self.expr(s.value)
      if t == 'natset' and self.guard_single == c:
        self.types[tg.elts[0].id] = 'nat'
        return self.single_match % (tg.elts[0].id, k(defined | {tg.elts[0].id}))
      fail(s, 'unpacking without a preceding `if len(...) != 1: raise`')
    # result['field'] = v  /  result['field'][i] = v
    if isinstance(tg, ast.Subscript):
      inner = tg.value
      if isinstance(inner, ast.Name) and self.types.get(inner.id) == 'ret' and isinstance(tg.slice, ast.Constant) \
         and tg.slice.value in RESULT_FIELDS:
        fld = RESULT_FIELDS[tg.slice.value]
        b, c, t = self.mexpr(s.value)
        if t == fld[2] and not b:
          return 'let %s := %s %s (%s) in\n%s' % (inner.id, fld[1], inner.id, c, k(defined))
      if (isinstance(inner, ast.Subscript) and isinstance(inner.value, ast.Name) and self.types.get(inner.value.id) == 'ret'
          and isinstance(inner.slice, ast.Constant) and inner.slice.value in RESULT_FIELDS):
        fld, r = RESULT_FIELDS[inner.slice.value], inner.value.id
        i, it = self.expr(tg.slice)
        c, t = self.expr(s.value)
        if it == 'nat' and fld[2] == 'idss' and t == 'ids':
          return 'let %s := %s %s (set_nth %s (%s) (%s %s)) in\n%s' % (r, fld[1], r, i, c, fld[0], r, k(defined))
      fail(s, 'subscript assignment')
    if not isinstance(tg, ast.Name):
      fail(s, 'assignment target')
    # x = self.BulkAddRecord(table_id, ids, values)
    call = s.value
    if (isinstance(call, ast.Call) and isinstance(call.func, ast.Attribute) and call.func.attr == 'BulkAddRecord'
        and isinstance(call.func.value, ast.Name) and call.func.value.id == 'self' and len(call.args) == 3
        and isinstance(call.args[0], ast.Name) and call.args[0].id == 'table_id' and not call.keywords):
      a, at = self.expr(call.args[1])
      b, bt = self.expr(call.args[2])
      if at == 'optvals' and bt == 'kv':
        self.types[tg.id] = 'ids'
        return "rbind (oe_bulk_add oe t %s %s) (fun '(t, %s) =>\n%s)" % (a, b, tg.id, k(defined | {tg.id}))
      fail(s, 'arguments of BulkAddRecord')
    if (isinstance(call, ast.Call) and isinstance(call.func, ast.Attribute) and call.func.attr == 'BulkAddOrUpdateRecord'
        and isinstance(call.func.value, ast.Name) and call.func.value.id == 'self' and not call.keywords
        and [ast.dump(a) for a in call.args] == [ast.dump(ast.Name(id=x, ctx=ast.Load())) for x in
                                                 ('table_id', 'require', 'col_values', 'options')]
        and self.types.get('require') == 'kv' and self.types.get('col_values') == 'kv'):
      self.types[tg.id] = 'ret'
      return "rbind (gen_upsert oe t require col_values opts) (fun '(t, %s) =>\n%s)" % (tg.id, k(defined | {tg.id}))
    b, c, t = self.mexpr(s.value)
    self.types[tg.id] = t
    return Fn.wrap(b, 'let %s := %s in\n%s' % (tg.id, c, k(defined | {tg.id})))

  def s_If(self, s, defined, k):
    # if len(x) != 1: raise ...   directly before  [v] = x
    t = s.test
    if (isinstance(t, ast.Compare) and isinstance(t.ops[0], ast.NotEq) and isinstance(t.comparators[0], ast.Constant)
        and t.comparators[0].value == 1 and isinstance(t.left, ast.Call) and isinstance(t.left.func, ast.Name)
        and t.left.func.id == 'len' and len(s.body) == 1 and isinstance(s.body[0], ast.Raise) and not s.orelse):
      c, ty = self.expr(t.left.args[0])
      if ty == 'natset':
        self.guard_single = c
        self.single_match = 'match %s with\n| [%%s] =>\n%%s\n| _ => %s\nend' % (c, self.s_Raise(s.body[0], defined, None))
        return k(defined)
    b, c, ty = self.mexpr(t)
    cond = c if ty == 'bool' else self.truth(t)
    vs = self.carried(s.body + s.orelse, defined)
    j = self.newvar('join')
    types_before = dict(self.types)
    after = k(defined)
    self.types = dict(types_before)
    cont = (lambda d: '%s %s' % (j, tup(vs))) if vs else (lambda d: '%s tt' % j)
    then = self.block(s.body, set(defined), cont)
    self.types = dict(types_before)
    other = self.block(s.orelse, set(defined), cont)
    self.types = types_before
    head = "let %s := fun %s =>\n%s in\n" % (j, pat(vs) if vs else '(_ : unit)', after)
    return Fn.wrap(b, head + 'if %s then\n%s\nelse\n%s' % (cond, then, other))

  def s_Raise(self, s, defined, k):
    e = s.exc
    if isinstance(e, ast.Call) and isinstance(e.func, ast.Name) and e.func.id == 'ValueError' and len(e.args) == 1:
      msg = e.args[0]
      if isinstance(msg, ast.BinOp) and isinstance(msg.op, ast.Mod):
        msg = msg.left
      if isinstance(msg, ast.Constant) and isinstance(msg.value, str):
        for head, kind in ERRORS:
          if msg.value.startswith(head):
            return 'Err %s' % kind
    fail(s, 'raise of something else than one of the four argument errors')

  def s_Return(self, s, defined, k):
    if self.loops:
      fail(s, 'return inside a loop')
    return self.ret(s.value)

  def s_Continue(self, s, defined, k):
    if not self.loops:
      fail(s, 'continue outside a loop')
    return 'Ok %s' % tup(self.loops[-1])

  def s_For(self, s, defined, k):
    if s.orelse:
      fail(s, 'for/else')
    vs = self.carried(s.body, defined)
    if not vs:
      fail(s, 'loop without effect')
    saved = dict(self.types)
    tg, it = s.target, s.iter
    items = self.bind_items(s)
    if items:                                               # for k, v in d.items()
      kname, vname, code, vt = items
      self.types[kname], self.types[vname] = 'col', vt
      bind = "fun kv_ %s => let %s := fst kv_ in let %s := snd kv_ in" % (pat(vs), kname, vname)
      names = {kname, vname}
    elif (isinstance(it, ast.Call) and isinstance(it.func, ast.Name) and it.func.id == 'enumerate' and len(it.args) == 1
          and isinstance(tg, ast.Tuple) and len(tg.elts) == 2 and all(isinstance(e, ast.Name) for e in tg.elts)):
      code, t = self.expr(it.args[0])
      if t not in ELEM:
        fail(s, 'enumerate of a %s' % t)
      a, b = tg.elts[0].id, tg.elts[1].id
      self.types[a], self.types[b] = 'nat', ELEM[t]
      code = 'py_enumerate %s' % code
      bind = "fun ix_ %s => let %s := fst ix_ in let %s := snd ix_ in" % (pat(vs), a, b)
      names = {a, b}
    elif (isinstance(it, ast.Call) and isinstance(it.func, ast.Name) and it.func.id == 'zip' and len(it.args) == 2
          and isinstance(tg, ast.Tuple) and len(tg.elts) == 2 and all(isinstance(e, ast.Name) for e in tg.elts)):
      c1, t1 = self.expr(it.args[0])
      c2, t2 = self.expr(it.args[1])
      if t1 not in ELEM or t2 not in ELEM:
        fail(s, 'zip of a %s and a %s' % (t1, t2))
      a, b = tg.elts[0].id, tg.elts[1].id
      self.types[a], self.types[b] = ELEM[t1], ELEM[t2]
      code = 'combine (%s) (%s)' % (c1, c2)
      bind = "fun ab_ %s => let %s := fst ab_ in let %s := snd ab_ in" % (pat(vs), a, b)
      names = {a, b}
    elif isinstance(tg, ast.Name):
      code, t = self.expr(it)
      if t not in ELEM:
        fail(s, 'iteration over a %s' % t)
      self.types[tg.id] = ELEM[t]
      bind = "fun %s %s =>" % (tg.id, pat(vs))
      names = {tg.id}
    else:
      fail(s, 'loop target')
    self.loops.append(vs)
    body = self.block(s.body, set(defined) | names, lambda d: 'Ok %s' % tup(vs))
    self.loops.pop()
    for n in names:
      self.types.pop(n, None)
      if n in saved:
        self.types[n] = saved[n]
    return "rbind (for_m (%s) %s (%s\n%s)) (fun %s =>\n%s)" % (code, tup(vs), bind, body, pat(vs), k(defined))

  def s_Expr(self, s, defined, k):
    c = s.value
    if isinstance(c, ast.Constant) and isinstance(c.value, str):
      return k(defined)                                     # docstring
    if not (isinstance(c, ast.Call) and isinstance(c.func, ast.Attribute)):
      fail(s, 'expression statement')
    f, recv = c.func, c.func.value
    # self.BulkUpdateRecord(table_id, ids, values)
    if (f.attr == 'BulkUpdateRecord' and isinstance(recv, ast.Name) and recv.id == 'self' and len(c.args) == 3
        and isinstance(c.args[0], ast.Name) and c.args[0].id == 'table_id' and not c.keywords):
      a, at = self.expr(c.args[1])
      b, bt = self.expr(c.args[2])
      if at == 'ids' and bt == 'kv':
        return 'rbind (oe_bulk_update oe t %s %s) (fun t =>\n%s)' % (a, b, k(defined))
      fail(s, 'arguments of BulkUpdateRecord')
    if f.attr == 'append' and len(c.args) == 1 and not c.keywords:
      arg = c.args[0]
      # x.append(d.pop("id", None))
      if (isinstance(recv, ast.Name) and isinstance(arg, ast.Call) and isinstance(arg.func, ast.Attribute)
          and arg.func.attr == 'pop' and isinstance(arg.func.value, ast.Name) and len(arg.args) == 2
          and isinstance(arg.args[1], ast.Constant) and arg.args[1].value is None):
        d = arg.func.value.id
        self.refine(recv.id, 'optval')
        if self.vtype(recv.id) == 'optvals' and self.types.get(d) == 'cells':
          return "let '(popped_, %s) := dict_pop %s %s in\nlet %s := %s ++ [popped_] in\n%s" % (
            d, d, self.const_col(arg.args[0]), recv.id, recv.id, k(defined))
      # m[key].append(v) on a dict of lists
      if isinstance(recv, ast.Subscript) and isinstance(recv.value, ast.Name) and self.types.get(recv.value.id) == 'kv':
        m = recv.value.id
        i, it = self.expr(recv.slice)
        v, vt = self.expr(arg)
        if it == 'col' and vt == 'val':
          return 'rbind (cm_append %s %s (%s)) (fun %s =>\n%s)' % (m, i, v, m, k(defined))
      # result['field'].append(v)
      if (isinstance(recv, ast.Subscript) and isinstance(recv.value, ast.Name) and self.types.get(recv.value.id) == 'ret'
          and isinstance(recv.slice, ast.Constant) and recv.slice.value in RESULT_FIELDS):
        fld, r = RESULT_FIELDS[recv.slice.value], recv.value.id
        v, vt = self.expr(arg)
        if ELEM[fld[2]] == vt:
          return 'let %s := %s %s (%s %s ++ [%s]) in\n%s' % (r, fld[1], r, fld[0], r, v, k(defined))
      # x.append(v)
      if isinstance(recv, ast.Name) and self.types.get(recv.id) is not None:
        v, vt = self.expr(arg)
        self.refine(recv.id, vt)
        if ELEM.get(self.vtype(recv.id)) == vt:
          return 'let %s := %s ++ [%s] in\n%s' % (recv.id, recv.id, v, k(defined))
      fail(s, 'append')
    # d.update(d2)
    if f.attr == 'update' and isinstance(recv, ast.Name) and self.types.get(recv.id) == 'cells' and len(c.args) == 1:
      b, code, t = self.mexpr(c.args[0])
      if t == 'cells':
        return Fn.wrap(b, 'let %s := dict_update %s (%s) in\n%s' % (recv.id, recv.id, code, k(defined)))
    fail(s, 'call statement')

  def s_FunctionDef(self, s, defined, k):
    # nested one-expression helper: expanded at its calls
    a = s.args
    if (len(s.body) == 1 and isinstance(s.body[0], ast.Return) and not s.decorator_list and not a.vararg and not a.kwarg
        and not a.kwonlyargs and not a.defaults):
      self.inline = dict(getattr(self, 'inline', {}))
      self.inline[s.name] = ([x.arg for x in a.args], s.body[0].value)
      return k(defined)
    fail(s, 'nested function')

  for name, fn in list(locals().items()):
    if callable(fn):
      setattr(Fn, name, fn)


_stmts()


# ---------------------------------------------------------------------------------------------
# driver

HEADER = '''(* GENERATED by harness/up2v.py from %s -- do not edit.
   UserActions.BulkAddOrUpdateRecord / AddOrUpdateRecord over the opaque environment `oenv`
   (Lib/UpsertPrelude.v).  Regenerated on every run of ./check C28. *)
From Coq Require Import ZArith List Bool.
Import ListNotations.
Require Import Grist.Model.Upsert Grist.Lib.UpsertPrelude.
Open Scope Z_scope.
'''


def order_keys(fn):
  keys = {'t': 0}
  for st in fn.body:
    if not isinstance(st, (ast.If, ast.For, ast.While, ast.Try, ast.With, ast.FunctionDef)):
      for v in assigned([st]):
        keys[v] = st.lineno
  for node in ast.walk(fn):
    if isinstance(node, ast.stmt) and not isinstance(node, (ast.If, ast.For, ast.While, ast.Try, ast.With, ast.FunctionDef)):
      for v in assigned([node]):
        keys.setdefault(v, node.lineno)
  return keys


def find_method(path, cls, name):
  with open(path) as f:
    tree = ast.parse(f.read())
  for node in tree.body:
    if isinstance(node, ast.ClassDef) and node.name == cls:
      for m in node.body:
        if isinstance(m, ast.FunctionDef) and m.name == name:
          return m
  raise Untranslatable('%s.%s not found in %s' % (cls, name, path))


def check_signature(fn, names):
  a = fn.args
  got = [x.arg for x in a.args]
  if got != names or a.vararg or a.kwarg or a.kwonlyargs or a.defaults:
    raise Untranslatable('%s has parameters %r, expected %r' % (fn.name, got, names))
  decos = [ast.dump(d) for d in fn.decorator_list]
  if decos != [ast.dump(ast.parse('useraction').body[0].value)]:
    raise Untranslatable('%s: unexpected decorators' % fn.name)


def translate_bulk(path):
  fn = find_method(path, 'UserActions', 'BulkAddOrUpdateRecord')
  check_signature(fn, ['self', 'table_id', 'require', 'col_values', 'options'])
  tr = Fn({'require': 'kv', 'col_values': 'kv'})
  tr.order = order_keys(fn)
  def ret(node):
    c, t = tr.expr(node)
    if t != 'ret':
      fail(node, 'return of a %s' % t)
    return 'Ok (t, %s)' % c
  tr.ret = ret
  body = tr.block(fn.body, {'t', 'require', 'col_values'}, lambda d: fail(fn, 'function may end without return'))
  return ('Definition gen_upsert (oe : oenv) (t : table) (require col_values : kv) (opts : options)\n'
          '  : res (table * retval) :=\n%s.\n' % body)


def translate_single(path):
  fn = find_method(path, 'UserActions', 'AddOrUpdateRecord')
  check_signature(fn, ['self', 'table_id', 'require', 'col_values', 'options'])
  tr = Fn({'require': 'cells', 'col_values': 'cells'})
  tr.order = order_keys(fn)
  def ret(node):
    c, t = tr.expr(node)
    if t != 'sret':
      fail(node, 'return of a %s' % t)
    return 'Ok (t, %s)' % c
  tr.ret = ret
  body = tr.block(fn.body, {'t', 'require', 'col_values'}, lambda d: fail(fn, 'function may end without return'))
  return ('Definition gen_upsert_single (oe : oenv) (t : table) (require col_values : cells) (opts : options)\n'
          '  : res (table * (list Z * action)) :=\n%s.\n' % body)


def translate(path):
  return HEADER % path + '\n' + translate_bulk(path) + '\n' + translate_single(path)
