"""Turn a known-findings entry into a 'fixed' record: python -m harness.markfixed <entry id> <commit>"""
import json
import os
import sys

from harness import core


def main():
  eid, commit = sys.argv[1], sys.argv[2]
  path = os.path.join(core.VERIF, 'known_findings.json')
  with core.flock(path + '.lock'):
    data = json.load(open(path))
    for e in data['findings']:
      if e['id'] == eid:
        e['kind'] = 'fixed'
        e['commit'] = commit
        e['record'] = 'fixed: property=%s %s %s' % (e['property'], commit, e['what'])
        break
    else:
      raise SystemExit('no entry ' + eid)
    with open(path + '.tmp', 'w') as f:
      json.dump(data, f, indent=1)
    os.rename(path + '.tmp', path)
  print(e['record'][:200])


if __name__ == '__main__':
  main()
