"""cb2v: the calls and attribute accesses that codebuilder.py makes into textbuilder, re, ast, asttokens."""
import ast

from harness.cb2v import fail, cname, is_res, NODE_CLASSES, Untranslatable


IGNORED = ('atok', 'assoc_value', 'default_value')      # oracle objects passed along, never looked at here


def args_of(tr, n, env, want=None):
  if any(k.arg is None for k in n.keywords):
    fail(n, '**kwargs')
  def one(e):
    if isinstance(e, ast.Name) and e.id in IGNORED and e.id not in env:
      return ('tt', '_')
    try:
      return tr.expr(e, env)
    except Untranslatable:
      return ('?', '?')          # only the special forms below (which look at the syntax) may still apply
  return [one(a) for a in n.args], {k.arg: one(k.value) for k in n.keywords}


def pure(n, parts):
  for c, t in parts:
    if is_res(t):
      fail(n, 'a call that may raise inside an expression')
  return [c for c, _ in parts]


def isinstance_call(tr, n, env):
  obj, cls = n.args
  classes = cls.elts if isinstance(cls, ast.Tuple) else [cls]
  # isinstance(node.value, str|bytes): the kind of a constant's value
  if isinstance(obj, ast.Attribute) and obj.attr == 'value':
    c, t = tr.expr(obj.value, env)
    if t != 'node':
      fail(n, 'isinstance of a value')
    tests = []
    for k in classes:
      if not (isinstance(k, ast.Name) and k.id in ('str', 'bytes')):
        fail(n, 'class of a constant value')
      tests.append('(value_is_%s %s)' % (k.id, c))
    return '(' + ' || '.join(tests) + ')', 'B'
  c, t = tr.expr(obj, env)
  if t != 'node':
    fail(n, 'isinstance')
  tests = []
  for k in classes:
    if not (isinstance(k, ast.Attribute) and ast.unparse(k.value) == 'ast' and k.attr in NODE_CLASSES):
      fail(n, 'node class')
    tests.append('(%s %s)' % (NODE_CLASSES[k.attr], c))
  return '(' + ' || '.join(tests) + ')', 'B'


def is_const(n, s):
  return isinstance(n, ast.Constant) and n.value == s


def call(tr, n, env):
  f = ast.unparse(n.func)
  a, kw = args_of(tr, n, env)
  ts = [t for _, t in a]
  if f == 'isinstance' and len(n.args) == 2:
    return isinstance_call(tr, n, env)
  if f == 'len' and ts in (['text'], ['Lpatch']):
    return '(len %s)' % a[0][0], 'Z'
  if f == 'commonprefix' and ts == ['Ltext']:
    return '(common_prefix %s)' % a[0][0], 'text'
  # --- textbuilder
  if f in ('textbuilder.Text', 'Text') and ts[:1] == ['text']:
    return a[0]
  if f in ('textbuilder.Patch', 'Patch') and ts == ['Z', 'Z', 'text', 'text']:
    return '(%s, %s, %s, %s)' % tuple(pure(n, a)), 'patch'
  if f in ('textbuilder.make_patch', 'make_patch') and ts == ['text', 'Z', 'Z', 'text']:
    return '(gen_make_patch %s %s %s %s)' % tuple(pure(n, a)), 'patch'
  if f in ('textbuilder.Replacer', 'Replacer') and ts == ['text', 'Lpatch']:
    return '(replacer_text gen_replacer_init %s %s)' % tuple(pure(n, a)), ('res', 'text')
  if f in ('textbuilder.Combiner', 'Combiner') and len(n.args) == 1 and isinstance(n.args[0], ast.List):
    parts = [tr.expr(e, env) for e in n.args[0].elts]
    if any(t != 'text' for _, t in parts):
      fail(n, 'Combiner parts')
    return '(' + ' ++ '.join(c for c, _ in parts) + ')', 'text'
  # --- methods
  if isinstance(n.func, ast.Attribute):
    m = n.func.attr
    try:
      o, to = tr.expr(n.func.value, env) if ast.unparse(n.func.value) not in ('re', 'ast', 'atok', 'textbuilder') \
        else (None, None)
    except Untranslatable:
      o, to = None, None         # a method of an oracle object: only tr.funcs (full dotted name) may know it
    if to == 'text' and m == 'startswith' and len(n.args) == 1 and isinstance(n.args[0], ast.Constant) and ts == ['text']:
      return '(starts_with %s %s)' % (a[0][0], o), 'B'
    if to == 'text' and m == 'get_text' and not a:
      return o, 'text'
    if to == 'text' and m == 'rstrip' and not a:
      return '(rstrip %s)' % o, 'text'
    if to == 'text' and m == 'strip' and not a:
      return '(drop_while is_space (rstrip %s))' % o, 'text'
    if to == 'regex' and m == 'sub' and ts == ['text', 'text']:
      return '(re_sub %s %s %s)' % (o, a[0][0], a[1][0]), 'text'
    if to == 'regex' and m == 'findall' and ts == ['text']:
      return '(re_findall %s %s)' % (o, a[0][0]), 'Ltext'
    if to == 'regex' and m == 'finditer' and ts == ['text']:
      return '(re_finditer %s %s)' % (o, a[0][0]), 'Lmatch'
    if to == 'regex' and m == 'match' and ts == ['text', 'Z']:
      return '(re_match_at %s %s %s)' % (o, a[0][0], a[1][0]), 'Omatch'
    if to == 'match' and m in ('start', 'end') and len(n.args) == 1 and is_const(n.args[0], 0):
      return '(m_%s %s)' % (m, o), 'Z'
    if f == 'atok.get_text' and ts == ['node']:
      return '(node_text %s)' % a[0][0], 'text'
    if f == 'atok.get_text_range' and ts == ['node']:
      return '(node_start %s, node_end %s)' % (a[0][0], a[0][0]), ('tuple', 'Z', 'Z')
    if f == 'ast.iter_child_nodes' and ts == ['node']:
      return '(node_children %s)' % a[0][0], 'Lnode'
    # re.compile('^' + p, re.MULTILINE): the one pattern that is built at run time in _dedent
    if f == 're.compile' and len(n.args) == 2 and ast.unparse(n.args[1]) == 're.MULTILINE' \
       and isinstance(n.args[0], ast.BinOp) and isinstance(n.args[0].op, ast.Add) and is_const(n.args[0].left, '^'):
      p, tp = tr.expr(n.args[0].right, env)
      if tp == 'text':
        return '(RE_line_prefix %s)' % p, 'regex'
    # re.sub('(?<=\n)' + re.escape(indent) + '(?=.*\S)', '', text): the un-indent of make_formula_body
    if f == 're.sub' and len(n.args) == 3 and isinstance(n.args[0], ast.BinOp):
      pat = n.args[0]
      if isinstance(pat.left, ast.BinOp) and is_const(pat.left.left, '(?<=\\n)') and is_const(pat.right, '(?=.*\\S)') \
         and isinstance(pat.left.right, ast.Call) and ast.unparse(pat.left.right.func) == 're.escape' \
         and isinstance(pat.op, ast.Add) and isinstance(pat.left.op, ast.Add):
        ind, ti = tr.expr(pat.left.right.args[0], env)
        if ti == 'text' and ts[1:] == ['text', 'text']:
          return '(re_sub (RE_unindent %s) %s %s)' % (ind, a[1][0], a[2][0]), 'text'
  # --- a variable holding a lambda
  if isinstance(n.func, ast.Name) and n.func.id in env and isinstance(env[n.func.id][1], tuple) \
     and env[n.func.id][1][0] == 'fun' and ts == [env[n.func.id][1][1]]:
    return '(%s %s)' % (env[n.func.id][0], a[0][0]), env[n.func.id][1][2]
  # --- generated functions (already translated, or translated on demand)
  name = f.split('.')[-1]
  sig = tr.funcs.get(f) or tr.funcs.get(name) or tr.want(name, ts, n)
  if sig is not None:
    coq, params, result = sig
    vals = dict(zip([p for p, _ in params], a))
    vals.update(kw)
    if set(vals) != set(p for p, _ in params) or any(vals[p][1] != t for p, t in params if t != '_'):
      fail(n, 'arguments of %s' % name)
    return '(%s %s)' % (coq, ' '.join(vals[p][0] for p, t in params if t != '_')), result
  fail(n, 'call')
