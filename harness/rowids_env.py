"""
Small helpers shared by the C27 and C26 checks: drive the REAL engine (imported from core.GRIST) on a document
with user tables whose row-id sets are put into a requested state.  Only the public API is used
(apply_user_actions, fetch_table, ActionGroup.{retValues,stored}).
"""
import copy
import logging

from harness import core

core.setup_impl_path()
logging.disable(logging.CRITICAL)

import actions                 # noqa: E402
import engine as engine_mod    # noqa: E402
import useractions             # noqa: E402


def ua(a):
  return useractions.from_repr(copy.deepcopy(a))


def apply(e, bundle):
  return e.apply_user_actions([ua(a) for a in bundle])


def new_doc(tables):
  """tables: list of (table_id, [(col_id, type)]).  Tables are created first, then columns (so that
  reference columns can point at any of the tables)."""
  e = engine_mod.Engine()
  e.load_empty()
  apply(e, [['InitNewDoc']])
  apply(e, [['AddTable', t, [{'id': 'A', 'type': 'Int'}]] for t, _ in tables])
  cols = [['AddColumn', t, c, {'type': ty, 'isFormula': False}] for t, cs in tables for c, ty in cs]
  if cols:
    apply(e, cols)
  return e


def row_ids(e, t):
  return [int(r) for r in e.fetch_table(t).row_ids]


def snapshot(e):
  """Canonical picture of every table of the document (ids and every column, encoded as in engine replies)."""
  out = {}
  for t in sorted(e.tables):
    rep = actions.get_action_repr(e.fetch_table(t))
    out[t] = (list(rep[2]), sorted((c, repr(v)) for c, v in rep[3].items()))
  return out


def set_rows(e, t, rows, ghosts=()):
  """Make table t hold exactly `rows` (sorted, positive).  `ghosts` are extra ids that are added and removed
  again, so that the id column is longer than the largest existing id (next_row_id must not depend on it)."""
  apply(e, [['ReplaceTableData', t, [], {}]])
  allids = sorted(set(rows) | set(ghosts))
  if allids:
    apply(e, [['BulkAddRecord', t, allids, {}]])
  gone = sorted(set(ghosts) - set(rows))
  if gone:
    apply(e, [['BulkRemoveRecord', t, gone]])
  got = row_ids(e, t)
  if got != sorted(rows):
    raise core.TieBroken('cannot put table %s into state %r (got %r)' % (t, sorted(rows), got))


def exc_name(ex):
  return type(ex).__name__
