"""
Shared by the properties built on the value model V (coq/theories/Model/Values.v): C22, C24 (and C07).

  Builder      turns Python values into Coq `value` literals and collects, from the REAL library functions,
               the oracle tables (`tables`) the model needs for one case
  gen_value    the value grammar (numbers at the 2^31 / 2^53 edges, NaN/inf, numeric / JSON / ISO looking
               strings, bytes, containers, dates with zones, records, AltText, errors with user input,
               str/int subclasses, opaque objects)

Everything here runs inside the check process with the implementation importable (core.setup_impl_path()).
"""
import datetime
import decimal
import enum
import fractions
import json
import math

from harness import core

EPOCH = datetime.datetime(1970, 1, 1)
US = datetime.timedelta(microseconds=1)


def Z(n):
  if abs(n) >= 1 << 64:          # hex: no 4300-digit limit, shorter
    return '(- 0x%x)' % -n if n < 0 else '0x%x' % n
  return '(%d)' % n if n < 0 else '%d' % n


def zl(ns):
  return '[' + '; '.join(Z(n) for n in ns) + ']'


def slit(s):
  """str -> Coq `str` (list Z of code points); printable ASCII goes through a string literal (much faster to parse)"""
  if s and all(32 <= ord(c) < 127 for c in s):
    return '(Str "%s")' % s.replace('"', '""')
  return zl([ord(c) for c in s])


def blit(b):
  return 'true' if b else 'false'


def flit(x):
  if x != x:
    return 'FNan'
  if x in (float('inf'), float('-inf')):
    return '(FInf %s)' % blit(x < 0)
  if x == 0:
    return '(FZero %s)' % blit(math.copysign(1, x) < 0)
  m, e = math.frexp(x)
  m = int(m * 2 ** 53)
  e -= 53
  while m % 2 == 0:
    m //= 2
    e += 1
  return '(FNum %s %s)' % (Z(m), Z(e))


def opt(x, f):
  return 'None' if x is None else '(Some %s)' % f(x)


def td_us(td):
  return td // US


def fkey(x):
  """hashable identity of a float's bits (NaN collapsed)"""
  return 'nan' if x != x else x.hex()


# ---- classes used to build values -----------------------------------------------------------------

class IntSub(int):
  pass


class FloatSub(float):
  pass


class StrSub(str):
  pass


class BytesSub(bytes):
  pass


class Color(enum.IntEnum):
  RED = 1
  BIG = 2 ** 40


class BadStr(object):
  def __str__(self):
    raise ValueError("no str")

  def __repr__(self):
    return '<BadStr>'


class BadRepr(object):
  def __str__(self):
    raise ValueError("no str")

  def __repr__(self):
    raise ValueError("no repr")


class BadBool(object):
  def __bool__(self):
    raise ValueError("no bool")

  def __repr__(self):
    return '<BadBool>'


class Floaty(object):
  def __init__(self, x):
    self.x = x

  def __float__(self):
    return self.x

  def __repr__(self):
    return 'Floaty(%r)' % self.x


class Named(object):
  """an object whose str() is a chosen text"""
  def __init__(self, text):
    self.text = text

  def __str__(self):
    return self.text

  def __repr__(self):
    return 'Named(%r)' % self.text


_tables = {}


def fake_table(table_id):
  """A stand-in for table.Table good enough for records.Record / RecordSet."""
  import records
  if table_id in _tables:
    return _tables[table_id]

  class FakeTable(object):
    _identity_relation = object()

    def _attribute_error(self, name, relation):
      raise AttributeError("Table '%s' has no column '%s'" % (self.table_id, name))

  t = FakeTable()
  t.table_id = table_id

  class Rec(records.Record):
    _table = t
    id = property(lambda self: self._row_id)

  class RecSet(records.RecordSet):
    _table = t

  Rec.__name__ = 'Record'
  RecSet.__name__ = 'RecordSet'
  t.Record = Rec
  t.RecordSet = RecSet
  _tables[table_id] = t
  return t


def record(table_id, row_id):
  return fake_table(table_id).Record(row_id)


def recordset(table_id, row_ids, group_by=None, sort_by=None, sort_key=None):
  return fake_table(table_id).RecordSet(row_ids, group_by=group_by, sort_by=sort_by, sort_key=sort_key)


# ---- literals + oracle tables -------------------------------------------------------------------------

class Builder(object):
  """One Builder per case: literals share opaque ids; tables collect what the implementation's library
  functions answer for everything the model may ask about the values it was shown."""

  def __init__(self):
    import moment
    import objtypes
    import records
    self.moment, self.objtypes, self.records = moment, objtypes, records
    self.opaque = []            # objects, id = index + 1
    self.infos = {}             # RecordList/RecordSet (group_by, sort_by, sort_key) -> id; (None,)*3 -> 0
    self.tags = {}              # repr of a foreign tzinfo -> tag
    self.t = dict((k, {}) for k in (
      'float_of_str', 'float_of_bytes', 'float_repr', 'fmt15g', 'str', 'repr', 'type_name', 'json', 'iso',
      'int_of_str', 'lower', 'utf8', 'zone_known', 'dt_offset', 'ts_offset', 'truthy', 'float_of_opaque', 'iter'))
    self.seen = set()

  # -- literals
  def info_id(self, group_by, sort_by, sort_key):
    if group_by is None and sort_by is None and sort_key is None:
      return 0
    k = (repr(group_by), repr(sort_by), id(sort_key) if sort_key is not None else None)
    return self.infos.setdefault(k, len(self.infos) + 1)

  def opaque_id(self, v):
    for i, o in enumerate(self.opaque):
      if o is v:
        return i + 1
    self.opaque.append(v)
    return len(self.opaque)

  def tz(self, dt):
    tzi = dt.tzinfo
    if tzi is None:
      return 'TzNaive'
    if isinstance(tzi, self.moment.TzInfo):
      fav = tzi._favor_offset
      return '(TzMoment %s %s)' % (slit(tzi.zone.name), opt(None if fav is None else td_us(fav), Z))
    off = tzi.utcoffset(dt)
    tag = self.tags.setdefault(repr(tzi), len(self.tags) + 1)
    return '(TzFixed %s %s)' % (Z(td_us(off)), Z(tag))

  def val(self, v):
    o, r = self.objtypes, self.records
    t = type(v)
    if v is None:
      return 'PNone'
    if t is bool:
      return '(PBool %s)' % blit(v)
    if isinstance(v, int):
      return '(PInt %s %s)' % (blit(t is not int), Z(int(v)))
    if isinstance(v, float):
      return '(PFloat %s %s)' % (blit(t is not float), flit(float.__float__(v)))
    if isinstance(v, str):
      return '(PStr %s %s)' % (blit(t is not str), slit(str.__str__(v)))
    if isinstance(v, bytes):
      return '(PBytes %s %s)' % (blit(t is not bytes), zl(list(v)))
    if t is o.RecordList:
      return '(PList (LRecordList %s) %s)' % (Z(self.info_id(v._group_by, v._sort_by, v._sort_key)), self.vals(v))
    if t is list:
      return '(PList LPlain %s)' % self.vals(v)
    if t is tuple:
      return '(PTuple %s)' % self.vals(v)
    if t is dict:
      return '(PDict [%s])' % '; '.join('(%s, %s)' % (self.val(k), self.val(x)) for k, x in v.items())
    if t is set:
      return '(PSet %s)' % self.vals(list(v))
    if isinstance(v, datetime.datetime) and t is datetime.datetime:
      wall = td_us(v.replace(tzinfo=None) - EPOCH)
      return '(PDateTime %s %s)' % (Z(wall), self.tz(v))
    if t is datetime.date:
      return '(PDate %s)' % Z((v - EPOCH.date()).days)
    if isinstance(v, r.Record):
      return '(PRecord %s %s)' % (slit(v._table.table_id), Z(v._row_id))
    if isinstance(v, r.RecordSet):
      rows = v._row_ids
      if type(rows) is list:
        k = 'RList'
      elif type(rows) is tuple:
        k = 'RTuple'
      else:
        k = '(RRecordList %s)' % Z(self.info_id(rows._group_by, rows._sort_by, rows._sort_key))
      return '(PRecordSet %s %s %s %s)' % (slit(v._table.table_id), k, zl(list(rows)),
                                           Z(self.info_id(v._group_by, v._sort_by, v._sort_key)))
    if t is o.RecordStub:
      return '(PRecordStub %s %s)' % (self.val(v.table_id), self.val(v.row_id))
    if t is o.RecordSetStub:
      return '(PRecordSetStub %s %s)' % (self.val(v.table_id), self.val(v.row_ids))
    if t is o.ReferenceLookup:
      return '(PRefLookup %s %s)' % (self.val(v.value), self.val(v.options))
    if t is o.AltText:
      return '(PAltText %s)' % slit(v._text)
    if t is o.RaisedException:
      ui = None if v.user_input is o.RaisedException.NO_INPUT else [v.user_input]
      return '(PErr %s %s %s %s)' % (self.val(v._name), self.val(v._message), self.val(v.details),
                                     'None' if ui is None else '(Some %s)' % self.val(ui[0]))
    if v is o._pending_sentinel:
      return 'PPending'
    if v is o._censored_sentinel:
      return 'PCensored'
    if t is o.UnmarshallableValue:
      return '(PUnmarsh %s)' % self.val(v.value_repr)
    return '(POpaque %s)' % Z(self.opaque_id(v))

  def vals(self, l):
    return '[' + '; '.join(self.val(x) for x in l) + ']'

  # -- oracle tables
  def add_float(self, x):
    x = float.__float__(x)
    k = fkey(x)
    if k not in self.t['float_repr']:
      self.t['float_repr'][k] = (flit(x), slit(repr(x)))
      self.t['fmt15g'][k] = (flit(x), slit(u"%.15g" % x))

  def add_string(self, s, zones=()):
    s = str.__str__(s)
    key = ('s', s, tuple(zones))
    if key in self.seen:
      return
    self.seen.add(key)
    try:
      f = float(s)
      self.add_float(f)
    except Exception:
      f = None
    self.t['float_of_str'][s] = (slit(s), opt(f, flit))
    self.t['lower'][s] = (slit(s), slit(s.lower()))
    if s.startswith('['):
      try:
        j = [json.loads(s)]
      except Exception:
        j = None
      if j is not None:
        self.collect(j[0])
      self.t['json'][s] = (slit(s), opt(j, lambda x: self.val(x[0])))
    if s.startswith('RecordList(['):
      try:
        pieces = s.split('[')[1].split(']')[0].split(',')
      except Exception:
        pieces = []
      for p in pieces:
        try:
          n = int(p)
        except Exception:
          n = None
        self.t['int_of_str'][p] = (slit(p), opt(n, Z))
    import iso8601
    try:
      dt = iso8601.parse_date(s, default_timezone=None)
    except Exception:
      dt = None
    if dt is None:
      self.t['iso'][s] = (slit(s), 'None')
    else:
      wall = td_us(dt.replace(tzinfo=None) - EPOCH)
      off = dt.utcoffset()
      self.t['iso'][s] = (slit(s), '(Some (%s, %s))' % (Z(wall), opt(None if off is None else td_us(off), Z)))
      naive = dt.replace(tzinfo=None)
      for z in zones:
        self.add_dt_offset(z, None, naive)
      self.add_float((naive.date() - EPOCH.date()).total_seconds())

  def add_dt_offset(self, zone, favor, naive):
    try:
      off = self.moment.Zone(zone).dt_offset(naive, favor)
    except Exception:
      return
    wall = td_us(naive - EPOCH)
    fav = None if favor is None else td_us(favor)
    self.t['dt_offset'][(zone, fav, wall)] = ('(%s, %s, %s)' % (slit(zone), opt(fav, Z), Z(wall)), Z(td_us(off)))

  def add_ts_offset(self, zone, utc_us):
    """Zone(zone).offset(ms) at the UTC instant utc_us, asked the way moment.py asks (float milliseconds)."""
    try:
      zn = self.moment.Zone(zone)
      ms = datetime.timedelta(microseconds=utc_us).total_seconds() * 1000
      off = zn.offset(ms)
    except Exception:
      return
    self.t['ts_offset'][(zone, utc_us)] = ('(%s, %s)' % (slit(zone), Z(utc_us)), Z(td_us(off)))

  def add_zone(self, label):
    """label: any Python value used as a zone label"""
    lit = self.val(label)
    try:
      known = label in self.moment.get_tz_data()
      res = '(Ok %s)' % blit(known)
    except Exception as e:
      res = '(Raise %s)' % slit(type(e).__name__)
    self.t['zone_known'][lit] = (lit, res)

  def collect(self, v, zones=(), depth=0, encode_only=False):
    """Record what the library answers about v and everything inside it. zones: zone names of the column
    types the value will be converted with. encode_only: the caller only runs encode_object on v, which never asks
    for str()/repr() of a list, tuple or str-keyed dict (keeps the tables of deeply nested values linear)."""
    o, r = self.objtypes, self.records
    lit = self.val(v)
    key = ('v', lit, tuple(zones))
    if key in self.seen or depth > 400:
      return
    self.seen.add(key)
    t = type(v)
    prim = v is None or t is bool or isinstance(v, (int, float, str)) or t is o.AltText
    quiet = encode_only and (t in (list, tuple, o.RecordList) or (t is dict and all(isinstance(k, str) for k in v)))
    if quiet:
      pass
    elif not prim:
      for name, fn in (('str', str), ('repr', repr)):
        try:
          s = fn(v)
        except Exception:
          s = None
        self.t[name][lit] = (lit, opt(s, slit))
      self.t['type_name'][lit] = (lit, slit(type(v).__name__))
    elif isinstance(v, str) or t is o.AltText:
      try:
        s = repr(v)
      except Exception:
        s = None
      self.t['repr'][lit] = (lit, opt(s, slit))
      self.t['type_name'][lit] = (lit, slit(type(v).__name__))
    elif isinstance(v, (int, float)) and t not in (int, float, bool):
      self.t['type_name'][lit] = (lit, slit(type(v).__name__))
      try:
        s = repr(v)
      except Exception:
        s = None
      self.t['repr'][lit] = (lit, opt(s, slit))
    if isinstance(v, float):
      self.add_float(v)
    elif isinstance(v, str):
      self.add_string(v, zones)
    elif t is o.AltText:
      if isinstance(v._text, str):
        self.add_string(v._text, zones)
    elif isinstance(v, bytes):
      b = bytes(v)
      try:
        s = b.decode('utf8')
      except Exception:
        s = None
      self.t['utf8'][b] = (zl(list(b)), opt(s, slit))
      try:
        f = float(b)
        self.add_float(f)
      except Exception:
        f = None
      self.t['float_of_bytes'][b] = (zl(list(b)), opt(f, flit))
    elif t in (list, tuple, set, o.RecordList):
      for x in v:
        # safe_repr of a set asks for the repr of every element
        self.collect(x, zones, depth + 1, encode_only and t is not set)
    elif t is dict:
      for k, x in v.items():
        self.collect(k, zones, depth + 1, encode_only)
        self.collect(x, zones, depth + 1, encode_only)
    elif t is datetime.datetime:
      naive = v.replace(tzinfo=None)
      if isinstance(v.tzinfo, self.moment.TzInfo):
        self.add_dt_offset(v.tzinfo.zone.name, v.tzinfo._favor_offset, naive)
      for z in zones:
        self.add_dt_offset(z, None, naive)
      self.add_float((naive.date() - EPOCH.date()).total_seconds())
    elif t is datetime.date:
      for z in zones:
        self.add_ts_offset(z, (v - EPOCH.date()).days * 86400 * 10 ** 6)
    elif isinstance(v, r.RecordSet):
      for rec in v:
        self.collect(rec, zones, depth + 1, encode_only)
    elif t is o.RaisedException:
      for x in (v._name, v._message, v.details):
        self.collect(x, zones, depth + 1, encode_only)
      if v.user_input is not o.RaisedException.NO_INPUT:
        self.collect(v.user_input, zones, depth + 1, encode_only)
    elif t in (o.RecordStub, o.RecordSetStub, o.ReferenceLookup, o.UnmarshallableValue):
      for x in vars(v).values():
        self.collect(x, zones, depth + 1, encode_only)
    elif lit.startswith('(POpaque'):
      i = self.opaque_id(v)
      try:
        b = bool(v)
      except Exception:
        b = None
      self.t['truthy'][i] = (Z(i), opt(b, blit))
      try:
        f = float(v)
        self.add_float(f)
      except Exception:
        f = None
      self.t['float_of_opaque'][i] = (Z(i), opt(f, flit))
      try:
        items = list(v) if not isinstance(v, (str, bytes)) else None
      except Exception:
        items = None
      if items is not None:
        for x in items:
          self.collect(x, zones, depth + 1, encode_only)
      self.t['iter'][i] = (Z(i), opt(items, self.vals))

  def tables(self, need=None):
    """need: names of the tables the model can consult for this case (others are left empty); None = all"""
    order = ['float_of_str', 'float_of_bytes', 'float_repr', 'fmt15g', 'str', 'repr', 'type_name', 'json', 'iso',
             'int_of_str', 'lower', 'utf8', 'zone_known', 'dt_offset', 'ts_offset', 'truthy', 'float_of_opaque',
             'iter']
    parts = []
    for name in order:
      if need is not None and name not in need:
        parts.append('[]')
        continue
      parts.append('[' + '; '.join('(%s, %s)' % kv for kv in self.t[name].values()) + ']')
    return '(Build_tables %s)' % ' '.join(parts)


def ctype_lit(T):
  import usertypes
  name = type(T).__name__
  if name == 'DateTime':
    return '(TDateTime %s)' % slit(T._verif_zone)
  if name == 'Reference':
    return '(TRef %s)' % slit(T.table_id)
  if name == 'ReferenceList':
    return '(TRefList %s)' % slit(T.table_id)
  return {'Text': 'TText', 'Blob': 'TBlob', 'Any': 'TAny', 'Bool': 'TBool', 'Int': 'TInt', 'Numeric': 'TNumeric',
          'Date': 'TDate', 'Choice': 'TChoice', 'ChoiceList': 'TChoiceList', 'PositionNumber': 'TPositionNumber',
          'ManualSortPos': 'TManualSortPos', 'Id': 'TId', 'Attachments': 'TAttachments'}[name]


def all_types(zones=('America/New_York', 'UTC', 'Asia/Tokyo', 'Nowhere/Land')):
  """Every type object of usertypes.py (DateTime once per zone, one of them unknown)."""
  import usertypes as u
  out = [u.Text(), u.Blob(), u.Any(), u.Bool(), u.Int(), u.Numeric(), u.Date(), u.Choice(), u.ChoiceList(),
         u.PositionNumber(), u.ManualSortPos(), u.Id(), u.Reference('T'), u.ReferenceList('T'), u.Attachments()]
  for z in zones:
    d = u.DateTime(z)
    d._verif_zone = z
    out.append(d)
  return out


def type_zones(T):
  return (T.timezone.name,) if type(T).__name__ == 'DateTime' else ()


# ---- the value grammar -------------------------------------------------------------------------------

INTS = [0, 1, -1, 2, 7, 42, -17, 255, 2 ** 31 - 1, 2 ** 31, -2 ** 31, -2 ** 31 - 1, 2 ** 32, 2 ** 53 - 1, 2 ** 53,
        2 ** 53 + 1, -2 ** 53, 2 ** 63, 2 ** 64 + 1, 1509556595, 10 ** 15, 10 ** 400, -10 ** 400, 2 ** 1024 - 2 ** 970,
        2 ** 1024]
# decimal conversion of these is slow inside Coq (4300 long divisions): used sparingly
GIANTS = [10 ** 4299, -10 ** 4300, 10 ** 5000]
FLOATS = [0.0, -0.0, 1.0, -1.0, 1.5, 8.153, -3.75, 0.1, 1e10, 2.0 ** 31 - 1, 2.0 ** 31, -2.0 ** 31, -2.0 ** 31 - 1, 2.0 ** 31 - 0.5,
          2.0 ** 53 - 1, 2.0 ** 53, 2.0 ** 53 + 2, -2.0 ** 53, 1e15, 123456789012345.6, 1e16, 1e22, 1e300, 1.7976931348623157e308,
          5e-324, 1e-7, 1509556595.0, 1548115200.0, 253402300800.0, -62135596800.0, 1e18, float('inf'), float('-inf'), float('nan')]
NUMERIC_STRS = ['5', ' 12.7 ', '-3', '+4', '1e5', '1_000', '1__0', 'inf', '-Infinity', 'nan', 'NaN', '-0', '0.0', '.5', '5.',
                u'٥', u' 5', '1e400', '-1e400', '0x10', '2147483647', '2147483648', '-2147483648', '-2147483649',
                '1.7976931348623157e308', '1' + '0' * 400, '12abc', '1,5', '1 2', '--1', '']
BOOL_STRS = ['true', 'false', 'YES', 'No', '0', '1', 'TRUE', ' true', 'y', 'on', 'True', 'FALSE', u'İ']
JSON_STRS = ['[]', '[1, 2]', '["a","b"]', '[1.5]', '[true]', '[false, 1]', '[0]', '[-1]', '[1099511627776]', '[[1]]', '[[]]',
             '{"a":1}', '[1', '["a", null]', '[1, "x"]', 'null', '[1,2', '[ 3 ]', '["[1]"]', '[{"a": 1.5}]', '[1e3]', '[NaN]',
             '["a", 1, null, [1], {"a":1.5}]', '[2147483648]', '[1, 2147483647]', "['a']", '[""]', '[1, true]']
ISO_STRS = ['2020-01-01', '2020-01-01T23:00:00-05:00', '2020-01-01 10:00', '2019-01-22 00:47:39', '20200101', '2020-13-01',
            '9999-12-31T23:59:59.999999', '0001-01-01', '2020-03-08T02:30:00', '2020-11-01T01:30:00', '2020-01-01T00:00:00Z',
            '2020-01-01T10:00:00.123456+09:00', '1800-06-01', '2020-02-30', '2020-1-1', '2020', '2020-06', '0001-01-01T00:00:00+05:00',
            '9999-12-31T23:59:59-05:00', '1969-12-31T23:59:59.999999']
RECLIST_STRS = ['RecordList([1, 2], group_by=None, sort_by=None)', 'RecordList([], group_by=None, sort_by=None)',
                'RecordList([1.5])', 'RecordList([ 3 ,4])', 'RecordList([1, 2', 'RecordList([0])', 'RecordList([-4, 2147483648])',
                "RecordList([5], group_by=('A',), sort_by='[x]')", 'RecordList([1_0])', 'RecordList(1)', 'RecordList([', 'RecordList([a])']
TEXTS = ['abc', 'New York', u'Chîcágö', ' ', 'T[5]', 'CENSORED', 'None', "b'x'", '<int>', u'\U0001f600', 'a\nb', 'x' * 40]
BYTES = [b'', b'5', b'abc', b'\xff\xfe', u'é'.encode('utf8'), b' 1.5 ', b'true', b'[1]', b'\xc3', b'1e3', b'nan', b'\x00']
ZONES = ['America/New_York', 'UTC', 'Asia/Tokyo', 'Europe/London', 'Asia/Kathmandu']


def gen_datetime(rng):
  import moment
  base = rng.choice([
    datetime.datetime(2020, 1, 1), datetime.datetime(2020, 1, 1, 23, 0), datetime.datetime(2024, 9, 2, 3, 8, 21),
    datetime.datetime(2020, 3, 8, 2, 30), datetime.datetime(2020, 11, 1, 1, 30), datetime.datetime(1969, 12, 31, 23, 59, 59, 999999),
    datetime.datetime(1800, 6, 1, 12), datetime.datetime(1, 1, 1), datetime.datetime(1, 1, 1, 0, 0, 0, 1),
    datetime.datetime(9999, 12, 31, 23, 59, 59, 999999), datetime.datetime(9999, 12, 31, 23, 59, 59, 999984),
    datetime.datetime(9999, 12, 31, 23, 0, 0, 1), datetime.datetime(3000, 1, 1, 0, 0, 0, 1), datetime.datetime(2255, 6, 5, 23, 47, 34, 740993),
    datetime.datetime(2020, 6, 15, 12, 30, 45, 123456),
    EPOCH + datetime.timedelta(microseconds=rng.randint(-62135596800 * 10 ** 6, 253402300799999999)),
    EPOCH + datetime.timedelta(microseconds=rng.randint(-10 ** 15, 4 * 10 ** 15)),
  ])
  k = rng.random()
  if k < 0.35:
    return base
  if k < 0.8:
    z = rng.choice(ZONES)
    fav = rng.choice([None, None, datetime.timedelta(hours=-5), datetime.timedelta(hours=-4), datetime.timedelta(0)])
    return base.replace(tzinfo=moment.tzinfo(z, fav))
  return base.replace(tzinfo=rng.choice([datetime.timezone.utc, datetime.timezone(datetime.timedelta(hours=5, minutes=30)),
                                         datetime.timezone(datetime.timedelta(hours=-3), 'X')]))


def gen_date(rng):
  return rng.choice([datetime.date(2020, 1, 1), datetime.date(2024, 9, 2), datetime.date(1970, 1, 1), datetime.date(1969, 12, 31),
                     datetime.date(1800, 1, 1), datetime.date.min, datetime.date.max, datetime.date(2020, 3, 8),
                     datetime.date(1, 1, 2), datetime.date(9999, 12, 30),
                     datetime.date.fromordinal(rng.randint(1, datetime.date.max.toordinal()))])


def gen_error(rng, depth):
  import objtypes
  k = rng.randrange(8)
  if k == 0:
    return objtypes.RaisedException(ValueError("boom"))
  if k == 1:
    return objtypes.RaisedException(ZeroDivisionError("float division by zero"), user_input=gen_value(rng, depth + 1))
  if k == 2:
    return objtypes.RaisedException(objtypes.InvalidTypedValue("Ref", "hello"))
  if k == 3:
    return objtypes.RaisedException(objtypes.CellError('T', 'A', 3, KeyError('k')), user_input=None)
  if k == 4:
    return objtypes.RaisedException.decode_args("TypeError", "msg", "details\nline2", {"u": ['L', 1, ['d', 86400.0]]})
  if k == 5:
    return objtypes.RaisedException.decode_args("NameError", None, None, None)
  if k == 6:
    return objtypes.RaisedException.decode_args(None)
  return objtypes.RaisedException(ValueError(u"é"), user_input=rng.choice(["5", 5, "", None]))


def gen_opaque(rng):
  return rng.choice([
    lambda: 1j, lambda: decimal.Decimal('5'), lambda: decimal.Decimal('0'), lambda: decimal.Decimal('1.5'),
    lambda: fractions.Fraction(1, 2), lambda: ValueError('5'), lambda: ValueError('true'), lambda: ValueError('2020-01-01'),
    lambda: ValueError('[1, 2]'), lambda: KeyError('k'), lambda: range(1, 3), lambda: range(0), lambda: range(3),
    lambda: BadStr(), lambda: BadRepr(), lambda: BadBool(), lambda: Floaty(2.5), lambda: Floaty(float('nan')),
    lambda: Named('5'), lambda: Named('yes'), lambda: Named('["a"]'), lambda: Named(''), lambda: Named('1e400'),
    lambda: len, lambda: object(), lambda: frozenset([1]), lambda: bytearray(b'5'), lambda: Ellipsis,
    lambda: datetime.timedelta(seconds=5), lambda: datetime.time(1, 2),
  ])()


def gen_scalar(rng):
  k = rng.randrange(14)
  if k == 0:
    return rng.choice([None, True, False])
  if k == 1:
    return rng.choice(INTS)
  if k == 2:
    return rng.choice([rng.randint(-100, 100), rng.randint(-2 ** 33, 2 ** 33), rng.getrandbits(rng.randint(1, 80))])
  if k == 3:
    return rng.choice(FLOATS)
  if k == 4:
    return rng.choice([rng.uniform(-1e3, 1e3), float(rng.randint(-10 ** 6, 10 ** 6)), rng.uniform(-1, 1) * 10 ** rng.randint(-20, 25),
                       rng.randint(-2 ** 33, 2 ** 33) + 0.5])
  if k == 5:
    return rng.choice(NUMERIC_STRS + BOOL_STRS)
  if k == 6:
    return rng.choice(JSON_STRS + RECLIST_STRS)
  if k == 7:
    return rng.choice(ISO_STRS + TEXTS)
  if k == 8:
    return rng.choice(BYTES)
  if k == 9:
    return rng.choice([IntSub(5), IntSub(0), IntSub(2 ** 31), Color.RED, Color.BIG, FloatSub(3.3), FloatSub(float('nan')),
                       FloatSub(4.0), StrSub("Hello"), StrSub(""), StrSub("5"), StrSub('["a"]'), StrSub("true"),
                       BytesSub(b"5"), BytesSub(b"")])
  if k == 10:
    return gen_date(rng)
  if k == 11:
    return gen_datetime(rng)
  if k == 12:
    import objtypes
    return objtypes.AltText(rng.choice(['abc', '5', '2020-01-01', '["a"]', '[1,2]', 'true', '', ' 12.7 ', 'inf', '[]', 'No',
                                        '2020-01-01T10:00:00+02:00', 'RecordList([3])', '1e400'] + TEXTS[:4]),
                            rng.choice([None, 'Ref', 'Date']))
  return rng.choice([str(rng.randint(-10 ** 6, 10 ** 6)), '%r' % rng.uniform(-1e6, 1e6), '[%d, %d]' % (rng.randint(-3, 50), rng.randint(0, 2 ** 33)),
                     ''.join(rng.choice(u'ab1 .-[]"eé,') for _ in range(rng.randint(0, 8)))])


def gen_record_like(rng):
  import objtypes
  k = rng.randrange(12)
  t = rng.choice(['T', 'T', 'T', 'Other', '_grist_Attachments'])
  rows = rng.choice([[], [1, 2], [3], [2, 2, 5], [0], [7, 1, 2 ** 31 - 1]])
  if k == 0:
    return record(t, rng.choice([0, 1, 5, 17, 2 ** 31, -1]))
  if k == 1:
    return recordset(t, list(rows))
  if k == 2:
    return recordset(t, tuple(rows))
  if k == 3:
    return recordset(t, objtypes.RecordList(rows, group_by=('A',), sort_by='B'))
  if k == 4:
    return recordset(t, list(rows), group_by={'A': 1}, sort_by='-B', sort_key=len)
  if k == 5:
    return [recordset('T', [1, 2]), recordset('T', [2, 3])]
  if k == 6:
    return [recordset(t, list(rows)), recordset('T', [])]
  if k == 7:
    return objtypes.RecordList(rows, group_by=rng.choice([None, ('A',)]), sort_by=rng.choice([None, 'B']))
  if k == 8:
    return rng.choice([objtypes._pending_sentinel, objtypes._censored_sentinel, objtypes.UnmarshallableValue("<x>"),
                       objtypes.UnmarshallableValue(u"é")])
  if k == 9:
    return rng.choice([objtypes.RecordStub('T', 5), objtypes.RecordSetStub('T', [1, 2]), objtypes.RecordSetStub('T', (1,)),
                       objtypes.ReferenceLookup('x'), objtypes.ReferenceLookup([1, 'y'], {'raw': 'r'})])
  if k == 10:
    return [record('T', 1), record('T', 2)]
  return [recordset('T', [])]


def gen_value(rng, depth=0):
  k = rng.random()
  if k < 0.55 or depth >= 3:
    return gen_scalar(rng)
  if k < 0.63:
    return gen_record_like(rng)
  if k < 0.69:
    return gen_error(rng, depth)
  if k < 0.76:
    return gen_opaque(rng)
  n = rng.choice([0, 1, 1, 2, 3, 4])
  items = [gen_value(rng, depth + 1) for _ in range(n)]
  kind = rng.randrange(9)
  if kind < 3:
    if rng.random() < 0.4:
      items = [rng.choice([rng.choice(['a', 'b', '', 'x,y', '[1]']), rng.randint(-3, 9), rng.randint(0, 2 ** 32)]) for _ in range(n)]
    return items
  if kind < 5:
    return tuple(items)
  if kind < 7:
    keys = [rng.choice(['a', 'b', 'u', '', u'é', StrSub('k'), 1, None, (1, 2), 2.5, True]) for _ in range(n)]
    if rng.random() < 0.6:
      keys = [k if isinstance(k, str) and type(k) is str else 'k%d' % i for i, k in enumerate(keys)]
    d = {}
    for key, x in zip(keys, items):
      d[key] = x
    return d
  if kind == 7:
    out = set()
    for x in items:
      try:
        out.add(x)
      except Exception:
        pass
    return out
  return [items]


def same(a, b):
  """Same value in the sense of the properties: same Python type and same content, floats by bits (NaN = NaN),
  objects without value semantics by identity."""
  import objtypes
  import records
  if type(a) is not type(b):
    return False
  if isinstance(a, float):
    return fkey(float.__float__(a)) == fkey(float.__float__(b))
  if isinstance(a, (list, tuple)):
    if isinstance(a, objtypes.RecordList) and (a._group_by, a._sort_by, a._sort_key) != (b._group_by, b._sort_by, b._sort_key):
      return False
    return len(a) == len(b) and all(same(x, y) for x, y in zip(a, b))
  if type(a) is dict:
    return len(a) == len(b) and all(same(k1, k2) and same(v1, v2) for (k1, v1), (k2, v2) in zip(a.items(), b.items()))
  if isinstance(a, (int, str, bytes)) or a is None:
    return a == b
  if isinstance(a, (datetime.date, records.Record, records.RecordSet, objtypes.AltText)):
    try:
      return a == b and (not isinstance(a, datetime.datetime) or (a.tzinfo is b.tzinfo and a.replace(tzinfo=None) == b.replace(tzinfo=None)))
    except Exception:
      return False
  return a is b


# ---- replayable descriptions --------------------------------------------------------------------------

def to_expr(v):
  """A Python expression that rebuilds v in namespace() (best effort; opaque objects through their repr)."""
  import objtypes
  import records
  t = type(v)
  if t is int and abs(v) >= 1 << 64:
    return hex(v)
  if v is None or t is bool or t is int or t is str or t is bytes:
    return repr(v)
  if t is float:
    return "float('%r')" % v if (v != v or v in (float('inf'), float('-inf'))) else repr(v)
  if t in (IntSub, FloatSub, StrSub, BytesSub):
    return '%s(%s)' % (t.__name__, to_expr(t.__mro__[1](v)))
  if t is Color:
    return 'Color.%s' % v.name
  if t is objtypes.RecordList:
    return 'objtypes.RecordList([%s], group_by=%r, sort_by=%r)' % (', '.join(to_expr(x) for x in v), v._group_by, v._sort_by)
  if t is list:
    return '[%s]' % ', '.join(to_expr(x) for x in v)
  if t is tuple:
    return '(%s)' % ''.join(to_expr(x) + ', ' for x in v)
  if t is set:
    return 'set([%s])' % ', '.join(to_expr(x) for x in v)
  if t is dict:
    return '{%s}' % ', '.join('%s: %s' % (to_expr(k), to_expr(x)) for k, x in v.items())
  if t is datetime.datetime and isinstance(v.tzinfo, __import__('moment').TzInfo):
    return 'datetime.datetime(%d, %d, %d, %d, %d, %d, %d, tzinfo=moment.tzinfo(%r, %s))' % (
      v.year, v.month, v.day, v.hour, v.minute, v.second, v.microsecond, v.tzinfo.zone.name,
      'None' if v.tzinfo._favor_offset is None else 'datetime.timedelta(microseconds=%d)' % td_us(v.tzinfo._favor_offset))
  if isinstance(v, records.Record):
    return 'record(%r, %r)' % (v._table.table_id, v._row_id)
  if isinstance(v, records.RecordSet):
    return 'recordset(%r, %s, group_by=%r, sort_by=%r)' % (v._table.table_id, to_expr(v._row_ids), v._group_by, v._sort_by)
  if t is objtypes.AltText:
    return 'objtypes.AltText(%s, %r)' % (to_expr(v._text), v._typename)
  if t is objtypes.RaisedException:
    ui = '' if v.user_input is objtypes.RaisedException.NO_INPUT else ', user_input=%s' % to_expr(v.user_input)
    return 'mk_error(%s, %s, %s%s)' % (to_expr(v._name), to_expr(v._message), to_expr(v.details), ui)
  if v is objtypes._pending_sentinel:
    return 'objtypes._pending_sentinel'
  if v is objtypes._censored_sentinel:
    return 'objtypes._censored_sentinel'
  if t is objtypes.UnmarshallableValue:
    return 'objtypes.UnmarshallableValue(%s)' % to_expr(v.value_repr)
  if t is objtypes.RecordStub:
    return 'objtypes.RecordStub(%s, %s)' % (to_expr(v.table_id), to_expr(v.row_id))
  if t is objtypes.RecordSetStub:
    return 'objtypes.RecordSetStub(%s, %s)' % (to_expr(v.table_id), to_expr(v.row_ids))
  if t is objtypes.ReferenceLookup:
    return 'objtypes.ReferenceLookup(%s, %s)' % (to_expr(v.value), to_expr(v.options))
  if t in (BadStr, BadRepr, BadBool):
    return '%s()' % t.__name__
  return repr(v)


def mk_error(name, message, details, **kw):
  import objtypes
  e = objtypes.RaisedException(None)
  e._name, e._message, e.details = name, message, details
  if 'user_input' in kw:
    e.user_input = kw['user_input']
  return e


def namespace():
  import moment
  import objtypes
  ns = dict(globals())
  ns.update(moment=moment, objtypes=objtypes, Decimal=decimal.Decimal, Fraction=fractions.Fraction)
  return ns


def from_expr(expr):
  return eval(expr, namespace())   # expressions written by to_expr / by hand in known_findings.json


ALWAYS = ('str', 'repr', 'type_name', 'float_repr')
NEEDS = {
  'Text': ('utf8', 'fmt15g'), 'Choice': ('utf8', 'fmt15g'), 'Blob': (), 'Any': (),
  'Bool': ('truthy', 'lower'),
  'Int': ('float_of_str', 'float_of_bytes', 'float_of_opaque'),
  'Numeric': ('float_of_str', 'float_of_bytes', 'float_of_opaque'),
  'PositionNumber': ('float_of_str', 'float_of_bytes', 'float_of_opaque'),
  'ManualSortPos': ('float_of_str', 'float_of_bytes', 'float_of_opaque'),
  'Date': ('iso', 'float_of_opaque'),
  'DateTime': ('iso', 'float_of_opaque', 'dt_offset', 'ts_offset', 'zone_known'),
  'ChoiceList': ('json', 'iter', 'truthy'),
  'Id': ('truthy',), 'Reference': ('truthy',),
  'ReferenceList': ('json', 'int_of_str', 'iter', 'truthy'), 'Attachments': ('json', 'int_of_str', 'iter', 'truthy'),
}


def needs(T):
  """The oracle tables convert() of this type object can consult (read off Model/Values.v)."""
  return set(ALWAYS) | set(NEEDS[type(T).__name__])
