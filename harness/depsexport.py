"""
Export of the REAL dependency graph (depend.Graph + relation objects) as data and Coq terms, and scratch
runs of the REAL Graph.invalidate_deps, for the C05/C30 model tie (Model/Deps.v, DepsExec.v, Lib/DepsCases.v).
"""
import depend
import lookup as lookup_mod
import relation as relation_mod

from harness import core


class Unexportable(Exception):
  pass


class Export(object):
  def __init__(self, e):
    self.e = e
    self.nid = {}          # depend.Node -> int
    self.kid = {}          # lookup key (tuple) -> int   (python equality / hashing decides identity)
    self.refrels = {}      # id(ReferenceRelation) -> (node id of the reference column, relation)
    self.lookrels = {}     # id(_LookupRelation) -> ((m, n), relation)
    self.lmaps = {}        # node id -> lookup map column
    g = e.dep_graph
    for ed in sorted(g._all_edges, key=lambda x: (str(x.out_node), str(x.in_node), str(x.relation))):
      self.node(ed.out_node)
      self.node(ed.in_node)
    self.edges = []
    for ed in sorted(g._all_edges, key=lambda x: (str(x.out_node), str(x.in_node), str(x.relation))):
      self.edges.append((self.node(ed.out_node), self.node(ed.in_node), self.rel(ed.relation), ed))

  def node(self, n):
    if n not in self.nid:
      self.nid[n] = len(self.nid) + 1
    return self.nid[n]

  def key(self, k):
    try:
      return self.kid.setdefault(k, len(self.kid) + 1)
    except TypeError:
      raise Unexportable('unhashable lookup key')

  def rel(self, r):
    """Relation object -> nested tuple ('Id',) ('Single',) ('Ref', c) ('Comp', a, b) ('Look', m, n)."""
    t = type(r)
    if t is relation_mod.IdentityRelation:
      return ('Id',)
    if t is relation_mod.SingleRowsIdentityRelation:
      return ('Single',)
    if t is relation_mod.ReferenceRelation:
      c = self.node(depend.Node(r.referring_table, r._ref_col_id))
      self.refrels[id(r)] = (c, r)
      return ('Ref', c)
    if t is relation_mod.ComposedRelation:
      return ('Comp', self.rel(r.source_relation), self.rel(r.target_relation))
    if t is lookup_mod._LookupRelation:
      m = self.node(r._lookup_map.node)
      n = self.node(r._referring_node)
      self.lookrels[id(r)] = ((m, n), r)
      self.lmaps[m] = r._lookup_map
      return ('Look', m, n)
    raise core.TieBroken('unknown relation class %s' % t.__name__)

  # ---- relation state ---------------------------------------------------------------------
  def inv(self):
    out = {}
    for (c, r) in self.refrels.values():
      d = out.setdefault(c, {})
      for t, rows in r.inverse_map.items():
        if rows:
          d[t] = sorted(rows)
    return out

  def lkrows(self):
    out = {}
    for ((m, n), r) in self.lookrels.values():
      pairs = []
      for left in r._row_key_map.left_all():
        for k in r._row_key_map.lookup_left(left, ()):
          pairs.append((left, self.key(k)))
      out.setdefault(m, {})[n] = sorted(pairs)
    return out

  def lkkeys(self):
    out = {}
    for m, lm in self.lmaps.items():
      t = self.e.tables.get(lm.table_id)
      if t is None:
        continue
      d = out.setdefault(m, {})
      for row in t.row_ids:
        try:
          ks = lm._get_keys(row)
        except Exception:
          continue
        ks = [self.key(k) for k in ks if k is not None]
        if ks:
          d[row] = sorted(ks)
    return out


# ---- Coq literals -------------------------------------------------------------------------------
Z = core.zlit


def rel_lit(r):
  if r[0] == 'Id':
    return 'RId'
  if r[0] == 'Single':
    return 'RSingle'
  if r[0] == 'Ref':
    return '(RRef %s)' % Z(r[1])
  if r[0] == 'Comp':
    return '(RComp %s %s)' % (rel_lit(r[1]), rel_lit(r[2]))
  return '(RLook %s %s)' % (Z(r[1]), Z(r[2]))


def rows_opt(x):
  return 'None' if x is None else '(Some %s)' % core.zlist(x)


def map_lit(m):
  return core.coq_list(['(%s, %s)' % (Z(n), rows_opt(x)) for n, x in sorted(m.items())])


def nested(d, leaf):
  return core.coq_list(['(%s, %s)' % (Z(k), leaf(v)) for k, v in sorted(d.items())])


def rel_parts(r, refs, looks):
  if r[0] == 'Ref':
    refs.add(r[1])
  elif r[0] == 'Look':
    looks.add((r[1], r[2]))
  elif r[0] == 'Comp':
    rel_parts(r[1], refs, looks)
    rel_parts(r[2], refs, looks)


def case_lit(ex, inv, lkrows, lkkeys, m0, n, rows, incl, expected):
  """The case restricted to the part of the graph the walk can reach from n (edges are followed from
  in_node to out_node; clear_dependencies only removes edges INTO nodes... of the cleared out_node, which are
  visited only if their in_node is reached).  Outside that part the real result must equal the initial map."""
  reach, stack = {n}, [n]
  succ = {}
  for (o, i, _r, _e) in ex.edges:
    succ.setdefault(i, []).append(o)
  while stack:
    x = stack.pop()
    for y in succ.get(x, ()):
      if y not in reach:
        reach.add(y)
        stack.append(y)
  for k, v in expected.items():
    if k not in reach and v != m0.get(k, []):
      raise core.TieBroken('Graph.invalidate_deps changed node %r, which is not reachable from the start node' % (k,))
  sub = [(o, i, r) for (o, i, r, _e) in ex.edges if i in reach]
  refs, looks = set(), set()
  for (_o, _i, r) in sub:
    rel_parts(r, refs, looks)
  inv = {c: d for c, d in inv.items() if c in refs}
  lkrows = {m: {nn: ps for nn, ps in d.items() if (m, nn) in looks} for m, d in lkrows.items()
            if any(mm == m for (mm, _n) in looks)}
  lkkeys = {m: d for m, d in lkkeys.items() if any(mm == m for (mm, _n) in looks)}
  m0 = {k: v for k, v in m0.items() if k in reach}
  expected = {k: v for k, v in expected.items() if k in reach}
  edges = core.coq_list(['(%s, %s, %s)' % (Z(o), Z(i), rel_lit(r)) for (o, i, r) in sub])
  inv_l = nested(inv, lambda d: nested(d, core.zlist))
  lkr_l = nested(lkrows, lambda d: nested(d, lambda ps: core.coq_list(['(%s, %s)' % (Z(a), Z(b)) for a, b in ps])))
  lkk_l = nested(lkkeys, lambda d: nested(d, core.zlist))
  return '(mkCase %s %s %s %s %s %s %s %s %s)' % (
    edges, inv_l, lkr_l, lkk_l, map_lit(m0), Z(n), rows_opt(rows), core.boollit(incl), map_lit(expected))


# ---- scratch runs of the real Graph.invalidate_deps --------------------------------------------
def plain_map(ex, scratch):
  """{node id: None (ALL_ROWS) | sorted rows} for every node of the export."""
  out = {i: [] for i in ex.nid.values()}
  for node, rows in scratch.items():
    if node not in ex.nid:
      continue
    out[ex.nid[node]] = None if rows == depend.ALL_ROWS else sorted(rows)
  return out


def real_map(ex, m0):
  from sortedcontainers import SortedSet
  back = {i: n for n, i in ex.nid.items()}
  return {back[i]: (depend.ALL_ROWS if x is None else SortedSet(x)) for i, x in m0.items()}


class _Proxy(object):
  """Stands for one real relation object in a COPY of the graph, so that clear_dependencies (ALL_ROWS)
  does not destroy the engine's relations: reset_all is recorded, and a reset lookup relation answers as
  the real one would after its row map was cleared."""
  def __init__(self, real, pool):
    self.real = real
    self.cleared = False
    t = type(real)
    self.kind = t
    if t is relation_mod.ComposedRelation:
      self.src = pool.get(real.source_relation)
      self.tgt = pool.get(real.target_relation)

  def get_affected_rows(self, rows):
    if self.kind is relation_mod.ComposedRelation:
      return self.src.get_affected_rows(self.tgt.get_affected_rows(rows))
    if self.kind is lookup_mod._LookupRelation and self.cleared:
      return depend.ALL_ROWS if rows == depend.ALL_ROWS else set()
    return self.real.get_affected_rows(rows)

  def reset_rows(self, rows):
    if self.kind is relation_mod.ComposedRelation:
      self.src.reset_rows(rows)
    elif self.kind is lookup_mod._LookupRelation:
      if rows != depend.ALL_ROWS:
        raise Unexportable('partial reset in a scratch run')
      self.cleared = True

  def reset_all(self):
    self.reset_rows(depend.ALL_ROWS)


class _Pool(object):
  def __init__(self):
    self.d = {}

  def get(self, real):
    p = self.d.get(id(real))
    if p is None:
      p = self.d[id(real)] = _Proxy(real, self)
    return p


def scratch_invalidate(ex, m0, n, rows, incl):
  """Runs the real Graph.invalidate_deps on a scratch recompute map; returns the plain resulting map."""
  back = {i: nd for nd, i in ex.nid.items()}
  scratch = real_map(ex, m0)
  if rows is not None:
    ex.e.dep_graph.invalidate_deps(back[n], list(rows), scratch, include_self=incl)   # pure for row batches
  else:
    g2 = depend.Graph()
    pool = _Pool()
    for (_o, _i, _r, ed) in ex.edges:
      g2.add_edge(ed.out_node, ed.in_node, pool.get(ed.relation))
    g2.invalidate_deps(back[n], depend.ALL_ROWS, scratch, include_self=incl)
  return plain_map(ex, scratch)
