"""Prints the prompt for an independent 'seeded breakage' sub-agent for one property (only the property text
and a scratch worktree; nothing from /verif)."""
import json
import sys

pid = sys.argv[1]
rec = None
for l in open('/verif/properties.jsonl'):
  d = json.loads(l)
  if d['id'] == pid:
    rec = d
wt = '/tmp/seed_%s' % pid.lower()
print('''You are given a scratch git worktree of the repository gristlabs/grist-core at %(wt)s (create it first with:
`git -C /repo worktree add --detach %(wt)s HEAD`). Work ONLY inside %(wt)s. Do not read or write anything under /verif, do not
modify /repo itself, do not run git commit/checkout/stash in /repo.

The repository contains Grist's Python data engine under sandbox/grist. Here is a semantic property that the code is supposed
to satisfy (JSON record: statement, quantifier, anchors into the code):

%(rec)s

Your task: produce ONE realistic change to the source code (a plausible refactoring slip, off-by-one, missed case, wrong
ordering, stale cache, dropped guard ... - the kind of bug a maintainer could introduce) that BREAKS this property while the
code still imports/compiles and the existing test-suite still passes. The breakage must need something specific to manifest
(a particular multi-step sequence of operations, an unusual input, a boundary value, two cooperating sites that each look fine
alone) - not something ordinary use would expose at once, and not a change that makes common operations crash.

Environment facts: run Python as /venv/bin/python. The pinned test-suite is
`cd %(wt)s && /venv/bin/python -m pytest -q -p no:cacheprovider --timeout=900 --continue-on-collection-errors` (about 75 s); on the
unchanged tree exactly 158 tests pass and 365 fail for an environmental reason (the third-party package friendly_traceback is
missing from /venv, so every test that loads a schema into the engine fails). Your change must keep those 158 passing. To actually
run the engine (and the rest of the sandbox tests) create a two-file stub package in a scratch directory OUTSIDE the worktree, e.g.
/tmp/seedstub_%(low)s/friendly_traceback/__init__.py (empty) and /tmp/seedstub_%(low)s/friendly_traceback/source_cache.py containing
`class _C:\\n  def __init__(self): self.d = {}\\n  def add(self, f, s): self.d[f] = s\\ncache = _C()`, and run with
`cd %(wt)s/sandbox/grist && PYTHONPATH=/tmp/seedstub_%(low)s:. /venv/bin/python ...`. With the stub, `python -m pytest -q -p no:cacheprovider
<test files>` runs the engine tests (on the unchanged tree all but 8 of the 523 sandbox tests pass; those 8 compare friendly error-message
text). Your change should ALSO keep every sandbox test that passes with the stub on the unchanged tree passing (check at least the
test files related to the code you touch, ideally the whole directory: about 3-4 minutes).
A document is driven like this: `import engine, useractions; e = engine.Engine(); e.load_empty();
e.apply_user_actions([useractions.from_repr(['InitNewDoc'])]); out = e.apply_user_actions([useractions.from_repr(['AddTable','T',[{'id':'A','type':'Int','isFormula':False}]])])`;
`out.stored/out.undo/out.retValues`, `e.fetch_table('T')`.

Deliverables, all written into %(wt)s/_seed/ (create the directory):
  patch.diff  - `git -C %(wt)s diff` of your source change only (do not include _seed/ in it);
  demo.py     - a small self-contained program (it may add the stub path and sandbox/grist to sys.path itself, taking the repo root
                as argv[1]) that exits 0 on the unchanged tree and exits non-zero (printing what went wrong in terms of the
                property) on the tree with your patch applied;
  meta.json   - {"property": "%(pid)s", "summary": "...what the change does...", "needs": "...what specific input/sequence it needs to
                manifest...", "files": [...], "tests_run": "...what you ran and the results..."}.
Verify yourself: demo.py passes with `git stash`-free means (e.g. apply the reverse patch with `git apply -R`, run, re-apply) on the
unpatched tree and fails on the patched tree; the pinned 158 tests pass with the patch. Finish with a short report (what the change
is, why it is subtle, what you ran). Do not clean up the worktree; leave it with the patch applied.''' % {
  'wt': wt, 'rec': json.dumps(rec, indent=1), 'pid': pid, 'low': pid.lower()})
