"""Append one entry to /verif/known_findings.json under a lock (used while building checks, never by a check).
usage: python -m harness.addknown '<json object>'   with keys property,id,kind(known|fixed),what,witness,matcher[,violation_kind,commit,theorem]"""
import json
import os
import sys

from harness import core


def main():
  entry = json.loads(sys.argv[1])
  for k in ('property', 'id', 'kind', 'what'):
    assert k in entry, k
  path = os.path.join(core.VERIF, 'known_findings.json')
  with core.flock(path + '.lock'):
    data = json.load(open(path))
    data['findings'] = [e for e in data['findings'] if e['id'] != entry['id']] + [entry]
    data['findings'].sort(key=lambda e: (e['property'], e['id']))
    with open(path + '.tmp', 'w') as f:
      json.dump(data, f, indent=1)
    os.rename(path + '.tmp', path)
  print('known_findings.json: %d entries' % len(data['findings']))


if __name__ == '__main__':
  main()
