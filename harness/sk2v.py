"""
sk2v -- fail-closed translator for the deciding code of the recalculation scheduler (K2: C06, C18).

From $VERIF_REPO/sandbox/grist/engine.py and column.py it regenerates, on every run, coq/gen/Sched_gen.v:

  gen_key_first, gen_sort_reverse, gen_pop_last     Engine._make_sorted_work_items (sort key, reverse) and the pop in
                                                    Engine._update_loop
  gen_required, gen_row_action, gen_on_order        the guards of the row loop of Engine._recompute_step
  gen_cell_read                                     the error branches of BaseColumn.get_cell_value
  gen_use_node                                      the order of the steps of Engine._use_node
  gen_on_order_error                                the OrderError handler of Engine._update_loop
  gen_cycle_value                                   Engine._recompute_one_cell with cycle=True

in the vocabulary of coq/theories/Model/SchedCode.v.  Anything outside the expected shapes raises core.TieBroken.  Code
that is not translated is pinned by a rename- and comment-invariant AST hash (PINS).
"""
import ast
import hashlib
import os

from harness import core


class Untranslatable(Exception):
  pass


def _fail(msg, node=None):
  raise Untranslatable('%s%s' % (msg, ' (line %d)' % node.lineno if node is not None and hasattr(node, 'lineno') else ''))


def load(relpath):
  path = os.path.join(core.GRIST, relpath)
  with open(path) as f:
    return ast.parse(f.read(), path)


def method(tree, cls, name):
  for n in tree.body:
    if isinstance(n, ast.ClassDef) and n.name == cls:
      for m in n.body:
        if isinstance(m, ast.FunctionDef) and m.name == name:
          return m
  _fail('%s.%s not found' % (cls, name))


def strip_doc(body):
  if body and isinstance(body[0], ast.Expr) and isinstance(getattr(body[0], 'value', None), ast.Constant) \
     and isinstance(body[0].value.value, str):
    return body[1:]
  return body


# ---- rename- and comment-invariant hash ------------------------------------------------------------------------------

class _Canon(ast.NodeTransformer):
  """Local variables (arguments and assigned names) are renamed v0, v1, ... in order of first appearance."""
  def __init__(self, fn):
    self.map = {}
    self.locals = {a.arg for a in fn.args.args + fn.args.kwonlyargs}
    for n in ast.walk(fn):
      if isinstance(n, ast.Name) and isinstance(n.ctx, ast.Store):
        self.locals.add(n.id)
      elif isinstance(n, ast.ExceptHandler) and n.name:
        self.locals.add(n.name)
      elif isinstance(n, ast.Lambda):
        self.locals.update(a.arg for a in n.args.args)
    self.locals.discard('self')

  def _name(self, x):
    if x in self.locals:
      return self.map.setdefault(x, 'v%d' % len(self.map))
    return x

  def visit_Name(self, n):
    return ast.copy_location(ast.Name(id=self._name(n.id), ctx=n.ctx), n)

  def visit_arg(self, n):
    return ast.copy_location(ast.arg(arg=self._name(n.arg), annotation=None), n)

  def visit_ExceptHandler(self, n):
    self.generic_visit(n)
    if n.name:
      n.name = self._name(n.name)
    return n

  def visit_FunctionDef(self, n):
    n.body = strip_doc(n.body)
    self.generic_visit(n)
    return n


def canon(fn):
  """(canonicalised copy, {original local name: vN})."""
  import copy
  f = copy.deepcopy(fn)
  c = _Canon(f)
  f = c.visit(f)
  return f, dict(c.map)


def canon_hash(fn):
  f, _m = canon(fn)
  f.name = 'f'
  return hashlib.sha1(ast.dump(f, annotate_fields=False, include_attributes=False).encode()).hexdigest()[:16]


class _Back(ast.NodeTransformer):
  def __init__(self, inv):
    self.inv = inv
  def visit_Name(self, n):
    return ast.copy_location(ast.Name(id=self.inv.get(n.id, n.id), ctx=n.ctx), n)
  def visit_arg(self, n):
    return ast.copy_location(ast.arg(arg=self.inv.get(n.arg, n.arg), annotation=None), n)
  def visit_ExceptHandler(self, n):
    self.generic_visit(n)
    if n.name:
      n.name = self.inv.get(n.name, n.name)
    return n


def with_reference_names(fn, key):
  """The function with its LOCAL variables renamed to the names the translator was written against (REFNAMES): a
  consistent renaming of locals in the source does not change the result."""
  f, _m = canon(fn)
  inv = {v: k for k, v in REFNAMES.get(key, {}).items()}
  return ast.fix_missing_locations(_Back(inv).visit(f))


# ---- small matchers ---------------------------------------------------------------------------------------------------

def src(n):
  return ast.dump(n, annotate_fields=False, include_attributes=False)


def is_name(n, x):
  return isinstance(n, ast.Name) and n.id == x


def is_attr(n, base, attr):
  return isinstance(n, ast.Attribute) and n.attr == attr and (base is None or is_name(n.value, base))


def is_call(n, fn_pred):
  return isinstance(n, ast.Call) and fn_pred(n.func)


# boolean conditions of the row loop / get_cell_value -> Coq boolean expressions over fixed variables
def cond(n, env):
  """env: list of (predicate on the AST node, coq text)."""
  if isinstance(n, ast.BoolOp):
    op = ' && ' if isinstance(n.op, ast.And) else ' || '
    return '(' + op.join(cond(v, env) for v in n.values) + ')'
  if isinstance(n, ast.UnaryOp) and isinstance(n.op, ast.Not):
    return '(negb %s)' % cond(n.operand, env)
  for pred, text in env:
    if pred(n):
      return text
  _fail('condition outside the translated subset: %s' % src(n)[:120], n)


def cmp_is(n, left_pred, op, right_pred):
  return (isinstance(n, ast.Compare) and len(n.ops) == 1 and isinstance(n.ops[0], op) and left_pred(n.left)
          and right_pred(n.comparators[0]))


ROW_ENV = [
  (lambda n: cmp_is(n, lambda l: is_name(l, 'i'), ast.Lt, lambda r: is_name(r, 'require_count')), 'i_lt_count'),
  (lambda n: cmp_is(n, lambda l: is_name(l, 'require_count'), ast.Eq,
                    lambda r: isinstance(r, ast.Constant) and r.value == 0), 'count_zero'),
  (lambda n: is_name(n, 'require_count'), '(negb count_zero)'),
  (lambda n: cmp_is(n, lambda l: is_name(l, 'row_id'), ast.NotIn, lambda r: is_name(r, 'dirty_rows')), '(negb in_dirty)'),
  (lambda n: cmp_is(n, lambda l: is_name(l, 'row_id'), ast.In, lambda r: is_name(r, 'dirty_rows')), 'in_dirty'),
  (lambda n: cmp_is(n, lambda l: is_name(l, 'row_id'), ast.NotIn, lambda r: is_attr(r, 'table', 'row_ids')), '(negb in_table)'),
  (lambda n: cmp_is(n, lambda l: is_name(l, 'row_id'), ast.In, lambda r: is_name(r, 'exclude')), 'in_exclude'),
  (lambda n: is_name(n, 'allow_evaluation'), 'allow'),
  (lambda n: is_name(n, 'required'), 'required'),
  (lambda n: cmp_is(n, lambda l: isinstance(l, ast.Tuple) and len(l.elts) == 2 and is_name(l.elts[0], 'node')
                    and is_name(l.elts[1], 'row_id'), ast.In,
                    lambda r: is_attr(r, 'self', '_locked_cells')), 'locked'),
]


def is_cleaned_append(s):
  return (isinstance(s, ast.Expr) and is_call(s.value, lambda f: is_attr(f, 'cleaned', 'append'))
          and len(s.value.args) == 1 and is_name(s.value.args[0], 'row_id'))


def row_guard_tree(stmts, fall):
  """The guards before the evaluation: nested if/else over terminal actions; `fall` is the text for falling through."""
  if not stmts:
    return fall
  s, rest = stmts[0], stmts[1:]
  if isinstance(s, ast.If) and not s.orelse:
    return '(if %s then %s else %s)' % (cond(s.test, ROW_ENV), row_branch(s.body), row_guard_tree(rest, fall))
  if isinstance(s, ast.Assign) and len(s.targets) == 1 and isinstance(s.targets[0], ast.Name) \
     and s.targets[0].id in ('save_value', 'value') and isinstance(s.value, ast.Constant):
    return row_guard_tree(rest, fall)
  _fail('statement outside the translated subset of the row loop: %s' % src(s)[:120], s)


def row_branch(body):
  """A guard's body must END the iteration: continue / break / cleaned.append + continue / raise / return."""
  if len(body) == 1 and isinstance(body[0], ast.Continue):
    return 'RSkip'
  if len(body) == 1 and isinstance(body[0], ast.Break):
    return 'RBreak'
  if len(body) == 2 and is_cleaned_append(body[0]) and isinstance(body[1], ast.Continue):
    return 'RClean'
  if len(body) == 2 and is_cleaned_append(body[0]) and isinstance(body[1], ast.Break):
    return 'RBreak'
  if len(body) == 1 and isinstance(body[0], ast.Return) and body[0].value is None:
    return 'RStop'
  if len(body) == 2 and isinstance(body[0], ast.If) and not body[0].orelse and isinstance(body[1], ast.Return) \
     and body[1].value is None and body[0].body and isinstance(body[0].body[-1], ast.Raise):
    r = body[0].body[-1].exc
    ok = any(isinstance(x, ast.Assign) and is_name(x.targets[0], getattr(r, 'id', None)) and
             is_call(x.value, lambda f: is_name(f, 'OrderError')) and
             [getattr(a, 'id', None) for a in x.value.args[1:]] == ['node', 'row_id'] for x in body[0].body)
    if not ok:
      _fail('the raised exception is not OrderError(msg, node, row_id)', body[0])
    return '(if %s then ROrder else RStop)' % cond(body[0].test, ROW_ENV)
  _fail('guard body outside the translated subset: %s' % '; '.join(src(x)[:60] for x in body), body[0])


def translate_row_loop(step):
  loops = [n for n in ast.walk(step) if isinstance(n, ast.For) and isinstance(n.target, ast.Tuple)
           and [getattr(e, 'id', None) for e in n.target.elts] == ['i', 'row_id']]
  if len(loops) != 1:
    _fail('row loop `for i, row_id in enumerate(...)` not found', step)
  loop = loops[0]
  it = loop.iter
  ok = (is_call(it, lambda f: is_name(f, 'enumerate')) and len(it.args) == 1 and
        is_call(it.args[0], lambda f: is_attr(f, 'itertools', 'chain')) and
        [getattr(a, 'id', None) for a in it.args[0].args] == ['require_rows', 'dirty_rows'])
  if not ok or loop.orelse:
    _fail('row loop does not iterate enumerate(itertools.chain(require_rows, dirty_rows))', loop)
  body = loop.body
  if not (isinstance(body[0], ast.Assign) and is_name(body[0].targets[0], 'required')):
    _fail('first statement of the row loop is not `required = ...`', body[0])
  required = cond(body[0].value, ROW_ENV)
  k = next((j for j, s in enumerate(body) if isinstance(s, ast.Try)), None)
  if k is None:
    _fail('no try block in the row loop', loop)
  tr = body[k]
  a0 = tr.body[0]
  if not (isinstance(a0, ast.Assign) and is_name(a0.targets[0], 'cycle')):
    _fail('try block does not start with `cycle = ...`', a0)
  cycle = cond(a0.value, ROW_ENV)
  a1 = tr.body[1]
  if not (isinstance(a1, ast.Assign) and is_name(a1.targets[0], 'value') and
          is_call(a1.value, lambda f: is_attr(f, 'self', '_recompute_one_cell')) and
          any(kw.arg == 'cycle' and is_name(kw.value, 'cycle') for kw in a1.value.keywords)):
    _fail('the cell is not evaluated by self._recompute_one_cell(..., cycle=cycle, ...)', a1)
  tree = row_guard_tree(body[1:k], '(REval %s)' % cycle)
  # the handler of OrderError around the evaluation
  h = [x for x in tr.handlers if is_name(x.type, 'OrderError')]
  if len(h) != 1:
    _fail('no `except OrderError` around the evaluation', tr)
  hb = h[0].body
  if not (isinstance(hb[0], ast.If) and not hb[0].orelse and len(hb[0].body) == 1 and isinstance(hb[0].body[0], ast.Return)
          and isinstance(hb[-1], ast.Raise)):
    _fail('OrderError handler is not `if <cond>: return ... raise`', hb[0])
  on_order = '(if %s then OAbandon else OPropagate)' % cond(hb[0].test, ROW_ENV)
  return required, tree, on_order


# ---- Engine._make_sorted_work_items / pop ------------------------------------------------------------------------------

def translate_sort(fn, loop_fn):
  calls = [n for n in ast.walk(fn) if is_call(n, lambda f: is_name(f, 'sorted'))]
  if len(calls) != 1:
    _fail('expected exactly one sorted(...) call', fn)
  kw = {k.arg: k.value for k in calls[0].keywords}
  if set(kw) - {'reverse', 'key'} or 'key' not in kw or not isinstance(kw['key'], ast.Lambda):
    _fail('sorted(...) keywords outside the translated subset', calls[0])
  rev = kw.get('reverse')
  if rev is not None and not (isinstance(rev, ast.Constant) and isinstance(rev.value, bool)):
    _fail('reverse= is not a boolean constant', calls[0])
  lam = kw['key']
  arg = lam.args.args[0].arg
  b = lam.body
  if not (isinstance(b, ast.Tuple) and len(b.elts) == 2 and is_name(b.elts[1], arg)):
    _fail('sort key is not a pair (flag, node)', lam)
  is_lk = lambda n: (is_call(n, lambda f: isinstance(f, ast.Attribute) and f.attr == 'startswith' and
                            is_attr(f.value, arg, 'col_id')) and len(n.args) == 1 and
                     isinstance(n.args[0], ast.Constant) and n.args[0].value == '#lookup')
  first = cond(b.elts[0], [(is_lk, 'is_lookup')])
  pops = [n for n in ast.walk(loop_fn) if is_call(n, lambda f: is_attr(f, 'work_items', 'pop'))]
  if len(pops) != 1 or pops[0].keywords or len(pops[0].args) > 1:
    _fail('expected exactly one work_items.pop(...)', loop_fn)
  if pops[0].args and not (isinstance(pops[0].args[0], ast.Constant) and pops[0].args[0].value in (0, -1)):
    _fail('work_items.pop(<index>) outside the translated subset', pops[0])
  pop_last = not pops[0].args or pops[0].args[0].value == -1
  return first, bool(rev.value) if rev is not None else False, pop_last


# ---- BaseColumn.get_cell_value ---------------------------------------------------------------------------------------

CELL_ENV = [
  (lambda n: is_name(n, 'restore'), 'restore'),
  (lambda n: is_call(n, lambda f: is_attr(f, 'raw', 'has_user_input')) and not n.args, 'has_input'),
  (lambda n: is_call(n, lambda f: is_name(f, 'isinstance')) and len(n.args) == 2 and is_attr(n.args[0], 'raw', 'error')
   and is_attr(n.args[1], 'depend', 'CircularRefError'), 'is_cre'),
]


def cell_tree(stmts, result):
  """Statement list -> decision tree over cell_read; `result` is the outcome if the list ends without raising."""
  if not stmts:
    return result
  s, rest = stmts[0], stmts[1:]
  if isinstance(s, ast.If):
    return '(if %s then %s else %s)' % (cond(s.test, CELL_ENV), cell_tree(s.body + rest, result),
                                       cell_tree(s.orelse + rest, result))
  if isinstance(s, ast.Raise):
    if is_attr(s.exc, 'raw', 'error'):
      return 'RRaiseStored'
    if is_call(s.exc, lambda f: is_attr(f, 'objtypes', 'CellError')) and is_attr(s.exc.args[-1], 'raw', 'error'):
      return 'RRaiseCellError'
    _fail('raise outside the translated subset', s)
  if isinstance(s, ast.Assign) and is_name(s.targets[0], 'raw') and is_attr(s.value, 'raw', 'user_input'):
    return cell_tree(rest, 'RUserInput')
  _fail('statement outside the translated subset of get_cell_value: %s' % src(s)[:100], s)


def translate_cell_read(fn):
  ifs = [s for s in fn.body if isinstance(s, ast.If) and is_call(s.test, lambda f: is_name(f, 'isinstance'))
         and is_name(s.test.args[0], 'raw') and is_attr(s.test.args[1], 'objtypes', 'RaisedException')]
  if len(ifs) != 1 or ifs[0].orelse:
    _fail('`if isinstance(raw, objtypes.RaisedException):` not found', fn)
  return cell_tree(ifs[0].body, 'RPlain')


# ---- Engine._use_node ---------------------------------------------------------------------------------------------------

def translate_use_node(fn):
  out = []
  for s in strip_doc(fn.body):
    calls_rec = any(is_call(n, lambda f: is_attr(f, 'self', '_recompute')) for n in ast.walk(s))
    adds_edge = any(is_call(n, lambda f: isinstance(f, ast.Attribute) and f.attr == 'add_edge') for n in ast.walk(s))
    rets = any(isinstance(n, ast.Return) for n in ast.walk(s))
    if isinstance(s, ast.If) and is_attr(s.test, 'self', '_peeking') and rets and not calls_rec and not adds_edge:
      out.append('UPeekReturn')
    elif isinstance(s, ast.If) and is_attr(s.test, 'self', '_is_current_node_formula') and adds_edge and not calls_rec:
      out.append('UAddEdge')
    elif isinstance(s, ast.If) and rets and not calls_rec and not adds_edge and 'recompute_map' in src(s.test):
      out.append('UCleanReturn')
    elif calls_rec and not adds_edge:
      # `self._recompute(node, row_ids)` or the same guarded by `if self.recompute_map.get(node) is not None:`
      if isinstance(s, ast.If):
        out.append('UCleanReturn')
      out.append('URecompute')
    else:
      _fail('statement of _use_node outside the translated subset: %s' % src(s)[:100], s)
  return out


# ---- Engine._update_loop: the OrderError handler ------------------------------------------------------------------

def translate_on_order_error(fn):
  hs = [h for n in ast.walk(fn) if isinstance(n, ast.Try) for h in n.handlers if is_name(h.type, 'OrderError')]
  if len(hs) != 1 or not hs[0].name:
    _fail('expected one `except OrderError as e` in _update_loop', fn)
  e = hs[0].name
  ops = []
  for s in hs[0].body:
    if isinstance(s, ast.Assert):
      continue
    if isinstance(s, ast.Expr) and is_call(s.value, lambda f: is_attr(f, 'work_items', 'append')):
      w = s.value.args[0]
      if not is_call(w, lambda f: is_name(f, 'WorkItem')) or len(w.args) != 3:
        _fail('work_items.append of something that is not WorkItem(a, b, c)', s)
      a = [src(x) for x in w.args]
      if a == [src(ast.Name('node', ast.Load())), src(ast.Name('row_ids', ast.Load())), src(ast.Name('locks', ast.Load()))]:
        ops.append('OpRequeue')
      elif is_attr(w.args[0], e, 'node') and isinstance(w.args[1], ast.List) and len(w.args[1].elts) == 1 and \
          is_attr(w.args[1].elts[0], e, 'row_id') and isinstance(w.args[2], ast.List) and len(w.args[2].elts) == 1 and \
          is_name(w.args[2].elts[0], 'lock'):
        ops.append('OpPushNeeded')
      else:
        _fail('WorkItem(...) outside the translated subset', s)
    elif isinstance(s, ast.Assign) and is_name(s.targets[0], 'locks') and isinstance(s.value, ast.List) and not s.value.elts:
      ops.append('OpKeepLocks')
    elif isinstance(s, ast.Assign) and is_name(s.targets[0], 'lock') and isinstance(s.value, ast.Tuple) and len(s.value.elts) == 2:
      a, b = s.value.elts
      if is_name(a, 'node') and is_attr(b, e, 'requiring_row_id'):
        ops.append('OpLockRequirer')
      elif is_attr(a, e, 'node') and is_attr(b, e, 'row_id'):
        ops.append('OpLockNeeded')
      else:
        _fail('lock = (...) outside the translated subset', s)
    elif isinstance(s, ast.Expr) and is_call(s.value, lambda f: is_attr(f.value, 'self', '_locked_cells') and f.attr == 'add') \
        and is_name(s.value.args[0], 'lock'):
      ops.append('OpAddLock')
    else:
      _fail('statement of the OrderError handler outside the translated subset: %s' % src(s)[:100], s)
  return ops


# ---- Engine._recompute_one_cell: cycle=True ---------------------------------------------------------------------------

def translate_cycle_value(fn):
  tries = [n for n in ast.walk(fn) if isinstance(n, ast.Try)]
  for t in tries:
    s = t.body[0]
    if isinstance(s, ast.If) and is_name(s.test, 'cycle') and not s.orelse and len(s.body) == 1:
      r = s.body[0]
      if isinstance(r, ast.Raise) and is_call(r.exc, lambda f: is_attr(f, 'depend', 'CircularRefError')):
        return '(VErr CircularRef)'
      _fail('with cycle=True the cell does not raise depend.CircularRefError', r)
  _fail('`if cycle:` is not the first statement of the evaluation', fn)


# ---- Engine._recompute_one_cell: the pending OrderError is re-raised after the user code, for every kind of column ----

def translate_pending_reraise(fn):
  """`if self._cell_required_error: raise self._cell_required_error` directly in the try body (after the formula OR the
  trigger formula ran) -> ReraiseAlways; only inside the formula-column branch -> ReraiseFormulaOnly."""
  is_check = lambda s: (isinstance(s, ast.If) and is_attr(s.test, 'self', '_cell_required_error') and not s.orelse and
                        len(s.body) == 1 and isinstance(s.body[0], ast.Raise) and
                        is_attr(s.body[0].exc, 'self', '_cell_required_error'))
  tr = [t for t in ast.walk(fn) if isinstance(t, ast.Try) and t.body and isinstance(t.body[0], ast.If)
        and is_name(t.body[0].test, 'cycle')]
  if len(tr) != 1:
    _fail('evaluation try block not found', fn)
  if any(is_check(s) for s in tr[0].body):
    return 'ReraiseAlways'
  inner = [n for s in tr[0].body for n in ast.walk(s) if is_check(n)]
  if inner:
    return 'ReraiseFormulaOnly'
  _fail('the pending OrderError is never re-raised after the user code', fn)


# ---- Engine._recompute_step: the list that collects (row, previous, value) of a node ---------------------------------

def translate_changes(step):
  """`changes = self._changes_map.setdefault(node, [])` keeps what earlier steps of the loop recorded for the node."""
  hits = []
  for n in ast.walk(step):
    if isinstance(n, ast.Assign) and any(is_name(t, 'changes') for t in n.targets) and not \
       (isinstance(n.value, ast.Constant) and n.value.value is None):
      hits.append(n)
  if len(hits) != 1:
    _fail('expected one assignment that acquires `changes`', step)
  n = hits[0]
  v = n.value
  if len(n.targets) == 1 and is_call(v, lambda f: is_attr(f.value, 'self', '_changes_map') and f.attr == 'setdefault') and \
     len(v.args) == 2 and is_name(v.args[0], 'node') and isinstance(v.args[1], ast.List) and not v.args[1].elts:
    return 'AcquireKeep'
  if isinstance(v, ast.List) and not v.elts and any(isinstance(t, ast.Subscript) and is_attr(t.value, 'self', '_changes_map')
                                                    for t in n.targets):
    return 'AcquireReset'
  _fail('acquisition of `changes` outside the translated subset', n)


# ---- generation -----------------------------------------------------------------------------------------------------

PINNED = [('engine.py', 'Engine', '_update_loop'), ('engine.py', 'Engine', '_recompute_step'),
          ('engine.py', 'Engine', '_recompute_one_cell'), ('engine.py', 'Engine', '_use_node'),
          ('engine.py', 'Engine', '_make_sorted_work_items'), ('engine.py', 'Engine', '_recompute'),
          ('engine.py', 'Engine', '_pre_update'), ('engine.py', 'Engine', '_post_update'),
          ('engine.py', 'Engine', '_bring_all_up_to_date'), ('column.py', 'BaseColumn', 'get_cell_value')]
# rename- and comment-invariant AST hashes of the text Model/Sched.v was written from (see current_pins())
# local variable names of the reference text, by canonical name (see with_reference_names)
REFNAMES = {
  'Engine._recompute_step': {'node': 'v0', 'allow_evaluation': 'v1', 'require_rows': 'v2', 'dirty_rows': 'v3', 'table': 'v4', 'col':
      'v5', 'exclude': 'v6', 'r': 'v7', 'exempt': 'v8', 'previous_current_node': 'v9',
      'previous_is_current_node_formula': 'v10', 'changes': 'v11', 'cleaned': 'v12', 'require_count': 'v13', 'i':
      'v14', 'row_id': 'v15', 'required': 'v16', 'msg': 'v17', 'err': 'v18', 'save_value': 'v19', 'value': 'v20',
      'cycle': 'v21', 'e': 'v22', 'is_first': 'v23', 'previous': 'v24'},
  'Engine._update_loop': {'work_items': 'v0', 'ignore_other_changes': 'v1', 'node': 'v2', 'row_ids': 'v3', 'locks': 'v4', 'e': 'v5',
      'lock': 'v6'},
  'Engine._make_sorted_work_items': {'nodes': 'v0', 'n': 'v1', 'node': 'v2'},
  'Engine._use_node': {'node': 'v0', 'relation': 'v1', 'row_ids': 'v2', 'edge': 'v3'},
  'Engine._recompute_one_cell': {'table': 'v0', 'col': 'v1', 'row_id': 'v2', 'cycle': 'v3', 'node': 'v4', 'record_attributes': 'v5',
      'usercode_reference': 'v6', 'checkpoint': 'v7', 'record': 'v8', 'value': 'v9', 'result': 'v10',
      'order_error': 'v11', 'regular_error': 'v12', 'include_details': 'v13'},
  'BaseColumn.get_cell_value': {'row_id': 'v0', 'restore': 'v1', 'raw': 'v2'},
}
PINS = {"Engine._update_loop": "22ab715fe7056764", "Engine._recompute_step": "d1f7979a5f7bae6d",
        "Engine._recompute_one_cell": "319742d7702a6eeb", "Engine._use_node": "8d6491e03eba53eb",
        "Engine._make_sorted_work_items": "98b58515040f95e1", "Engine._recompute": "157f17226fbb2e15",
        "Engine._pre_update": "40631ed65ba44a29", "Engine._post_update": "2ea82691b4af31c8",
        "Engine._bring_all_up_to_date": "91104ef7169a4e95", "BaseColumn.get_cell_value": "5a211ca7d6370300"}


def current_pins():
  out = {}
  trees = {}
  for f, c, m in PINNED:
    t = trees.setdefault(f, load(f))
    out['%s.%s' % (c, m)] = canon_hash(method(t, c, m))
  return out


def ref_method(tree, cls, name):
  return with_reference_names(method(tree, cls, name), '%s.%s' % (cls, name))


def translate_all():
  eng, col = load('engine.py'), load('column.py')
  step = ref_method(eng, 'Engine', '_recompute_step')
  loop = ref_method(eng, 'Engine', '_update_loop')
  first, rev, pop_last = translate_sort(ref_method(eng, 'Engine', '_make_sorted_work_items'), loop)
  required, tree, on_order = translate_row_loop(step)
  return {
    'key_first': first, 'reverse': rev, 'pop_last': pop_last, 'required': required, 'row_tree': tree,
    'on_order': on_order, 'cell_read': translate_cell_read(ref_method(col, 'BaseColumn', 'get_cell_value')),
    'use_node': translate_use_node(ref_method(eng, 'Engine', '_use_node')),
    'on_order_error': translate_on_order_error(loop),
    'cycle_value': translate_cycle_value(ref_method(eng, 'Engine', '_recompute_one_cell')),
    'changes': translate_changes(step),
    'reraise': translate_pending_reraise(ref_method(eng, 'Engine', '_recompute_one_cell')),
  }


def gen_text(t):
  b = lambda x: 'true' if x else 'false'
  return '\n'.join([
    '(* GENERATED on every run by harness/sk2v.py from sandbox/grist/engine.py and column.py.  Do not edit. *)',
    'From Coq Require Import ZArith List Bool.', 'Import ListNotations.',
    'Require Import Grist.Model.Sched Grist.Model.SchedCode.', '',
    '(* Engine._make_sorted_work_items: first component of the sort key, reverse=; Engine._update_loop: pop() *)',
    'Definition gen_key_first (is_lookup : bool) : bool := %s.' % t['key_first'],
    'Definition gen_sort_reverse : bool := %s.' % b(t['reverse']),
    'Definition gen_pop_last : bool := %s.' % b(t['pop_last']), '',
    '(* Engine._recompute_step: the row loop *)',
    'Definition gen_required (i_lt_count count_zero : bool) : bool := %s.' % t['required'],
    'Definition gen_row_action (i_lt_count count_zero in_dirty in_table in_exclude allow locked : bool) : row_action :=',
    '  let required := gen_required i_lt_count count_zero in', '  %s.' % t['row_tree'],
    'Definition gen_on_order (required : bool) : order_outcome := %s.' % t['on_order'], '',
    '(* BaseColumn.get_cell_value on a RaisedException *)',
    'Definition gen_cell_read (restore has_input is_cre : bool) : cell_read := %s.' % t['cell_read'], '',
    '(* Engine._use_node *)', 'Definition gen_use_node : list use_step := [%s].' % '; '.join(t['use_node']), '',
    '(* Engine._update_loop: except OrderError *)',
    'Definition gen_on_order_error : list loop_op := [%s].' % '; '.join(t['on_order_error']), '',
    '(* Engine._recompute_one_cell(cycle=True) *)', 'Definition gen_cycle_value : value := %s.' % t['cycle_value'], '',
    '(* Engine._recompute_step: where the changes of a node are collected *)',
    'Definition gen_changes_acquire : changes_acquire := %s.' % t['changes'], '',
    '(* Engine._recompute_one_cell: re-raise of an OrderError that the user code swallowed *)',
    'Definition gen_pending_reraise : pending_reraise := %s.' % t['reraise'], ''])


def regenerate(ctx):
  try:
    t = translate_all()
  except Untranslatable as e:
    raise core.TieBroken('scheduler code is outside the translated subset: %s' % e)
  core.write_if_changed(os.path.join(core.COQ, 'gen', 'Sched_gen.v'), gen_text(t))
  ctx._sk2v = t
  cur = current_pins()
  moved = sorted(k for k in PINS if cur.get(k) != PINS[k])
  ctx.extra['pinned_functions'] = sorted(PINS)
  if moved:
    raise core.TieBroken('pinned scheduler code changed (AST differs from the text the model was written from): ' +
                         ', '.join(moved))


# ---- differential validation of the translation (every run) -----------------------------------------------------------

def probe_row_loop():
  """The guards of the row loop, EXECUTED from the source text under stubs, for every realisable combination of the
  seven booleans -> [(bools, observed action text)]."""
  import itertools
  step = ref_method(load('engine.py'), 'Engine', '_recompute_step')
  loop = [n for n in ast.walk(step) if isinstance(n, ast.For) and isinstance(n.target, ast.Tuple)
          and [getattr(e, 'id', None) for e in n.target.elts] == ['i', 'row_id']][0]
  k = next(j for j, s in enumerate(loop.body) if isinstance(s, ast.Try))
  frag = loop.body[:k] + [loop.body[k].body[0]]       # guards + `cycle = ...`
  fn = ast.parse('def probe(self, i, require_count, row_id, dirty_rows, table, exclude, allow_evaluation, node, cleaned, '
                 'OrderError):\n  for _once in (0,):\n    pass\n  else:\n    return ("cont", list(cleaned))\n'
                 '  return ("break", list(cleaned))\n')
  f = fn.body[0]
  f.body[0].body = frag + [ast.parse('return ("eval", cycle)').body[0]]
  ast.fix_missing_locations(fn)
  ns = {}
  exec(compile(fn, '<row loop of Engine._recompute_step>', 'exec'), ns)   # pylint: disable=exec-used

  class Order(Exception):
    def __init__(self, *a):
      Exception.__init__(self, *a)

  class Obj(object):
    pass
  out = []
  for bits in itertools.product([False, True], repeat=7):
    ilt, rc0, in_dirty, in_table, in_excl, allow, locked = bits
    if rc0 and ilt:
      continue                       # i < require_count is impossible when require_count == 0
    slf, tab = Obj(), Obj()
    slf._cell_required_error = None
    slf._locked_cells = {('N', 1)} if locked else set()
    tab.row_ids = {1} if in_table else set()
    rc = 0 if rc0 else 2
    i = 1 if ilt else 5
    try:
      r = ns['probe'](slf, i, rc, 1, {1} if in_dirty else set(), tab, {1} if in_excl else set(), allow, 'N', [], Order)
      if r is None:
        act = 'RStop'
      elif r[0] == 'eval':
        act = '(REval %s)' % ('true' if r[1] else 'false')
      elif r[0] == 'break':
        act = 'RBreak'
      else:
        act = 'RClean' if r[1] else 'RSkip'
    except Order:
      act = 'ROrder'
    out.append((bits, act))
  return out


def probe_cell_read():
  """column.BaseColumn.get_cell_value, the running function, on a stub column -> [(restore, has_input, is_cre, result)]."""
  import column
  import depend
  import objtypes
  out = []
  for restore in (False, True):
    for has_input in (False, True):
      for is_cre in (False, True):
        err = depend.CircularRefError('x') if is_cre else ZeroDivisionError('x')
        raw = objtypes.RaisedException(err, user_input=5) if has_input else objtypes.RaisedException(err)

        class Col(object):
          table_id, col_id = 'T', 'A'
          def raw_get(self, _r):
            return raw
          def _convert_raw_value(self, v):
            return ('plain', v)
        try:
          column.BaseColumn.get_cell_value(Col(), 1, restore=restore)
          res = 'RUserInput'
        except depend.CircularRefError as x:
          res = 'RRaiseStored' if x is err else 'other'
        except objtypes.CellError:
          res = 'RRaiseCellError'
        except Exception:       # the inlined conversion of the restored input on the stub column
          res = 'RUserInput'
        out.append((restore, has_input, is_cre, res))
  return out


def probe_sort(rng, n=40):
  """Engine._make_sorted_work_items, the running function: pairs of lookup flags (a processed right before b)."""
  import depend
  from harness import gristenv as G
  e = G.new_engine()
  pairs = set()
  for _ in range(n):
    nodes = [depend.Node('T', rng.choice(['A', 'B', '#lookup#', '#lookup#X', 'Z', '#summary#', 'b'])) for _k in range(rng.randint(2, 6))]
    items = e._make_sorted_work_items(list(set(nodes)))
    order = [w.node.col_id.startswith('#lookup') for w in items]
    for x in range(len(order)):
      for y in range(x + 1, len(order)):
        if order[x] != order[y]:
          pairs.add((order[x], order[y]))      # x is EARLIER in the list than y
  return sorted(pairs)


def differential(ctx):
  """Generated definitions (vm_compute) against the running code; counts go to the evidence."""
  t = getattr(ctx, '_sk2v', None) or translate_all()
  b = core.boollit
  imports = ['Grist.Model.Sched', 'Grist.Model.SchedCode', 'GristGen.Sched_gen']
  eqb = ('Definition ra_eqb (x y : row_action) : bool := match x, y with RSkip, RSkip | RBreak, RBreak | RClean, RClean | '
         'ROrder, ROrder | RStop, RStop => true | REval p, REval q => Bool.eqb p q | _, _ => false end.\n'
         'Definition cr_eqb (x y : cell_read) : bool := match x, y with RUserInput, RUserInput | RRaiseStored, RRaiseStored | '
         'RRaiseCellError, RRaiseCellError | RPlain, RPlain => true | _, _ => false end.')
  rows = probe_row_loop()
  bad = ctx.run_cases('sk2v_row', imports, 'fun c => match c with (a1, a2, a3, a4, a5, a6, a7, r) => ra_eqb '
                      '(gen_row_action a1 a2 a3 a4 a5 a6 a7) r end',
                      ['(%s, %s)' % (', '.join(b(x) for x in bits), act) for bits, act in rows], extra_defs=eqb)
  for i in bad[:3]:
    ctx.broken('translation:gen_row_action differs from the row loop of Engine._recompute_step', repr(rows[i]))
  cells = probe_cell_read()
  bad = ctx.run_cases('sk2v_cell', imports, 'fun c => match c with (a1, a2, a3, r) => cr_eqb (gen_cell_read a1 a2 a3) r end',
                      ['(%s, %s, %s, %s)' % (b(x), b(y), b(z), r) for x, y, z, r in cells if r != 'other'], extra_defs=eqb)
  for i in bad[:3]:
    ctx.broken('translation:gen_cell_read differs from BaseColumn.get_cell_value', repr(cells[i]))
  pairs = probe_sort(ctx.rng)
  # x earlier in the list than y: processed after y exactly when the list is consumed from the end
  bad = ctx.run_cases('sk2v_sort', imports, 'fun c => Bool.eqb (processed_before gen_key_first gen_sort_reverse gen_pop_last '
                      '(fst c) (snd c)) (negb gen_pop_last)', ['(%s, %s)' % (b(x), b(y)) for x, y in pairs])
  for i in bad[:3]:
    ctx.broken('translation:generated sort order differs from Engine._make_sorted_work_items', repr(pairs[i]))
  ctx.bump('sk2v:row-loop combinations executed from source', len(rows))
  ctx.bump('sk2v:get_cell_value combinations run', len(cells))
  ctx.bump('sk2v:work-item order pairs observed', len(pairs))
  ctx.extra['regenerated'] = sorted(t)
