"""Regenerates the table of seeded changes (DESIGN.md, between the SEEDTABLE markers) from seeded/*/meta.json.
usage: python -m harness.mkseedtable"""
import json
import os
import re

ROOT = '/verif/seeded'
BEGIN, END = '<!-- SEEDTABLE:BEGIN -->', '<!-- SEEDTABLE:END -->'


def first_sentence(s, n=230):
  s = ' '.join(s.split())
  s = s.replace('|', '/')
  if len(s) <= n:
    return s
  cut = s[:n]
  k = max(cut.rfind('. '), cut.rfind('; '), cut.rfind(': '))
  return (cut[:k + 1] if k > 80 else cut) + ' …'


def outcome(c):
  st = c.get('status') or ''
  parts = []
  if 'violation_lines' in c and c.get('violation_lines') is not None:
    v = c['violation_lines']; nf = c.get('no_failing_input_found', 0) or 0
    if v:
      parts.append('%d VIOLATION line%s%s' % (v, '' if v == 1 else 's', ' (of which %d `no-failing-input-found`)' % nf if nf else ' with concrete replays'))
    kinds = sorted(set(b.split(':')[0] for b in c.get('broken') or []))
    if kinds:
      parts.append('broken: ' + ', '.join(kinds))
  elif c.get('check'):
    parts.append(first_sentence(str(c['check']), 200))
  if c.get('strengthening'):
    parts.append('strengthened by: ' + first_sentence(c['strengthening'], 160))
  if c.get('note'):
    parts.append(first_sentence(c['note'], 160))
  return st, '; '.join(parts)


def rows():
  out = []
  for d in sorted(os.listdir(ROOT), key=lambda x: (x[:3], x)):
    p = os.path.join(ROOT, d, 'meta.json')
    if not os.path.exists(p):
      continue
    m = json.load(open(p))
    c = m.get('confirmed', {})
    st, how = outcome(c)
    files = ', '.join(os.path.basename(f) for f in m.get('files', []))
    out.append('| %s | %s | %s | **%s** | %s |' % (d, files, first_sentence(m.get('summary', '')), st or '?', how))
  return out


def main():
  rs = rows()
  n = len(rs)
  caught_first = sum(1 for r in rs if '| **caught** |' in r)
  table = '\n'.join(['| Seed | Files | Change (seeding agent\'s summary, truncated) | Status | What the check reported |',
                     '|---|---|---|---|---|'] + rs)
  text = '%s\n%d seeded changes; %d caught by the check as it stood when the change arrived, the others after the strengthening named in the row.\n\n%s\n%s' % (
    BEGIN, n, caught_first, table, END)
  p = '/verif/DESIGN.md'
  s = open(p).read()
  if BEGIN in s:
    s = re.sub(re.escape(BEGIN) + r'.*?' + re.escape(END), lambda _: text, s, flags=re.S)
  else:
    s += '\n' + text + '\n'
  open(p, 'w').write(s)
  print(n, 'rows;', caught_first, 'caught at first')


if __name__ == '__main__':
  main()
