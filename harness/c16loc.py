"""
C16: an INDEPENDENT locator of Grist names in a formula text (built on the stdlib `ast`/`tokenize`, no astroid).

`occurrences(schema, table_id, text)` lists the name tokens of `text` (a formula of table `table_id`) that refer to
a table or to a column, for the reference forms the property names:
  $col, rec.col, attribute chains through Ref/RefList columns, T.lookupRecords/lookupOne keyword names, order_by strings,
  T.all, comprehension variables over lookups and .all, PREVIOUS/NEXT/RANK group_by/order_by strings, .find.* results,
  simple assignments.
It is deliberately a bit MORE capable than codebuilder.parse_grist_names: where it follows a form that the real code is
known not to follow, the occurrence carries a tag 'gap:<name>' (these are the registered findings' root causes).

schema: {tableId: {colId: (type, isFormula, formula)}}  (gristenv.engine_schema gives a superset).
Positions are offsets in characters into `text`.
"""
import ast
import io
import tokenize

DOLLAR = 'ǂ'     # a one-character identifier start standing for `$` (position preserving)
LOOKUPS = ('lookupOne', 'lookupRecords')
PREVNEXT = ('PREVIOUS', 'NEXT', 'RANK')
FIND_METHODS = ('lt', 'le', 'gt', 'ge', 'eq', 'previous', 'next')

_function_names = None


def function_names():
  """Names that `from functions import *` puts into the usercode module."""
  global _function_names
  if _function_names is None:
    import functions
    names = getattr(functions, '__all__', None) or [n for n in dir(functions) if not n.startswith('_')]
    _function_names = frozenset(names)
  return _function_names


class Occ(object):
  __slots__ = ('start', 'end', 'table', 'col', 'tags', 'form')

  def __init__(self, start, end, table, col, tags=(), form='other'):
    self.start, self.end, self.table, self.col, self.tags = start, end, table, col, frozenset(tags)
    self.form = form      # the reference form the occurrence is written in (one of FORMS)

  def key(self):
    return (self.start, self.table, self.col)

  def __repr__(self):
    return 'Occ(%d,%d,%s,%s%s)' % (self.start, self.end, self.table, self.col,
                                   ',' + '+'.join(sorted(self.tags)) if self.tags else '')


FORMS = ['$col', 'rec.col', 'chain through a reference ($ref.col, a.b.col)', 'lookup result .col', 'T.all .col',
         'comprehension variable .col', 'assigned variable .col', 'PREVIOUS/NEXT/RANK result .col', '.find.* result .col',
         'table name', 'lookup keyword', 'lookup order_by string', 'PREVIOUS/NEXT/RANK order_by/group_by string', 'other']


class Ty(object):
  """A record or record set of `table`; tags name the gaps crossed to get here."""
  __slots__ = ('table', 'tags', 'origin')

  def __init__(self, table, tags=(), origin=None):
    self.table, self.tags, self.origin = table, frozenset(tags), origin


def prepare(text):
  return text.replace('$', DOLLAR)


class _Pos(object):
  def __init__(self, text):
    self.lines = text.split('\n')
    self.starts = []
    off = 0
    for l in self.lines:
      self.starts.append(off)
      off += len(l) + 1

  def at(self, lineno, col_bytes):
    line = self.lines[lineno - 1]
    return self.starts[lineno - 1] + len(line.encode('utf8')[:col_bytes].decode('utf8', 'ignore'))


def _ref_target(ctype):
  if ctype.startswith('Ref:'):
    return ctype[4:]
  if ctype.startswith('RefList:'):
    return ctype[8:]
  return None


class Locator(object):
  def __init__(self, schema, follow_gaps=True):
    self.schema = schema
    self.follow_gaps = follow_gaps

  # ---- static types ---------------------------------------------------------------------------
  def col_type(self, table, col, depth):
    """Type of `<record of table>.col`."""
    cols = self.schema.get(table)
    if cols is None or col not in cols:
      return None
    ctype, is_formula, formula = cols[col][0], cols[col][1], cols[col][2]
    target = _ref_target(ctype)
    if target is not None:
      if target not in self.schema:
        return None
      if target in function_names():
        # InferReferenceColumn takes the FIRST binding of the name in the module: the imported function
        return Ty(target, ['gap:function_named_table']) if self.follow_gaps else None
      return Ty(target)
    if is_formula and formula and depth < 3:
      # an untyped formula column: astroid infers the method's return value
      try:
        tree = ast.parse(prepare(formula))
      except SyntaxError:
        return None
      ret = None
      for node in ast.walk(tree):
        if isinstance(node, ast.Return) and node.value is not None:
          ret = node.value
          break
      if ret is None and tree.body and isinstance(tree.body[-1], ast.Expr):
        ret = tree.body[-1].value
      if ret is None:
        return None
      env = {}
      for st in tree.body:
        self._assign(st, table, env, depth + 1)
      return self.infer(ret, table, env, depth + 1)
    return None

  def is_table_name(self, node, env):
    return isinstance(node, ast.Name) and node.id in self.schema and node.id not in env

  def infer(self, node, self_table, env, depth=0):
    if isinstance(node, ast.Name):
      if node.id in env:
        return env[node.id]
      if node.id == 'rec':
        return Ty(self_table)
      if node.id.startswith(DOLLAR):
        return self.col_type(self_table, node.id[1:], depth)
      return None
    if isinstance(node, ast.Attribute):
      if node.attr == 'all' and self.is_table_name(node.value, env):
        return Ty(node.value.id)
      base = self.infer(node.value, self_table, env, depth)
      if base is None:
        return None
      t = self.col_type(base.table, node.attr, depth)
      return None if t is None else Ty(t.table, base.tags | t.tags)
    if isinstance(node, ast.Call):
      f = node.func
      if isinstance(f, ast.Attribute) and f.attr in LOOKUPS and self.is_table_name(f.value, env):
        return Ty(f.value.id)
      if isinstance(f, ast.Name) and f.id in PREVNEXT and f.id not in env and node.args:
        return self.infer(node.args[0], self_table, env, depth)
      if (isinstance(f, ast.Attribute) and f.attr in FIND_METHODS and isinstance(f.value, ast.Attribute)
          and f.value.attr in ('find', '_find')):
        return self.infer(f.value.value, self_table, env, depth)
      return None
    return None

  def _assign(self, st, self_table, env, depth=0):
    if isinstance(st, ast.Assign) and len(st.targets) == 1 and isinstance(st.targets[0], ast.Name):
      env[st.targets[0].id] = self.infer(st.value, self_table, env, depth)

  def comp_var_type(self, it, self_table, env):
    """Type of a comprehension variable ranging over `it`."""
    if isinstance(it, ast.Call) and isinstance(it.func, ast.Attribute) and it.func.attr in LOOKUPS \
        and self.is_table_name(it.func.value, env):
      return Ty(it.func.value.id)
    if isinstance(it, ast.Attribute) and it.attr == 'all' and self.is_table_name(it.value, env):
      return Ty(it.value.id)
    if self.follow_gaps:
      t = self.infer(it, self_table, env)
      if t is not None:
        return Ty(t.table, t.tags | {'gap:comprehension_over_reference_list'})
    return None

  # ---- occurrences ----------------------------------------------------------------------------
  def occurrences(self, self_table, text):
    """List of Occ, or None when the text does not parse."""
    src = prepare(text)
    shift = 0
    try:
      tree = ast.parse(src)
    except (SyntaxError, ValueError):
      # a formula whose lines are all indented (the engine dedents it): parse it as the body of a block
      head = 'if 1:\n'
      try:
        tree = ast.parse(head + src)
      except (SyntaxError, ValueError):
        return None
      tree = ast.Module(body=tree.body[0].body, type_ignores=[])
      src, shift = head + src, len(head)
    self.pos = _Pos(src)
    self.src = src
    self.out = []
    env = {}
    for st in tree.body:
      self.visit(st, self_table, env)
      self._assign(st, self_table, env)
    for o in self.out:
      o.start -= shift
      o.end -= shift
    return sorted(self.out, key=lambda o: o.key())

  def _start(self, node):
    return self.pos.at(node.lineno, node.col_offset)

  def _end(self, node):
    return self.pos.at(node.end_lineno, node.end_col_offset)

  def _attr_form(self, v, env):
    if isinstance(v, ast.Name):
      if v.id in env:
        return 'comprehension variable .col' if getattr(env[v.id], 'origin', None) == 'comp' else 'assigned variable .col'
      if v.id == 'rec':
        return 'rec.col'
      return 'chain through a reference ($ref.col, a.b.col)'
    if isinstance(v, ast.Attribute):
      if v.attr == 'all' and self.is_table_name(v.value, env):
        return 'T.all .col'
      return 'chain through a reference ($ref.col, a.b.col)'
    if isinstance(v, ast.Call):
      f = v.func
      if isinstance(f, ast.Name) and f.id in PREVNEXT:
        return 'PREVIOUS/NEXT/RANK result .col'
      if isinstance(f, ast.Attribute) and f.attr in LOOKUPS:
        return 'lookup result .col'
      if isinstance(f, ast.Attribute) and f.attr in FIND_METHODS:
        return '.find.* result .col'
    return 'other'

  def _strings(self, table, node, tags, form='lookup order_by string'):
    """order_by / group_by values: a string constant (optional leading '-') or a tuple of them."""
    if isinstance(node, ast.Constant) and isinstance(node.value, str):
      s, e = self._start(node), self._end(node)
      name = node.value[1:] if node.value.startswith('-') else node.value
      a = s + 2 if node.value.startswith('-') else s + 1
      if self.src[a:e - 1] == name and name:
        self.out.append(Occ(a, e - 1, table, name, tags, form))
    elif isinstance(node, ast.Tuple):
      for el in node.elts:
        self._strings(table, el, tags, form)

  def visit(self, node, self_table, env):
    if isinstance(node, (ast.ListComp, ast.SetComp, ast.GeneratorExp, ast.DictComp)):
      inner = dict(env)
      for g in node.generators:
        self.visit(g.iter, self_table, inner)
        vt = self.comp_var_type(g.iter, self_table, inner)
        for n in ast.walk(g.target):
          if isinstance(n, ast.Name):
            inner[n.id] = (Ty(vt.table, vt.tags, 'comp') if vt is not None else None) if n is g.target else None
        for c in g.ifs:
          self.visit(c, self_table, inner)
      for part in ([node.key, node.value] if isinstance(node, ast.DictComp) else [node.elt]):
        self.visit(part, self_table, inner)
      return
    if isinstance(node, ast.Lambda):
      inner = dict(env)
      for a in node.args.args + node.args.kwonlyargs:
        inner[a.arg] = None
      self.visit(node.body, self_table, inner)
      return
    if isinstance(node, ast.Name):
      if node.id.startswith(DOLLAR) and node.id not in env:
        s = self._start(node)
        self.out.append(Occ(s + 1, s + len(node.id), self_table, node.id[1:], (), '$col'))
      elif self.is_table_name(node, env):
        s = self._start(node)
        self.out.append(Occ(s, s + len(node.id), node.id, None, (), 'table name'))
      return
    if isinstance(node, ast.Attribute):
      base = self.infer(node.value, self_table, env)
      if base is not None:
        e = self._end(node)
        if self.src[e - len(node.attr):e] == node.attr:
          self.out.append(Occ(e - len(node.attr), e, base.table, node.attr, base.tags, self._attr_form(node.value, env)))
    if isinstance(node, ast.Call):
      f = node.func
      if isinstance(f, ast.Attribute) and f.attr in LOOKUPS and self.is_table_name(f.value, env):
        for kw in node.keywords:
          if kw.arg is None:
            continue
          if kw.arg == 'order_by':
            self._strings(f.value.id, kw.value, ())
          else:
            s = self._start(kw)
            if self.src[s:s + len(kw.arg)] == kw.arg:
              self.out.append(Occ(s, s + len(kw.arg), f.value.id, kw.arg, (), 'lookup keyword'))
      elif isinstance(f, ast.Name) and f.id in PREVNEXT and f.id not in env and node.args:
        t = self.infer(node.args[0], self_table, env)
        if t is not None:
          for kw in node.keywords:
            if kw.arg in ('order_by', 'group_by'):
              self._strings(t.table, kw.value, t.tags, 'PREVIOUS/NEXT/RANK order_by/group_by string')
    for ch in ast.iter_child_nodes(node):
      self.visit(ch, self_table, env)
      if isinstance(ch, ast.stmt):
        self._assign(ch, self_table, env)


def tokens_at(text):
  """{start offset: (type, string, end offset)} of the tokens of `text` (with `$` made an identifier character).
  Used to cross-check that every reported position is a whole NAME token or lies inside one STRING token."""
  src = prepare(text)
  pos = _Pos(src)
  out = {}
  try:
    for tok in tokenize.generate_tokens(io.StringIO(src).readline):
      s = pos.starts[tok.start[0] - 1] + tok.start[1] if tok.start[0] <= len(pos.starts) else len(src)
      e = pos.starts[tok.end[0] - 1] + tok.end[1] if tok.end[0] <= len(pos.starts) else len(src)
      out[s] = (tok.type, tok.string, e)
  except (tokenize.TokenError, IndentationError, SyntaxError):
    return None
  return out


def token_ok(toks, start, end):
  """Is [start,end) a whole NAME token (possibly after the `$` stand-in) or a span strictly inside a STRING token?"""
  if toks is None:
    return True
  t = toks.get(start)
  if t and t[0] == tokenize.NAME and t[2] == end:
    return True
  t = toks.get(start - 1)
  if t and t[0] == tokenize.NAME and t[1].startswith(DOLLAR) and t[2] == end:
    return True
  for s, (ty, _st, e) in toks.items():
    if ty in (tokenize.STRING, getattr(tokenize, 'FSTRING_MIDDLE', -1)) and s < start and end < e:
      return True
    if ty == getattr(tokenize, 'FSTRING_START', -1) and s < start:
      pass
  return False
