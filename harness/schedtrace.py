"""
K2 tie (shared by C06 and C18): formula programs from a small grammar, written both as Python formula text for
the real engine and as `expr` terms of coq/theories/Model/Sched.v; instrumentation of the engine's update loop
(Engine._bring_all_up_to_date, _recompute_step, _recompute_one_cell, _make_sorted_work_items) that records the
evaluation trace of every update loop; translation of a recorded trace into the model's transition labels.

Nothing here decides a property: the recorded labels are replayed by the model inside Coq (ctx.run_cases), which
checks that every label is an enabled transition with the recorded outcome.
"""
import collections
import signal

from harness import core, gristenv as G

E = G.engine_mod
import depend      # noqa: E402
import objtypes    # noqa: E402

TABLE = 'T'
DATA, REF, LOOKUP = 'D', 'R', '#lookup#'
RLIST = 'L'                                 # a RefList data column (inlined into the model's ESumRows terms)
FCOLS = ['A', 'B', 'C', 'F', 'G', 'H']
KEYF = 'K'                                  # a formula column used only as a lookup key (lookup-free, reads $D)
KEYCOLS = [DATA, KEYF]
IDX = {k: '#lookup#' + k for k in KEYCOLS}   # the engine's index (LookupMapColumn) node of a key column
COLID = {DATA: 1, REF: 2, LOOKUP: 3, IDX[DATA]: 4, IDX[KEYF]: 5, KEYF: 9}
COLID.update({c: 10 + i for i, c in enumerate(FCOLS)})
ERRCODE = {'ZeroDivisionError': 1}

# ---- formula grammar ------------------------------------------------------------------------------------
# ('c', n) | ('col', X) | ('ref', X)  [= $R.X] | ('add', a, b) | ('if', c, a, b) | ('div0',) | ('try', a, n) (top level)
# | ('tryo', a, n) (top level): catches every error except CircularRefError, which it re-raises
# | ('cnt', K, e) len(T.lookupRecords(K=e)) | ('one', K, e) T.lookupOne(K=e).id | ('lsum', K, e, X) sum(r.X for r in ...)


def py_expr(a):
  k = a[0]
  if k == 'c':
    return '%d' % a[1] if a[1] >= 0 else '(%d)' % a[1]
  if k == 'col':
    return '$%s' % a[1]
  if k == 'ref':
    return '$%s.%s' % (REF, a[1])
  if k == 'add':
    return '(%s + %s)' % (py_expr(a[1]), py_expr(a[2]))
  if k == 'if':
    return '(%s if %s > 0 else %s)' % (py_expr(a[2]), py_expr(a[1]), py_expr(a[3]))
  if k == 'div0':
    return '(1/0)'
  if k == 'cnt':
    return 'len(%s.lookupRecords(%s=%s))' % (TABLE, a[1], py_expr(a[2]))
  if k == 'one':
    return '%s.lookupOne(%s=%s).id' % (TABLE, a[1], py_expr(a[2]))
  if k == 'lsum':
    return 'sum(r.%s for r in %s.lookupRecords(%s=%s))' % (a[3], TABLE, a[1], py_expr(a[2]))
  if k == 'sumL':        # ONE access requiring several rows of column X
    return 'sum($%s.%s)' % (RLIST, a[1])
  if k == 'sumM':
    return 'sum(%s.lookupRecords(%s=%s).%s)' % (TABLE, a[1], py_expr(a[2]), a[3])
  if k == 'ifid':
    return '(%s if $id in (%s,) else %s)' % (py_expr(a[2]), ', '.join(str(x) for x in a[1]), py_expr(a[3]))
  raise ValueError(a)


def py_formula(a):
  if a[0] == 'try':
    return 'try:\n  return %s\nexcept Exception:\n  return %d' % (py_expr(a[1]), a[2])
  if a[0] == 'tryo':
    return ('try:\n  return %s\nexcept Exception as e:\n  if type(e).__name__ == "CircularRefError":\n    raise\n'
            '  return %d' % (py_expr(a[1]), a[2]))
  return py_expr(a)


def coq_expr(a, env=None):
  """env: {'L': {row: [rows]}} - the RefList column as it was at the start of the recorded loop."""
  k = a[0]
  if k == 'sumL':
    sets = ['(%s, %s)' % (core.zlit(r), core.zlist(l)) for r, l in sorted((env or {}).get('L', {}).items())]
    return '(ESumRows %s %d)' % (core.coq_list(sets), COLID[a[1]])
  if k == 'sumM':
    return '(ESumMatched %d %s %d)' % (COLID[IDX[a[1]]], coq_expr(a[2], env), COLID[a[3]])
  if k == 'ifid':
    return '(EIfId %s %s %s)' % (core.zlist(a[1]), coq_expr(a[2], env), coq_expr(a[3], env))
  if k in ('add', 'if'):
    return '(%s %s)' % ({'add': 'EAdd', 'if': 'EIf'}[k], ' '.join(coq_expr(x, env) for x in a[1:]))
  if k in ('try', 'tryo'):
    return '(%s %s %s)' % ({'try': 'ETry', 'tryo': 'ETryOther'}[k], coq_expr(a[1], env), core.zlit(a[2]))
  if k in ('cnt', 'one'):
    return '(%s %d %s)' % ({'cnt': 'ECount', 'one': 'EOne'}[k], COLID[IDX[a[1]]], coq_expr(a[2], env))
  if k == 'lsum':
    return '(ESum %d %s %d)' % (COLID[IDX[a[1]]], coq_expr(a[2], env), COLID[a[3]])
  if k == 'c':
    return '(EConst %s)' % core.zlit(a[1])
  if k == 'col':
    return '(ECol %d)' % COLID[a[1]]
  if k == 'ref':
    return '(ERef %d %d)' % (COLID[REF], COLID[a[1]])
  if k == 'add':
    return '(EAdd %s %s)' % (coq_expr(a[1]), coq_expr(a[2]))
  if k == 'if':
    return '(EIf %s %s %s)' % (coq_expr(a[1]), coq_expr(a[2]), coq_expr(a[3]))
  if k == 'div0':
    return 'EDiv0'
  if k == 'try':
    return '(ETry %s %s)' % (coq_expr(a[1]), core.zlit(a[2]))
  if k == 'tryo':
    return '(ETryOther %s %s)' % (coq_expr(a[1]), core.zlit(a[2]))
  if k == 'cnt':
    return '(ECount %d %s)' % (COLID[IDX[a[1]]], coq_expr(a[2]))
  if k == 'one':
    return '(EOne %d %s)' % (COLID[IDX[a[1]]], coq_expr(a[2]))
  if k == 'lsum':
    return '(ESum %d %s %d)' % (COLID[IDX[a[1]]], coq_expr(a[2]), COLID[a[3]])
  raise ValueError(a)


def mentions(a):
  """Formula columns mentioned (same-row or through $R)."""
  k = a[0]
  if k in ('col', 'ref'):
    return {a[1]} if a[1] in FCOLS else set()
  if k in ('lsum', 'sumM'):
    return ({a[3]} if a[3] in FCOLS else set()) | mentions(a[2])
  if k == 'sumL':
    return {a[1]} if a[1] in FCOLS else set()
  out = set()
  for x in a[1:]:
    if isinstance(x, tuple):
      out |= mentions(x)
  return out


def has_try(a):
  return a[0] == 'try'


def uses_key(a, key):
  return (a[0] in ('cnt', 'one', 'lsum', 'sumM') and a[1] == key) or any(isinstance(x, tuple) and uses_key(x, key) for x in a[1:])


def has_multi(a):
  """Uses an access that requires several rows at once (two-phase read; outside the class the scratch check covers:
  with an empty row list the engine requires a whole column whose values it never reads)."""
  return a[0] in ('sumL', 'sumM') or any(isinstance(x, tuple) and has_multi(x) for x in a[1:])


def has_lookup(a):
  return a[0] in ('cnt', 'one', 'lsum', 'sumM') or any(isinstance(x, tuple) and has_lookup(x) for x in a[1:])


def has_ref(a):
  return a[0] == 'ref' or any(isinstance(x, tuple) and has_ref(x) for x in a[1:])


def gen_lookup(rng, cols, keys):
  key = rng.choice(keys)
  arg = rng.choice([('col', DATA), ('c', rng.choice([0, 1, 2, 3])), ('add', ('col', DATA), ('c', 1))] +
                   ([('col', rng.choice(cols))] if cols else []))
  kind = rng.choice(['cnt', 'one', 'lsum', 'lsum']) if cols else rng.choice(['cnt', 'one'])
  if kind == 'lsum':
    return ('lsum', key, arg, rng.choice(cols + [DATA]))
  return (kind, key, arg)


MULTI = [False]     # set by gen_program: also generate accesses that require several rows at once


def gen_expr(rng, cols, depth=2, allow_ref=True, allow_err=True, keys=()):
  """A random expression over the formula columns `cols` and the data column (`keys`: lookup key columns)."""
  if MULTI[0] and cols and rng.random() < 0.3:
    if keys and rng.random() < 0.4:
      return ('sumM', rng.choice(list(keys)), rng.choice([('col', DATA), ('c', rng.choice([0, 1, 2]))]), rng.choice(cols))
    return ('sumL', rng.choice(cols))
  if keys and rng.random() < 0.3:
    return gen_lookup(rng, cols, list(keys))
  r = rng.random()
  if depth <= 0 or r < 0.45:
    r2 = rng.random()
    if r2 < 0.55 and cols:
      return ('col', rng.choice(cols))
    if r2 < 0.7:
      return ('col', DATA)
    if r2 < 0.8 and allow_ref and cols:
      return ('ref', rng.choice(cols))
    if r2 < 0.86 and allow_err:
      return ('div0',)
    return ('c', rng.choice([0, 1, 2, 5, -1]))
  if r < 0.8:
    return ('add', gen_expr(rng, cols, depth - 1, allow_ref, allow_err, keys),
            gen_expr(rng, cols, depth - 1, allow_ref, allow_err, keys))
  return ('if', gen_expr(rng, cols, depth - 1, allow_ref, allow_err, keys),
          gen_expr(rng, cols, depth - 1, allow_ref, allow_err, keys),
          gen_expr(rng, cols, depth - 1, allow_ref, allow_err, keys))


def gen_program(rng, ncols=None, p_try=0.0, allow_ref=True, p_tryo=0.0, p_lookup=0.0, p_multi=0.0):
  """{col: ast} over 1..5 formula columns; cycles are allowed (any column may mention any column).  With
  probability p_lookup the document uses lookups: keyed on the data column or on the extra formula column K, whose
  own formula reads only $D (so no column is the key of its own lookup: that is the known C18 finding)."""
  n = ncols or rng.choice([1, 2, 2, 3, 3, 4, 5])
  cols = FCOLS[:n]
  prog = collections.OrderedDict()
  keys = ()
  MULTI[0] = rng.random() < p_multi
  if rng.random() < p_lookup:
    keys = rng.choice([(DATA,), (DATA, KEYF), (KEYF,)])
    if KEYF in keys:
      prog[KEYF] = rng.choice([('add', ('col', DATA), ('c', 1)), ('if', ('col', DATA), ('col', DATA), ('c', 0)),
                               ('add', ('col', DATA), ('col', DATA))])
  for c in cols:
    a = gen_expr(rng, cols, depth=rng.choice([0, 1, 1, 2]), allow_ref=allow_ref, keys=keys)
    if allow_ref and rng.random() < 0.3:
      # a row chain: the column refers to itself (or another column) in ANOTHER row, guarded by the data column, so
      # whether there is a cycle depends on the data (locked cells meet opportunistic evaluation of their own column)
      a = ('if', ('col', DATA), ('add', ('ref', rng.choice([c, c, rng.choice(cols)])), ('c', 1)),
           rng.choice([('c', 0), ('col', DATA), a]))
    if MULTI[0] and rng.random() < 0.5:
      # row-dependent formula: cycles / chains through SOME rows of the column
      a = ('ifid', sorted(rng.sample([1, 2, 3], rng.choice([1, 2]))), a, rng.choice([('col', DATA), ('c', 1)]))
    if rng.random() < p_try:
      a = ('try', a, rng.choice([7, 0, -3]))
    elif rng.random() < p_tryo:
      a = ('tryo', a, rng.choice([7, 0, -3]))
    prog[c] = a
  MULTI[0] = False
  return prog


# ---- documents ----------------------------------------------------------------------------------------

def table_action(prog):
  cols = [{'id': DATA, 'type': 'Int', 'isFormula': False}, {'id': REF, 'type': 'Ref:' + TABLE, 'isFormula': False},
          {'id': RLIST, 'type': 'RefList:' + TABLE, 'isFormula': False}]
  for c, a in prog.items():
    cols.append({'id': c, 'type': 'Any', 'isFormula': True, 'formula': py_formula(a)})
  return ['AddTable', TABLE, cols]


def reflist_of(i, n, d, r):
  """The (never empty, not sorted) RefList of row i, a fixed function of the row's other values."""
  l = [r] + [j for j in range(1, n + 1) if j != r and (j * 3 + d + i) % 2 == 0]
  return l[::-1] if d % 2 else l


def rows_action(dvals, rvals):
  n = len(dvals)
  return ['BulkAddRecord', TABLE, [None] * n,
          {DATA: list(dvals), REF: list(rvals),
           RLIST: [['L'] + reflist_of(i + 1, n, dvals[i], rvals[i]) for i in range(n)]}]


def gen_rows(rng, n):
  return [rng.choice([0, 1, 2, 3, -1]) for _ in range(n)], [rng.randint(1, n) for _ in range(n)]


def gen_edit(rng, e, prog):
  """One follow-up bundle: data edits, reference edits, a formula change, a new row or a removed row."""
  rows = sorted(e.tables[TABLE].row_ids)
  r = rng.random()
  if r < 0.35 and rows:
    return [['UpdateRecord', TABLE, rng.choice(rows), {DATA: rng.choice([0, 1, 2, 3, -1, 4])}]]
  if r < 0.45 and rows:
    return [['UpdateRecord', TABLE, rng.choice(rows), {REF: rng.choice(rows)}]]
  if r < 0.55 and rows:
    return [['UpdateRecord', TABLE, rng.choice(rows), {RLIST: ['L'] + rng.sample(rows, rng.randint(1, len(rows)))}]]
  if r < 0.8:
    fcols = [x for x in prog if x != KEYF]
    c = rng.choice(fcols)
    keys = tuple(k for k in KEYCOLS if any(uses_key(x, k) for x in prog.values()))
    a = gen_expr(rng, fcols, depth=rng.choice([0, 1, 2]), keys=keys)
    if prog[c][0] in ('try', 'tryo'):
      a = (prog[c][0], a, 7)
    prog[c] = a
    return [['ModifyColumn', TABLE, c, {'formula': py_formula(a)}]]
  if r < 0.9 or len(rows) <= 1:
    return [['AddRecord', TABLE, None, {DATA: rng.choice([0, 1, 2]), REF: rng.choice(rows or [1]),
                                        RLIST: ['L'] + rng.sample(rows or [1], rng.randint(1, max(1, len(rows))))}]]
  return [['UpdateRecord', TABLE, rows[0], {DATA: 9}], ['UpdateRecord', TABLE, rows[-1], {REF: rows[0]}]]


# ---- instrumentation ----------------------------------------------------------------------------------

POINTS = ('_bring_all_up_to_date', '_recompute_step', '_recompute_one_cell', '_make_sorted_work_items',
          '_locked_cells', 'recompute_map', '_recompute_done_map')


class Loop(object):
  """One recorded Engine._bring_all_up_to_date."""
  def __init__(self):
    self.dirty0 = []      # [(col, row)]
    self.vals0 = {}       # (col, row) -> raw value
    self.events = []
    self.finals = {}
    self.bad = None       # reason the loop is outside the modelled fragment
    self.order = []       # processing order of the nodes as produced by _make_sorted_work_items
    self.reflists = {}    # row -> rows listed in the RefList column at the start of the loop
    self.edges = []       # node-level edges (dependent col, read col) of the dependency graph after the loop


def _in_scope_cols(e):
  t = e.tables[TABLE]
  return [c for c in t.all_columns if c in COLID]


def dirty_cells(e):
  """The engine's dirty cells of TABLE: recompute_map, ALL_ROWS expanded, minus rows already done."""
  out = []
  if TABLE not in e.tables:
    return out
  t = e.tables[TABLE]
  for node, rows in e.recompute_map.items():
    if node.table_id != TABLE:
      continue
    done = e._recompute_done_map.get(node, ())
    rs = t.row_ids if rows == depend.ALL_ROWS else rows
    for r in sorted(rs):
      if r in t.row_ids and r not in done:
        out.append((node.col_id, r))
  return out


def raw_dirty(e):
  """recompute_map of TABLE as a set of cells, ALL_ROWS expanded, rows already done NOT removed."""
  out = set()
  if TABLE not in e.tables:
    return out
  t = e.tables[TABLE]
  for node, rows in e.recompute_map.items():
    if node.table_id == TABLE:
      for r in (t.row_ids if rows == depend.ALL_ROWS else rows):
        if r in t.row_ids:
          out.add((node.col_id, r))
  return out


def index_values(e):
  """{(index col, row): key} for the lookup index nodes of TABLE that the model knows (single-column keys)."""
  out = {}
  t = e.tables[TABLE]
  for cid, col in getattr(t, '_special_cols', {}).items():
    if cid in COLID and cid != LOOKUP and hasattr(col, '_mapping'):
      for r in sorted(t.row_ids):
        try:
          key = col._mapping._get_mapped_key(r)
        except Exception:
          key = None
        out[(cid, r)] = key[0] if isinstance(key, tuple) and len(key) == 1 else None
  return out


def attach(e, priority=None):
  """
  Record every update loop of engine `e` (instance-level wrappers; /repo is not touched).
  priority: None (engine's own order) or a function col_id -> sort key that replaces the name order of
  _make_sorted_work_items, keeping the engine's rule that '#lookup' nodes are processed first.
  Returns the list that receives the Loop records.
  """
  for name in POINTS[:4]:
    if not hasattr(E.Engine, name):
      raise core.TieBroken('instrumentation point Engine.%s is gone' % name)
  for name in POINTS[4:]:
    if not hasattr(e, name):
      raise core.TieBroken('instrumentation point Engine.%s is gone' % name)
  loops = []
  st = {'loop': None, 'step': []}
  o_all, o_step, o_cell, o_sort = (e._bring_all_up_to_date, e._recompute_step, e._recompute_one_cell,
                                   e._make_sorted_work_items)

  def bring_all():
    if st['loop'] is not None or TABLE not in e.tables:
      return o_all()
    lp = Loop()
    lp.dirty0 = dirty_cells(e)
    t = e.tables[TABLE]
    for c in _in_scope_cols(e):
      col = t.get_column(c)
      for r in sorted(t.row_ids):
        lp.vals0[(c, r)] = col.raw_get(r)
    lp.vals0.update(index_values(e))
    if RLIST in t.all_columns:
      for r in sorted(t.row_ids):
        lp.reflists[r] = [int(x) for x in (t.get_column(RLIST).raw_get(r) or [])]
    for node in e.recompute_map:
      if node.table_id == TABLE and node.col_id not in COLID:
        lp.bad = 'node %s outside the modelled columns' % (node,)
    st['loop'] = lp
    try:
      return o_all()
    finally:
      st['loop'] = None
      st['step'] = []
      if TABLE in e.tables:
        t = e.tables[TABLE]
        for c in _in_scope_cols(e):
          col = t.get_column(c)
          for r in sorted(t.row_ids):
            lp.finals[(c, r)] = col.raw_get(r)
        if not hasattr(e.dep_graph, '_all_edges'):
          raise core.TieBroken('instrumentation point depend.Graph._all_edges is gone')
        lp.edges = sorted({(g.out_node.col_id, g.in_node.col_id) for g in e.dep_graph._all_edges
                           if g.out_node.table_id == TABLE and g.in_node.table_id == TABLE
                           and g.out_node.col_id in COLID and g.in_node.col_id in COLID})
        if lp.dirty0:
          loops.append(lp)

  def step(node, allow_evaluation=True, require_rows=None):
    lp = st['loop']
    if lp is None or not allow_evaluation or node.table_id != TABLE:
      return o_step(node, allow_evaluation=allow_evaluation, require_rows=require_rows)
    rows = list(require_rows) if require_rows else None
    locks = sorted((n.col_id, r) for (n, r) in e._locked_cells if n.table_id == TABLE)
    if any(n.table_id != TABLE for (n, r) in e._locked_cells):
      lp.bad = 'lock outside the table'
    lp.events.append(('step', node.col_id, rows, dirty_cells(e), locks))
    st['step'].append({'rows': rows, 'seen': set()})
    try:
      res = o_step(node, allow_evaluation=allow_evaluation, require_rows=require_rows)
      lp.events.append(('end', 'ok'))
      return res
    except E.OrderError:
      lp.events.append(('end', 'order'))
      raise
    except BaseException as x:
      lp.bad = 'step raised %r' % (x,)
      raise
    finally:
      st['step'].pop()

  def cell(table, col, row_id, cycle=False, node=None, record_attributes=None):
    lp = st['loop']
    if lp is None or node is None or table.table_id != TABLE or not st['step']:
      return o_cell(table, col, row_id, cycle=cycle, node=node, record_attributes=record_attributes)
    cur = st['step'][-1]
    required = cur['rows'] is None or (row_id in cur['rows'] and row_id not in cur['seen'])
    cur['seen'].add(row_id)
    before = raw_dirty(e)
    def invalidated():
      # cells that became dirty while this cell was evaluated (lookup index found a changed key, or a new index
      # node was created): reported BEFORE the cell's own event; rows already done in this loop are included
      # (the engine would silently drop them: the model's replay rejects such a lost invalidation)
      new = sorted(raw_dirty(e) - before)
      if any(c[0] not in COLID for c in new):
        lp.bad = 'invalidation of a node outside the modelled columns'
      if new:
        lp.events.append(('inval', new))
    try:
      res = o_cell(table, col, row_id, cycle=cycle, node=node, record_attributes=record_attributes)
    except E.OrderError as x:
      if x.node.table_id != TABLE or x.node.col_id not in COLID:
        lp.bad = 'OrderError for a node outside the modelled columns'
      invalidated()
      lp.events.append(('cell', col.col_id, row_id, required, bool(cycle), ('order', x.node.col_id, x.row_id)))
      raise
    except BaseException as x:
      lp.bad = 'cell raised %r' % (x,)
      raise
    invalidated()
    lp.events.append(('cell', col.col_id, row_id, required, bool(cycle), ('ret', res)))
    return res

  def sort_items(nodes):
    items = o_sort(nodes)
    if priority is not None:
      lk = [w for w in items if w.node.col_id.startswith('#lookup')]
      other = [w for w in items if not w.node.col_id.startswith('#lookup')]
      key = lambda w: (priority(w.node.col_id), w.node)
      # work items are popped from the END of the list: sort descending so the smallest key runs first
      items = sorted(other, key=key, reverse=True) + sorted(lk, key=key, reverse=True)
    if st['loop'] is not None:
      st['loop'].order.extend(w.node.col_id for w in reversed(items) if w.node.table_id == TABLE)
    return items

  e._bring_all_up_to_date = bring_all
  e._recompute_step = step
  e._recompute_one_cell = cell
  e._make_sorted_work_items = sort_items
  return loops


def model_value(raw):
  """raw cell value -> ('int', n) | ('err', code) | None (outside the modelled values)."""
  if isinstance(raw, objtypes.RaisedException):
    err = raw.error
    while isinstance(err, objtypes.CellError):
      err = err.error
    if isinstance(err, depend.CircularRefError):
      return ('cre',)
    name = type(err).__name__
    if name in ERRCODE:
      return ('err', ERRCODE[name])
    return None
  if isinstance(raw, bool):
    return None
  if isinstance(raw, int):
    return ('int', raw)
  if isinstance(raw, float) and raw == int(raw):
    return ('int', int(raw))
  return None


def coq_value(mv):
  if mv[0] == 'int':
    return '(VInt %s)' % core.zlit(mv[1])
  if mv[0] == 'cre':
    return '(VErr CircularRef)'
  return '(VErr (Other %s))' % core.zlit(mv[1])


def coq_cell(c):
  return '(%d, %s)' % (COLID[c[0]], core.zlit(c[1]))


# ---- recorded loop -> model trace ---------------------------------------------------------------------

def to_items(lp):
  """
  The recorded events as items of the model's trace: ('S', dirty, locks) engine state at a _recompute_step entry,
  ('L', coq label).  Frames of the model are mirrored only to place LPick/LPop (the model itself checks that each
  label is enabled); returns (items, stats).
  """
  items, mstack = [], []
  stats = collections.Counter()
  cur = None
  for ev in lp.events:
    if ev[0] == 'step':
      cur = ev[2]
      items.append(('S', ev[3], ev[4]))
    elif ev[0] == 'inval':
      items.append(('I', ev[1]))
      stats['invalidated'] += len(ev[1])
    elif ev[0] == 'cell':
      _, col, row, required, cycle, out = ev
      c = (col, row)
      if required:
        if cur is None:
          if mstack and mstack[-1] != c:
            items.append(('L', 'LPop'))
            mstack.pop()
          if not mstack:
            items.append(('L', 'LPick %s' % coq_cell(c)))
            mstack.append(c)
        if out[0] == 'order':
          d = (out[1], out[2])
          items.append(('L', 'LNeed %s %s' % (coq_cell(c), coq_cell(d))))
          mstack.append(d)
          stats['need'] += 1
        elif cycle:
          items.append(('L', 'LCycle %s' % coq_cell(c)))
          stats['cycle'] += 1
        else:
          items.append(('L', 'LDone %s' % coq_cell(c)))
          stats['done'] += 1
      elif out[0] == 'order':
        stats['opp_abandoned'] += 1
      else:
        items.append(('L', 'LOpp %s' % coq_cell(c)))
        stats['opp'] += 1
    elif ev[0] == 'end' and ev[1] == 'ok' and mstack:
      items.append(('L', 'LPop'))
      mstack.pop()
  return items, stats


def coq_case(lp, prog):
  """Coq term of type Sched.trace_case for a recorded loop, or (None, reason)."""
  if lp.bad:
    return None, lp.bad
  rows = sorted({r for (_c, r) in lp.vals0})
  dirty0 = set(lp.dirty0)
  vals = []
  for (c, r), raw in sorted(lp.vals0.items()):
    if c == LOOKUP:
      continue
    mv = model_value(raw)
    if c in IDX.values() and raw is None:
      if (c, r) not in dirty0:
        return None, 'clean index cell %s[%d] has no key' % (c, r)
      mv = ('int', 0)
    if mv is None:
      if (c, r) in dirty0:
        mv = ('int', 0)
      else:
        return None, 'clean cell %s[%d] holds %r' % (c, r, raw)
    vals.append('(%s, %s)' % (coq_cell((c, r)), coq_value(mv)))
  finals = []
  for (c, r), raw in sorted(lp.finals.items()):
    if c not in prog:
      continue
    mv = model_value(raw)
    if mv is None:
      return None, 'final cell %s[%d] holds %r' % (c, r, raw)
    finals.append('(%s, %s)' % (coq_cell((c, r)), coq_value(mv)))
  items, stats = to_items(lp)
  its = []
  for it in items:
    if it[0] == 'L':
      its.append('TL (%s)' % it[1])
    elif it[0] == 'I':
      its.append('TI %s' % core.coq_list([coq_cell(c) for c in it[1]]))
    else:
      its.append('TS %s %s' % (core.coq_list([coq_cell(c) for c in it[1]]), core.coq_list([coq_cell(c) for c in it[2]])))
  env = {'L': lp.reflists}
  cols = ['(%d, %s)' % (COLID[c], coq_expr(a, env)) for c, a in prog.items()] + ['(%d, EConst 0%%Z)' % COLID[LOOKUP]]
  # the index node of a key column: the cell of row r holds the key of row r (formula: read the key column)
  cols += ['(%d, (ECol %d))' % (COLID[IDX[k]], COLID[k]) for k in KEYCOLS]
  seen, order = set(), []
  for c in lp.order:
    if c not in seen and c in COLID:
      seen.add(c)
      order.extend((c, r) for r in rows)
  term = '(%s, %s, %s, %s, %s, %s, %s)' % (
    core.coq_list(cols), core.zlist(rows), core.coq_list(vals), core.coq_list([coq_cell(c) for c in lp.dirty0]),
    core.coq_list(its), core.coq_list(finals), core.coq_list([coq_cell(c) for c in order]))
  return term, stats


def priority_from(rng):
  """A random but fixed priority per column name (one permutation of the engine's work items)."""
  memo = {}
  def prio(col_id):
    if col_id not in memo:
      memo[col_id] = rng.random()
    return memo[col_id]
  return prio


def new_traced_doc(prog, dvals, rvals, priority=None):
  """Fresh engine with table T, formulas `prog`, rows; returns (engine, loops)."""
  e, _ = G.new_doc()
  loops = attach(e, priority)
  G.apply(e, [table_action(prog)])
  G.apply(e, [rows_action(dvals, rvals)])
  return e, loops


def inject_order(e, priority):
  """Only the permutation of the work items (no tracing): lookups first, then by priority(node)."""
  if not hasattr(E.Engine, '_make_sorted_work_items'):
    raise core.TieBroken('instrumentation point Engine._make_sorted_work_items is gone')
  o_sort = e._make_sorted_work_items
  def sort_items(nodes):
    items = o_sort(nodes)
    lk = [w for w in items if w.node.col_id.startswith('#lookup')]
    other = [w for w in items if not w.node.col_id.startswith('#lookup')]
    key = lambda w: (priority(w.node), w.node)
    return sorted(other, key=key, reverse=True) + sorted(lk, key=key, reverse=True)
  e._make_sorted_work_items = sort_items


class Timeout(MemoryError):
  """An engine call exceeded its time limit (recalculation must terminate).  A MemoryError subclass because
  Engine._recompute_one_cell wraps every other exception raised during a formula into a cell value."""


def _alarm(_s, _f):
  raise Timeout()


def limited(fn, seconds=10):
  """Run fn() under a wall-clock limit (SIGALRM; main thread only)."""
  old = signal.signal(signal.SIGALRM, _alarm)
  signal.alarm(seconds)
  try:
    return fn()
  finally:
    signal.alarm(0)
    signal.signal(signal.SIGALRM, old)


def limited2(fn, seconds=10, confirm=40):
  """For an fn that builds its own fresh engine: a timeout is only reported when a second run with a much longer
  limit times out as well (the machine is shared; a single slow run is not non-termination)."""
  try:
    return limited(fn, seconds)
  except Timeout:
    return limited(fn, confirm)


def run_cases_multi(ctx, name, imports, checks, cases, shard=60, timeout=600):
  """
  Like ctx.run_cases, but evaluates several checks over the same generated cases in one coqc run per shard
  (elaborating the case literals is the dominant cost).  checks: [(label, coq term of type case -> bool)].
  Returns {label: sorted failing indexes}.  Raises core.TieBroken if a shard does not compile.
  """
  import os
  import re
  import subprocess
  out = {label: [] for label, _ in checks}
  if not cases:
    return out
  jobs = []
  for k in range(0, len(cases), shard):
    path = os.path.join(ctx.work, 'cases_%s_%d.v' % (name, k // shard))
    with open(path, 'w') as f:
      f.write('From Coq Require Import ZArith List Bool String.\nImport ListNotations.\nRequire Import Grist.Lib.Cases.\n')
      for imp in imports:
        f.write('Require Import %s.\n' % imp)
      f.write('Open Scope Z_scope.\n')
      f.write('Definition the_cases := [\n  ' + ';\n  '.join(cases[k:k + shard]) + '\n].\n')
      for label, term in checks:
        f.write('Goal True. idtac "@@RESULT %s". exact I. Qed.\n' % label)
        f.write('Eval vm_compute in (failing (%s) the_cases).\n' % term)
      f.write('Goal True. idtac "@@END". exact I. Qed.\n')
    jobs.append((k, path))
  running, pending = [], list(jobs)
  def start(job):
    k, path = job
    p = subprocess.Popen(['timeout', str(timeout), 'coqc', '-w', '-notation-overridden,-deprecated',
                          '-Q', os.path.join(core.COQ, 'theories'), 'Grist', '-Q', os.path.join(core.COQ, 'gen'), 'GristGen',
                          path], stdout=subprocess.PIPE, stderr=subprocess.STDOUT, cwd=ctx.work)
    return k, path, p
  while pending or running:
    while pending and len(running) < 8:
      running.append(start(pending.pop(0)))
    k, path, p = running.pop(0)
    text = p.communicate()[0].decode('utf8', 'replace')
    if p.returncode != 0 or '@@END' not in text:
      for (_k, _p, q) in running:
        q.kill()
      raise core.TieBroken('cases file %s does not evaluate: %s' % (os.path.basename(path), text[-1500:]))
    for label, _ in checks:
      part = text.split('@@RESULT %s' % label, 1)[1].split('@@', 1)[0]
      m = re.search(r'=\s*\[(.*?)\]\s*:\s*list nat', part, re.S)
      if not m:
        raise core.TieBroken('cannot parse result %s of %s: %s' % (label, os.path.basename(path), part[-500:]))
      body = m.group(1).strip()
      if body:
        out[label].extend(k + int(tok.strip().replace('%nat', '')) for tok in body.split(';'))
  return {label: sorted(v) for label, v in out.items()}


def coq_edges(lp):
  return core.coq_list(['(%d, %d)' % (COLID[a], COLID[b]) for a, b in lp.edges])
