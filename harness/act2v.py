"""
act2v -- fail-closed reader of the type dispatch of actions.convert_action_values for property C24 (own module).

Writes coq/gen/Actions_gen.v with the two lists of action classes whose cell values are passed through the converter
(objtypes.encode_object for replies): `gen_single_kinds` (one value per column) and `gen_bulk_kinds` (a list per column),
read off the CURRENT actions.py -- inline tuples or module-level tuple names are both resolved.  Props/C24.v proves them
equal to the model's lists, so dropping (or adding) a kind breaks a proof obligation.
Everything else on the way of a reply is glue whose AST must be exactly the text the model was written from:
the body of convert_action_values around the two tests, convert_recursive_helper, convert_recursive_in_action,
encode_objects, get_action_repr, ActionBundle.to_json_obj and Envelope.to_json_obj.
"""
import ast
import os


class Untranslatable(Exception):
  pass


def fail(msg):
  raise Untranslatable(msg)


PINNED = {
  'convert_action_values': '''
def convert_action_values(converter, action):
  if isinstance(action, SINGLE_KINDS_):
    return type(action)(action.table_id, action.row_id,
                        {k: converter(v) for k, v in action.columns.items()})
  if isinstance(action, BULK_KINDS_):
    return type(action)(
      action.table_id, action.row_ids,
      {k: [converter(value) for value in values] for k, values in action.columns.items()}
    )
  return action
''',
  'convert_recursive_helper': '''
def convert_recursive_helper(converter, data):
  if isinstance(data, dict):
    return {converter(k): converter(v) for k, v in data.items()}
  elif isinstance(data, list):
    return [converter(el) for el in data]
  elif isinstance(data, tuple):
    return type(data)(*[converter(el) for el in data])
  else:
    return data
''',
  'convert_recursive_in_action': '''
def convert_recursive_in_action(converter, data):
  def inner(data):
    if isinstance(data, tuple):
      return convert_action_values(converter, data)
    return convert_recursive_helper(inner, data)
  return inner(data)
''',
  'encode_objects': '''
def encode_objects(data):
  return convert_recursive_in_action(objtypes.encode_object, data)
''',
  'get_action_repr': '''
def get_action_repr(action_obj):
  return [action_obj.__class__.__name__] + list(encode_objects(action_obj))
''',
}
PINNED_OBJ = {
  ('Envelope', 'to_json_obj'): '''
def to_json_obj(self):
  return {"recipients": sorted(self.recipients)}
''',
  ('ActionBundle', 'to_json_obj'): '''
def to_json_obj(self):
  return {
    "envelopes": [e.to_json_obj() for e in self.envelopes],
    "stored":    [(env, actions.get_action_repr(a)) for (env, a) in self.stored],
    "direct":    self.direct,
    "calc":      [(env, actions.get_action_repr(a)) for (env, a) in self.calc],
    "undo":      [(env, actions.get_action_repr(a)) for (env, a) in self.undo],
    "retValues": self.retValues,
    "rules":     sorted(self.rules)
  }
''',
}


def strip_doc(fdef):
  body = [s for s in fdef.body if not (isinstance(s, ast.Expr) and isinstance(s.value, ast.Constant) and isinstance(s.value.value, str))]
  fdef.body = body
  for n in body:
    if isinstance(n, ast.FunctionDef):
      strip_doc(n)
  return fdef


def dump(fdef):
  return ast.dump(strip_doc(fdef))


def class_names(node, consts, action_classes):
  """the action classes a tuple expression (or a module-level name bound to one) lists"""
  if isinstance(node, ast.Name) and node.id in consts:
    node = consts[node.id]
  if not isinstance(node, ast.Tuple) or not all(isinstance(e, ast.Name) for e in node.elts):
    fail('convert_action_values: the isinstance test is not over a tuple of action classes')
  names = [e.id for e in node.elts]
  for n in names:
    if n not in action_classes:
      fail('convert_action_values: %s is not an action class' % n)
  return names


def translate(grist_dir):
  tree = ast.parse(open(os.path.join(grist_dir, 'actions.py')).read())
  funcs = dict((n.name, n) for n in tree.body if isinstance(n, ast.FunctionDef))
  consts, action_classes = {}, {}
  for n in tree.body:
    if isinstance(n, ast.Assign) and len(n.targets) == 1 and isinstance(n.targets[0], ast.Name):
      consts[n.targets[0].id] = n.value
      v = n.value
      if isinstance(v, ast.Call) and isinstance(v.func, ast.Name) and v.func.id == 'namedtuple_eq' and v.args \
          and isinstance(v.args[0], ast.Constant):
        if v.args[0].value != n.targets[0].id:
          fail('action class %s is named %r' % (n.targets[0].id, v.args[0].value))
        action_classes[n.targets[0].id] = v
  cav = funcs.get('convert_action_values')
  if cav is None:
    fail('actions.convert_action_values not found')
  tests = [s.test for s in strip_doc(cav).body if isinstance(s, ast.If)]
  if len(tests) != 2 or not all(isinstance(t, ast.Call) and isinstance(t.func, ast.Name) and t.func.id == 'isinstance'
                                and len(t.args) == 2 for t in tests):
    fail('convert_action_values: expected two isinstance tests')
  single = class_names(tests[0].args[1], consts, action_classes)
  bulk = class_names(tests[1].args[1], consts, action_classes)
  tests[0].args[1] = ast.Name(id='SINGLE_KINDS_', ctx=ast.Load())
  tests[1].args[1] = ast.Name(id='BULK_KINDS_', ctx=ast.Load())
  for name, text in PINNED.items():
    if name not in funcs or dump(funcs[name]) != dump(ast.parse(text.strip() + '\n').body[0]):
      fail('actions.%s is not the text the model was written from' % name)
  otree = ast.parse(open(os.path.join(grist_dir, 'action_obj.py')).read())
  classes = dict((n.name, n) for n in otree.body if isinstance(n, ast.ClassDef))
  for (cname, mname), text in PINNED_OBJ.items():
    f = [n for n in (classes[cname].body if cname in classes else []) if isinstance(n, ast.FunctionDef) and n.name == mname]
    if len(f) != 1 or dump(f[0]) != dump(ast.parse(text.strip() + '\n').body[0]):
      fail('action_obj.%s.%s is not the text the model was written from' % (cname, mname))
  lst = lambda names: '[' + '; '.join('Str "%s"' % n for n in names) + ']'
  return ('(* GENERATED by harness/act2v.py from sandbox/grist/actions.py -- do not edit. *)\n'
          'From Coq Require Import ZArith List String.\nImport ListNotations.\nRequire Import Grist.Model.Values.\n\n'
          '(* classes tested by convert_action_values, in source order *)\n'
          'Definition gen_single_kinds : list str := %s.\nDefinition gen_bulk_kinds : list str := %s.\n'
          '(* every action class of actions.py *)\nDefinition gen_action_classes : list str := %s.\n'
          % (lst(single), lst(bulk), lst(sorted(action_classes))))


if __name__ == '__main__':
  import sys
  print(translate(sys.argv[1] if len(sys.argv) > 1 else '/repo/sandbox/grist'))
