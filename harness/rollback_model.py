"""
Abstraction of the real engine's state and traces into terms of coq/theories/Model/Rollback.v (C04, C29).

  Enc()                      interner: names / cell values / types / formulas -> Z (fresh per case)
  enc.doc(e, tables)         Coq term of type `doc` for the given table ids (schema + Table/Column objects)
  enc.action(name, args)     Coq term of type `action` for a doc action as received by docactions.DocActions
  enc.ord(e, tables)         Coq term `name -> list name`: iteration order of each table's all_columns
  step_sig / undo_sig ...    the signature (list Z) the model's `step_sig` gives to the same instrumented call

Only columns of engine.schema are modelled (the `id` column is the row set; private helper columns such as
#lookup..., #summary#... and the docmodel's private formula columns are not part of the model).
"""
import json

from harness import core
from harness import gristenv as G

import actions            # noqa: E402
import objtypes           # noqa: E402
import usertypes          # noqa: E402


def vkey(x):
  """Key of a raw cell value: equal keys <=> objtypes.strict_equal (numbers: int/float merged, bool kept apart)."""
  if isinstance(x, bool):
    return 'b:%r' % x
  if x is None:
    return 'none'
  if isinstance(x, (int, float)):
    if x != x:
      return 'nan'
    if isinstance(x, float) and x in (float('inf'), float('-inf')):
      return 'n:%r' % x
    if x == int(x):
      return 'n:%d' % int(x)
    return 'n:' + float(x).hex()
  if isinstance(x, str):
    return 's:' + x
  if isinstance(x, bytes):
    return 'y:' + x.hex()
  if isinstance(x, (tuple, list)):
    return 'l:[' + ','.join(vkey(i) for i in x) + ']'    # ChoiceListColumn.set stores lists as tuples
  try:
    return 'o:%s:%s' % (type(x).__name__, json.dumps(G.norm(objtypes.encode_object(x)), sort_keys=True, default=repr))
  except Exception:
    return 'o:%s:%r' % (type(x).__name__, x)


class Enc(object):
  def __init__(self):
    self.names = {}
    self.values = {}
    self.types = {}
    self.formulas = {}

  def _intern(self, table, key):
    if key not in table:
      table[key] = len(table) + 1
    return table[key]

  def name(self, s):
    return self._intern(self.names, s)

  def val(self, x):
    return self._intern(self.values, vkey(x))

  def typ(self, s):
    return self._intern(self.types, s)

  def formula(self, s):
    return self._intern(self.formulas, s or '')

  # ---- schema / objects
  def colinfo(self, type_string, default, is_formula, formula, reverse):
    return '(ColInfo %s %s %s %s %s)' % (core.zlit(self.typ(type_string)), core.zlit(self.val(default)),
                                         core.boollit(bool(is_formula)), core.zlit(self.formula(formula)),
                                         core.zlit(self.name(reverse) if reverse else 0))

  def schema_colinfo(self, sc):
    return self.colinfo(sc.type, usertypes.get_type_default(sc.type), sc.isFormula, sc.formula, sc.reverseColId)

  def dict_colinfo(self, d):
    """col_info dict of AddColumn / AddTable (schema.dict_to_col)."""
    return self.colinfo(d['type'], usertypes.get_type_default(d['type']), bool(d['isFormula']), d['formula'],
                        d.get('reverseColId'))

  def object_colinfo(self, col, sc):
    """Info of the Column OBJECT: equal to the schema's info exactly when the object is of the schema's type."""
    same = (sc is not None and col.type_obj.typename() == usertypes.get_pure_type(sc.type)
            and bool(col.is_formula()) == bool(sc.isFormula))
    tname = sc.type if same else 'OBJECT:%s:%s' % (col.type_obj.typename(), col.is_formula())
    return self.colinfo(tname, col.getdefault(), col.is_formula(), sc.formula if sc is not None else '',
                        sc.reverseColId if sc is not None else None)

  def gmap(self, items, vtype):
    # sorted by key: two encodings of equal maps are equal strings (dict order of the engine is not part of the state)
    return '(mkmap %s %s)' % (vtype, core.coq_list(['(%s, %s)' % (core.zlit(k), v) for k, v in sorted(items)]))

  def doc(self, e, tables):
    sch_items, tab_items = [], []
    for t in tables:
      st = e.schema.get(t)
      if st is not None:
        sch_items.append((self.name(t), self.gmap([(self.name(c), self.schema_colinfo(sc))
                                                   for c, sc in st.columns.items()], 'colinfo')))
      tb = e.tables.get(t)
      if tb is not None:
        rows = list(tb.row_ids)
        cols = []
        for c, col in tb.all_columns.items():
          if not self.modelled(e, t, c):
            continue
          sc = st.columns.get(c) if st is not None else None
          dflt = col.getdefault()
          cells = []
          for r in rows:
            v = col.raw_get(r)
            if not objtypes.strict_equal(v, dflt) and vkey(v) != vkey(dflt):
              cells.append((r, core.zlit(self.val(v))))
          cols.append((self.name(c), '(Column %s %s)' % (self.object_colinfo(col, sc), self.gmap(cells, 'val'))))
        tab_items.append((self.name(t), '(Table (mkset %s) %s)' % (core.zlist(sorted(rows)),
                                                                                   self.gmap(cols, 'column'))))
    return '(Doc %s %s)' % (self.gmap(sch_items, '(gmap Z colinfo)'), self.gmap(tab_items, 'table'))

  @staticmethod
  def modelled(e, t, c):
    """Column c of table t is part of the model: a column of engine.schema or an object left over under that name."""
    if c == 'id' or c.startswith('#'):
      return False
    tb = e.tables.get(t)
    col = tb.all_columns.get(c) if tb is not None else None
    if col is not None and col.is_private():
      return False
    return True

  def ord(self, e, tables):
    clauses = []
    for t in tables:
      tb = e.tables.get(t)
      if tb is None:
        continue
      cs = [self.name(c) for c in tb.all_columns if self.modelled(e, t, c)]
      clauses.append('if Z.eqb t %s then %s else' % (core.zlit(self.name(t)), core.zlist(cs)))
    return '(fun t : Z => %s [])' % ' '.join(clauses)

  # ---- actions
  def colvals(self, d, single=False):
    return core.coq_list(['(%s, %s)' % (core.zlit(self.name(c)),
                                        core.zlit(self.val(v)) if single else core.zlist([self.val(x) for x in v]))
                          for c, v in d.items()])

  def colmod(self, d):
    t = d.get('type')
    return '(ColMod %s %s %s %s)' % (
      'None' if 'type' not in d else '(Some (%s, %s))' % (core.zlit(self.typ(t)),
                                                         core.zlit(self.val(usertypes.get_type_default(t)))),
      'None' if 'isFormula' not in d else '(Some %s)' % core.boollit(bool(d['isFormula'])),
      'None' if 'formula' not in d else '(Some %s)' % core.zlit(self.formula(d['formula'])),
      'None' if 'reverseColId' not in d else '(Some %s)' % core.zlit(self.name(d['reverseColId'])
                                                                    if d['reverseColId'] else 0))

  def action(self, name, a):
    n = self.name
    z = core.zlit
    if name == 'BulkAddRecord':
      return '(BulkAddRecord %s %s %s)' % (z(n(a[0])), core.zlist(a[1]), self.colvals(a[2]))
    if name == 'BulkRemoveRecord':
      return '(BulkRemoveRecord %s %s)' % (z(n(a[0])), core.zlist(a[1]))
    if name == 'BulkUpdateRecord':
      return '(BulkUpdateRecord %s %s %s)' % (z(n(a[0])), core.zlist(a[1]), self.colvals(a[2]))
    if name == 'ReplaceTableData':
      return '(ReplaceTableData %s %s %s)' % (z(n(a[0])), core.zlist(a[1]), self.colvals(a[2]))
    if name == 'AddRecord':
      return '(AddRecord %s %s %s)' % (z(n(a[0])), z(a[1]), self.colvals(a[2], True))
    if name == 'RemoveRecord':
      return '(RemoveRecord %s %s)' % (z(n(a[0])), z(a[1]))
    if name == 'UpdateRecord':
      return '(UpdateRecord %s %s %s)' % (z(n(a[0])), z(a[1]), self.colvals(a[2], True))
    if name == 'AddColumn':
      return '(AddColumn %s %s %s)' % (z(n(a[0])), z(n(a[1])), self.dict_colinfo(a[2]))
    if name == 'RemoveColumn':
      return '(RemoveColumn %s %s)' % (z(n(a[0])), z(n(a[1])))
    if name == 'RenameColumn':
      return '(RenameColumn %s %s %s)' % (z(n(a[0])), z(n(a[1])), z(n(a[2])))
    if name == 'ModifyColumn':
      return '(ModifyColumn %s %s %s)' % (z(n(a[0])), z(n(a[1])), self.colmod(a[2]))
    if name == 'AddTable':
      return '(AddTable %s %s)' % (z(n(a[0])), core.coq_list(['(%s, %s)' % (z(n(c['id'])), self.dict_colinfo(c))
                                                             for c in a[1]]))
    if name == 'RemoveTable':
      return '(RemoveTable %s)' % z(n(a[0]))
    if name == 'RenameTable':
      return '(RenameTable %s %s)' % (z(n(a[0])), z(n(a[1])))
    raise core.TieBroken('doc action %s is not one of the modelled kinds' % name)

  # ---- signatures (must agree with Rollback.step_sig / action_sig / sum_sig)
  ACTION_CODE = {'AddRecord': 1, 'BulkAddRecord': 1, 'RemoveRecord': 2, 'BulkRemoveRecord': 2, 'UpdateRecord': 3,
                 'BulkUpdateRecord': 3, 'ReplaceTableData': 4, 'TableData': 4, 'AddColumn': 5, 'RemoveColumn': 6,
                 'RenameColumn': 7, 'ModifyColumn': 8, 'AddTable': 9, 'RemoveTable': 10, 'RenameTable': 11}

  def action_sig(self, act):
    name = type(act).__name__
    code = self.ACTION_CODE[name]
    out = [code, self.name(act.table_id if hasattr(act, 'table_id') else act[0])]
    if code in (5, 6, 8):
      out.append(self.name(act.col_id))
    elif code == 7:
      out += [self.name(act.old_col_id), self.name(act.new_col_id)]
    elif code == 11:
      out = [code, self.name(act.old_table_id), self.name(act.new_table_id)]
    return out

  SUM_CODE = {'add_changes': (1, 2), 'add_records': (2, 1), 'remove_records': (3, 1), 'add_column': (4, 2),
              'remove_column': (5, 2), 'rename_column': (6, 3), 'add_table': (7, 1), 'remove_table': (8, 1),
              'rename_table': (9, 2)}

  def step_sig(self, e, name, detail):
    """Signature of one recorded instrumentation point, or None if the point is outside the model
    (private / helper column)."""
    if name == 'rebuild':
      return [1]
    if name == 'set':
      t, c, r, v, private = detail
      if c == 'id':
        return [2 if v else 3, self.name(t), r]
      if private or c.startswith('#'):
        return None
      return [4, self.name(t), self.name(c), r]
    if name == 'copy':
      t, c, private = detail
      if c == 'id':
        return [5, self.name(t)]
      return None if (private or c.startswith('#')) else [6, self.name(t), self.name(c)]
    if name == 'clear':
      t, c, private = detail
      if c == 'id':
        return [7, self.name(t)]
      return None if (private or c.startswith('#')) else [8, self.name(t), self.name(c)]
    if name == 'undo.append':
      return [9] + self.action_sig(detail)
    if name.startswith('sum:'):
      code, nargs = self.SUM_CODE[name[4:]]
      return [10, code] + [self.name(x) for x in detail[:nargs]]
    if name in ('undo.insert', 'undo.pop', 'undo.reappend'):
      return [99]            # not a step of any doc action in the model
    return None

  @staticmethod
  def sigs_lit(sigs):
    return core.coq_list([core.zlist(s) for s in sigs])


def tables_of_action(name, a):
  if name == 'RenameTable':
    return [a[0], a[1]]
  return [a[0]]


IMPORTS = ['Grist.Model.Rollback']
EXTRA_DEFS = ('From stdpp Require Import gmap.\nOpen Scope Z_scope.\n'
              'Definition mkmap (A : Type) (l : list (Z * A)) : gmap Z A := list_to_map l.\n'
              'Definition mkset (l : list Z) : gset Z := list_to_set l.\n')
