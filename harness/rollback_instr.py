"""
Instrumentation of the real engine for C04 / C29 (DESIGN.md section 4.4): harness-side wrappers only, /repo is never edited.

Points (each is one "micro-step boundary"; a fault can be injected BEFORE the step runs):
  doc:<Action>       entry of docactions.DocActions.<Action> (bulk/schema forms; single-record forms delegate to bulk)
  set                outermost <Column subclass>.set(row, value) (unset -> set is counted as its set)
  copy               <Column>.copy_from_column
  clear              <Column>.clear   (ReplaceTableData -> load_table)
  rebuild            engine.Engine.rebuild_usercode (entry)
  undo.append/insert/pop   mutation of ActionGroup.undo (a list subclass installed by wrapping ActionGroup.__init__)
  sum:<method>       ActionSummary.add_changes/add_records/remove_records/rename_column/rename_table (outermost call;
                     add_column/remove_column/add_table/remove_table are reported under their own name)
  ua-end             return of Engine._apply_one_user_action (crash between user actions / after the last one)

A Recorder is installed once per process; `with REC.session(fault_at=k)` activates it around one apply_user_actions.
"""
import contextlib
import functools

from harness import core
from harness import gristenv as G   # noqa: F401  (sets up the import path)

import action_obj            # noqa: E402
import action_summary        # noqa: E402
import column as column_mod  # noqa: E402
import docactions            # noqa: E402
import engine as engine_mod  # noqa: E402


class InjectedFault(Exception):
  pass


DOC_METHODS = ['BulkAddRecord', 'BulkRemoveRecord', 'BulkUpdateRecord', 'ReplaceTableData',
               'AddColumn', 'RemoveColumn', 'RenameColumn', 'ModifyColumn',
               'AddTable', 'RemoveTable', 'RenameTable']
SINGLE_METHODS = ['AddRecord', 'RemoveRecord', 'UpdateRecord']
SUMMARY_METHODS = ['add_changes', 'add_records', 'remove_records', 'add_column', 'remove_column', 'rename_column',
                   'add_table', 'remove_table', 'rename_table']


class UndoList(list):
  """out_actions.undo with its mutations reported (rollback's `del undo[n:]` is not a step of a doc action)."""
  def append(self, x):
    # useractions.doModifyColumn pops the ModifyColumn undo, flushes the column's calc deltas and re-appends the very
    # same object in a `finally`: that re-append is reported as 'undo.reappend' and is never a fault position
    if REC.active and REC.last_popped is not None and x is REC.last_popped:
      REC.last_popped = None
      REC.point('undo.reappend', x, faultable=False)
    else:
      REC.point('undo.append', x)
    list.append(self, x)

  def insert(self, i, x):
    REC.point('undo.insert', x)
    list.insert(self, i, x)

  def pop(self, *a):
    REC.point('undo.pop', None)
    x = list.pop(self, *a)
    REC.last_popped = x
    return x


class Recorder(object):
  def __init__(self):
    self.active = False
    self.installed = False
    self.reset()

  def reset(self, fault_at=None):
    self.events = []          # (index, name, docaction-serial or None, phase, detail)
    self.count = 0
    self.fault_at = fault_at
    self.fired = None
    self.depth_set = 0
    self.depth_sum = 0
    self.cur_doc = None       # serial number of the doc action being applied (outermost DocActions method)
    self.doc_serial = 0
    self.in_rollback = 0
    self.last_popped = None
    self.phase = 'actions'    # 'actions' (inside the try of apply_user_actions) or 'post' (after the last user action)
    self.docs = []            # per doc action: dict(serial, name, args, phase, steps=[(name, detail)], completed,
                              #   first=index of its 'doc:' point, before/after = what hook_enter/hook_exit returned)
    self.hook_enter = None    # fn(engine, name, args) -> object stored as doc['before'] (called before the 'doc:' point)
    self.hook_exit = None     # fn(engine, name, args, completed) -> object stored as doc['after']

  def point(self, name, detail=None, faultable=True):
    if not self.active:
      return
    if self.in_rollback:
      return                  # steps of the rollback itself are not crash points of the bundle
    idx = self.count
    self.count += 1
    self.events.append((idx, name, self.cur_doc, self.phase, detail))
    if self.cur_doc is not None and self.docs and self.docs[-1]['serial'] == self.cur_doc:
      self.docs[-1]['steps'].append((name, detail))
    if faultable and self.fault_at is not None and self.fault_at == idx:
      self.fired = (idx, name, self.cur_doc, self.phase)
      self.fault_at = None
      raise InjectedFault('injected fault before step %d (%s)' % (idx, name))

  @contextlib.contextmanager
  def session(self, fault_at=None, hook_enter=None, hook_exit=None):
    install()
    self.reset(fault_at)
    self.hook_enter = hook_enter
    self.hook_exit = hook_exit
    self.active = True
    try:
      yield self
    finally:
      self.active = False


REC = Recorder()


def _need(obj, name):
  if not hasattr(obj, name):
    raise core.TieBroken('instrumentation point %s.%s no longer exists' % (getattr(obj, '__name__', obj), name))
  return getattr(obj, name)


def install():
  if REC.installed:
    return
  # --- DocActions methods
  def wrap_doc(name):
    orig = _need(docactions.DocActions, name)
    @functools.wraps(orig)
    def w(self, *a):
      if not REC.active or REC.in_rollback or REC.cur_doc is not None:
        return orig(self, *a)
      REC.doc_serial += 1
      REC.cur_doc = REC.doc_serial
      d = {'serial': REC.cur_doc, 'name': name, 'args': a, 'phase': REC.phase, 'steps': [],
           'completed': False, 'first': REC.count, 'before': None, 'after': None}
      REC.docs.append(d)
      try:
        if REC.hook_enter is not None:
          d['before'] = REC.hook_enter(self._engine, name, a)
        REC.point('doc:' + name)
        r = orig(self, *a)
        d['completed'] = True
        return r
      finally:
        REC.cur_doc = None
        if REC.hook_exit is not None and REC.active:
          d['after'] = REC.hook_exit(self._engine, name, a, d['completed'])
    setattr(docactions.DocActions, name, w)
  for n in DOC_METHODS:
    wrap_doc(n)
  for n in SINGLE_METHODS:
    _need(docactions.DocActions, n)

  # --- column mutators
  seen = set()
  def all_subclasses(c):
    out = [c]
    for s in c.__subclasses__():
      out.extend(all_subclasses(s))
    return out
  classes = all_subclasses(column_mod.BaseColumn)
  def wrap_set(cls):
    orig = cls.__dict__['set']
    @functools.wraps(orig)
    def w(self, row_id, value):
      if not REC.active:
        return orig(self, row_id, value)
      if REC.depth_set == 0:
        REC.point('set', (self.table_id, self.col_id, row_id, value, bool(self.is_private())))
      REC.depth_set += 1
      try:
        return orig(self, row_id, value)
      finally:
        REC.depth_set -= 1
    cls.set = w
  def wrap_simple(cls, meth, pname):
    orig = cls.__dict__[meth]
    @functools.wraps(orig)
    def w(self, *a):
      if REC.active and REC.depth_set == 0:
        REC.point(pname, (self.table_id, self.col_id, bool(self.is_private())))
      REC.depth_set += 1
      try:
        return orig(self, *a)
      finally:
        REC.depth_set -= 1
    setattr(cls, meth, w)
  _need(column_mod.BaseColumn, 'set')
  _need(column_mod.BaseColumn, 'copy_from_column')
  _need(column_mod.BaseColumn, 'clear')
  for cls in classes:
    if id(cls) in seen:
      continue
    seen.add(id(cls))
    if 'set' in cls.__dict__:
      wrap_set(cls)
    if 'copy_from_column' in cls.__dict__:
      wrap_simple(cls, 'copy_from_column', 'copy')
    if 'clear' in cls.__dict__:
      wrap_simple(cls, 'clear', 'clear')

  # --- rebuild_usercode
  orig_rebuild = _need(engine_mod.Engine, 'rebuild_usercode')
  @functools.wraps(orig_rebuild)
  def rebuild(self):
    if REC.active and self._should_rebuild_usercode:
      REC.point('rebuild')
    return orig_rebuild(self)
  engine_mod.Engine.rebuild_usercode = rebuild

  # --- undo list
  orig_init = _need(action_obj.ActionGroup, '__init__')
  @functools.wraps(orig_init)
  def ag_init(self):
    orig_init(self)
    if not isinstance(self.undo, list):
      raise core.TieBroken('ActionGroup.undo is no longer a list')
    self.undo = UndoList(self.undo)
  action_obj.ActionGroup.__init__ = ag_init

  # --- summary
  def wrap_sum(name):
    orig = _need(action_summary.ActionSummary, name)
    @functools.wraps(orig)
    def w(self, *a):
      if REC.active and REC.depth_sum == 0:
        REC.point('sum:' + name, a)
      REC.depth_sum += 1
      try:
        return orig(self, *a)
      finally:
        REC.depth_sum -= 1
    setattr(action_summary.ActionSummary, name, w)
  for n in SUMMARY_METHODS:
    wrap_sum(n)

  # --- rollback bracket and user-action boundaries
  orig_undo = _need(engine_mod.Engine, '_undo_to_checkpoint')
  _need(engine_mod.Engine, '_get_undo_checkpoint')
  @functools.wraps(orig_undo)
  def undo_to(self, checkpoint):
    if not REC.active:
      return orig_undo(self, checkpoint)
    REC.in_rollback += 1
    saved = REC.cur_doc
    REC.cur_doc = None
    try:
      return orig_undo(self, checkpoint)
    finally:
      REC.cur_doc = saved
      REC.in_rollback -= 1
  engine_mod.Engine._undo_to_checkpoint = undo_to

  orig_one = _need(engine_mod.Engine, '_apply_one_user_action')
  @functools.wraps(orig_one)
  def one(self, user_action):
    r = orig_one(self, user_action)
    if REC.active:
      REC.point('ua-end')
    return r
  engine_mod.Engine._apply_one_user_action = one

  orig_all = _need(engine_mod.Engine, '_bring_all_up_to_date')
  @functools.wraps(orig_all)
  def bring_all(self):
    if REC.active:
      REC.phase = 'post'
    return orig_all(self)
  engine_mod.Engine._bring_all_up_to_date = bring_all
  _need(engine_mod.Engine, 'apply_doc_action')
  REC.installed = True
