"""
Differential validation of harness/tg2v.py for C15: what the RUNNING engine asks of its dependency machinery while it
applies a record action on table T (calls of Engine.prevent_recalc and DepGraph.invalidate_deps, in order), against the
effect list the GENERATED functions (coq/gen/Trigger_gen.v) compute for the same action, evaluated by vm_compute.
Also: the pure generated functions against the running Python functions on generated arguments.
"""
import random

from harness import core

UNKNOWN_BASE = 90        # model numbers for columns the model does not know ('id', 'manualSort', ...)


def install(doc):
  """Spies on the engine of a c15.Doc; events go to doc.trace while doc.tracing is set."""
  import depend
  e = doc.e
  doc.trace = []
  doc.tracing = False
  ref2model = {doc.refs[n]: c for c, n in doc.base_names.items()}
  doc.ref2model = ref2model

  def model_of(name, cache):
    if name not in cache:
      rec = e.docmodel.columns.lookupOne(tableId='T', colId=name)
      ref = int(rec.id) if rec else 0
      if ref in ref2model:
        cache[name] = ref2model[ref]
      else:
        cache[name] = doc.unknown.setdefault(name, UNKNOWN_BASE + len(doc.unknown))
    return cache[name]
  doc.unknown = {}
  doc.model_of = model_of

  orig_one = e._apply_one_user_action
  def one(user_action):
    if doc.tracing:
      doc.trace.append(('A', type(user_action).__name__, snapshot(doc)))
    return orig_one(user_action)
  e._apply_one_user_action = one

  orig_prevent = e.prevent_recalc
  def prevent(node, row_ids, should_prevent):
    if doc.tracing and node.table_id == 'T':
      doc.trace.append(('P', node.col_id, sorted(int(r) for r in row_ids), bool(should_prevent)))
    return orig_prevent(node, row_ids, should_prevent)
  e.prevent_recalc = prevent

  orig_inv = e.dep_graph.invalidate_deps
  def inv(dirty_node, dirty_rows, recompute_map, include_self=True):
    if doc.tracing and dirty_node.table_id == 'T':
      rows = 'ALL' if dirty_rows == depend.ALL_ROWS else [int(r) for r in dirty_rows]
      doc.trace.append(('I', dirty_node.col_id, rows, bool(include_self)))
    return orig_inv(dirty_node, dirty_rows, recompute_map, include_self=include_self)
  e.dep_graph.invalidate_deps = inv


def snapshot(doc):
  """The table as the code sees it at the start of a user action: column descriptors (in all_columns order) and the
  cells of the model's data columns."""
  e = doc.e
  table = e.tables['T']
  cache = {}
  cols = []
  for name, col in table.all_columns.items():
    rec = e.docmodel.columns.lookupOne(tableId='T', colId=name)
    deps = [int(d.id) for d in rec.recalcDeps] if rec else []
    mid = doc.model_of(name, cache)
    cols.append({'id': mid, 'is_formula': bool(col.is_formula()), 'has_formula': bool(col.has_formula()),
                 'recalcWhen': int(rec.recalcWhen) if rec else 0,
                 'deps': [doc.ref2model.get(d, UNKNOWN_BASE - 1) for d in deps]})
  cells = {}
  for r in table.row_ids:
    cells[int(r)] = {}
    for name, col in table.all_columns.items():
      mid = cache[name]
      if mid < UNKNOWN_BASE and not col.is_formula():
        v = col.raw_get(r)
        cells[int(r)][mid] = int(v) if isinstance(v, (int, float)) and not isinstance(v, bool) and v == int(v) else 0
  return {'cols': cols, 'cells': cells, 'names': dict(cache)}


def trigger_deps_case(doc):
  """Engine._maybe_update_trigger_dependencies on the real document vs gen_trigger_dependencies."""
  e = doc.e
  events = []
  dg = e.dep_graph
  oc, oa = dg.clear_dependencies, dg.add_edge
  def clear(out_node):
    if out_node.table_id == 'T':
      events.append(('C', out_node.col_id))
    return oc(out_node)
  def add(out_node, in_node, relation):
    if out_node.table_id == 'T':
      events.append(('E', out_node.col_id, in_node.col_id))
    return oa(out_node, in_node, relation)
  dg.clear_dependencies, dg.add_edge = clear, add
  try:
    snap = snapshot(doc)
    e.trigger_columns_changed()
    e._maybe_update_trigger_dependencies()
  finally:
    dg.clear_dependencies, dg.add_edge = oc, oa
  names = snap['names']
  effs = core.coq_list([('EClearDeps %s' % z(names[ev[1]])) if ev[0] == 'C' else
                        ('EAddEdge %s %s' % (z(names[ev[1]]), z(names[ev[2]]))) for ev in events])
  return '(effpair (gen_trigger_dependencies %s false) %s)' % (coq_cols(snap['cols']), effs)


def segments(trace):
  """[(action name, snapshot, [events])] per user action."""
  out = []
  for ev in trace:
    if ev[0] == 'A':
      out.append((ev[1], ev[2], []))
    elif out:
      out[-1][2].append(ev)
  return out


# ------------------------------------------------------------------------------------------------ Coq terms
def z(n):
  return core.zlit(n)


def coq_cols(cols):
  return core.coq_list([
      '{| ci_id := %s; ci_ref := %s; ci_is_formula := %s; ci_has_formula := %s; ci_recalcWhen := %s; ci_recalcDeps := %s |}'
      % (z(c['id']), z(c['id']), core.boollit(c['is_formula']), core.boollit(c['has_formula']), z(c['recalcWhen']),
         core.zlist(c['deps'])) for c in cols])


def coq_effs(events, names):
  out = []
  for ev in events:
    col = names[ev[1]]
    if ev[0] == 'P':
      out.append('EPrevent %s %s %s' % (z(col), core.zlist(ev[2]), core.boollit(ev[3])))
    else:
      rows = 'AllRows' if ev[2] == 'ALL' else '(Rows %s)' % core.zlist(ev[2])
      out.append('EInvalidate %s %s %s' % (z(col), rows, core.boollit(ev[3])))
  return core.coq_list(out)


def coq_cells(cells):
  return core.coq_list(['(%s, %s)' % (z(r), core.coq_list(['(%s, %s)' % (z(c), z(v)) for c, v in sorted(cv.items())]))
                        for r, cv in sorted(cells.items())])


def coq_dict(cols, recs):
  """{col: [values]} in the order the action names its columns."""
  return core.coq_list(['(%s, %s)' % (z(c), core.zlist([dict(kv)[c] for _, kv in recs])) for c in cols])


DEFS = '''
Require Import Grist.Lib.TrigEff GristGen.Trigger_gen.
Definition sub (a b : list Z) := forallb (fun x => zmem x b) a.
Definition same_rows (a b : list Z) := sub a b && sub b a.
Fixpoint zlist_eqb (a b : list Z) : bool :=
  match a, b with [], [] => true | x :: a', y :: b' => (x =? y) && zlist_eqb a' b' | _, _ => false end.
Definition eff_eqb (a b : eff) : bool :=
  match a, b with
  | EPrevent n r s, EPrevent n' r' s' => (n =? n') && same_rows r r' && Bool.eqb s s'
  | EInvalidate n AllRows s, EInvalidate n' AllRows s' => (n =? n') && Bool.eqb s s'
  | EInvalidate n (Rows r) s, EInvalidate n' (Rows r') s' => (n =? n') && same_rows r r' && Bool.eqb s s'
  | EClearDeps n, EClearDeps n' => n =? n'
  | EAddEdge a1 b1, EAddEdge a2 b2 => (a1 =? a2) && (b1 =? b2)
  | _, _ => false
  end.
Fixpoint effs_eqb (a b : list eff) : bool :=
  match a, b with [], [] => true | x :: a', y :: b' => eff_eqb x y && effs_eqb a' b' | _, _ => false end.
Fixpoint assocz (c : Z) (l : list (Z * Z)) : Z := match l with [] => 0 | (k, v) :: t => if k =? c then v else assocz c t end.
(* raw_get of the table given as [(row, [(col, value)])] *)
Definition mkget (cells : list (Z * list (Z * Z))) (col row : Z) : Z :=
  match find (fun rc => fst rc =? row) cells with Some rc => assocz col (snd rc) | None => 0 end.
Fixpoint dict_eqb (a b : list (Z * list Z)) : bool :=
  match a, b with
  | [], [] => true
  | (k, v) :: a', (k', v') :: b' => (k =? k') && zlist_eqb v v' && dict_eqb a' b'
  | _, _ => false
  end.
Definition action_eqb (a b : bulk_action) : bool := zlist_eqb (fst a) (fst b) && dict_eqb (snd a) (snd b).
Definition rows_code (s : rowsel) : list Z := match s with AllRows => [-1] | Rows l => 0 :: l end.
Definition effpair (a b : list eff) : list eff * list eff := (a, b).
Definition boolpair (a b : bool) : bool * bool := (a, b).
Definition actpair (a b : bulk_action) : bulk_action * bulk_action := (a, b).
Definition zlpair (a b : list Z) : list Z * list Z := (a, b).
'''


class _NS(object):
  def __init__(self, **kw):
    self.__dict__.update(kw)


def pure_cases(rng, n):
  """The pure generated functions against the RUNNING Python functions on generated arguments.
  Returns {'bool': [...], 'zlist': [...], 'action': [...]} of Coq pair terms (generated value, running value)."""
  import actions
  import column
  import depend
  import docmodel
  import engine
  import relation
  out = {'bool': [], 'zlist': [], 'action': []}
  self_fn = docmodel.MetaTableExtras._grist_Tables_column.recalcOnChangesToSelf
  for _ in range(n):
    w, i = rng.choice([0, 1, 2, 3]), rng.randint(1, 6)
    deps = [rng.randint(1, 6) for _ in range(rng.choice([0, 1, 2, 3]))]
    got = bool(self_fn(_NS(recalcWhen=w, id=i, recalcDeps=deps), None))
    out['bool'].append('(boolpair (gen_recalcOnChangesToSelf {| ci_id := 0; ci_ref := %s; ci_is_formula := false; '
                       'ci_has_formula := true; ci_recalcWhen := %s; ci_recalcDeps := %s |}) %s)'
                       % (z(i), z(w), core.zlist(deps), core.boollit(got)))
  for flag in (True, False):
    got = bool(column.BaseColumn.is_formula(_NS(_is_formula=flag)))
    out['bool'].append('(boolpair (gen_is_formula %s) %s)' % (core.boollit(flag), core.boollit(got)))
  rel = relation.SingleRowsIdentityRelation('T')
  for _ in range(n):
    rows = None if rng.random() < 0.3 else [rng.randint(1, 9) for _ in range(rng.choice([0, 1, 3]))]
    got = rel.get_affected_rows(depend.ALL_ROWS if rows is None else rows)
    code = [-1] if got == depend.ALL_ROWS else [0] + [int(x) for x in got]
    arg = 'AllRows' if rows is None else '(Rows %s)' % core.zlist(rows)
    out['zlist'].append('(zlpair (rows_code (gen_get_affected_rows %s)) %s)' % (arg, core.zlist(code)))
  universe = list(range(0, 8))
  for _ in range(n):
    S = sorted(set(rng.randint(0, 7) for _ in range(rng.choice([0, 2, 4]))))
    rows = [rng.randint(0, 7) for _ in range(rng.choice([0, 1, 3]))]
    flag = rng.random() < 0.5
    node = depend.Node('T', 'X')
    fake = _NS(_prevent_recompute_map={node: set(S)} if rng.random() < 0.8 or S else {})
    engine.Engine.prevent_recalc(fake, node, rows, flag)
    got = sorted(fake._prevent_recompute_map[node])
    out['zlist'].append('(zlpair (filter (fun x => zmem x (gen_prevent_recalc %s %s %s)) %s) %s)' % (
        core.zlist(S), core.zlist(rows), core.boollit(flag), core.zlist(universe), core.zlist(got)))
  for _ in range(n):
    nrows, ncols = rng.choice([0, 1, 2, 3, 4]), rng.choice([1, 2, 3])
    rows = rng.sample(range(1, 9), nrows)
    cols = rng.sample(range(1, 6), ncols)
    cells = {r: {c: rng.randint(0, 2) for c in range(1, 6)} for r in range(1, 9)}
    vals = {c: [cells[r][c] if rng.random() < 0.5 else rng.randint(0, 2) for r in rows] for c in cols}
    class Col(object):
      def __init__(self, c):
        self.col_id = 'c%d' % c
        self.c = c
      def raw_get(self, r):
        return cells[r][self.c]
    table = _NS(get_column=lambda name: Col(int(name[1:])))
    fake = _NS(tables={'T': table})
    act = actions.BulkUpdateRecord('T', list(rows), {'c%d' % c: list(vals[c]) for c in cols})
    res = engine.Engine.trim_update_action(fake, act)
    exp = '(%s, %s)' % (core.zlist(res.row_ids), core.coq_list(
        ['(%s, %s)' % (z(int(k[1:])), core.zlist(v)) for k, v in res.columns.items()]))
    cells_term = coq_cells({r: cells[r] for r in cells})
    arg = '(%s, %s)' % (core.zlist(rows), core.coq_list(['(%s, %s)' % (z(c), core.zlist(vals[c])) for c in cols]))
    out['action'].append('(actpair (gen_trim_update_action (mkget %s) %s) %s)' % (cells_term, arg, exp))
  return out


def doc_effect_term(cols_term, r, names_of, present):
  """Generated effects of one doc-action repr on T (None for a schema action).  `present`: the rows of the table
  when the doc action runs (BulkRemoveRecord ignores rows that do not exist); updated."""
  k = r[0]
  if k in ('AddRecord', 'UpdateRecord'):
    r = ['Bulk' + k, 'T', [r[2]], {c: [v] for c, v in r[3].items()}]
    k = r[0]
  if k in ('BulkAddRecord', 'BulkUpdateRecord'):
    d = core.coq_list(['(%s, %s)' % (z(names_of(c)), core.zlist([0] * len(r[2]))) for c in r[3]])
    if k == 'BulkAddRecord':
      present.update(int(x) for x in r[2])
    return '(gen_doc_%s %s %s %s)' % (k, cols_term, core.zlist([int(x) for x in r[2]]), d)
  if k in ('RemoveRecord', 'BulkRemoveRecord'):
    rs = r[2] if k == 'BulkRemoveRecord' else [r[2]]
    t = '(gen_doc_BulkRemoveRecord %s (fun l => filter (fun x => zmem x %s) l) %s)' % (
        cols_term, core.zlist(sorted(present)), core.zlist([int(x) for x in rs]))
    present.difference_update(int(x) for x in rs)
    return t
  return None


def effect_case(doc, repr_, model, snap, events):
  """Coq term  effpair <generated> <observed>  for one user action, or None when the action is not a record action."""
  names = dict(snap['names'])
  cache = names
  names_of = lambda n: doc.model_of(n, cache)
  cols_term = coq_cols(snap['cols'])
  kind = repr_[0]
  if kind == 'BulkAddRecord':
    gen = '(gen_doBulkAddOrReplace %s false %s %s)' % (cols_term, core.zlist([r for r, _ in model[2]]),
                                                      coq_dict(model[1], model[2]))
  elif kind == 'BulkUpdateRecord':
    gen = '(gen_doBulkUpdateRecord %s (mkget %s) (fun l => l) (fun a => a) %s %s)' % (
        cols_term, coq_cells(snap['cells']), core.zlist([r for r, _ in model[2]]), coq_dict(model[1], model[2]))
  elif kind == 'BulkRemoveRecord':
    gen = doc_effect_term(cols_term, repr_, names_of, set(snap['cells']))
  elif kind == 'ApplyUndoActions':
    parts = []
    present = set(snap['cells'])
    for r in reversed(repr_[1]):
      if len(r) > 1 and r[1] == 'T':
        t = doc_effect_term(cols_term, r, names_of, present)
        if t is None:
          return None
        parts.append(t)
    gen = '(' + ' ++ '.join(parts + ['[]']) + ')'
  else:
    return None
  for ev in events:
    names_of(ev[1])
  return '(effpair %s %s)' % (gen, coq_effs(events, names))
