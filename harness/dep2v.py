"""
dep2v -- fail-closed translator (Python AST -> Gallina) for the code that decides C05's dependency tracking:
  relation.py   IdentityRelation / SingleRowsIdentityRelation / ComposedRelation .get_affected_rows,
                ComposedRelation.reset_rows, Relation.reset_all
  lookup.py     _LookupRelation.get_affected_rows, get_affected_rows_by_keys, _add_lookup
  depend.py     Graph.add_edge, clear_dependencies, reset_dependencies, invalidate_deps (the worklist, ALL_ROWS)
  engine.py     the edge-recording part of Engine._use_node
(ReferenceRelation.get_affected_rows is translated by harness/k4tr.py into coq/gen/K4_gen.v and reused.)
Output: coq/gen/Deps_gen.v over the definitions of Model/Deps.v, DepsExec.v and Lib/DepsGenPrelude.v;
Proofs/Deps_bridge.v proves every generated function equal to the hand model.

Statements are translated in continuation-passing style; a `for` loop becomes fold_left over the variables its body
changes; the object state a method mutates is threaded explicitly (E: the edge set, R: relation state, g: graph +
recompute map).  Method calls are translated through a closed table of idioms; anything else raises Untranslatable.
The glue that is not translated is pinned by the hash of its AST (docstrings removed): see PINS.
"""
import ast
import hashlib

from harness.py2v import Untranslatable


def fail(node, msg):
  raise Untranslatable('line %s: %s: %s' % (getattr(node, 'lineno', '?'), msg, ast.unparse(node)[:80] if node is not None else ''))


def dotted(e):
  if isinstance(e, ast.Name):
    return e.id
  if isinstance(e, ast.Attribute):
    d = dotted(e.value)
    return d + '.' + e.attr if d else None
  return None


def strip_doc(fn):
  body = fn.body
  if body and isinstance(body[0], ast.Expr) and isinstance(getattr(body[0], 'value', None), ast.Constant) \
     and isinstance(body[0].value.value, str):
    body = body[1:]
  return body


def find_func(tree, cls, name):
  for n in tree.body:
    if cls is None and isinstance(n, ast.FunctionDef) and n.name == name:
      return n
    if isinstance(n, ast.ClassDef) and n.name == cls:
      for m in n.body:
        if isinstance(m, ast.FunctionDef) and m.name == name:
          return m
  raise Untranslatable('%s.%s not found' % (cls, name))


def ast_hash(fn):
  """Hash of a function's AST without its docstring (comments never reach the AST)."""
  clone = ast.parse(ast.unparse(fn)).body[0]
  clone.body = strip_doc(clone) or [ast.Pass()]
  return hashlib.sha1(ast.dump(clone, include_attributes=False).encode()).hexdigest()[:16]


def is_all_rows(e):
  return dotted(e) in ('depend.ALL_ROWS', 'ALL_ROWS')


def params(fn):
  a = fn.args
  if a.vararg or a.kwarg or a.kwonlyargs or a.defaults and fn.name not in ('invalidate_deps', '_use_node'):
    fail(fn, 'unsupported signature')
  return [x.arg for x in a.args]


class Ex(object):
  """Expressions.  env: python name -> coq term.  fields: 'self.x' -> coq term."""
  def __init__(self, env, fields):
    self.env, self.fields = dict(env), dict(fields)

  def e(self, x):
    d = dotted(x)
    if is_all_rows(x):
      return 'AllRows'
    if isinstance(x, ast.Name):
      if x.id not in self.env:
        fail(x, 'unknown name')
      return self.env[x.id]
    if d in self.fields:
      return self.fields[d]
    if isinstance(x, ast.Constant) and x.value is True:
      return 'true'
    if isinstance(x, ast.Constant) and x.value is False:
      return 'false'
    if isinstance(x, ast.List) and not x.elts:
      return '(Rows [])' if self.env.get('__empty_list_is_rows__') else '[]'
    if isinstance(x, ast.Tuple):
      return '(%s)' % ', '.join(self.e(i) for i in x.elts)
    if isinstance(x, ast.IfExp):
      return '(if %s then %s else %s)' % (self.cond(x.test), self.e(x.body), self.e(x.orelse))
    if isinstance(x, ast.Attribute) and isinstance(x.value, ast.Name) and x.value.id in self.env and \
       self.env.get('__edge__') == x.value.id and x.attr in ('out_node', 'in_node', 'relation'):
      return '(%s %s)' % ({'out_node': 'e_out', 'in_node': 'e_in', 'relation': 'e_rel'}[x.attr], self.env[x.value.id])
    if isinstance(x, ast.Call):
      return self.call(x)
    fail(x, 'expression outside the subset')

  def cond(self, t):
    if isinstance(t, (ast.Name, ast.Attribute)):
      return self.e(t)
    if isinstance(t, ast.Compare) and len(t.ops) == 1:
      a, op, b = t.left, t.ops[0], t.comparators[0]
      if isinstance(op, ast.Eq) and is_all_rows(b):
        if isinstance(a, ast.Call) and dotted(a.func) == 'recompute_map.get' and len(a.args) == 1 and not a.keywords:
          return '(is_all (g_map g %s))' % self.e(a.args[0])
        return '(rowset_is_all %s)' % self.e(a)
      if isinstance(op, ast.IsNot) and isinstance(b, ast.Constant) and b.value is None and self.env.get('__keys_not_none__'):
        return 'true'            # `key is not None`: keys are total in the model (None = "not indexed" never occurs)
      if isinstance(op, ast.NotIn):
        return '(negb (edge_mem %s %s))' % (self.e(a), self.e(b))
    fail(t, 'condition outside the subset')

  def call(self, c):
    f = dotted(c.func)
    if c.keywords and f != 'self._row_key_map.lookup_right':
      fail(c, 'keyword arguments')
    # self.<relation field>.get_affected_rows(x) / reset_rows(x)
    if isinstance(c.func, ast.Attribute) and c.func.attr == 'get_affected_rows' and len(c.args) == 1:
      owner = dotted(c.func.value)
      if owner in self.fields:
        return '(%s_affected %s)' % (self.fields[owner], self.e(c.args[0]))
      if self.env.get('__edge__') and owner == self.env['__edge__'] + '.relation':
        return '(affected (g_rel g) (e_rel %s) %s)' % (self.env[self.env['__edge__']], self.e(c.args[0]))
    if f == 'self.get_affected_rows_by_keys' and len(c.args) == 1:
      return '(Rows (gen_affected_by_keys lookup_right %s))' % self.e(c.args[0])
    if f == 'self._row_key_map.lookup_right' and len(c.args) == 1 and [k.arg for k in c.keywords] == ['default'] \
       and isinstance(c.keywords[0].value, ast.Tuple) and not c.keywords[0].value.elts:
      return '(lookup_right %s)' % self.e(c.args[0])
    if f == 'Edge' and len(c.args) == 3:
      return '(%s)' % ', '.join(self.e(a) for a in c.args)
    # set().union(*[self._lookup_map._get_keys(r) for r in xs])
    if isinstance(c.func, ast.Attribute) and c.func.attr == 'union' and isinstance(c.func.value, ast.Call) and \
       dotted(c.func.value.func) == 'set' and not c.func.value.args and len(c.args) == 1 and \
       isinstance(c.args[0], ast.Starred) and isinstance(c.args[0].value, ast.ListComp):
      lc = c.args[0].value
      g = lc.generators[0]
      if len(lc.generators) == 1 and not g.ifs and isinstance(g.target, ast.Name) and isinstance(lc.elt, ast.Call) and \
         dotted(lc.elt.func) == 'self._lookup_map._get_keys' and len(lc.elt.args) == 1 and \
         isinstance(lc.elt.args[0], ast.Name) and lc.elt.args[0].id == g.target.id:
        return '(flat_map get_keys (rowset_list %s))' % self.e(g.iter)
    fail(c, 'call outside the idiom table')
