"""Python values <-> the Coq value type of coq/theories/Lib/PyVal.v (shared by the C41 and C39 checks)."""
from harness import core


class Unencodable(Exception):
  pass


TOKENS = {}


def enc(v):
  """Python value -> Coq term of type PyVal.val.  Half-integer floats are numbers (twice their value); objects
  outside the modelled types become opaque tokens identified by type name and repr."""
  if v is None:
    return 'VNone'
  if isinstance(v, bool):
    return '(VBool %s)' % core.boollit(v)
  if isinstance(v, int):
    return '(VInt %s)' % core.zlit(v)
  if isinstance(v, float):
    if v != v:
      raise Unencodable('NaN')
    if abs(v) < 2 ** 40 and v * 2 == int(v * 2):
      return '(VFloat %s)' % core.zlit(int(v * 2))
  if isinstance(v, str):
    return '(VStr %s)' % core.strlit(v)
  if type(v) is list:
    return '(VList %s)' % core.coq_list([enc(x) for x in v])
  if type(v) is tuple:
    return '(VTuple %s)' % core.coq_list([enc(x) for x in v])
  try:
    hash(v)
    h = True
  except TypeError:
    h = False
  key = (type(v).__name__, repr(v))
  tok = TOKENS.setdefault(key, len(TOKENS))
  return '(VOpaque %s %s)' % (core.boollit(h), core.zlit(tok))


def enc_list(vs):
  return core.coq_list([enc(v) for v in vs])


def strict_eq(a, b):
  """same object, or same type and equal (recursively for lists/tuples): distinguishes 1, 1.0 and True"""
  if a is b:
    return True
  if type(a) is not type(b):
    return False
  if isinstance(a, (list, tuple)):
    return len(a) == len(b) and all(strict_eq(x, y) for x, y in zip(a, b))
  if isinstance(a, dict):
    return list(a.keys()) == list(b.keys()) and all(strict_eq(a[k], b[k]) for k in a)
  return a == b


def to_json(v):
  """JSON form of a Python value that keeps list/tuple/dict apart (for replay files)."""
  if isinstance(v, list):
    return {'list': [to_json(x) for x in v]}
  if isinstance(v, tuple):
    return {'tuple': [to_json(x) for x in v]}
  if isinstance(v, dict):
    return {'dict': [[k, to_json(x)] for k, x in v.items()]}
  return v


def from_json(j):
  if isinstance(j, dict):
    if 'list' in j:
      return [from_json(x) for x in j['list']]
    if 'tuple' in j:
      return tuple(from_json(x) for x in j['tuple'])
    return {k: from_json(x) for k, x in j['dict']}
  return j
