"""Differential validation of harness/relabel2v.py (C20): calls of the translated functions are recorded in the running
implementation (arguments, the work list before the call, result / work list after the call / exception site) and the
GENERATED definitions are evaluated on the same inputs by vm_compute (gen_case_ok in coq/gen/Relabel_gen.v)."""
import struct

from harness import relabel2v

METHODS = ['_adj_bisect_key_left', '_adj_get_key', 'count_range', '_adjust_range', '_adjust_all',
           '_find_sparse_enough_range', 'prep_inserts_at_index']
MUTATORS = ('_adjust_range', '_adjust_all', 'prep_inserts_at_index')


def bits(x):
  return struct.unpack('<Q', struct.pack('<d', float(x)))[0]


def hz(n):
  return '0x%x%%Z' % n if n >= 0 else '(-0x%x)%%Z' % -n


def zlist(ns):
  return '[%s]' % '; '.join(hz(n) for n in ns) if ns else '(@nil Z)'


def plist(ps):
  return '[%s]' % '; '.join('(%s, %s)' % (hz(a), hz(b)) for a, b in ps) if ps else '(@nil (Z * Z))'


class Recorder(object):
  """with Recorder(classify, cap) as rec: ... run relabeling.prepare_inserts ...; rec.records: {function: [record]}"""

  def __init__(self, classify, cap, per_case=5):
    self.classify, self.cap, self.per_case = classify, cap, per_case
    self.in_case = {}
    self.records = dict((m, []) for m in METHODS + ['get_range', 'range_around_float'])
    self.seen = set()
    self.skipped = 0

  def state(self, w):
    return ([w._key(v) for v in w._orig_list], [(int(i), k) for i, k in w._adjustments], list(w._insertions))

  def add(self, name, rec):
    key = repr((name, rec))
    if key in self.seen or len(self.records[name]) >= self.cap or self.in_case.get(name, 0) >= self.per_case:
      return
    self.seen.add(key)
    self.in_case[name] = self.in_case.get(name, 0) + 1
    self.records[name].append(rec)

  def next_case(self):
    self.in_case = {}

  def wrap_method(self, name, f):
    rec = self

    def wrapper(w, *args):
      if len(rec.records[name]) >= rec.cap or rec.in_case.get(name, 0) >= rec.per_case:
        return f(w, *args)
      before = rec.state(w)
      try:
        out = f(w, *args)
      except Exception as e:      # pylint: disable=broad-except
        code = rec.classify(e)[0]
        if name in MUTATORS or name == '_find_sparse_enough_range':
          rec.add(name, (before, args, ('exc', code)))
        else:
          rec.skipped += 1
        raise
      if name in MUTATORS:
        _o, a, i = rec.state(w)
        rec.add(name, (before, args, ('state', a, i)))
      else:
        rec.add(name, (before, args, ('value', out)))
      return out
    wrapper.__name__ = f.__name__
    return wrapper

  def __enter__(self):
    import relabeling
    self.mod = relabeling
    self.saved = dict((m, getattr(relabeling.ListWithAdjustments, m)) for m in METHODS)
    self.saved_get_range = relabeling.get_range
    for m in METHODS:
      setattr(relabeling.ListWithAdjustments, m, self.wrap_method(m, self.saved[m]))
    rec = self

    def get_range(start, end, count):
      out = rec.saved_get_range(start, end, count)
      rec.add('get_range', (([], [], []), (start, end, count), ('value', out)))
      return out
    relabeling.get_range = get_range
    self.saved_raf = relabeling.range_around_float

    def range_around_float(x, i):
      try:
        out = rec.saved_raf(x, i)
      except Exception as e:      # pylint: disable=broad-except
        rec.add('range_around_float', (([], [], []), (x, i), ('exc', rec.classify(e)[0])))
        raise
      rec.add('range_around_float', (([], [], []), (x, i), ('value', out)))
      return out
    relabeling.range_around_float = range_around_float
    return self

  def __exit__(self, *exc):
    for m in METHODS:
      setattr(self.mod.ListWithAdjustments, m, self.saved[m])
    self.mod.get_range = self.saved_get_range
    self.mod.range_around_float = self.saved_raf
    return False


def clean(values):
  return all(isinstance(v, (int, float)) and v == v for v in values)


def coq_case(name, rec):
  """-> Gallina text ((f, orig, adjs, inss, zs, fs), (code, adjs, inss, values)) or None when outside the model's domain"""
  (orig, adjs, inss), args, out = rec
  floats = list(orig) + [k for _i, k in adjs] + list(inss)
  if not clean(floats) or not clean(args):
    return None
  f = relabel2v.FUNC_NUMBER[name]
  target = [t for t in relabel2v.TARGETS if t[1] == name][0]
  zs = [int(a) for a, t in zip(args, target[3]) if t == 'Z']
  fs = [bits(a) for a, t in zip(args, target[3]) if t == 'F']
  if out[0] == 'exc':
    exp = (out[1], [], [], [])
  elif out[0] == 'state':
    exp = (0, [(i, bits(k)) for i, k in out[1]], [bits(x) for x in out[2]], [])
  else:
    v = out[1]
    if target[5] == 'Z':
      vals = [int(v)]
    elif target[5] == 'F':
      vals = [bits(v)]
    else:
      vals = [bits(x) for x in v]
    if not clean(list(v) if isinstance(v, (list, tuple)) else [v]):
      return None
    exp = (0, [], [], vals)
  inp = '(%s, %s, %s, %s, %s, %s)' % (hz(f), zlist([bits(x) for x in orig]), plist([(i, bits(k)) for i, k in adjs]),
                                      zlist([bits(x) for x in inss]), zlist(zs), zlist(fs))
  return '(%s, (%s, %s, %s, %s))' % (inp, hz(exp[0]), plist(exp[1]), zlist(exp[2]), zlist(exp[3]))


def driver_case(orig, keys, r):
  """the driver prepare_inserts itself, from a case of the main stream: r = ('ok', adj, ins) | ('exc', code, ..)"""
  if not clean(list(orig) + list(keys)):
    return None
  if r[0] == 'ok':
    exp = (0, [(i, bits(k)) for i, k in r[1]], [], [bits(x) for x in r[2]])
  else:
    exp = (r[1], [], [], [])
  inp = '(%s, %s, %s, %s, %s, %s)' % (hz(8), zlist([bits(x) for x in orig]), plist([]), zlist([]), zlist([]),
                                      zlist([bits(x) for x in keys]))
  return '(%s, (%s, %s, %s, %s))' % (inp, hz(exp[0]), plist(exp[1]), zlist(exp[2]), zlist(exp[3]))
