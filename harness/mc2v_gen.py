"""
mc2v_gen -- regenerates coq/gen/MetaCascade_gen.v from the source on every run (fail closed):

  gen_auto_mode          the statement kind of the end-of-bundle loop in Engine.apply_user_actions
                         (`while self.docmodel.apply_auto_removes(): self._bring_all_up_to_date()`)
  gen_goa                SummaryActions._get_or_add_columns as a Gallina function (which requested columns are
                         reused, which are added, and what the generator yields for each)
  gen_plan_<function>    the statement plan of the removal cascades and of the raw-section guards: per statement
                         the calls made (through doBulkRemoveRecord, a plain doc action, docmodel.remove/update),
                         the metadata tables named, the record attributes read, the nesting (if/for), raise/continue.
                         Local variable names, comments and docstrings do not enter.

The bridging lemmas are in coq/theories/Proofs/MetaCascade_bridge.v.
"""
import ast

from harness import core
from harness import mc2v

PLAN_FUNCS = [
  ('useractions.py', 'UserActions._removeTableRecords'), ('useractions.py', 'UserActions.doRemoveColumns'),
  ('useractions.py', 'UserActions._removeColumnRecords'), ('useractions.py', 'UserActions._removeViewRecords'),
  ('useractions.py', 'UserActions._removeViewSectionRecords'),
  ('useractions.py', 'UserActions._doRemoveViewSectionRecords'),
  ('useractions.py', 'UserActions._removeViewSectionFieldRecords'),
  ('useractions.py', 'UserActions.doBulkRemoveRecord'),
  ('useractions.py', 'UserActions.UpdateSummaryViewSection'), ('useractions.py', 'UserActions.DetachSummaryViewSection'),
  ('docmodel.py', 'DocModel.apply_auto_removes'),
]


def fail(msg):
  raise core.TieBroken('mc2v_gen: ' + msg)


# ---------------------------------------------------------------------------------------------
# statement plans

def dotted(e):
  if isinstance(e, ast.Name):
    return e.id if e.id in ('self', 'actions', 'summary', 'json', 'sort_specs', 'column', 'sorted', 'set', 'int',
                            'isinstance', 'all', 'any', 'list', 'len', 'ValueError', 'itertools') else '_'
  if isinstance(e, ast.Attribute):
    return dotted(e.value) + '.' + e.attr
  if isinstance(e, ast.Call):
    return dotted(e.func) + '()'
  return '_'


def attrs_of(node):
  """Attribute names read and string constants used in an expression (sorted, without duplicates)."""
  out = set()
  for n in ast.walk(node):
    if isinstance(n, ast.Attribute):
      out.add(n.attr)
    elif isinstance(n, ast.Constant) and isinstance(n.value, str):
      out.add("'" + n.value.replace('"', '').replace("'", '')[:40] + "'")
    elif isinstance(n, ast.keyword) and n.arg:
      out.add(n.arg + '=')
    elif isinstance(n, (ast.Not,)):
      out.add('not')
    elif isinstance(n, ast.Compare):
      out.update(type(o).__name__ for o in n.ops)
    elif isinstance(n, ast.BoolOp):
      out.add(type(n.op).__name__)
  return ','.join(sorted(out))


def call_token(c):
  inner = ''
  if c.args and isinstance(c.args[0], ast.Call) and dotted(c.args[0].func).startswith('actions.'):
    inner = ' ' + dotted(c.args[0].func)
  kws = ''.join(' %s=' % k.arg for k in c.keywords if k.arg)
  return 'call %s%s%s [%s]' % (dotted(c.func), inner, kws,
                               attrs_of(ast.Tuple(elts=list(c.args) + [k.value for k in c.keywords], ctx=ast.Load())))


def plan_of(stmts, out, depth=0):
  ind = '. ' * depth
  for s in stmts:
    if isinstance(s, ast.Expr) and isinstance(s.value, ast.Constant) and isinstance(s.value.value, str):
      continue                                            # docstring
    if isinstance(s, ast.Expr) and isinstance(s.value, ast.Call):
      out.append(ind + call_token(s.value))
    elif isinstance(s, ast.Expr) and isinstance(s.value, ast.Yield):
      out.append(ind + 'yield [%s]' % attrs_of(s.value))
    elif isinstance(s, (ast.Assign, ast.AugAssign)):
      val = s.value
      head = 'let'
      if isinstance(val, ast.Call):
        head = 'let ' + dotted(val.func)
      out.append(ind + '%s [%s]' % (head, attrs_of(val)))
    elif isinstance(s, ast.If):
      out.append(ind + 'if [%s]' % attrs_of(s.test))
      plan_of(s.body, out, depth + 1)
      if s.orelse:
        out.append(ind + 'else')
        plan_of(s.orelse, out, depth + 1)
    elif isinstance(s, ast.For):
      out.append(ind + 'for [%s]' % attrs_of(s.iter))
      plan_of(s.body, out, depth + 1)
    elif isinstance(s, ast.While):
      out.append(ind + 'while [%s]' % attrs_of(s.test))
      plan_of(s.body, out, depth + 1)
    elif isinstance(s, ast.With):
      out.append(ind + 'with [%s]' % ';'.join(attrs_of(i.context_expr) for i in s.items))
      plan_of(s.body, out, depth + 1)
    elif isinstance(s, ast.Raise):
      out.append(ind + 'raise [%s]' % attrs_of(s.exc) if s.exc is not None else ind + 'raise')
    elif isinstance(s, ast.Return):
      out.append(ind + 'return [%s]' % (attrs_of(s.value) if s.value is not None else ''))
    elif isinstance(s, ast.Continue):
      out.append(ind + 'continue')
    elif isinstance(s, ast.Assert):
      out.append(ind + 'assert [%s]' % attrs_of(s.test))
    elif isinstance(s, ast.Pass):
      out.append(ind + 'pass')
    else:
      fail('statement kind %s is outside the plan subset' % type(s).__name__)
  return out


def coq_string(s):
  if '"' in s:
    fail('double quote in a plan token: %r' % s)
  return '"%s"' % s


def plans(grist_dir):
  trees = {}
  out = []
  for fname, qual in PLAN_FUNCS:
    tree = trees.setdefault(fname, mc2v.parse(grist_dir, fname))
    node = mc2v.find_def(tree, qual)
    if node is None:
      fail('%s:%s is gone' % (fname, qual))
    toks = plan_of(node.body, [])
    name = 'gen_plan_' + qual.split('.')[-1].strip('_')
    out.append((name, toks))
  return out


# ---------------------------------------------------------------------------------------------
# the end-of-bundle loop

def auto_mode(grist_dir):
  node = mc2v.find_def(mc2v.parse(grist_dir, 'engine.py'), 'Engine.apply_user_actions')
  if node is None:
    fail('Engine.apply_user_actions is gone')
  found = []
  for n in ast.walk(node):
    if isinstance(n, (ast.While, ast.If)) and dotted(n.test) == 'self.docmodel.apply_auto_removes()':
      found.append(n)
  if len(found) != 1:
    fail('%d statements test docmodel.apply_auto_removes() in apply_user_actions (expected one loop)' % len(found))
  n = found[0]
  body = [dotted(s.value) if isinstance(s, ast.Expr) else '?' for s in n.body]
  if body != ['self._bring_all_up_to_date()'] or n.orelse:
    fail('body of the auto-removal loop is %r' % (body,))
  return 'LoopWhile' if isinstance(n, ast.While) else 'LoopOnce'


# ---------------------------------------------------------------------------------------------
# SummaryActions._get_or_add_columns -> Gallina

class Goa(object):
  """Translates the loop body: a list of items per requested column (effects EAdd, yields YExisting id / YAdded)."""
  def __init__(self, ci, prior):
    self.ci, self.prior = ci, prior

  def cond(self, e, env):
    if isinstance(e, ast.BoolOp):
      op = ' && ' if isinstance(e.op, ast.And) else ' || '
      return '(' + op.join(self.cond(v, env) for v in e.values) + ')'
    if isinstance(e, ast.UnaryOp) and isinstance(e.op, ast.Not):
      return '(negb %s)' % self.cond(e.operand, env)
    if isinstance(e, ast.Name) and env.get(e.id) == 'prior':
      return '(col_truthy v_%s)' % e.id
    if isinstance(e, ast.Compare) and len(e.ops) == 1 and isinstance(e.ops[0], (ast.Eq, ast.NotEq)):
      l, r = e.left, e.comparators[0]
      if isinstance(l, ast.Attribute) and l.attr == 'formula' and isinstance(l.value, ast.Name) and \
         env.get(l.value.id) == 'prior' and isinstance(r, ast.Attribute) and r.attr == 'formula' and \
         isinstance(r.value, ast.Name) and r.value.id == self.ci:
        c = '(col_formula v_%s =? ci_formula ci)' % l.value.id
        return c if isinstance(e.ops[0], ast.Eq) else '(negb %s)' % c
    fail('_get_or_add_columns: condition %s is outside the subset' % ast.unparse(e))

  def is_get_record_of_result(self, e, env):
    return isinstance(e, ast.Call) and dotted(e.func).endswith('.get_record') and len(e.args) == 1 and \
      isinstance(e.args[0], ast.Subscript) and isinstance(e.args[0].value, ast.Name) and \
      env.get(e.args[0].value.id) == 'result' and isinstance(e.args[0].slice, ast.Constant) and \
      e.args[0].slice.value == 'colRef'

  def block(self, stmts, env):
    if not stmts:
      return '[]'
    s, rest = stmts[0], stmts[1:]
    env = dict(env)
    if isinstance(s, ast.Assign) and len(s.targets) == 1 and isinstance(s.targets[0], ast.Name):
      name, v = s.targets[0].id, s.value
      if isinstance(v, ast.Call) and isinstance(v.func, ast.Attribute) and v.func.attr == 'get' and \
         isinstance(v.func.value, ast.Name) and v.func.value.id == self.prior and len(v.args) == 1 and \
         isinstance(v.args[0], ast.Attribute) and v.args[0].attr == 'colId' and \
         isinstance(v.args[0].value, ast.Name) and v.args[0].value.id == self.ci:
        env[name] = 'prior'
        return '(let v_%s := goa_lookup (ci_name ci) prior in %s)' % (name, self.block(rest, env))
      if isinstance(v, ast.Call) and dotted(v.func) == 'self.useractions.doAddColumn':
        env[name] = 'result'
        return '(EAdd :: %s)' % self.block(rest, env)
      if self.is_get_record_of_result(v, env):
        env[name] = 'added'
        return self.block(rest, env)
      fail('_get_or_add_columns: assignment %s is outside the subset' % ast.unparse(s))
    if isinstance(s, ast.Expr) and isinstance(s.value, ast.Yield):
      v = s.value.value
      if isinstance(v, ast.Name) and env.get(v.id) == 'prior':
        return '(YExisting (col_id v_%s) :: %s)' % (v.id, self.block(rest, env))
      if (isinstance(v, ast.Name) and env.get(v.id) == 'added') or self.is_get_record_of_result(v, env):
        return '(YAdded :: %s)' % self.block(rest, env)
      fail('_get_or_add_columns: yield %s is outside the subset' % ast.unparse(s))
    if isinstance(s, ast.If):
      return '((if %s then %s else %s) ++ %s)' % (self.cond(s.test, env), self.block(s.body, env),
                                                  self.block(s.orelse, env), self.block(rest, env))
    fail('_get_or_add_columns: statement %s is outside the subset' % ast.unparse(s)[:80])


def goa(grist_dir):
  node = mc2v.find_def(mc2v.parse(grist_dir, 'summary.py'), 'SummaryActions._get_or_add_columns')
  if node is None:
    fail('SummaryActions._get_or_add_columns is gone')
  body = [s for s in node.body
          if not (isinstance(s, ast.Expr) and isinstance(s.value, ast.Constant) and isinstance(s.value.value, str))]
  args = [a.arg for a in node.args.args]
  if len(args) != 3 or len(body) != 2:
    fail('_get_or_add_columns has another shape (%d parameters, %d statements)' % (len(args), len(body)))
  a0, loop = body
  # prior = {c.colId: c for c in table.columns}
  ok = isinstance(a0, ast.Assign) and isinstance(a0.value, ast.DictComp) and len(a0.value.generators) == 1 and \
    ast.unparse(a0.value.generators[0].iter) == args[1] + '.columns' and not a0.value.generators[0].ifs and \
    isinstance(a0.value.key, ast.Attribute) and a0.value.key.attr == 'colId' and isinstance(a0.value.value, ast.Name)
  if not ok:
    fail('_get_or_add_columns: first statement is not the colId -> column dictionary of table.columns')
  prior = a0.targets[0].id
  if not (isinstance(loop, ast.For) and isinstance(loop.target, ast.Name) and isinstance(loop.iter, ast.Name) and
          loop.iter.id == args[2] and not loop.orelse):
    fail('_get_or_add_columns: second statement is not the loop over the requested columns')
  expr = Goa(loop.target.id, prior).block(loop.body, {})
  return ('Fixpoint gen_goa (prior : list (Z * (Z * Z))) (infos : list (Z * Z)) : list goa_item :=\n'
          '  match infos with\n  | [] => []\n  | ci :: rest =>\n    %s ++ gen_goa prior rest\n  end.\n' % expr)


def generate(grist_dir):
  out = ['(* GENERATED by harness/mc2v_gen.py from sandbox/grist/{engine,summary,useractions,docmodel}.py -- do not edit *)',
         'From Coq Require Import ZArith List Bool String.', 'Import ListNotations.',
         'Require Import Grist.Model.MetaCascade Grist.Model.MetaCascadePlan.', 'Open Scope Z_scope.', '',
         'Definition gen_auto_mode : loop_mode := %s.' % auto_mode(grist_dir),
         'Definition gen_auto_fix (fuel : nat) (m : meta) : res meta := auto_loop gen_auto_mode fuel m.', '',
         goa(grist_dir)]
  for name, toks in plans(grist_dir):
    out.append('Definition %s : list string := [\n  %s\n]%%string.\n' % (name, ';\n  '.join(coq_string(t) for t in toks)))
  return '\n'.join(out) + '\n'
