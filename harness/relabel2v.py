"""relabel2v -- fail-closed translator for the deciding code of sandbox/grist/relabeling.py (property C20).

Python subset -> Gallina over the vocabulary of Lib/Fl64.v (exact binary64 as integers) and Model/Relabel.v (sorted
containers as lists, the work list `w : wl`, the exception monad `res`).  Each function is translated on its own: calls
to other functions of the module become calls to the MODEL functions, so the bridging lemmas gen_f = model_f are pointwise.
Anything outside the subset raises Untranslatable (the check turns it into core.TieBroken).

Types: 'Z' Python int, 'F' float, 'B' bool, 'LF' list of floats, 'PFF' pair of floats, 'RW' a call that mutates the work
list (returns res wl), 'RP' res (fl * fl).
"""
import ast
import struct


class Untranslatable(Exception):
  pass


def bits(x):
  return struct.unpack('<Q', struct.pack('<d', x))[0]


def fconst(x):
  if x == 0.0 and bits(x) == 0:
    return 'fzero'
  if x == int(x) and abs(x) < 2 ** 53:
    return '(of_Z %s)' % zconst(int(x))
  return '(decode %d)' % bits(x)


def zconst(n):
  return '(%d)' % n if n < 0 else '%d' % n


# Python identifiers that are Coq keywords or names of the vocabulary get a trailing underscore
RENAME = set('end at in as fun match with if then else let fix return for where struct using forall exists Type Set Prop '
             'orig w r fst snd map repeat'.split())


def cname(name):
  return name + '_' if name in RENAME or name in VOCAB else name


def dotted(node):
  if isinstance(node, ast.Name):
    return node.id
  if isinstance(node, ast.Attribute):
    return dotted(node.value) + '.' + node.attr
  raise Untranslatable('not a dotted name: %s' % ast.dump(node)[:80])


# calls: dotted name -> (Gallina head, argument types, result type); '%w' is the current work list
CALLS = {
  'get_range': ('get_range', ['F', 'F', 'Z'], 'LF'),
  'is_valid_range': ('is_valid_range', ['F', 'LF', 'F'], 'B'),
  'prevfloat': ('prevfloat', ['F'], 'F'),
  'range_around_float': ('range_around_float', ['F', 'Z'], 'RP'),
  'min': ('fmin', ['F', 'F'], 'F'),
  'max': ('fmax', ['F', 'F'], 'F'),
  'math.isinf': ('is_inf', ['F'], 'B'),
  'self.count_range': ('count_range orig %w', ['F', 'F'], 'Z'),
  'self._adj_get_key': ('adj_get_key orig %w', ['Z'], 'F'),
  'self._adj_bisect_key_left': ('adj_bisect_key_left orig %w', ['F'], 'Z'),
  'self._find_sparse_enough_range': ('find_sparse_enough_range orig %w', ['F', 'F'], 'RP'),
  'self._adjust_range': ('adjust_range orig %w', ['F', 'F'], 'RW'),
  'self._adjust_all': ('adjust_all orig %w', [], 'RW'),
  'self._do_adjust_range': ('do_adjust_range orig %w', ['Z', 'Z', 'Z', 'Z', 'F', 'F'], 'RW'),
  'self._adjustments.bisect_key_left': ('bkl (map snd (adjs %w))', ['F'], 'Z'),
  'self._orig_list.bisect_key_left': ('bkl orig', ['F'], 'Z'),
  'self._insertions.bisect_left': ('bkl (inss %w)', ['F'], 'Z'),
  'self._insertions.irange': ('sl_irange (inss %w)', ['F', 'F'], 'LF'),
  'nextfloat': ('nextfloat', ['F'], 'F'),
  'math.frexp': ('ffrexp', ['F'], 'PFZ'),
  'math.floor': ('ffloor', ['F'], 'Z'),
  'math.ldexp': ('fldexp', ['F', 'Z'], 'RF'),        # may raise OverflowError: bound at statement level (hoisted)
}
VOCAB = set(v[0].split()[0] for v in CALLS.values()) | set('adjs inss mkwl sl_update bsearch nthZ lenZ zrange'.split())
LENS = {'self._orig_list': 'lenZ orig', 'self._adjustments': 'lenZ (adjs %w)', 'self._insertions': 'lenZ (inss %w)'}


class Expr(object):
  """Expression translator; env maps local names to types, w is the name of the current work list."""

  def __init__(self, env, w='w', hoist=None):
    self.env = env
    self.w = w
    self.hoist = hoist          # fresh-name generator of the enclosing statement, or None: no calls that may raise
    self.binds = []             # [(name, text)]: calls that may raise, in evaluation order, bound before the statement

  def sub(self, s):
    if '%w' in s and self.w is None:
      raise Untranslatable('use of self outside a method')
    return s.replace('%w', self.w or '')

  def as_float(self, s, t):
    if t == 'F':
      return s
    if t == 'Z':
      return '(of_Z %s)' % s
    raise Untranslatable('expected a number, got %s' % t)

  def typed(self, node, want):
    s, t = self.ex(node)
    if want == 'F':
      return self.as_float(s, t)
    if t != want:
      raise Untranslatable('expected %s, got %s in %s' % (want, t, ast.dump(node)[:80]))
    return s

  def ex(self, n):
    if isinstance(n, ast.Constant):
      if isinstance(n.value, bool):
        return ('true' if n.value else 'false'), 'B'
      if isinstance(n.value, int):
        return zconst(n.value), 'Z'
      if isinstance(n.value, float):
        return fconst(n.value), 'F'
      raise Untranslatable('constant %r' % (n.value,))
    if isinstance(n, ast.UnaryOp) and isinstance(n.op, ast.USub) and isinstance(n.operand, ast.Constant) \
       and isinstance(n.operand.value, int):
      return zconst(-n.operand.value), 'Z'
    if isinstance(n, ast.UnaryOp) and isinstance(n.op, ast.Not):
      return '(negb %s)' % self.typed(n.operand, 'B'), 'B'
    if isinstance(n, ast.Name):
      if n.id not in self.env:
        raise Untranslatable('unknown name %s' % n.id)
      return cname(n.id), self.env[n.id]
    if isinstance(n, ast.BinOp):
      return self.binop(n)
    if isinstance(n, ast.BoolOp):
      op = '&&' if isinstance(n.op, ast.And) else '||'
      parts = [self.typed(v, 'B') for v in n.values]
      s = parts[0]
      for p in parts[1:]:
        s = '(%s %s %s)' % (s, op, p)
      return s, 'B'
    if isinstance(n, ast.Compare):
      return self.compare(n)
    if isinstance(n, ast.IfExp):
      c = self.typed(n.test, 'B')
      (a, ta), (b, tb) = self.ex(n.body), self.ex(n.orelse)
      if ta != tb:
        if {ta, tb} == {'Z', 'F'}:
          a, b, ta = self.as_float(a, ta), self.as_float(b, tb), 'F'
        else:
          raise Untranslatable('branches of different types')
      return '(if %s then %s else %s)' % (c, a, b), ta
    if isinstance(n, ast.Tuple) and len(n.elts) == 2:
      (a, ta), (b, tb) = self.ex(n.elts[0]), self.ex(n.elts[1])
      return '(%s, %s)' % (a, b), 'P' + ta + tb
    if isinstance(n, ast.Call):
      return self.call(n)
    if isinstance(n, ast.Subscript):
      return self.subscript(n)
    if isinstance(n, ast.ListComp):
      return self.listcomp(n)
    raise Untranslatable('expression %s' % ast.dump(n)[:100])

  def binop(self, n):
    # [x] * count
    if isinstance(n.op, ast.Mult) and isinstance(n.left, ast.List) and len(n.left.elts) == 1:
      x = self.typed(n.left.elts[0], 'F')
      c = self.typed(n.right, 'Z')
      return '(repeat %s (Z.to_nat %s))' % (x, c), 'LF'
    (a, ta), (b, tb) = self.ex(n.left), self.ex(n.right)
    ops = {ast.Add: ('+', 'fadd'), ast.Sub: ('-', 'fsub'), ast.Mult: ('*', 'fmul'), ast.Div: (None, 'fdiv')}
    if type(n.op) not in ops:
      raise Untranslatable('operator %s' % type(n.op).__name__)
    zop, fop = ops[type(n.op)]
    if ta == 'Z' and tb == 'Z' and zop:
      return '(%s %s %s)' % (a, zop, b), 'Z'
    if ta in 'ZF' and tb in 'ZF':
      return '(%s %s %s)' % (fop, self.as_float(a, ta), self.as_float(b, tb)), 'F'
    raise Untranslatable('arithmetic on %s, %s' % (ta, tb))

  def compare(self, n):
    if len(n.ops) != 1:
      raise Untranslatable('chained comparison')
    (a, ta), (b, tb) = self.ex(n.left), self.ex(n.comparators[0])
    op = type(n.ops[0])
    if ta == 'Z' and tb == 'Z':
      m = {ast.Lt: '(%s <? %s)' % (a, b), ast.LtE: '(%s <=? %s)' % (a, b), ast.Gt: '(%s <? %s)' % (b, a),
           ast.GtE: '(%s <=? %s)' % (b, a), ast.Eq: '(%s =? %s)' % (a, b)}
    elif ta in 'ZF' and tb in 'ZF':
      a, b = self.as_float(a, ta), self.as_float(b, tb)
      m = {ast.Lt: '(flt %s %s)' % (a, b), ast.LtE: '(fle %s %s)' % (a, b), ast.Gt: '(flt %s %s)' % (b, a),
           ast.GtE: '(fle %s %s)' % (b, a), ast.Eq: '(feq %s %s)' % (a, b)}
    else:
      raise Untranslatable('comparison of %s, %s' % (ta, tb))
    if op not in m:
      raise Untranslatable('comparison operator %s' % op.__name__)
    return m[op], 'B'

  def call(self, n):
    if n.keywords:
      raise Untranslatable('keyword arguments')
    name = dotted(n.func)
    if name == 'float' and len(n.args) == 1:
      if isinstance(n.args[0], ast.Constant) and n.args[0].value == '-inf':
        return 'fneginf', 'F'
      s, t = self.ex(n.args[0])
      return self.as_float(s, t), 'F'
    if name == 'len' and len(n.args) == 1:
      d = dotted(n.args[0])
      if d not in LENS:
        raise Untranslatable('len(%s)' % d)
      return '(%s)' % self.sub(LENS[d]), 'Z'
    if name == 'self._key' and len(n.args) == 1:          # self._key(self._orig_list[index])
      a = n.args[0]
      if isinstance(a, ast.Subscript) and dotted(a.value) == 'self._orig_list':
        return '(nthZ orig %s FNaN)' % self.typed(a.slice, 'Z'), 'F'
      raise Untranslatable('self._key of something else')
    if name == 'bisect.bisect_left' and len(n.args) == 2 and dotted(n.args[0]) == 'self._adjustments':
      # bisect_left over (index, key) tuples with the probe (index, -inf): "a[mid] < probe" is "a[mid][0] < index"
      t = n.args[1]
      if isinstance(t, ast.Tuple) and len(t.elts) == 2 and self.ex(t.elts[1]) == ('fneginf', 'F'):
        idx = self.typed(t.elts[0], 'Z')
        a = self.sub('(adjs %w)')
        return ('(bsearch (S (length %s)) (fun mid => fst (nthZ %s mid (0, FNaN)) <? %s) 0 (lenZ %s))'
                % (a, a, idx, a)), 'Z'
      raise Untranslatable('bisect_left probe')
    if name not in CALLS:
      raise Untranslatable('call of %s' % name)
    head, argt, rt = CALLS[name]
    if len(argt) != len(n.args):
      raise Untranslatable('arity of %s' % name)
    args = [self.typed(a, t) for a, t in zip(n.args, argt)]
    text = '(%s)' % ' '.join([self.sub(head)] + args)
    if rt == 'RF':
      if self.hoist is None:
        raise Untranslatable('call of %s (may raise) in a place where it cannot be bound' % name)
      t = self.hoist('t')
      self.binds.append((t, text))
      return t, 'F'
    return text, rt

  def subscript(self, n):
    # self._adjustments[i][0] / [1]
    if isinstance(n.value, ast.Subscript) and dotted(n.value.value) == 'self._adjustments' \
       and isinstance(n.slice, ast.Constant) and n.slice.value in (0, 1):
      i = self.typed(n.value.slice, 'Z')
      proj, ty = (('fst', 'Z'), ('snd', 'F'))[n.slice.value]
      return '(%s (nthZ %s %s (0, FNaN)))' % (proj, self.sub('(adjs %w)'), i), ty
    raise Untranslatable('subscript %s' % ast.dump(n)[:80])

  def listcomp(self, n):
    # [E for k in range(a, b)]
    if len(n.generators) != 1:
      raise Untranslatable('comprehension with several generators')
    g = n.generators[0]
    if g.ifs or not isinstance(g.target, ast.Name) or not isinstance(g.iter, ast.Call) or dotted(g.iter.func) != 'range' \
       or len(g.iter.args) != 2:
      raise Untranslatable('comprehension shape')
    lo, hi = self.typed(g.iter.args[0], 'Z'), self.typed(g.iter.args[1], 'Z')
    inner = Expr(dict(self.env, **{g.target.id: 'Z'}), self.w)       # no hoisting out of a comprehension
    body = inner.typed(n.elt, 'F')
    return '(map (fun %s => %s) (zrange %s %s))' % (cname(g.target.id), body, lo, hi), 'LF'


# ---- statements ---------------------------------------------------------------------------------------------------------
COQTYPE = {'Z': 'Z', 'F': 'fl', 'B': 'bool', 'LF': 'list fl', 'PFF': '(fl * fl)', 'PFZ': '(fl * Z)'}
RAISES = {'ValueError': 4}


def names_in(node):
  return set(n.id for n in ast.walk(node) if isinstance(n, ast.Name))


def is_doc(st):
  return isinstance(st, ast.Expr) and isinstance(st.value, ast.Constant) and isinstance(st.value.value, str)


class Func(object):
  """One function body.  mode 'pure': returns a value of type ret; 'mut': mutates the work list, returns res wl;
  'res': returns res ret.  codes: the error codes of the assert statements, in source order."""

  def __init__(self, mode, ret, codes, out):
    self.mode, self.ret, self.codes, self.out = mode, ret, codes, out      # codes: id(assert node) -> code
    self.fresh = 0
    self.loops = {}
    self.in_loop = None

  def new(self, base):
    self.fresh += 1
    return '%s%d' % (base, self.fresh)

  def end(self, env, w):
    if self.in_loop:
      return self.in_loop(env, w)
    if self.mode == 'mut':
      return 'Ok %s' % w
    raise Untranslatable('control reaches the end of a function that returns a value')

  def ret_value(self, node, env, w):
    if self.mode == 'mut':
      if node is not None:
        raise Untranslatable('return with a value in a mutator')
      return 'Ok %s' % w
    if node is None:
      raise Untranslatable('bare return')
    ex = Expr(env, w, self.new if self.mode == 'res' else None)
    s, t = ex.ex(node)
    if self.ret == 'F':
      s, t = ex.as_float(s, t), 'F'
    if t != self.ret:
      raise Untranslatable('return type %s, expected %s' % (t, self.ret))
    if self.in_loop:
      return self.bound(ex, 'Ok (Some %s)' % s)
    return s if self.mode == 'pure' else self.bound(ex, 'Ok %s' % s)

  def bound(self, ex, text):
    return ''.join('%s <- %s ;;\n' % b for b in ex.binds) + text

  def stmts(self, body, env, w, k, tail):
    """k(env, w): the text of what follows this block; tail: k is the end of the function (not of a loop body)."""
    if not body:
      return k(env, w)
    st, rest = body[0], body[1:]
    cont = lambda env2, w2: self.stmts(rest, env2, w2, k, tail)
    last = tail and not rest
    if is_doc(st):
      return cont(env, w)
    if isinstance(st, ast.Return):
      if rest:
        raise Untranslatable('statements after return')
      return self.ret_value(st.value, env, w)
    if isinstance(st, ast.Raise):
      exc = st.exc
      name = dotted(exc.func) if isinstance(exc, ast.Call) else None
      if rest or name not in RAISES or self.mode == 'pure':
        raise Untranslatable('raise %s' % name)
      return 'Err %d' % RAISES[name]
    if isinstance(st, ast.Assert):
      if self.mode == 'pure' or id(st) not in self.codes or st.msg is not None:
        raise Untranslatable('assert without an error code')
      code = self.codes[id(st)]
      c = Expr(env, w).typed(st.test, 'B')
      return '(if %s then %s else Err %d)' % (c, cont(env, w), code)
    if isinstance(st, ast.Assign) and len(st.targets) == 1:
      return self.assign(st.targets[0], st.value, env, w, cont)
    if isinstance(st, ast.AugAssign) and isinstance(st.target, ast.Name):
      ops = {ast.Mult: ast.Mult(), ast.Add: ast.Add(), ast.Sub: ast.Sub()}
      if type(st.op) not in ops:
        raise Untranslatable('augmented assignment operator')
      value = ast.BinOp(left=ast.Name(id=st.target.id, ctx=ast.Load()), op=st.op, right=st.value)
      return self.assign(st.target, value, env, w, cont)
    if isinstance(st, ast.Expr) and isinstance(st.value, ast.Call):
      return self.call_stmt(st.value, env, w, cont, last)
    if isinstance(st, ast.If):
      return self.if_stmt(st, env, w, cont)
    if isinstance(st, ast.For):
      return self.for_stmt(st, env, w, cont)
    raise Untranslatable('statement %s' % ast.dump(st)[:100])

  def assign(self, target, value, env, w, cont):
    if isinstance(target, ast.Name):
      ex = Expr(env, w, self.new if self.mode == 'res' else None)
      s, t = ex.ex(value)
      if t not in COQTYPE:
        raise Untranslatable('assignment of a %s' % t)
      return self.bound(ex, 'let %s := %s in\n%s' % (cname(target.id), s, cont(dict(env, **{target.id: t}), w)))
    if isinstance(target, ast.Tuple) and len(target.elts) == 2 and all(isinstance(e, ast.Name) for e in target.elts):
      a, b = target.elts[0].id, target.elts[1].id
      if isinstance(value, ast.Tuple) and len(value.elts) == 2:
        # a, b = E1, E2  is  a = E1; b = E2  when E2 does not read a
        if a == b or a in names_in(value.elts[1]):
          raise Untranslatable('parallel assignment with a dependency')
        return self.assign(target.elts[0], value.elts[0], env, w,
                           lambda env2, w2: self.assign(target.elts[1], value.elts[1], env2, w2, cont))
      s, t = Expr(env, w).ex(value)
      if t in ('PFZ', 'PFF') and a != b:
        env2 = dict(env, **{a: 'F', b: t[2]})
        return 'let %s := fst %s in\nlet %s := snd %s in\n%s' % (cname(a), s, cname(b), s, cont(env2, w))
      if t != 'RP' or self.mode == 'pure':
        raise Untranslatable('tuple assignment from %s' % t)
      r = self.new('r')
      env2 = dict(env, **{a: 'F', b: 'F'})
      return '%s <- %s ;;\nlet %s := fst %s in\nlet %s := snd %s in\n%s' % (r, s, cname(a), r, cname(b), r, cont(env2, w))
    raise Untranslatable('assignment target')

  def call_stmt(self, call, env, w, cont, last):
    if self.mode != 'mut':
      raise Untranslatable('call statement outside a mutator')
    name = dotted(call.func)
    if name == 'self._insertions.update' and len(call.args) == 1 and not call.keywords:
      e = Expr(env, w).typed(call.args[0], 'LF')
      w2 = self.new('w')
      return 'let %s := mkwl (adjs %s) (sl_update (inss %s) %s) in\n%s' % (w2, w, w, e, cont(env, w2))
    s, t = Expr(env, w).ex(call)
    if t != 'RW':
      raise Untranslatable('call statement of type %s' % t)
    if last:
      return s                                          # x <- m ;; Ok x  is  m
    w2 = self.new('w')
    return '%s <- %s ;;\n%s' % (w2, s, cont(env, w2))

  def if_stmt(self, st, env, w, cont):
    test, body, orelse = st.test, st.body, st.orelse
    if isinstance(test, ast.UnaryOp) and isinstance(test.op, ast.Not):
      # if not c: A else: B   is   if c: B else: A
      test, body, orelse = test.operand, orelse, body
    c = Expr(env, w).typed(test, 'B')
    simple = [s for s in (body or orelse) if isinstance(s, ast.Assign) and len(s.targets) == 1
              and isinstance(s.targets[0], ast.Name)]
    if body and not orelse and len(simple) == len(body):
      # assignments only: conditional lets (the condition must not mention an assigned variable)
      assigned = [s.targets[0].id for s in body]
      if set(assigned) & names_in(test) or any(a not in env for a in assigned):
        raise Untranslatable('conditional assignment to a variable of the condition or to a new variable')
      out, env2 = '', dict(env)
      for s in body:
        x = s.targets[0].id
        e, t = Expr(env2, w).ex(s.value)
        if env2[x] == 'F':
          e, t = Expr(env2, w).as_float(e, t), 'F'
        if t != env2[x]:
          raise Untranslatable('conditional assignment changes the type of %s' % x)
        out += 'let %s := if %s then %s else %s in\n' % (cname(x), c, e, cname(x))
      return out + cont(env2, w)
    a = self.stmts(body, env, w, cont, False)
    b = self.stmts(orelse, env, w, cont, False)
    return '(if %s\nthen %s\nelse %s)' % (c, a, b)

  def for_stmt(self, st, env, w, cont):
    if st.orelse or not isinstance(st.target, ast.Name):
      raise Untranslatable('for loop shape')
    v = st.target.id
    if isinstance(st.iter, ast.Tuple) and st.iter.elts and all(isinstance(e, ast.Constant) for e in st.iter.elts):
      # a loop over a tuple of constants is unrolled
      def unrolled(j, env_j, w_j):
        if j == len(st.iter.elts):
          return cont(env_j, w_j)
        s, t = Expr(env_j, w_j).ex(st.iter.elts[j])
        return 'let %s := %s in\n%s' % (cname(v), s, self.stmts(st.body, dict(env_j, **{v: t}), w_j,
                                                                 lambda e2, w2: unrolled(j + 1, e2, w2), False))
      return unrolled(0, env, w)
    if not (isinstance(st.iter, ast.Call) and dotted(st.iter.func) == 'range' and len(st.iter.args) in (1, 2)
            and not st.iter.keywords):
      raise Untranslatable('for loop over something that is not range(..) or a tuple of constants')
    if self.mode != 'res' or self.in_loop:
      raise Untranslatable('range loop outside a function with a result, or nested')
    bounds = [Expr(env, w).typed(a, 'Z') for a in st.iter.args]
    lo, hi = (['0'] + bounds)[-2:]
    used = set()
    for b in st.body:
      used |= names_in(b)
    assigned = set()
    for n in ast.walk(ast.Module(body=st.body, type_ignores=[])):
      if isinstance(n, (ast.Assign, ast.AugAssign)):
        for t in (n.targets if isinstance(n, ast.Assign) else [n.target]):
          assigned |= names_in(t)
    params = [x for x in env if x in used and x != v]
    carried = [x for x in params if x in assigned]
    types = dict((x, env[x]) for x in params)
    key = id(st)
    if key in self.loops:
      name, params0, types0 = self.loops[key]
      for x in carried:
        types[x] = types0.get(x)
      if params0 != params or types0 != types:
        raise Untranslatable('the same loop is reached with different variables')
    else:
      name = 'gen%s_loop%d' % (self.prefix, len(self.loops) + 1)
      for _attempt in range(3):
        promote = []

        def again(env2, w2):
          if w2 != w:
            raise Untranslatable('loop body changes the work list')
          for x in carried:
            if env2.get(x) != types[x]:
              if types[x] == 'Z' and env2.get(x) == 'F':
                promote.append(x)
              else:
                raise Untranslatable('loop changes the type of %s' % x)
          return '%s %s rest_' % (name, ' '.join([w] + [cname(x) for x in params]))
        self.in_loop = again
        try:
          envb = dict((x, types[x]) for x in params)
          envb[v] = 'Z'
          body = self.stmts(st.body, envb, w, again, False)
        finally:
          self.in_loop = None
        if not promote:
          break
        for x in promote:
          types[x] = 'F'                 # an int that becomes a float in the loop is a float from the start
      else:
        raise Untranslatable('loop variable types do not settle')
      sig = ' '.join(['(%s : wl)' % w] + ['(%s : %s)' % (cname(x), COQTYPE[types[x]]) for x in params])
      self.out.append('Fixpoint %s %s (is_ : list Z) {struct is_} : res (option %s) :=\nmatch is_ with\n| [] => Ok None\n'
                      '| %s :: rest_ =>\n%s\nend.\n' % (name, sig, COQTYPE[self.ret], cname(v), body))
      self.loops[key] = (name, params, dict(types))
    args = [Expr(env, w).as_float(cname(x), env[x]) if types[x] == 'F' else cname(x) for x in params]
    r = self.new('r')
    env_after = dict((x, t) for x, t in env.items() if x not in assigned and x != v)
    return ('%s <- %s %s (zrange %s %s) ;;\nmatch %s with\n| Some x_ => Ok x_\n| None =>\n%s\nend'
            % (r, name, ' '.join([w] + args), lo, hi, r, cont(env_after, w)))


def strip_doc(fn):
  body = list(fn.body)
  if body and is_doc(body[0]):
    body = body[1:]
  return body


def check_plain_args(fn, names=None):
  a = fn.args
  if a.vararg or a.kwarg or a.defaults or a.kwonlyargs or fn.decorator_list or getattr(a, 'posonlyargs', None):
    raise Untranslatable('%s: signature is not a plain list of arguments' % fn.name)
  got = [x.arg for x in a.args]
  if names is not None and got != names:
    raise Untranslatable('%s: arguments %r, expected %r' % (fn.name, got, names))
  return got


def translate_function(fn, gen_name, argtypes, mode, ret, codes):
  """fn: ast.FunctionDef.  Returns Gallina text (auxiliary loop functions + the definition)."""
  args = check_plain_args(fn)
  method = bool(args) and args[0] == 'self'
  if method:
    args = args[1:]
  if len(args) != len(argtypes):
    raise Untranslatable('%s: %d arguments, expected %d' % (fn.name, len(args), len(argtypes)))
  asserts = sorted((n for n in ast.walk(fn) if isinstance(n, ast.Assert)), key=lambda n: (n.lineno, n.col_offset))
  if len(asserts) != len(codes):
    raise Untranslatable('%s: %d assert statements, the model has error codes for %d' % (fn.name, len(asserts), len(codes)))
  out = []
  f = Func(mode, ret, dict((id(n), c) for n, c in zip(asserts, codes)), out)
  f.prefix = gen_name[3:]
  env = {}
  for a, t in zip(args, argtypes):
    env[a] = t
  body = f.stmts(strip_doc(fn), env, 'w' if method else None, f.end, True)
  sig = ' '.join((['(w : wl)'] if method else []) + ['(%s : %s)' % (cname(a), COQTYPE[t]) for a, t in zip(args, argtypes)])
  rtype = {'pure': COQTYPE.get(ret), 'mut': 'res wl', 'res': 'res %s' % COQTYPE.get(ret)}[mode]
  out.append('Definition %s %s : %s :=\n%s.\n' % (gen_name, sig, rtype, body))
  return '\n'.join(out)


def translate_prepare_inserts(fn):
  """prepare_inserts: the driver.  Its shape is fixed (constructor, grouping, one loop of prep_inserts_at_index calls, the
  returned pair); the constructor, _group_insertions and the two getters are pinned by hash and stand for mkwl [] [],
  (ins_groups, ungroup), adjs and inss."""
  sl, keys = check_plain_args(fn)
  body = strip_doc(fn)
  if len(body) != 4:
    raise Untranslatable('prepare_inserts: %d statements, expected 4' % len(body))
  s1, s2, s3, s4 = body

  def is_call(node, name, nargs):
    return isinstance(node, ast.Call) and not node.keywords and dotted(node.func) == name and len(node.args) == nargs

  def is_name(node, name):
    return isinstance(node, ast.Name) and node.id == name
  if not (isinstance(s1, ast.Assign) and len(s1.targets) == 1 and isinstance(s1.targets[0], ast.Name)
          and is_call(s1.value, 'ListWithAdjustments', 1) and is_name(s1.value.args[0], sl)):
    raise Untranslatable('prepare_inserts: first statement is not W = ListWithAdjustments(sortedlist)')
  wl = s1.targets[0].id
  if not (isinstance(s2, ast.Assign) and len(s2.targets) == 1 and isinstance(s2.targets[0], ast.Tuple)
          and len(s2.targets[0].elts) == 2 and all(isinstance(e, ast.Name) for e in s2.targets[0].elts)
          and is_call(s2.value, '_group_insertions', 2) and is_name(s2.value.args[0], sl)
          and is_name(s2.value.args[1], keys)):
    raise Untranslatable('prepare_inserts: second statement is not G, U = _group_insertions(sortedlist, keys)')
  groups, ungroup = [e.id for e in s2.targets[0].elts]
  if len(set([sl, keys, wl, groups, ungroup])) != 5:
    raise Untranslatable('prepare_inserts: names are not distinct')
  if not (isinstance(s3, ast.For) and not s3.orelse and is_name(s3.iter, groups) and isinstance(s3.target, ast.Tuple)
          and len(s3.target.elts) == 2 and all(isinstance(e, ast.Name) for e in s3.target.elts)
          and len(s3.body) == 1 and isinstance(s3.body[0], ast.Expr)
          and is_call(s3.body[0].value, wl + '.prep_inserts_at_index', 2)):
    raise Untranslatable('prepare_inserts: the loop is not "for a, b in G: W.prep_inserts_at_index(.., ..)"')
  a, b = [e.id for e in s3.target.elts]
  if a == b or set([a, b]) & set([sl, keys, wl, groups, ungroup]):
    raise Untranslatable('prepare_inserts: loop variables')
  ex = Expr({a: 'Z', b: 'Z'}, None)
  x, y = [ex.typed(arg, 'Z') for arg in s3.body[0].value.args]
  if not (isinstance(s4, ast.Return) and isinstance(s4.value, ast.Tuple) and len(s4.value.elts) == 2):
    raise Untranslatable('prepare_inserts: does not return a pair')

  def final(node):
    if is_call(node, wl + '.get_adjustments', 0):
      return '(adjs w)', 'LA'
    if is_call(node, wl + '.get_insertions', 0):
      return '(inss w)', 'LF'
    if is_call(node, ungroup, 1):
      s, t = final(node.args[0])
      if t != 'LF':
        raise Untranslatable('prepare_inserts: ungroup of %s' % t)
      return '(ungroup keys %s)' % s, 'LF'
    raise Untranslatable('prepare_inserts: returned component %s' % ast.dump(node)[:80])
  (r1, t1), (r2, t2) = final(s4.value.elts[0]), final(s4.value.elts[1])
  if (t1, t2) != ('LA', 'LF'):
    raise Untranslatable('prepare_inserts: returned pair has types %s, %s' % (t1, t2))
  return ('Definition gen_prepare_inserts (keys : list fl) : res (list (Z * fl) * list fl) :=\n'
          'w <- fold_left (fun r_ g_ => w <- r_ ;;\n  let %s := fst g_ in\n  let %s := snd g_ in\n'
          '  prep_inserts_at_index orig w %s %s)\n  (ins_groups orig keys) (Ok (mkwl [] [])) ;;\nOk (%s, %s).\n'
          % (cname(a), cname(b), x, y, r1, r2))


CLS = 'ListWithAdjustments'
# (class, function, generated name, argument types, mode, result type, error codes of the asserts in source order)
TARGETS = [
  (None, 'get_range', 'gen_get_range', ['F', 'F', 'Z'], 'pure', 'LF', []),
  (CLS, '_adj_bisect_key_left', 'gen_adj_bisect_key_left', ['F'], 'pure', 'Z', []),
  (CLS, '_adj_get_key', 'gen_adj_get_key', ['Z'], 'pure', 'F', []),
  (CLS, 'count_range', 'gen_count_range', ['F', 'F'], 'pure', 'Z', []),
  (CLS, '_adjust_range', 'gen_adjust_range', ['F', 'F'], 'mut', None, []),
  (CLS, '_adjust_all', 'gen_adjust_all', [], 'mut', None, []),
  (CLS, '_find_sparse_enough_range', 'gen_find_sparse_enough_range', ['F', 'F'], 'res', 'PFF', [3]),
  (CLS, 'prep_inserts_at_index', 'gen_prep_inserts_at_index', ['Z', 'Z'], 'mut', None, [7, 1, 2]),
  (None, 'range_around_float', 'gen_range_around_float', ['F', 'Z'], 'res', 'PFF', []),
]
# untranslated code the model was written from, pinned by the hash of its AST (docstrings and comments do not count)
PINNED = [
  ('relabeling.py', None, '_group_insertions'), ('relabeling.py', None, 'nextfloat'), ('relabeling.py', None, 'prevfloat'),
  ('relabeling.py', None, 'is_valid_range'), ('relabeling.py', None, 'all_distinct'),
  ('relabeling.py', CLS, '__init__'), ('relabeling.py', CLS, 'get_insertions'), ('relabeling.py', CLS, 'get_adjustments'),
  ('relabeling.py', CLS, '_do_adjust_range'),
  ('column.py', 'PositionColumn', None),
]


def find(tree, cls, name):
  body = tree.body
  if cls:
    found = [n for n in body if isinstance(n, ast.ClassDef) and n.name == cls]
    if len(found) != 1:
      raise Untranslatable('class %s not found exactly once' % cls)
    if name is None:
      return found[0]
    body = found[0].body
  found = [n for n in body if isinstance(n, ast.FunctionDef) and n.name == name]
  if len(found) != 1:
    raise Untranslatable('%s.%s not found exactly once' % (cls or 'module', name))
  return found[0]


def ast_hash(node):
  import copy
  import hashlib
  node = copy.deepcopy(node)
  for n in ast.walk(node):
    if isinstance(n, (ast.FunctionDef, ast.ClassDef)) and n.body and is_doc(n.body[0]) and len(n.body) > 1:
      n.body = n.body[1:]
  return hashlib.sha256(ast.dump(node).encode('utf8')).hexdigest()[:16]


def pin_hashes(grist_dir):
  import os
  out, trees = {}, {}
  for fname, cls, name in PINNED:
    if fname not in trees:
      trees[fname] = ast.parse(open(os.path.join(grist_dir, fname)).read())
    out['%s:%s' % (fname, '.'.join(x for x in (cls, name) if x))] = ast_hash(find(trees[fname], cls, name))
  return out


HEADER = '''(* GENERATED by harness/relabel2v.py from sandbox/grist/relabeling.py -- do not edit. *)
From Coq Require Import ZArith List Bool.
Import ListNotations.
Require Import Grist.Lib.Fl64 Grist.Model.Relabel Grist.Model.RelabelFrexp.
Open Scope Z_scope.

Section Gen.
Variable orig : list fl.

'''

# evaluator for the differential validation of the translator (fixed text): a recorded call = (function number, existing
# positions, adjustments, insertions, integer arguments, float arguments), all floats as 64-bit patterns
FOOTER = '''
End Gen.

Definition gen_out : Type := (Z * list (Z * Z) * list Z * list Z)%type.
Definition gen_st (r : res wl) : gen_out :=
  match r with
  | Ok w => (0, map (fun p => (fst p, encode (snd p))) (adjs w), map encode (inss w), [])
  | Err c => (c, [], [], [])
  end.
Definition gen_eval (c : Z * list Z * list (Z * Z) * list Z * list Z * list Z) : gen_out :=
  let '(f, o, a, i, zs, fs) := c in
  let orig := map decode o in
  let w := mkwl (map (fun p => (fst p, decode (snd p))) a) (map decode i) in
  let z := fun k => nth k zs 0 in
  let x := fun k => decode (nth k fs 0) in
  match f with
  | 0 => (0, [], [], map encode (gen_get_range (x 0%nat) (x 1%nat) (z 0%nat)))
  | 1 => (0, [], [], [gen_adj_bisect_key_left orig w (x 0%nat)])
  | 2 => (0, [], [], [encode (gen_adj_get_key orig w (z 0%nat))])
  | 3 => (0, [], [], [gen_count_range orig w (x 0%nat) (x 1%nat)])
  | 4 => gen_st (gen_adjust_range orig w (x 0%nat) (x 1%nat))
  | 5 => gen_st (gen_adjust_all orig w)
  | 6 => match gen_find_sparse_enough_range orig w (x 0%nat) (x 1%nat) with
         | Ok r => (0, [], [], [encode (fst r); encode (snd r)])
         | Err c => (c, [], [], [])
         end
  | 7 => gen_st (gen_prep_inserts_at_index orig w (z 0%nat) (z 1%nat))
  | 8 => match gen_prepare_inserts orig (map decode fs) with
         | Ok (a', i') => (0, map (fun p => (fst p, encode (snd p))) a', [], map encode i')
         | Err c => (c, [], [], [])
         end
  | 9 => match gen_range_around_float (x 0%nat) (z 0%nat) with
         | Ok r => (0, [], [], [encode (fst r); encode (snd r)])
         | Err c => (c, [], [], [])
         end
  | _ => (-1, [], [], [])
  end.
Definition gen_out_eqb (p q : gen_out) : bool :=
  let '(c1, a1, i1, v1) := p in
  let '(c2, a2, i2, v2) := q in
  (c1 =? c2) && list_eqb zpair_eqb a1 a2 && list_eqb Z.eqb i1 i2 && list_eqb Z.eqb v1 v2.
Definition gen_case_ok (c : (Z * list Z * list (Z * Z) * list Z * list Z * list Z) * gen_out) : bool :=
  gen_out_eqb (gen_eval (fst c)) (snd c).
'''
FUNC_NUMBER = {'get_range': 0, '_adj_bisect_key_left': 1, '_adj_get_key': 2, 'count_range': 3, '_adjust_range': 4,
               '_adjust_all': 5, '_find_sparse_enough_range': 6, 'prep_inserts_at_index': 7, 'prepare_inserts': 8, 'range_around_float': 9}


def translate_all(grist_dir):
  import os
  tree = ast.parse(open(os.path.join(grist_dir, 'relabeling.py')).read())
  parts = []
  for cls, name, gen, argt, mode, ret, codes in TARGETS:
    fn = find(tree, cls, name)
    try:
      parts.append('(* %s%s, line %d *)\n%s' % (cls + '.' if cls else '', name, fn.lineno,
                                                translate_function(fn, gen, argt, mode, ret, codes)))
    except Untranslatable as e:
      raise Untranslatable('%s: %s' % (name, e))
  fn = find(tree, None, 'prepare_inserts')
  parts.append('(* prepare_inserts, line %d *)\n%s' % (fn.lineno, translate_prepare_inserts(fn)))
  return HEADER + '\n'.join(parts) + FOOTER


if __name__ == '__main__':
  import sys
  sys.stdout.write(translate_all(sys.argv[1]))
