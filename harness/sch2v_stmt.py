"""sch2v, second half: statements and function definitions (see harness/sch2v.py for the subset)."""
import ast

from harness.sch2v import Tr, Untranslatable, fail, assigned, dotted

COQ_RESERVED = {'end', 'match', 'with', 'in', 'let', 'fun', 'if', 'then', 'else', 'return', 'as', 'at', 'fix',
                'forall', 'exists', 'Type', 'Prop', 'Set', 'S', 'O'}


def cname(x):
  return x + '_' if x in COQ_RESERVED else x


class Ctx(object):
  def __init__(self, mode, loop=None, init=None):
    self.mode = mode          # 'pure' | 'exc' | 'gen'
    self.loop = loop          # None or list of loop-carried names (innermost loop)
    self.init = init          # record type when translating __init__

  def inner(self, carried):
    return Ctx(self.mode, carried, self.init)


def tup(terms):
  return 'tt' if not terms else terms[0] if len(terms) == 1 else '(' + ', '.join(terms) + ')'


def pat(names):
  return '_' if not names else names[0] if len(names) == 1 else "'(" + ', '.join(names) + ')'


class Translator(Tr):
  def state(self, env, ctx):
    return tup([env[v][0] for v in ctx.loop])

  def wrap(self, term, binds, ctx, node):
    if binds and ctx.mode != 'exc':
      fail(node, 'a raising primitive in a %s function' % ctx.mode)
    for v, t in reversed(binds):
      term = 'bind %s (fun %s =>\n%s)' % (t, v, term)
    return term

  def with_binds(self, fn, ctx):
    """Run fn (which translates expressions) collecting the raising primitives it meets."""
    saved, self.binds = self.binds, ([] if ctx.mode == 'exc' else None)
    try:
      res = fn()
      return res, (self.binds or [])
    finally:
      self.binds = saved

  def falloff(self, env, ctx, node):
    if ctx.loop is not None:
      return ('Val (Next, %s)' if ctx.mode == 'exc' else 'GNext [] %s') % self.state(env, ctx)
    if ctx.init is not None:
      ctor, fields = self.b['records'][ctx.init]
      missing = [f for f in fields if 'self.' + f not in env]
      if missing:
        fail(node, '__init__ does not set %s' % missing)
      term = '(%s %s)' % (ctor, ' '.join(env['self.' + f][0] for f in fields))
      return 'Val ' + term if ctx.mode == 'exc' else term
    fail(node, 'the function may end without return')

  def block(self, stmts, env, ctx, node=None):
    if not stmts:
      return self.falloff(env, ctx, node)
    s, rest = stmts[0], stmts[1:]
    if isinstance(s, ast.Expr) and isinstance(s.value, ast.Constant) and isinstance(s.value.value, str):
      return self.block(rest, env, ctx, s)          # docstring
    if isinstance(s, ast.Pass):
      return self.block(rest, env, ctx, s)
    if isinstance(s, ast.Assign) and len(s.targets) == 1:
      return self.assign(s, s.targets[0], s.value, rest, env, ctx)
    if isinstance(s, ast.AugAssign):
      value = ast.BinOp(left=s.target, op=s.op, right=s.value)
      ast.copy_location(value, s)
      return self.assign(s, s.target, value, rest, env, ctx)
    if isinstance(s, ast.Expr) and isinstance(s.value, ast.Yield):
      if ctx.mode != 'gen' or s.value.value is None:
        fail(s, 'yield')
      e, _ = self.pure(s.value.value, env, self.b['yield_type'])
      return 'gyield %s (\n%s)' % (e, self.block(rest, env, ctx, s))
    if isinstance(s, ast.Expr) and isinstance(s.value, ast.Call):
      return self.mutator(s, rest, env, ctx)
    if isinstance(s, ast.If) and not s.orelse and isinstance(s.test, ast.UnaryOp) and isinstance(s.test.op, ast.Not) \
        and isinstance(s.test.operand, ast.Name) and s.test.operand.id in env \
        and env[s.test.operand.id][1].startswith('option ') and isinstance(s.body[-1], (ast.Raise, ast.Return)):
      # `if not x: <leaves>`: afterwards x is the content of the option
      x = s.test.operand.id
      env2 = dict(env)
      env2[x] = (cname(x), env[x][1][7:])
      return '(match %s with\n | None => %s\n | Some %s => %s\n end)' % (
        env[x][0], self.block(s.body, env, ctx, s), cname(x), self.block(rest, env2, ctx, s))
    if isinstance(s, ast.If):
      (c, cty), binds = self.with_binds(lambda: self.expr(s.test, env), ctx)
      term = '(if %s\n then %s\n else %s)' % (self.truthy(s, c, cty), self.block(s.body + rest, env, ctx, s),
                                              self.block(s.orelse + rest, env, ctx, s))
      return self.wrap(term, binds, ctx, s)
    if isinstance(s, ast.Raise):
      if ctx.mode != 'exc' or not isinstance(s.exc, ast.Call) or dotted(s.exc.func) not in self.b['exceptions']:
        fail(s, 'raise')
      return 'Exn ' + self.b['exceptions'][dotted(s.exc.func)]      # the message is not modelled
    if isinstance(s, ast.Return):
      if ctx.loop is not None and ctx.mode != 'gen':
        fail(s, 'return inside a loop')
      if ctx.mode == 'gen':
        if s.value is not None:
          fail(s, 'return with a value in a generator')
        return 'GReturn []'
      if s.value is None or ctx.init is not None:
        fail(s, 'return')
      (e, _), binds = self.with_binds(lambda: self.expr(s.value, env, self.ret_type), ctx)
      return self.wrap(('Val %s' if ctx.mode == 'exc' else '%s') % e, binds, ctx, s)
    if isinstance(s, ast.Continue) and ctx.loop is not None:   # what follows in the duplicated rest is dead
      return self.falloff(env, ctx, s)
    if isinstance(s, ast.Break) and ctx.loop is not None and ctx.mode == "exc":
      return 'Val (Brk, %s)' % self.state(env, ctx)
    if isinstance(s, ast.For):
      return self.for_(s, rest, env, ctx)
    if isinstance(s, ast.While):
      return self.while_(s, rest, env, ctx)
    fail(s, 'statement')

  def assign(self, s, target, value, rest, env, ctx):
    env = dict(env)
    if isinstance(target, ast.Name):
      (e, ty), binds = self.with_binds(lambda: self.expr(value, env), ctx)
      if target.id in env and env[target.id][1] != ty:
        c = self.b['coerce'].get((ty, env[target.id][1]))
        if c is None:
          fail(s, '%s changes its type from %s to %s' % (target.id, env[target.id][1], ty))
        e, ty = c.format(e), env[target.id][1]
      x = cname(target.id)
      env[target.id] = (x, ty)
      return self.wrap('let %s := %s in\n%s' % (x, e, self.block(rest, env, ctx, s)), binds, ctx, s)
    if isinstance(target, ast.Tuple) and all(isinstance(t, ast.Name) for t in target.elts) and len(target.elts) == 2:
      (e, ty), binds = self.with_binds(lambda: self.expr(value, env), ctx)
      if not ty.startswith('prod '):
        fail(s, 'unpacking a %s' % ty)
      tys = ty[5:].split('|')
      names = [cname(t.id) for t in target.elts]
      for t, x, tt in zip(target.elts, names, tys):
        env[t.id] = (x, tt)
      return self.wrap("let '(%s, %s) := %s in\n%s" % (names[0], names[1], e, self.block(rest, env, ctx, s)),
                       binds, ctx, s)
    if isinstance(target, ast.Attribute) and isinstance(target.value, ast.Name) and target.value.id == 'self':
      if ctx.init is not None:
        fty = self.b['fields'][(ctx.init, target.attr)][1]
        (e, _), binds = self.with_binds(lambda: self.expr(value, env, fty), ctx)
        x = 'self_' + target.attr.strip('_')
        env['self.' + target.attr] = (x, fty)
        return self.wrap('let %s := %s in\n%s' % (x, e, self.block(rest, env, ctx, s)), binds, ctx, s)
      sty = env['self'][1]
      f = self.b['fields'].get((sty, target.attr))
      if f is None:
        fail(s, 'field')
      (e, _), binds = self.with_binds(lambda: self.expr(value, env, f[1]), ctx)
      env['self'] = ('self', sty)
      return self.wrap('let self := %s %s %s in\n%s' % (f[2], env['self'][0], e, self.block(rest, env, ctx, s)),
                       binds, ctx, s)
    fail(s, 'assignment target')

  def mutator(self, s, rest, env, ctx):
    call = s.value
    f = call.func
    if not (isinstance(f, ast.Attribute) and isinstance(f.value, ast.Name) and f.value.id in env) or call.keywords:
      fail(s, 'expression statement')
    recv, rty = env[f.value.id]
    p = self.b['mutators'].get((rty, f.attr, len(call.args)))
    if p is None:
      fail(s, '%s.%s(...) as a statement' % (rty, f.attr))
    (res, _), binds = self.with_binds(
      lambda: self.prim(s, (p[0], p[1], rty, p[2]), self.args(s, p, call.args, env, recv)), ctx)
    env = dict(env)
    x = cname(f.value.id)
    env[f.value.id] = (x, rty)
    return self.wrap('let %s := %s in\n%s' % (x, res, self.block(rest, env, ctx, s)), binds, ctx, s)

  def loop_parts(self, s, env, ctx):
    (it, ity), binds = self.with_binds(lambda: self.expr(s.iter, env), ctx)
    if not ity.startswith('list '):
      fail(s, 'iteration over a %s' % ity)
    ety = ity[5:]
    carried = [v for v in assigned(s.body) if v in env]
    benv = dict(env)
    if isinstance(s.target, ast.Name):
      xpat = cname(s.target.id)
      benv[s.target.id] = (xpat, ety)
    elif isinstance(s.target, ast.Tuple) and len(s.target.elts) == 2 and ety.startswith('prod ') \
        and all(isinstance(t, ast.Name) for t in s.target.elts):
      names = [cname(t.id) for t in s.target.elts]
      for t, x, tt in zip(s.target.elts, names, ety[5:].split('|')):
        benv[t.id] = (x, tt)
      xpat = "'(%s, %s)" % tuple(names)
    else:
      fail(s, 'loop target')
    for v in carried:
      benv[v] = (cname(v), env[v][1])
    aenv = dict(env)
    for v in carried:
      aenv[v] = (cname(v), env[v][1])
    return it, binds, carried, xpat, benv, aenv

  def for_(self, s, rest, env, ctx):
    if ctx.mode == 'pure':
      fail(s, 'loop in a pure function')
    it, binds, carried, xpat, benv, aenv = self.loop_parts(s, env, ctx)
    body = self.block(s.body, benv, ctx.inner(carried), s)
    st0 = tup([env[v][0] for v in carried])
    spat = pat([cname(v) for v in carried])
    if ctx.mode == 'gen':
      if s.orelse:
        fail(s, 'for/else in a generator')
      term = 'gbind (py_gfor %s %s (fun %s %s =>\n%s)) (fun %s =>\n%s)' % (
        it, st0, xpat, spat, body, spat, self.block(rest, aenv, ctx, s))
      return self.wrap(term, binds, ctx, s)
    if s.orelse:
      after = '(if brk then %s\n else %s)' % (self.block(rest, aenv, ctx, s), self.block(s.orelse + rest, aenv, ctx, s))
      rpat = "'(brk, %s)" % (spat[1:] if spat.startswith("'") else spat)
    else:
      after = self.block(rest, aenv, ctx, s)
      rpat = "'(_, %s)" % (spat[1:] if spat.startswith("'") else spat)
    term = 'bind (py_for %s %s (fun %s %s =>\n%s)) (fun %s =>\n%s)' % (it, st0, xpat, spat, body, rpat, after)
    return self.wrap(term, binds, ctx, s)

  def while_(self, s, rest, env, ctx):
    if ctx.mode != 'gen' or rest or ctx.loop is not None or s.orelse or \
        not (isinstance(s.test, ast.Constant) and s.test.value is True):
      fail(s, 'only `while True:` as the last statement of a generator')
    carried = [v for v in assigned(s.body) if v in env]
    benv = dict(env)
    for v in carried:
      benv[v] = (cname(v), env[v][1])
    body = self.block(s.body, benv, ctx.inner(carried), s)
    return 'py_gwhile fuel %s (fun %s =>\n%s)' % (tup([env[v][0] for v in carried]), pat([cname(v) for v in carried]), body)

  def function(self, fd, coqname, mode, params, ret, self_ty=None, init=None):
    """params: [(python name, type)] (self excluded); returns the text of a Definition."""
    names = [a.arg for a in fd.args.args]
    if self_ty or init:
      if not names or names[0] != 'self':
        fail(fd, 'method without self')
      names = names[1:]
    if names != [p[0] for p in params] or fd.args.vararg or fd.args.kwarg or fd.args.kwonlyargs:
      fail(fd, 'parameters %r differ from the binding %r' % (names, [p[0] for p in params]))
    env = {}
    binders = []
    if self_ty:
      env['self'] = ('self', self_ty)
      binders.append('(self : %s)' % self.b['types'][self_ty])
    if mode == 'gen':
      binders.append('(fuel : nat)')
    for x, t in params:
      env[x] = (cname(x), t)
      binders.append('(%s : %s)' % (cname(x), self.coq_type(t)))
    self.ret_type = ret
    self.n = 0
    body = self.block(fd.body, env, Ctx(mode, None, init))
    rty = {'pure': '%s', 'exc': 'exc %s', 'gen': 'result %s'}[mode] % self.coq_type(ret)
    return 'Definition %s %s : %s :=\n%s.\n' % (coqname, ' '.join(binders), rty, body)

  def coq_type(self, t):
    if t in self.b['types']:
      return self.b['types'][t]
    if t.startswith('list '):
      return '(list %s)' % self.coq_type(t[5:])
    if t.startswith('option '):
      return '(option %s)' % self.coq_type(t[7:])
    if t.startswith('prod '):
      a, c = t[5:].split('|')
      return '(%s * %s)' % (self.coq_type(a), self.coq_type(c))
    raise Untranslatable('type %s' % t)
