"""setup: regenerate every gen/*.v from /repo, build the whole Coq development (full .vo), hygiene grep."""
import glob
import importlib
import os
import sys
import traceback

from harness import core


def main():
  core.setup_impl_path()
  os.makedirs(os.path.join(core.COQ, 'gen'), exist_ok=True)
  rc = 0
  targets = ['theories/Lib/Cases.vo']
  for path in sorted(glob.glob(os.path.join(core.VERIF, 'harness', 'props', 'c[0-9][0-9].py'))):
    name = os.path.basename(path)[:-3]
    try:
      mod = importlib.import_module('harness.props.' + name)
    except Exception:
      traceback.print_exc()
      print('cannot import', name, '(skipped)')
      continue
    if getattr(mod, 'DISABLED', False):
      print('skipping', mod.ID, '(not enabled yet)')
      continue
    targets.extend('theories/%s.vo' % s for s in getattr(mod, 'PROPS', []))
    if hasattr(mod, 'regenerate'):
      ctx = core.Ctx(mod, 'quick', 0)
      try:
        mod.regenerate(ctx)
        print('regenerated for', mod.ID)
      except Exception:
        traceback.print_exc()
        print('regeneration FAILED for', mod.ID)
        rc = 1
  bad = core.hygiene()
  if bad:
    print('hygiene: forbidden tokens:\n' + '\n'.join(bad))
    rc = 1
  with core.flock(os.path.join(core.COQ, '.lock')):
    core.ensure_makefile()
  r, out = core.sh(['timeout', '3000', 'make', '-j16'] + targets, cwd=core.COQ, timeout=3100)
  print(out[-3000:])
  if r != 0:
    print('coq build FAILED')
    rc = 1
  sys.exit(rc)


if __name__ == '__main__':
  main()
