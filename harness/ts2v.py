"""
ts2v -- fail-closed translator for two small functions of app/common/gristTypes.ts (C38): extractTypeFromColType and
getDefaultForType.  The function text is tokenised (comments dropped), parsed by a recursive-descent parser for exactly
the forms below, type-checked against the small type system below and written as Gallina (coq/gen/TsGen_gen.v).
Anything else raises Untranslatable (the check then reports a broken tie).

  function:  export function NAME ( PARAM, ... ) [: string] { STMT... }
  PARAM:     NAME : string   |   NAME : { FIELD ?: boolean } = {}
  STMT:      if ( E ) { return E ; }   |   const NAME = E ;   |   return E ;
  E:         E ? E : E  |  E || E  |  E === E  |  ! E  |  - NUMBER  |  E . NAME  |  E [ E ]  |  E ( E, ... )  |  E as NAME
             |  NAME  |  "str"  |  NUMBER  |  ( E )
Types: str, int, bool, table (the _defaultValues literal), prop (result of a lookup in it), lit (a default), opts.
"""
import re

from harness.js2v import Untranslatable, coq_str

TOKEN = re.compile(r'''
    (?P<ws>\s+|//[^\n]*|/\*.*?\*/)
  | (?P<name>[A-Za-z_$][A-Za-z0-9_$]*)
  | (?P<num>[0-9]+)
  | (?P<str>"[^"\\\n]*"|'[^'\\\n]*')
  | (?P<op>===|\|\||[(){}\[\]:;,.?=!\-])
''', re.S | re.X)


def tokenize(text, pos):
  """Tokens of the function starting at pos, up to the brace that closes its body."""
  out, depth, opened = [], 0, False
  while pos < len(text):
    m = TOKEN.match(text, pos)
    if not m:
      raise Untranslatable('cannot tokenise gristTypes.ts at %r' % text[pos:pos + 30])
    pos = m.end()
    kind = m.lastgroup
    if kind == 'ws':
      continue
    out.append((kind, m.group(kind)))
    if out[-1] == ('op', '{') and len(out) >= 2 and out[-2][1] in (')', 'string'):
      opened = True            # the body's brace follows the parameter list or the result type
    if kind == 'op' and m.group(kind) == '{':
      depth += 1
    if kind == 'op' and m.group(kind) == '}':
      depth -= 1
      if depth == 0 and opened:
        return out
  raise Untranslatable('unbalanced braces')


class Parser(object):
  def __init__(self, toks):
    self.t, self.i = toks, 0

  def peek(self, k=0):
    return self.t[self.i + k] if self.i + k < len(self.t) else ('eof', '')

  def take(self, kind=None, val=None):
    tok = self.peek()
    if (kind and tok[0] != kind) or (val is not None and tok[1] != val):
      raise Untranslatable('expected %s %s, found %r (token %d)' % (kind or '', val or '', tok, self.i))
    self.i += 1
    return tok[1]

  def at(self, val):
    return self.peek()[1] == val and self.peek()[0] in ('op', 'name')

  def function(self):
    self.take('name', 'export'); self.take('name', 'function')
    name = self.take('name')
    self.take('op', '(')
    params = []
    while not self.at(')'):
      p = self.take('name'); self.take('op', ':')
      if self.at('string'):
        self.take(); params.append((p, 'str', None))
      else:
        self.take('op', '{'); field = self.take('name'); self.take('op', '?'); self.take('op', ':')
        self.take('name', 'boolean'); self.take('op', '}'); self.take('op', '='); self.take('op', '{'); self.take('op', '}')
        params.append((p, 'opts', field))
      if not self.at(')'):
        self.take('op', ',')
    self.take('op', ')')
    if self.at(':'):
      self.take(); self.take('name', 'string')
    self.take('op', '{')
    body = []
    while not self.at('}'):
      body.append(self.stmt())
    self.take('op', '}')
    if self.i != len(self.t):
      raise Untranslatable('tokens after the function body')
    return name, params, body

  def stmt(self):
    if self.at('if'):
      self.take(); self.take('op', '('); c = self.expr(); self.take('op', ')'); self.take('op', '{')
      self.take('name', 'return'); e = self.expr(); self.take('op', ';'); self.take('op', '}')
      if self.at('else'):
        raise Untranslatable('if with else')
      return ('ifret', c, e)
    if self.at('const'):
      self.take(); n = self.take('name'); self.take('op', '='); e = self.expr(); self.take('op', ';')
      return ('const', n, e)
    self.take('name', 'return'); e = self.expr(); self.take('op', ';')
    return ('ret', e)

  def expr(self):
    c = self.or_()
    if self.at('?'):
      self.take(); a = self.expr(); self.take('op', ':'); b = self.expr()
      return ('cond', c, a, b)
    return c

  def or_(self):
    a = self.eq()
    while self.at('||'):
      self.take(); a = ('or', a, self.eq())
    return a

  def eq(self):
    a = self.unary()
    if self.at('==='):
      self.take(); a = ('eq', a, self.unary())
    return a

  def unary(self):
    if self.at('!'):
      self.take(); return ('not', self.unary())
    if self.at('-'):
      self.take(); return ('num', -int(self.take('num')))
    return self.postfix()

  def postfix(self):
    e = self.primary()
    while True:
      if self.at('.'):
        self.take(); e = ('member', e, self.take('name'))
      elif self.at('['):
        self.take(); k = self.expr(); self.take('op', ']'); e = ('index', e, k)
      elif self.at('('):
        self.take(); args = []
        while not self.at(')'):
          args.append(self.expr())
          if not self.at(')'):
            self.take('op', ',')
        self.take(); e = ('call', e, args)
      elif self.at('as'):
        self.take(); self.take('name'); e = ('as', e)
      else:
        return e

  def primary(self):
    k, v = self.peek()
    if k == 'num':
      self.take(); return ('num', int(v))
    if k == 'str':
      self.take(); return ('str', v[1:-1])
    if k == 'name' and v not in ('if', 'const', 'return', 'as', 'function', 'export', 'else'):
      self.take(); return ('name', v)
    if self.at('('):
      self.take(); e = self.expr(); self.take('op', ')'); return e
    raise Untranslatable('unexpected token %r' % ((k, v),))


# ---------------------------------------------------------------------------------------------
# typed translation to Gallina

COQ_TYPE = {'str': 'list Z', 'int': 'Z', 'bool': 'bool', 'lit': 'ts_lit', 'prop': 'js_prop (ts_lit * ts_lit)',
            'table': 'list (list Z * (ts_lit * ts_lit))'}
RESERVED = {'type', 'at', 'in', 'as', 'fun', 'let', 'match', 'end', 'with', 'if', 'then', 'else', 'return', 'fix', 'str'}


def ident(n):
  n = n.replace('$', '_dollar_')
  return n + '_' if n in RESERVED else n


class Tr(object):
  def __init__(self, globals_, funcs):
    self.globals, self.funcs, self.env, self.opts = globals_, funcs, {}, {}

  def expr(self, e):
    """-> (coq term, type)"""
    k = e[0]
    if k == 'num':
      return '(%d)%%Z' % e[1], 'int'
    if k == 'str':
      return coq_str(e[1]), 'str'
    if k == 'name':
      if e[1] in self.env:
        return ident(e[1]), self.env[e[1]]
      if e[1] in self.globals:
        return ident(e[1]), self.globals[e[1]]
      raise Untranslatable('unbound name %s' % e[1])
    if k == 'as':
      return self.expr(e[1])                       # a type assertion has no run-time effect
    if k == 'not':
      t, ty = self.expr(e[1])
      if ty == 'str':
        return '(JsPrelude.js_not_str %s)' % t, 'bool'
      if ty == 'bool':
        return '(negb %s)' % t, 'bool'
      raise Untranslatable('! on ' + ty)
    if k == 'eq':
      (a, ta), (b, tb) = self.expr(e[1]), self.expr(e[2])
      if ta == tb == 'int':
        return '(Z.eqb %s %s)' % (a, b), 'bool'
      raise Untranslatable('=== on %s, %s' % (ta, tb))
    if k == 'cond':
      (c, tc), (a, ta), (b, tb) = self.expr(e[1]), self.expr(e[2]), self.expr(e[3])
      if tc != 'bool' or ta != tb:
        raise Untranslatable('?: on %s ? %s : %s' % (tc, ta, tb))
      return '(if %s then %s else %s)' % (c, a, b), ta
    if k == 'or':
      (a, ta), (b, tb) = self.expr(e[1]), self.expr(e[2])
      if ta == tb == 'prop':
        return '(JsPrelude.js_prop_or %s %s)' % (a, b), 'prop'
      raise Untranslatable('|| on %s, %s' % (ta, tb))
    if k == 'member':
      if e[1][0] == 'name' and e[1][1] in self.opts and e[1][1] not in self.env:
        if self.opts[e[1][1]] != e[2]:
          raise Untranslatable('unknown option field %s' % e[2])
        return '%s_%s' % (ident(e[1][1]), e[2]), 'bool'     # an absent (undefined) field is falsy: false
      o, to = self.expr(e[1])
      if to == 'table':
        return '(JsPrelude.js_obj_get %s %s)' % (o, coq_str(e[2])), 'prop'
      raise Untranslatable('.%s on %s' % (e[2], to))
    if k == 'index':
      (o, to), (i, ti) = self.expr(e[1]), self.expr(e[2])
      if to == 'table' and ti == 'str':
        return '(JsPrelude.js_obj_get %s %s)' % (o, i), 'prop'
      if to == 'prop' and ti == 'int':
        return '(JsSchema.js_pair_index %s %s)' % (o, i), 'lit'
      raise Untranslatable('%s[%s]' % (to, ti))
    if k == 'call':
      f, args = e[1], e[2]
      if f[0] == 'name' and f[1] in self.funcs and f[1] not in self.env:
        argt, rt = self.funcs[f[1]]
        terms = [self.expr(a) for a in args]
        if [t for _, t in terms] != argt:
          raise Untranslatable('call of %s with %r' % (f[1], [t for _, t in terms]))
        return '(%s %s)' % (ident(f[1]), ' '.join(x for x, _ in terms)), rt
      if f[0] == 'member':
        o, to = self.expr(f[1])
        if to == 'str' and f[2] == 'indexOf' and len(args) == 1 and args[0][0] == 'str' and len(args[0][1]) == 1:
          return '(JsPrelude.js_index_of %d %s)' % (ord(args[0][1]), o), 'int'
        if to == 'str' and f[2] == 'slice' and len(args) == 2 and args[0] == ('num', 0):
          n, tn = self.expr(args[1])
          if tn == 'int':
            return '(JsPrelude.js_slice0 %s %s)' % (n, o), 'str'
      raise Untranslatable('call outside the subset: %r' % (f,))
    raise Untranslatable('expression %r' % (k,))

  def block(self, stmts):
    if not stmts:
      raise Untranslatable('function falls off its end (returns undefined)')
    st = stmts[0]
    if st[0] == 'ret':
      if len(stmts) != 1:
        raise Untranslatable('statements after return')
      return self.expr(st[1])
    if st[0] == 'ifret':
      (c, tc), (a, ta) = self.expr(st[1]), self.expr(st[2])
      b, tb = self.block(stmts[1:])
      if tc != 'bool' or ta != tb:
        raise Untranslatable('if/return of %s, %s vs %s' % (tc, ta, tb))
      return '(if %s then %s else\n  %s)' % (c, a, b), ta
    if st[0] == 'const':
      if st[1] in self.env or st[1] in self.globals or st[1] in self.funcs:
        raise Untranslatable('const %s shadows another name' % st[1])
      t, ty = self.expr(st[2])
      self.env[st[1]] = ty
      b, tb = self.block(stmts[1:])
      return 'let %s := %s in\n  %s' % (ident(st[1]), t, b), tb
    raise Untranslatable('statement %r' % (st[0],))


HEADER = ('(* GENERATED by harness/ts2v.py from app/common/gristTypes.ts on every run -- do not edit *)\n'
          'From Coq Require Import String ZArith List Bool.\nImport ListNotations.\n'
          'Require Import Grist.Lib.JsPrelude Grist.Model.JsSchema.\nOpen Scope Z_scope.\n\n')


def translate(text, names=('extractTypeFromColType', 'getDefaultForType'), table='_defaultValues'):
  # the table is declared once (const) and mentioned nowhere but in its declaration and in getDefaultForType
  funcs, out = {}, []
  spans = {}
  for name in names:
    starts = [m.start() for m in re.finditer(r'^export function %s\(' % re.escape(name), text, re.M)]
    if len(starts) != 1 or len(re.findall(r'\bfunction\s+%s\b' % re.escape(name), text)) != 1:
      raise Untranslatable('%s is not declared exactly once' % name)
    toks = tokenize(text, starts[0])
    fname, params, body = Parser(toks).function()
    tr = Tr({table: 'table'}, funcs)
    binders = ['(%s : %s)' % (ident(table), COQ_TYPE['table'])]
    argt = []
    for p, ty, field in params:
      if ty == 'opts':
        tr.opts[p] = field
        binders.append('(%s_%s : bool)' % (ident(p), field))
      else:
        tr.env[p] = ty
        argt.append(ty)
        binders.append('(%s : %s)' % (ident(p), COQ_TYPE[ty]))
    term, rt = tr.block(body)
    uses_table = any(t == ('name', table) for t in toks)
    if not uses_table:
      binders = binders[1:]
      funcs[name] = (argt, rt)       # callable from later functions (no table / options arguments)
    spans[name] = uses_table
    out.append('Definition %s %s : %s :=\n  %s.\n' % (ident(name), ' '.join(binders), COQ_TYPE[rt], term))
  n_uses = len(re.findall(r'(?<![A-Za-z0-9_$])%s(?![A-Za-z0-9_$])' % re.escape(table), text))
  inside = sum(1 for name in names for t in tokenize(text, re.search(r'^export function %s\(' % name, text, re.M).start())
               if t == ('name', table))
  if n_uses != inside + 1:
    raise Untranslatable('%s is mentioned %d times outside its declaration and the translated functions'
                         % (table, n_uses - inside - 1))
  return HEADER + '\n'.join(out)
