"""
mc2v -- the tie of the C09 model (coq/theories/Model/MetaCascade.v) to the source it was written from.

1. PINS: every function the hand-written model follows is pinned by a hash of its AST that ignores comments,
   docstrings and the names of local variables/parameters (harness/mc_pins.json).  A changed function makes
   the check fail closed (core.TieBroken) until somebody has looked at the change and recomputed the pins:
       PYTHONPATH=/verif /venv/bin/python -m harness.mc2v --update      (against $VERIF_REPO, default /repo)
       PYTHONPATH=/verif /venv/bin/python -m harness.mc2v               (lists pins that differ)
2. The small deciding pieces are regenerated as Gallina on every run (harness/mc2v_gen.py -> coq/gen/
   MetaCascade_gen.v) and bridged to the model by lemmas (Proofs/MetaCascade_bridge.v).
"""
import ast
import hashlib
import json
import os
import sys

from harness import core

PINS_FILE = os.path.join(core.VERIF, 'harness', 'mc_pins.json')

# file -> qualified names ("Class.method", "function", "class:Name" pins a whole class body)
PINNED = {
  'useractions.py': [
    'UserActions.doBulkRemoveRecord', 'UserActions.BulkRemoveRecord', 'UserActions.RemoveRecord',
    'UserActions._removeTableRecords', 'UserActions._convert_reference_col_for_deleted_table',
    'UserActions._removeColumnRecords', 'UserActions.doRemoveColumns', 'UserActions._removeViewRecords',
    'UserActions._removePageRecords', 'UserActions._removeViewSectionRecords',
    'UserActions._doRemoveViewSectionRecords', 'UserActions._removeViewSectionFieldRecords',
    'UserActions.AddColumn', 'UserActions.AddHiddenColumn', 'UserActions.AddVisibleColumn', 'UserActions.doAddColumn',
    'UserActions._pick_col_name', 'UserActions.RemoveColumn', 'UserActions.RenameColumn', 'UserActions.ModifyColumn',
    'UserActions.SetDisplayFormula', 'UserActions._add_or_update_helper_col', 'UserActions.AddEmptyRule',
    'UserActions.doAddRule', 'UserActions.maybe_copy_display_formula', 'UserActions.CopyFromColumn',
    'UserActions.AddEmptyTable', 'UserActions.AddTable', 'UserActions.AddRawTable', 'UserActions.doAddTable',
    'UserActions.RemoveTable', 'UserActions.RenameTable', 'UserActions._fetch_table_col_recs',
    'UserActions.CreateViewSection', 'UserActions.create_plain_view_section',
    'UserActions._create_record_card_view_section', 'UserActions.UpdateSummaryViewSection',
    'UserActions.DetachSummaryViewSection', 'UserActions.AddView', 'UserActions.doAddView', 'UserActions.RemoveView',
    'UserActions.AddViewSection', 'UserActions.RemoveViewSection', 'UserActions._RebuildViewFields',
    'UserActions._copy_record_card_settings', 'UserActions._updateTableRecords', 'UserActions._updateColumnRecords',
    'UserActions._adjust_one_column_update', 'UserActions._get_sister_columns', 'UserActions._updateViewSections',
    'UserActions._updateViewSectionFields', 'UserActions.doBulkUpdateRecord', 'UserActions._BulkUpdateRecord_decoded',
    'UserActions._collect_back_references', 'UserActions._bulk_action_iter', 'UserActions.InitNewDoc',
    'allowed_summary_change', '_is_transform_col', 'is_hidden_table',
  ],
  'summary.py': [
    'SummaryActions._get_or_add_columns', 'SummaryActions._get_or_create_summary',
    'SummaryActions.update_summary_section', 'SummaryActions._find_sister_column',
    'SummaryActions._append_sister_column_if_any', 'SummaryActions._create_summary_colinfo',
    'SummaryActions.create_new_summary_section', 'SummaryActions.detach_summary_section',
    'encode_summary_table_name', 'summary_groupby_col_type', 'skip_rules_update', 'make_col_info',
  ],
  'docmodel.py': [
    'class:MetaTableExtras', '_record_set', '_record_ref_list_set', '_record_inverse',
    'DocModel.setAutoRemove', 'DocModel.apply_auto_removes', 'DocModel.remove', 'DocModel.update', 'DocModel.add',
    'DocModel.insert', 'DocModel.insert_after', 'DocModel.get_table_rec', 'DocModel.get_column_rec',
  ],
  'engine.py': ['Engine.apply_user_actions'],
  'column.py': ['is_visible_column'],
  'table.py': ['Table.next_row_id'],
  'usertypes.py': ['is_compatible_ref_type'],
}


def parse(grist_dir, fname):
  with open(os.path.join(grist_dir, fname)) as f:
    return ast.parse(f.read())


def find_def(tree, qual):
  """The FunctionDef/ClassDef named by "Class.method", "function" or "class:Name" (None if absent)."""
  if qual.startswith('class:'):
    want = qual[6:]
    for n in tree.body:
      if isinstance(n, ast.ClassDef) and n.name == want:
        return n
    return None
  parts = qual.split('.')
  body = tree.body
  node = None
  for p in parts:
    node = None
    for n in body:
      if isinstance(n, (ast.FunctionDef, ast.ClassDef)) and n.name == p:
        node = n
        break
    if node is None:
      return None
    body = node.body
  return node


def normal_dump(node):
  """ast.dump of a definition without docstrings and with parameters and assigned local names numbered in order
  of appearance: comments, docstrings and renamings of locals do not change it; any other edit does."""
  node = ast.parse(ast.unparse(node))
  names = {}
  for n in ast.walk(node):
    if isinstance(n, (ast.FunctionDef, ast.ClassDef, ast.Module)):
      if n.body and isinstance(n.body[0], ast.Expr) and isinstance(n.body[0].value, ast.Constant) \
         and isinstance(n.body[0].value.value, str):
        n.body = n.body[1:] or [ast.Pass()]
  for n in ast.walk(node):
    if isinstance(n, ast.FunctionDef):
      for a in n.args.args + n.args.kwonlyargs:
        if a.arg != 'self':
          names.setdefault(a.arg, 'v%d' % len(names))
    elif isinstance(n, ast.Name) and isinstance(n.ctx, ast.Store):
      names.setdefault(n.id, 'v%d' % len(names))
    elif isinstance(n, ast.comprehension):
      for t in ast.walk(n.target):
        if isinstance(t, ast.Name):
          names.setdefault(t.id, 'v%d' % len(names))
  kw = set()
  for n in ast.walk(node):
    if isinstance(n, ast.keyword) and n.arg:
      kw.add(n.arg)                      # keyword arguments name parameters of OTHER functions: keep
  for n in ast.walk(node):
    if isinstance(n, ast.Name) and n.id in names:
      n.id = names[n.id]
    elif isinstance(n, ast.arg) and n.arg in names:
      n.arg = names[n.arg]
  return ast.dump(node)


def pin_hash(node):
  return hashlib.sha1(normal_dump(node).encode('utf8')).hexdigest()[:16]


def compute_pins(grist_dir):
  out = {}
  for fname, quals in sorted(PINNED.items()):
    tree = parse(grist_dir, fname)
    for q in quals:
      node = find_def(tree, q)
      out['%s:%s' % (fname, q)] = pin_hash(node) if node is not None else 'MISSING'
  return out


def load_pins():
  with open(PINS_FILE) as f:
    return json.load(f)


def differing(grist_dir):
  found = compute_pins(grist_dir)
  pins = load_pins() if os.path.exists(PINS_FILE) else {}
  return [k for k in sorted(set(pins) | set(found)) if pins.get(k) != found.get(k)], found


def check_pins(grist_dir):
  """Fail closed: raises core.TieBroken naming the functions whose code is not the code the model was written from."""
  bad, found = differing(grist_dir)
  if bad:
    raise core.TieBroken('source of the modelled cascades changed since the model was written '
                         '(harness/mc_pins.json; python -m harness.mc2v): ' + ', '.join(bad))
  return len(found)


def main(argv):
  grist_dir = core.GRIST
  if '--update' in argv:
    found = compute_pins(grist_dir)
    with open(PINS_FILE, 'w') as f:
      json.dump(found, f, indent=1, sort_keys=True)
    print('%d pins written to %s (from %s)' % (len(found), PINS_FILE, grist_dir))
    missing = [k for k, v in found.items() if v == 'MISSING']
    if missing:
      print('MISSING:', ', '.join(missing))
    return 0
  bad, found = differing(grist_dir)
  for k in bad:
    print('DIFFERS', k)
  print('%d pins, %d differ (%s)' % (len(found), len(bad), grist_dir))
  return 1 if bad else 0


if __name__ == '__main__':
  sys.exit(main(sys.argv[1:]))
