"""
Shared by the checks of C40 and C17 (predicate formulas): generators of formula text, the map from CPython `ast`
trees to the Coq type Grist.Model.Predicate.expr, encoders of Python values as Coq terms, and a harness-side
evaluator of parse trees (the documented node semantics) for the implementation-side oracle.

The implementation is imported from core.GRIST (the tree being checked).
"""
import ast
import io
import json
import math
import os
import re
import struct
import tokenize
import types

from harness import core

core.setup_impl_path()

# ---------------------------------------------------------------------------------------------
# The tie between the converter's visit_* methods and the model's constructors.

# ast class handled by a visit_* method -> constructor of Grist.Model.Predicate.expr
MODEL_CTORS = {
  'BoolOp': 'EBoolOp', 'BinOp': 'EBinOp', 'UnaryOp': 'EUnaryOp', 'Compare': 'ECompare', 'Name': 'EName',
  'Constant': 'EConstant', 'Attribute': 'EAttribute', 'List': 'EList', 'Tuple': 'ETuple', 'Call': 'ECall',
}
# visit methods that are not expression constructors of the model:
#   Expression  -- the root wrapper (the harness passes node.body),
#   NameConstant/Num/Str -- aliases kept for Python < 3.8; the parser of the running interpreter yields Constant only
#   (checked below: these classes are never produced).
OTHER_VISITS = {'Expression', 'NameConstant', 'Num', 'Str'}
ARITH = {'Add': 'AAdd', 'Sub': 'ASub', 'Mult': 'AMult', 'Div': 'ADiv', 'Mod': 'AMod'}
CMPOPS = ['Eq', 'NotEq', 'Lt', 'LtE', 'Gt', 'GtE', 'Is', 'IsNot', 'In', 'NotIn']


def visit_methods(cls, own_only=False):
  names = set()
  classes = [cls] if own_only else [c for c in cls.__mro__ if c.__module__ != 'ast' and c is not object]
  for c in classes:
    for k in vars(c):
      if k.startswith('visit_'):
        names.add(k[len('visit_'):])
  return names


def model_constructors():
  """Constructor names of `Inductive expr` read from the model file itself."""
  with open(os.path.join(core.COQ, 'theories', 'Model', 'Predicate.v')) as f:
    text = f.read()
  m = re.search(r'Inductive expr :=(.*?)\.\s*\n\s*\n', text, re.S)
  if not m:
    raise core.TieBroken('cannot find Inductive expr in Model/Predicate.v')
  return set(re.findall(r'^\|\s*(E[A-Za-z]+)', m.group(1), re.M))


def check_visit_tie():
  """Raises TieBroken when the set of visit_* methods is not the set the model was written for."""
  import predicate_formula
  have = visit_methods(predicate_formula.TreeConverter)
  want = set(MODEL_CTORS) | OTHER_VISITS
  if have != want:
    raise core.TieBroken('TreeConverter visit_* methods changed: new %s, missing %s (model constructors cover %s)'
                         % (sorted(have - want), sorted(want - have), sorted(MODEL_CTORS)))
  ctors = model_constructors()
  if ctors != set(MODEL_CTORS.values()) | {'EUnsupported'}:
    raise core.TieBroken('constructors of Model/Predicate.v expr %s do not match the harness map %s'
                         % (sorted(ctors), sorted(MODEL_CTORS.values())))
  if not hasattr(predicate_formula.TreeConverter, 'generic_visit') or \
     'generic_visit' not in vars(predicate_formula.TreeConverter):
    raise core.TieBroken('TreeConverter.generic_visit is no longer overridden')
  if set(c.__name__ for c in ast.cmpop.__subclasses__()) != set(CMPOPS):
    raise core.TieBroken('ast.cmpop classes changed: %s' % sorted(c.__name__ for c in ast.cmpop.__subclasses__()))
  if set(c.__name__ for c in ast.boolop.__subclasses__()) != {'And', 'Or'}:
    raise core.TieBroken('ast.boolop classes changed')
  return sorted(have)


def check_collector_tie():
  """The three collectors override visit_Attribute only (and __init__)."""
  import acl
  import dropdown_condition
  import trigger_expression
  import predicate_formula
  out = {}
  for name, cls in (('acl._ACLEntityCollector', acl._ACLEntityCollector),
                    ('dropdown_condition._DCEntityCollector', dropdown_condition._DCEntityCollector),
                    ('trigger_expression._TriggerEntityCollector', trigger_expression._TriggerEntityCollector)):
    if predicate_formula.TreeConverter not in cls.__mro__:
      raise core.TieBroken('%s is no longer a TreeConverter' % name)
    own = visit_methods(cls, own_only=True)
    if own != {'Attribute'}:
      raise core.TieBroken('%s overrides %s (model: visit_Attribute only)' % (name, sorted(own)))
    extra = set(k for k in vars(cls) if not k.startswith('__')) - {'visit_Attribute'}
    if extra:
      raise core.TieBroken('%s has new members %s' % (name, sorted(extra)))
    out[name] = sorted(own)
  return out


# ---------------------------------------------------------------------------------------------
# Python values -> Coq terms

Z = core.zlit


def S(s):
  """A Python str as a Coq term of type str (list Z of code points); printable ASCII is written compactly."""
  if all(32 <= ord(c) <= 126 for c in s):
    return '(lit "%s"%%string)' % s.replace('"', '""')
  return core.strlit(s)


def coq_str(s):
  """A Python str as a Coq `string` literal (printable ASCII only)."""
  assert all(32 <= ord(c) <= 126 for c in s), s
  return '"%s"%%string' % s.replace('"', '""')


def float_bits(x):
  return struct.unpack('>Q', struct.pack('>d', x))[0]


def coq_const(v):
  if v is None:
    return 'CNone'
  if v is True or v is False:
    return '(CBool %s)' % core.boollit(v)
  if isinstance(v, int):
    return '(CInt %s)' % Z(v)
  if isinstance(v, float):
    return '(CFloat %s)' % Z(float_bits(v))
  if isinstance(v, str):
    return '(CStr %s)' % S(v)
  if isinstance(v, bytes):
    return '(CBytes %s)' % core.zlist(list(v))
  if isinstance(v, complex):
    if v.real != 0.0 or math.copysign(1.0, v.real) < 0:
      raise core.TieBroken('complex constant with a real part: %r' % (v,))
    return '(CComplex %s)' % Z(float_bits(v.imag))
  if v is Ellipsis:
    return 'CEllipsis'
  raise core.TieBroken('constant of a type the model does not know: %r' % (type(v),))


class Unmappable(Exception):
  pass


def coq_expr(n, apos=None):
  """ast expression node -> Coq term of type expr.  `apos(node)` gives node.last_token.startpos of an Attribute."""
  if not isinstance(n, ast.expr):
    raise Unmappable('not an expression node: %r' % (n,))
  p = '(%s, %s)' % (Z(n.lineno), Z(n.col_offset))
  cls = type(n).__name__
  rec = lambda x: coq_expr(x, apos)
  if cls not in MODEL_CTORS:
    return '(EUnsupported %s %s)' % (p, S(cls))
  if cls == 'BoolOp':
    return '(EBoolOp %s %s %s)' % (p, {'And': 'BAnd', 'Or': 'BOr'}[type(n.op).__name__], core.coq_list([rec(v) for v in n.values]))
  if cls == 'BinOp':
    o = type(n.op).__name__
    op = '(BArith %s)' % ARITH[o] if o in ARITH else '(BOther %s)' % S(o)
    return '(EBinOp %s %s %s %s)' % (p, op, rec(n.left), rec(n.right))
  if cls == 'UnaryOp':
    o = type(n.op).__name__
    op = 'UNot' if o == 'Not' else '(UOther %s)' % S(o)
    return '(EUnaryOp %s %s %s)' % (p, op, rec(n.operand))
  if cls == 'Compare':
    return '(ECompare %s %s %s %s)' % (p, rec(n.left), core.coq_list(['Op' + type(o).__name__ for o in n.ops]),
                                      core.coq_list([rec(c) for c in n.comparators]))
  if cls == 'Name':
    return '(EName %s %s)' % (p, S(n.id))
  if cls == 'Constant':
    return '(EConstant %s %s)' % (p, coq_const(n.value))
  if cls == 'Attribute':
    return '(EAttribute %s %s %s %s)' % (p, rec(n.value), S(n.attr), Z(apos(n) if apos else 0))
  if cls in ('List', 'Tuple'):
    return '(E%s %s %s)' % (cls, p, core.coq_list([rec(e) for e in n.elts]))
  if cls == 'Call':
    kws = ['(%s, %s)' % (core.optlit(k.arg, S), rec(k.value)) for k in n.keywords]
    return '(ECall %s %s %s %s)' % (p, rec(n.func), core.coq_list([rec(a) for a in n.args]), core.coq_list(kws))
  raise Unmappable(cls)


def coq_pyval(t):
  """What parse_predicate_formula returned (nested lists) -> Coq term of type pyval."""
  if isinstance(t, list):
    return '(PList %s)' % core.coq_list([coq_pyval(x) for x in t])
  if isinstance(t, tuple):
    raise core.TieBroken('the tree contains a tuple: %r' % (t,))
  return '(PLeaf %s)' % coq_const(t)


ERR_UNSUPPORTED = re.compile(r'^Unsupported syntax at (\d+):(-?\d+) on line None col None$')
ERR_CHAINED = "Can't use chained comparisons on line None col None"


def classify_syntax_error(e):
  msg = e.args[0] if e.args else ''
  m = ERR_UNSUPPORTED.match(msg) if isinstance(msg, str) else None
  if m:
    return ('unsupported', int(m.group(1)), int(m.group(2)) - 1)
  if msg == ERR_CHAINED:
    return ('chained',)
  return ('parser', msg)


def coq_err(c):
  if c[0] == 'unsupported':
    return '(ErrUnsupported (%s, %s))' % (Z(c[1]), Z(c[2]))
  if c[0] == 'chained':
    return 'ErrChained'
  return 'ErrParser'


# ---------------------------------------------------------------------------------------------
# Oracles: what the parser and the tokenizer say about a formula text

def undollar(formula):
  """Text after codebuilder.get_dollar_replacer, or None when that raises SyntaxError."""
  import codebuilder
  try:
    return codebuilder.get_dollar_replacer(formula).get_text()
  except SyntaxError:
    return None


def parse_oracle(text):
  """(ast body | None, COMMENT token strings) for the $-free text."""
  try:
    tree = ast.parse(text, mode='eval')
  except SyntaxError:
    return None, []
  comments = []
  parse_oracle.tokens = []          # all tokens of the last call: (type == COMMENT, string)
  try:
    for tok in tokenize.generate_tokens(io.StringIO(text).readline):
      parse_oracle.tokens.append((tok[0] == tokenize.COMMENT, tok[1]))
      if tok[0] == tokenize.COMMENT:
        comments.append(tok[1])
  except (tokenize.TokenError, SyntaxError, ValueError):
    pass
  return tree.body, comments


def attr_positions(text, tree_body):
  """node -> node.last_token.startpos as predicate_formula.process_renames sees it (asttokens)."""
  import asttokens
  wrapper = ast.Expression(body=tree_body)
  atok = asttokens.ASTTokens(text, tree=wrapper)
  return lambda n: n.last_token.startpos


# ---------------------------------------------------------------------------------------------
# The documented subset, harness side (compared with Model.Predicate.supported / in_subset on every case)

def const_plain(v):
  if v is None or isinstance(v, (bool, int, str)):
    return True
  return isinstance(v, float) and math.isfinite(v)


def unsupported_reasons(n):
  """Set of reasons why the expression is outside the documented subset (empty = supported)."""
  out = set()

  def go(n):
    cls = type(n).__name__
    if cls not in MODEL_CTORS:
      out.add('node:' + cls)
      return
    if cls == 'BinOp' and type(n.op).__name__ not in ARITH:
      out.add('binop:' + type(n.op).__name__)
    if cls == 'UnaryOp' and type(n.op).__name__ != 'Not':
      out.add('unaryop:' + type(n.op).__name__)
    if cls == 'Compare' and (len(n.ops) != 1 or len(n.comparators) != 1):
      out.add('chained')
    if cls == 'Constant' and not const_plain(n.value):
      out.add('const')
    if cls == 'Call' and any(k.arg is None for k in n.keywords):
      out.add('kwsplat')
    for c in ast.iter_child_nodes(n):
      if isinstance(c, ast.expr):
        go(c)
      elif isinstance(c, ast.keyword):
        go(c.value)
  go(n)
  return out


def in_eval_subset(n, top=True):
  """Mirror of Model.Predicate.in_subset."""
  cls = type(n).__name__
  if cls == 'BoolOp':
    return len(n.values) >= 2 and all(in_eval_subset(v) for v in n.values)
  if cls == 'BinOp':
    return type(n.op).__name__ in ARITH and in_eval_subset(n.left) and in_eval_subset(n.right)
  if cls == 'UnaryOp':
    return type(n.op).__name__ == 'Not' and in_eval_subset(n.operand)
  if cls == 'Compare':
    if len(n.ops) != 1 or len(n.comparators) != 1:
      return False
    c = n.comparators[0]
    if isinstance(c, ast.Tuple):
      right = type(n.ops[0]).__name__ in ('In', 'NotIn') and all(in_eval_subset(e) for e in c.elts)
    else:
      right = in_eval_subset(c)
    return in_eval_subset(n.left) and right
  if cls == 'Name':
    return n.id not in ('True', 'False', 'None', '__debug__')
  if cls == 'Constant':
    return const_plain(n.value)
  if cls == 'Attribute':
    return in_eval_subset(n.value)
  if cls == 'List':
    return all(in_eval_subset(e) for e in n.elts)
  if cls == 'Call':
    names = [k.arg for k in n.keywords]
    return in_eval_subset(n.func) and all(in_eval_subset(a) for a in n.args) and len(set(names)) == len(names) and \
        all(k.arg is not None and in_eval_subset(k.value) for k in n.keywords)
  return False


# ---------------------------------------------------------------------------------------------
# Evaluating a parse tree with the documented node semantics (harness side, for the oracle on the implementation)

class TreeEvalError(Exception):
  """The tree is not of the documented form."""


_BIN = {'Add': lambda a, b: a + b, 'Sub': lambda a, b: a - b, 'Mult': lambda a, b: a * b,
        'Div': lambda a, b: a / b, 'Mod': lambda a, b: a % b}
_CMP = {'Eq': lambda a, b: a == b, 'NotEq': lambda a, b: a != b, 'Lt': lambda a, b: a < b, 'LtE': lambda a, b: a <= b,
        'Gt': lambda a, b: a > b, 'GtE': lambda a, b: a >= b, 'Is': lambda a, b: a is b,
        'IsNot': lambda a, b: a is not b, 'In': lambda a, b: a in b, 'NotIn': lambda a, b: a not in b}


def tree_eval(t, env):
  if not isinstance(t, list) or not t or not isinstance(t[0], str):
    raise TreeEvalError('not a node: %r' % (t,))
  k, args = t[0], t[1:]
  ev = lambda x: tree_eval(x, env)
  if k in ('And', 'Or'):
    if not args:
      raise TreeEvalError('empty ' + k)
    v = None
    for i, a in enumerate(args):
      v = ev(a)
      if i < len(args) - 1 and (bool(v) if k == 'Or' else not bool(v)):
        return v
    return v
  if k in _BIN and len(args) == 2:
    a = ev(args[0])
    b = ev(args[1])
    return _BIN[k](a, b)
  if k == 'Not' and len(args) == 1:
    return not ev(args[0])
  if k in _CMP and len(args) == 2:
    a = ev(args[0])
    b = ev(args[1])
    return _CMP[k](a, b)
  if k == 'List':
    return [ev(a) for a in args]
  if k == 'Const' and len(args) == 1:
    if not const_plain(args[0]):
      raise TreeEvalError('Const holds %r' % (args[0],))
    return args[0]
  if k == 'Name' and len(args) == 1 and isinstance(args[0], str):
    if args[0] not in env:
      raise NameError(args[0])
    return env[args[0]]
  if k == 'Attr' and len(args) == 2 and isinstance(args[1], str):
    return getattr(ev(args[0]), args[1])
  if k == 'Comment' and len(args) == 2 and isinstance(args[1], str):
    return ev(args[0])
  if k == 'Call' and args:
    f = ev(args[0])
    rest = args[1:]
    kws = []
    if rest and isinstance(rest[-1], list) and rest[-1] and rest[-1][0] == 'keywords':
      kws = rest[-1][1:]
      rest = rest[:-1]
    pos = [ev(a) for a in rest]
    kw = {}
    for item in kws:
      if not (isinstance(item, list) and len(item) == 2 and isinstance(item[0], str)):
        raise TreeEvalError('keyword %r' % (item,))
      kw[item[0]] = ev(item[1])
    return f(*pos, **kw)
  raise TreeEvalError('unknown node %r' % (k,))


def outcome(fn):
  """('val', canonical value) or ('exc', class name).  Values are compared structurally with their types."""
  try:
    v = fn()
  except TreeEvalError:
    raise
  except RecursionError:
    raise
  except Exception as e:    # pylint: disable=broad-except
    return ('exc', type(e).__name__)
  return ('val', canon_value(v))


def canon_value(v):
  if v is None or isinstance(v, (bool, str)):
    return (type(v).__name__, v)
  if isinstance(v, int):
    return ('int', v)
  if isinstance(v, float):
    return ('float', v.hex())
  if isinstance(v, (list, tuple)):
    return (type(v).__name__, tuple(canon_value(x) for x in v))
  if isinstance(v, types.SimpleNamespace):
    return ('obj', id(v))
  if callable(v):
    return ('callable', getattr(v, '__name__', '?'))
  return ('other', repr(v))


# ---------------------------------------------------------------------------------------------
# Environments for evaluation (Python objects and their Coq counterpart Model.Predicate.cval)

def make_fn(name):
  def fn(*a, **k):
    return [name, list(a), [[n, v] for n, v in k.items()]]
  fn.__name__ = name
  return fn


def gen_atom(rng):
  r = rng.random()
  if r < 0.25:
    return rng.choice([0, 1, 2, 3, -1, 7, 10, 100])
  if r < 0.5:
    return rng.choice(['', 'a', 'ab', 'Seattle', 'x@', 'owners', 'A'])
  if r < 0.6:
    return rng.choice([True, False])
  if r < 0.7:
    return None
  if r < 0.85:
    return [gen_atom(rng) for _ in range(rng.randint(0, 3))]
  return rng.choice([5, 'b', 1])


ATTRS = ['A', 'B', 'AA', 'Name', 'Email', 'office', 'Access', 'city', 'x', 'y']
ENV_NAMES = ['rec', 'newRec', 'oldRec', 'user', 'choice', 'r', 'n', 'a', 'b', 'x']
FUNCS = ['f', 'g', 'func']


def gen_env(rng, body=None):
  """A random environment; with `body`, only for the names and attributes the expression mentions (plus a few)."""
  names, attrs = list(ENV_NAMES), list(ATTRS)
  if body is not None:
    used = [n.id for n in ast.walk(body) if isinstance(n, ast.Name)]
    names = sorted(set(n for n in used if n not in FUNCS)) + [rng.choice(ENV_NAMES)]
    attrs = sorted(set(n.attr for n in ast.walk(body) if isinstance(n, ast.Attribute))) + [rng.choice(ATTRS)]
  env = {}
  for name in names:
    if rng.random() < 0.1:
      continue           # NameError
    if rng.random() < (0.85 if name in ('rec', 'newRec', 'oldRec', 'user', 'choice', 'r', 'n') else 0.3):
      obj = {}
      for a in attrs:
        if rng.random() < 0.85:
          if rng.random() < 0.25:
            obj[a] = types.SimpleNamespace(**{b: gen_atom(rng) for b in attrs if rng.random() < 0.8})
          else:
            obj[a] = gen_atom(rng)
      env[name] = types.SimpleNamespace(**obj)
    else:
      env[name] = gen_atom(rng)
  for f in FUNCS:
    if body is None or any(isinstance(n, ast.Name) and n.id == f for n in ast.walk(body)):
      env[f] = make_fn(f)
  return env


def coq_cval(v):
  if v is None:
    return 'VNone'
  if isinstance(v, bool):
    return '(VBool %s)' % core.boollit(v)
  if isinstance(v, int):
    return '(VInt %s)' % Z(v)
  if isinstance(v, str):
    return '(VStr %s)' % S(v)
  if isinstance(v, list):
    return '(VList %s)' % core.coq_list([coq_cval(x) for x in v])
  if isinstance(v, tuple):
    return '(VTuple %s)' % core.coq_list([coq_cval(x) for x in v])
  if isinstance(v, types.SimpleNamespace):
    return '(VObj %s)' % core.coq_list(['(%s, %s)' % (S(k), coq_cval(x)) for k, x in sorted(vars(v).items())])
  if callable(v) and getattr(v, '__name__', None) in FUNCS:
    return '(VFunc %s)' % S(v.__name__)
  raise Unmappable('value %r' % (v,))


def coq_env(env):
  return core.coq_list(['(%s, %s)' % (S(k), coq_cval(v)) for k, v in sorted(env.items())])


COQ_EXC = {'TypeError', 'ZeroDivisionError', 'AttributeError', 'NameError'}


def coq_cout(fn):
  """Run fn() in Python; its outcome as a Coq term of type cout, or None when it cannot be expressed."""
  try:
    v = fn()
  except RecursionError:
    return None
  except Exception as e:    # pylint: disable=broad-except
    n = type(e).__name__
    return ('(Raise %s : cout)' % n) if n in COQ_EXC else None
  try:
    return '(Val %s : cout)' % coq_cval(v)
  except Unmappable:
    return None


# ---------------------------------------------------------------------------------------------
# Formula text generators

IDENT_ATTRS = ['A', 'B', 'AA', 'Name', 'Email', 'office', 'Access', 'city', 'x', 'y', 'lower', 'upper', 'rec', 'choice',
               'user', 'Cust', 'School']


# Placeholder for a `$` that stands for `rec.`: the generators emit it, finish() gives the formula and the same
# formula spelled with `rec.` (literal `$` inside strings and comments stays as it is in both).
DOLLAR = '\x01'


def finish(raw):
  return raw.replace(DOLLAR, '$'), raw.replace(DOLLAR, 'rec.')


class Gen(object):
  """Random predicate formulas as TEXT (so positions, parentheses, blanks, comments and `$` are real)."""

  def __init__(self, rng, cols=None, unicode_ok=True, user_attrs=None):
    self.rng = rng
    self.user_attrs = user_attrs or []
    self.cols = cols or IDENT_ATTRS
    self.unicode_ok = unicode_ok

  def ws(self):
    return self.rng.choice(['', ' ', ' ', ' ', '  '])

  def name(self):
    return self.rng.choice(ENV_NAMES + FUNCS + ['max', 'inf', 'nan'])

  def col(self):
    return self.rng.choice(self.cols)

  def string(self):
    r = self.rng
    body = r.choice(['', 'a', 'ab', 'Seattle', 'x@', 'owners', 'A', '#x', ' # not a comment ', '$A', 'rec.A', 'it s',
                     'ü', '\\n', '\\x41', '\\u00e9'] + (['ünî', '日本'] if self.unicode_ok else []))
    q = r.choice(["'", '"', "'", '"', '"""'])
    pre = r.choice(['', '', '', '', 'u', 'r'])
    if pre == 'r' and '\\' in body:
      pre = ''
    return pre + q + body + q

  def number(self):
    r = self.rng
    return r.choice(['0', '1', '2', '3', '7', '10', '100', '2.5', '0.1', '1.', '1e3', '1_0', '0x10', '0b11', '0o7',
                     '12345678901234567890123', '1e-400', '.5', '00'])

  def const(self):
    r = self.rng.random()
    if r < 0.4:
      return self.number()
    if r < 0.8:
      return self.string()
    return self.rng.choice(['True', 'False', 'None'])

  def attr_chain(self):
    r = self.rng
    k = r.random()
    if self.user_attrs and r.random() < 0.2:
      return 'user' + r.choice(['.', '.', ' . ']) + r.choice(self.user_attrs) + r.choice(['.', '.', ' .']) + self.col()
    if k < 0.3:
      return DOLLAR + self.col()
    base = r.choice(['rec', 'rec', 'newRec', 'oldRec', 'user', 'user', 'choice', 'r', 'n', 'a'])
    if k < 0.4:
      base = DOLLAR + self.col()
    dot = r.choice(['.', '.', '.', ' .', '. ', ' . '])
    out = base + dot + self.col()
    while r.random() < 0.3:
      out += r.choice(['.', '.', ' .', '. ']) + self.col()
    return out

  def atom(self, depth):
    r = self.rng
    k = r.random()
    if k < 0.35:
      return self.attr_chain()
    if k < 0.55:
      return self.const()
    if k < 0.65:
      return self.name()
    if k < 0.75:
      n = r.randint(0, 3)
      items = [self.expr(depth - 1) for _ in range(n)]
      return '[' + (',' + self.ws()).join(items) + (',' if n and r.random() < 0.2 else '') + ']'
    if k < 0.83:
      n = r.randint(0, 3)
      items = [self.expr(depth - 1) for _ in range(n)]
      return '(' + (',' + self.ws()).join(items) + (',' if n == 1 or (n and r.random() < 0.2) else '') + ')'
    if k < 0.93:
      return self.call(depth)
    return '(' + self.ws() + self.expr(depth - 1) + self.ws() + ')'

  def call(self, depth):
    r = self.rng
    f = r.choice([r.choice(FUNCS), r.choice(FUNCS), self.name(), self.attr_chain(),
                  self.attr_chain() + '.' + r.choice(['lower', 'upper']), self.string() + '.lower'])
    args = [self.expr(depth - 1) for _ in range(r.randint(0, 2))]
    names = r.sample(['k', 'c', 'd', 'key', 'b2'], r.choice([0, 0, 0, 1, 2, 2, 3]))
    if names and r.random() < 0.08:
      names.append(names[0])        # a repeated keyword: accepted by ast.parse, rejected by the compiler
    kws = ['%s%s=%s%s' % (n, self.ws(), self.ws(), self.expr(depth - 1)) for n in names]
    return f + self.ws() + '(' + (',' + self.ws()).join(args + kws) + ')'

  def expr(self, depth):
    r = self.rng
    if depth <= 0:
      return self.atom(0) if r.random() < 0.9 else self.const()
    k = r.random()
    sub = lambda: self.maybe_paren(self.expr(depth - 1))
    if k < 0.25:
      return self.atom(depth)
    if k < 0.45:
      op = r.choice(['and', 'or'])
      n = r.choice([2, 2, 2, 3, 4])
      return (' ' + op + ' ').join(sub() for _ in range(n))
    if k < 0.53:
      return 'not ' + sub()
    if k < 0.68:
      op = r.choice(['+', '-', '*', '/', '%'])
      return sub() + self.ws() + op + self.ws() + sub()
    op = r.choice(['==', '!=', '<', '<=', '>', '>=', ' is ', ' is not ', ' in ', ' not in ', '==', ' in '])
    left, right = self.expr(depth - 1), self.expr(depth - 1)
    # keep most comparisons un-chained
    if r.random() < 0.93:
      left, right = self.paren_if_cmp(left), self.paren_if_cmp(right)
    return left + self.ws() + op + self.ws() + right

  CMP_RE = re.compile(r'==|!=|<|>| is | in ')

  def paren_if_cmp(self, s):
    return '(' + s + ')' if self.CMP_RE.search(s) else s

  def maybe_paren(self, s):
    if self.rng.random() < 0.35:
      return '(' + self.ws() + s + self.ws() + ')'
    return s

  def comment_text(self):
    return self.rng.choice(['Comment!', ' Allow owners', '  spaced  ', '', '#', ' $A rec.A', 'x\t', ' \x0c odd ',
                            ' ünîcødé comment' if self.unicode_ok else ' plain', 'a # b'])

  def formula(self, depth=None):
    r = self.rng
    depth = r.choice([0, 1, 1, 2, 2, 3, 3, 4]) if depth is None else depth
    body = self.expr(depth)
    k = r.random()
    if k < 0.15:
      body = body + self.ws() + '#' + self.comment_text()
    elif k < 0.22:
      body = '#' + self.comment_text() + '\n' + body + ' #' + self.comment_text() + '\n# last'
    elif k < 0.27:
      body = '(' + body + ' #' + self.comment_text() + '\n)'
    elif k < 0.30:
      body = '(\n  ' + body + '\n)'
    elif k < 0.32:
      body = body + '\n'
    return body

  # -- the unsupported stream: one construct outside the subset somewhere inside a valid formula
  UNSUPPORTED = [
    'lambda: 1', 'lambda x: x', '(1 if user.IsAnon else 2)', 'a[0]', 'a[1:2]', '{1, 2, 3}', '{1: 2}', '{}',
    '[x for x in y]', '{x for x in y}', '{x: 1 for x in y}', '(x for x in y)', 'f"x{a}"', 'f"plain"',
    '-1', '-rec.A', '+1', '~test', '(a // b)', '(a ** b)', '(1 | 2)', '(1 << 2)', '(a >> b)', '(a ^ b)', '(a & b)',
    '(a @ b)', '(a < b < c)', '(1 < 2 == 2)', '(x := 1)', 'max(*rec)', 'f(*a, b)', '(await x)', '(yield)',
    '(yield x)', '(yield from x)', '[*a]', '(*a, b)', 'a.b[c].d',
  ]
  ODD_CONST = ['...', "b'x'", "b''", 'rb"\\x00"', '1j', '2.5j', '1e999', '1e400j', '0j']
  KWSPLAT = ['f(**k)', 'f(a, **k)', 'f(k=1, **d)', 'rec.A.f(**rec.B)', 'f(**{})', 'f(**g(**h))']

  def with_hole(self, fill):
    """A valid formula with `fill` placed at a random operand position."""
    text = self.formula()
    ctx = self.rng.choice(['<H>', '<H> and <F>', '<F> or <H>', 'not <H>', '[<F>, <H>]', 'f(<H>)', 'f(k=<H>)',
                           '<H> == <F>', '<F> in <H>', '<H> + <F>', '(<H>).x', '<H>(1)', '(<F>, <H>)', 'f(<F>, k=<H>)'])
    if '#' in text or '\n' in text:
      text = self.expr(2)
    return ctx.replace('<F>', '(' + text + ')').replace('<H>', fill)

  def unsupported(self):
    return self.with_hole(self.rng.choice(self.UNSUPPORTED))

  def odd_const(self):
    return self.with_hole(self.rng.choice(self.ODD_CONST))

  def kwsplat(self):
    return self.with_hole(self.rng.choice(self.KWSPLAT))

  def malformed(self):
    """Valid text damaged by deleting / inserting / swapping characters."""
    r = self.rng
    text = self.formula()
    for _ in range(r.choice([1, 1, 2, 3])):
      if not text:
        break
      i = r.randrange(len(text))
      k = r.random()
      if k < 0.4:
        text = text[:i] + text[i + 1:]
      elif k < 0.8:
        text = text[:i] + r.choice(list('()[]{}\'"#$.,:=!<>+-*/%\\ \n\t;@`?') + ['==', ' not ', ' is ', '\x00', '\x0c',
                                                                                  '\r', '\\\n']) + text[i:]
      else:
        j = r.randrange(len(text))
        lo, hi = min(i, j), max(i, j)
        text = text[:lo] + text[hi:]
    return text


FIXED_FORMULAS = [
  # from test_predicate_formula.py
  "user.Email == 'X@'", "user.Role in ('editors', 'owners')", "user.Role not in ('editors', 'owners')",
  "rec.office == 'Seattle' and user.email in ['sally@', 'xie@']",
  "$office == 'Seattle' and user.email in ['sally@', 'xie@']",
  "user.IsAdmin or rec.assigned is None or (not newRec.HasDuplicates and rec.StatusIndex <= newRec.StatusIndex)",
  "user.IsAdmin or $assigned is None or (not newRec.HasDuplicates and $StatusIndex <= newRec.StatusIndex)",
  "r.A <= n.A + 1 or r.A >= n.A - 1 or r.B < n.B * 2.5 or r.B > n.B / 2.5 or r.C % 2 != 0",
  "rec.A is True or rec.A is not False", "$A is True or $A is not False",
  "user.Office.City == 'Seattle' and user.Status.IsActive", "True # Comment!  ",
  "\"#x\" == \" # Not a comment \"#Comment!",
  "# Allow owners\nuser.Access == 'owners' # ignored\n# comment ignored", "choice not in $Categories",
  "choice.role == \"Manager\"", "user.Email.lower() == 'foo'", "rec.First_Name.upper() == 'FOO'.lower()",
  "func(a.append(5), bar(b), c=1, d=baz(x=3))", "max(rec)",
  "return 1", "def foo(): pass", "user.id in {1, 2, 3}", "1 if user.IsAnon else 2", "max(*rec)", "1 | 2", "1 << 2",
  "~test", "[(]", "user.id in (1,2))", "foo and !bar",
  # edge cases the property text and the design name
  "", " ", "#c", "()", "(1,)", "a\n", "  a", "a;b", "(a\n+b)", "True.x", "$x.y", "$1", '"$x"', "$x # $y", "x = 1",
  "...", "b'x'", "1j", "1e999", "f(**k)", "-1", "rec.a > -1", "a < b < c", "f(a)(b)", "f(k=1, **d)", "'a' 'b'",
  "1e-400", "0.1+0.2", "a.b.c()", "rec.$x", "(1,2) == [1,2]", "x in ()", "not not a", "a and b and c or d",
  "rec.A ==", "+ 'New' in choice.city and $name == rec.name", "'\\ud800'", "1" * 5000, "((((((a))))))",
  "a if", "a \\\n and b", "a and\nb", "\ta", "a\x0c", "a # c\x0c ", "\x0ca", "a #\r\n", "# only\n# comments", "a\r\n#c",
  "f(d=1, c=2)", "func(1, key=2, c=[3])", "g(k=f(d=1, b2=2, c=3), b2=f())", "f(k=1, k=2)", "f(c=1)(d=2, c=3)",
  "not not a", "not (not (not 0))", "a and b and c and d and e", "0 or '' or [] or None or 0.0 or 5", "True # c\t", "a #\x0c x \x0c",
  "__debug__", "None is None", "not True", "[] == []", "[[1, [2]], []]", "f()", "f(k=1)", "$A.lower()", "user . Name",
]


# ---------------------------------------------------------------------------------------------
# Glue that is hand-modelled (not translated): pinned by equality of its alpha-normalised AST with the text the
# models were written from.  Comments, blank lines and renaming of locals do not matter; anything else does.

def normalised_dump(fn):
  """ast.dump of a function with its local names (parameters, assigned names, loop and comprehension targets,
  nested function names and their parameters) replaced by v0, v1, ... in order of first binding."""
  names = {}

  def bind(n):
    if n not in names:
      names[n] = 'v%d' % len(names)

  for node in ast.walk(fn):
    if isinstance(node, ast.arg):
      bind(node.arg)
    elif isinstance(node, ast.Name) and isinstance(node.ctx, ast.Store):
      bind(node.id)
    elif isinstance(node, ast.FunctionDef) and node is not fn:
      bind(node.name)
    elif isinstance(node, ast.ExceptHandler) and node.name:
      bind(node.name)

  class R(ast.NodeTransformer):
    def visit_Name(self, node):
      return ast.copy_location(ast.Name(id=names.get(node.id, node.id), ctx=node.ctx), node)

    def visit_arg(self, node):
      return ast.copy_location(ast.arg(arg=names.get(node.arg, node.arg), annotation=None), node)

    def visit_FunctionDef(self, node):
      self.generic_visit(node)
      if node is not fn:
        node.name = names.get(node.name, node.name)
      if node.body and isinstance(node.body[0], ast.Expr) and isinstance(node.body[0].value, ast.Constant) and \
         isinstance(node.body[0].value.value, str):
        node.body = node.body[1:] or [ast.Pass()]            # docstrings do not matter
      return node

    def visit_ExceptHandler(self, node):
      self.generic_visit(node)
      if node.name:
        node.name = names.get(node.name, node.name)
      return node

  import copy
  return ast.dump(R().visit(copy.deepcopy(fn)))


PINNED = {   # function -> sha1 of the normalised dump (written from /repo at the time the models were made)
  'predicate_formula.parse_predicate_formula': '0173d2fa43e6c4a7',
  'predicate_formula.parse_predicate_formula_json': '1a90b242b7455213',
  'predicate_formula.process_renames': '3d9d21f88f8f8716',
  'dropdown_condition.perform_dropdown_condition_renames': 'b4fd78887df586a6',
  'trigger_expression.perform_trigger_condition_renames': 'fb01a1c1fba8279f',
}


def glue_hashes():
  import hashlib
  out = {}
  for mod, fns in (('predicate_formula', ['parse_predicate_formula', 'parse_predicate_formula_json', 'process_renames']),
                   ('dropdown_condition', ['perform_dropdown_condition_renames']),
                   ('trigger_expression', ['perform_trigger_condition_renames'])):
    with open(os.path.join(core.GRIST, mod + '.py')) as f:
      tree = ast.parse(f.read())
    for s in tree.body:
      if isinstance(s, ast.FunctionDef) and s.name in fns:
        out['%s.%s' % (mod, s.name)] = hashlib.sha1(normalised_dump(s).encode()).hexdigest()[:16]
    missing = [n for n in fns if '%s.%s' % (mod, n) not in out]
    if missing:
      raise core.TieBroken('%s: %s not found' % (mod, missing))
  return out


def check_pinned_glue(which):
  """Raises TieBroken when a hand-modelled function changed (other than comments / local names)."""
  have = glue_hashes()
  for name in which:
    if have.get(name) != PINNED.get(name):
      raise core.TieBroken('%s changed since the model was written from it (pinned AST %s, now %s): re-read it, adapt '
                           'Model/Predicate*.v and update harness/predgen.py PINNED' % (name, PINNED.get(name), have.get(name)))
  return {n: have[n] for n in which}
