"""
bs2v -- fail-closed translator for the search core of property C14 (own module; harness/py2v*.py, sl2v.py untouched).

Translates, from the CURRENT source tree, into coq/gen/Bisect_gen.v:

  sort_key.py       make_sort_key: the loop that builds col_sort_spec; SortKey.__init__; SortKey.__lt__
  records.py        RecordSet.__len__, _at, _get_sort_key, _bisect_index, _bisect_find, _find_eq;
                    FindOps.previous, next, rank, lt, le, gt, ge, eq
  functions/prevnext.py   PREVIOUS, NEXT, RANK

Every function becomes a Gallina definition in the exception monad of Model/BisectPy.v:
  block of statements  ->  `flow T` (OK (Some r) = returned r, OK None = fell through, Raise e)
  x = e                ->  let / bind
  if / elif / else     ->  if-then-else, the rest of the block duplicated into the branches (fl_seq)
  return / raise       ->  OK (Some ..) / Raise Ex..
  try: .. except TypeError: ..          -> fl_try
  for (a, b, (c, d)) in zip(x, y, z):   -> for_zip3 (the body may return; it must not assign outer names)
  acc = []; for v in l: ..; acc.append(e)   -> map_m
  expressions are typed (a small closed set of types); operators are chosen by type; an operation that can
  raise (`<` on cell values, l[i], a call) is sequenced left to right with bind.
Glue that is not translated is PINNED: its AST must be exactly what this translator assumes
(`_min_row_id = -sys.float_info.max`, `find`/`_find` = FindOps(self), FindOps.__init__, _sorted_lookup's call shape).
Anything else -- another statement kind, an unknown name, attribute, call or type combination -- raises
Untranslatable: the tie is then reported as broken instead of being guessed.
"""
import ast
import os


class Untranslatable(Exception):
  pass


def _fail(msg, node=None):
  raise Untranslatable('%s%s' % (msg, ' (line %d)' % node.lineno if node is not None and hasattr(node, 'lineno') else ''))


COQ_TY = {
  'Z': 'Z', 'bool': 'bool', 'val': 'val', 'vals': '(list val)', 'optvals': '(option (list val))', 'rowid': 'rowid',
  'key': 'key', 'fb': '(Z * Z * list Z)', 'str': '(list Z)', 'strs': '(list (list Z))', 'rset': 'pyrset',
  'cls': 'skeyclass', 'optcls': '(option skeyclass)', 'side': 'side', 'ids': '(list Z)', 'table': 'pytable',
  'citem': '(list Z * Z)', 'cspec': '(list (list Z * Z))', 'unit': 'unit', 'GB': 'GB', 'OB': 'OB',
}
EXN = {'TypeError': 'ExTypeError', 'ValueError': 'ExValueError'}


def zl(n):
  return '(%d)' % n if n < 0 else '%d' % n


def strl(s):
  return '[' + '; '.join('%d' % ord(c) for c in s) + ']'


class Tr(object):
  def __init__(self):
    self.funcs = {}      # python qualified name -> {'coq','params':[(name,type,default_term or None)],'ret','extra':[terms]}
    self.n = 0
    self.out = []

  def fresh(self):
    self.n += 1
    return 't%d' % self.n

  # ------------------------------------------------------------------------------------------
  # coercions (k receives a term of the wanted type)
  def coerce(self, t, ty, want, k, node=None):
    if ty == want or (ty.startswith('key@') and want == 'key'):
      return k(t)
    if ty == 'Z' and want == 'rowid':
      return k('(RId %s)' % t)
    if ty == 'vals' and want == 'optvals':
      return k('(Some %s)' % t)
    if ty == 'none' and want in ('optvals',):
      return k('None')
    if ty == 'optcls' and want == 'cls':
      v = self.fresh()
      return 'bind (force_cls %s) (fun %s => %s)' % (t, v, k(v))
    _fail('no coercion from %s to %s' % (ty, want), node)

  def truthy(self, t, ty, node=None):
    if ty == 'bool':
      return t
    if ty == 'record':
      return '(record_truthy %s)' % t
    if ty == 'optcls':
      return '(cls_truthy %s)' % t
    if ty == 'optvals':
      return '(vals_truthy %s)' % t
    _fail('truth value of type %s' % ty, node)

  # ------------------------------------------------------------------------------------------
  # expressions, continuation-passing: k(term, type) builds the rest; evaluation order = Python's
  def ex(self, e, env, k):
    if isinstance(e, ast.Constant):
      if e.value is None:
        return k('None', 'none')
      if isinstance(e.value, bool):
        return k('true' if e.value else 'false', 'bool')
      if isinstance(e.value, int):
        return k(zl(e.value), 'Z')
      if isinstance(e.value, str):
        return k(strl(e.value), 'str')
      _fail('constant %r' % (e.value,), e)
    if isinstance(e, ast.Name):
      if e.id in env:
        return k(*env[e.id])
      _fail('unknown name %s' % e.id, e)
    if isinstance(e, ast.UnaryOp) and isinstance(e.op, ast.USub) and isinstance(e.operand, ast.Constant) \
       and isinstance(e.operand.value, int) and not isinstance(e.operand.value, bool):
      return k(zl(-e.operand.value), 'Z')
    if isinstance(e, ast.UnaryOp) and isinstance(e.op, ast.Not):
      return self.ex(e.operand, env, lambda t, ty: k('(negb %s)' % self.truthy(t, ty, e), 'bool'))
    if isinstance(e, ast.BinOp) and isinstance(e.op, (ast.Add, ast.Sub)):
      op = '+' if isinstance(e.op, ast.Add) else '-'
      def kl(a, ta):
        def kr(b, tb):
          if (ta, tb) != ('Z', 'Z'):
            _fail('%s on %s, %s' % (op, ta, tb), e)
          return k('(%s %s %s)' % (a, op, b), 'Z')
        return self.ex(e.right, env, kr)
      return self.ex(e.left, env, kl)
    if isinstance(e, ast.Compare):
      return self.compare(e, env, k)
    if isinstance(e, ast.IfExp):
      return self.ifexp(e, env, k)
    if isinstance(e, ast.BoolOp) and isinstance(e.op, ast.Or) and len(e.values) == 2:
      def kl(a, ta):
        if ta != 'optvals':
          _fail('`or` with left operand of type %s' % ta, e)
        inner = self.ex(e.values[1], env, lambda b, tb: self.coerce(b, tb, 'vals', lambda c: 'OK %s' % c, e))
        v = self.fresh()
        return 'bind (vals_or %s (%s)) (fun %s => %s)' % (a, inner, v, k(v, 'vals'))
      return self.ex(e.values[0], env, kl)
    if isinstance(e, ast.Tuple):
      return self.tuple_(e, env, k)
    if isinstance(e, ast.Attribute):
      return self.attr(e, env, k)
    if isinstance(e, ast.Subscript):
      return self.subscript(e, env, k)
    if isinstance(e, ast.Call):
      return self.call(e, env, k)
    _fail('expression %s' % type(e).__name__, e)

  def exs(self, es, env, k):
    """evaluate a list of expressions left to right; k receives [(term, type)]"""
    if not es:
      return k([])
    return self.ex(es[0], env, lambda t, ty: self.exs(es[1:], env, lambda rest: k([(t, ty)] + rest)))

  def compare(self, e, env, k):
    ops, operands = e.ops, [e.left] + list(e.comparators)
    if len(ops) == 1 and isinstance(ops[0], ast.Is) and isinstance(operands[1], ast.Constant) and operands[1].value is None:
      def kn(a, ta):
        if ta != 'val':
          _fail('`is None` on type %s' % ta, e)
        return k('(is_none %s)' % a, 'bool')
      return self.ex(operands[0], env, kn)
    def kall(tts):
      if len(ops) == 1:
        (a, ta), (b, tb) = tts
        o = ops[0]
        if isinstance(o, ast.Lt):
          if (ta, tb) == ('Z', 'Z'):
            return k('(%s <? %s)' % (a, b), 'bool')
          if (ta, tb) == ('val', 'val'):
            v = self.fresh()
            return 'bind (py_lt_e %s %s) (fun %s => %s)' % (a, b, v, k(v, 'bool'))
          if (ta, tb) == ('fb', 'fb'):
            return k('(fb_lt %s %s)' % (a, b), 'bool')
          if (ta, tb) == ('rowid', 'rowid'):
            return k('(rowid_lt %s %s)' % (a, b), 'bool')
          if ta.startswith('key@') and ta == tb:
            v = self.fresh()
            return 'bind (%s %s %s %s) (fun %s => %s)' % (self.funcs['SortKey.__lt__']['coq'], ta[4:], a, b, v, k(v, 'bool'))
          _fail('< on %s, %s' % (ta, tb), e)
        if isinstance(o, ast.Eq):
          if (ta, tb) == ('Z', 'Z'):
            return k('(%s =? %s)' % (a, b), 'bool')
          if (ta, tb) == ('str', 'str'):
            return k('(str_eqb %s %s)' % (a, b), 'bool')
          _fail('== on %s, %s' % (ta, tb), e)
        _fail('comparison operator %s' % type(o).__name__, e)
      # chain on integers
      parts = []
      for i, o in enumerate(ops):
        (a, ta), (b, tb) = tts[i], tts[i + 1]
        if (ta, tb) != ('Z', 'Z') or not isinstance(o, (ast.Lt, ast.LtE)):
          _fail('comparison chain on %s, %s' % (ta, tb), e)
        parts.append('(%s %s %s)' % (a, '<?' if isinstance(o, ast.Lt) else '<=?', b))
      return k('(' + ' && '.join(parts) + ')', 'bool')
    return self.exs(operands, env, kall)

  def pure(self, e, env):
    """(term, type) if e translates without bind, else None"""
    box = {}
    def k(t, ty):
      box['r'] = (t, ty)
      return '@@HOLE@@'
    s = self.ex(e, env, k)
    return box['r'] if s == '@@HOLE@@' else None

  def ifexp(self, e, env, k):
    def kc(c, tc):
      c = self.truthy(c, tc, e)
      pa, pb = self.pure(e.body, env), self.pure(e.orelse, env)
      if pa is not None and pb is not None:
        if pa[1] != pb[1]:
          if {pa[1], pb[1]} == {'Z', 'rowid'}:
            _fail('conditional expression of mixed types', e)
          _fail('conditional expression of types %s / %s' % (pa[1], pb[1]), e)
        return k('(if %s then %s else %s)' % (c, pa[0], pb[0]), pa[1])
      tys = []
      def kb(t, ty):
        tys.append(ty)
        return 'OK %s' % t
      a = self.ex(e.body, env, kb)
      b = self.ex(e.orelse, env, kb)
      if tys[0] != tys[1]:
        _fail('conditional expression of types %s / %s' % (tys[0], tys[1]), e)
      v = self.fresh()
      return 'bind (if %s then %s else %s) (fun %s => %s)' % (c, a, b, v, k(v, tys[0]))
    return self.ex(e.test, env, kc)

  def tuple_(self, e, env, k):
    def kall(tts):
      tys = tuple(ty for _, ty in tts)
      term = '(' + ', '.join(t for t, _ in tts) + ')'
      if tys == ('Z', 'Z', 'str'):
        return k(term, 'fb')
      if tys == ('str', 'Z'):
        return k(term, 'citem')
      _fail('tuple of types %r' % (tys,), e)
    return self.exs(list(e.elts), env, kall)

  ATTRS = {
    ('rset', '_row_ids'): ('(p_row_ids %s)', 'ids'),
    ('rset', '_sort_key'): ('(p_sort_key %s)', 'optcls'),
    ('rset', '_sort_by'): ('(p_sort_by %s)', 'bool'),
    ('rset', '_rset'): ('%s', 'rset'),        # FindOps(rs) is represented by rs (FindOps.__init__ is pinned)
    ('rset', '_find'): ('%s', 'rset'),        # property _find is pinned to `return FindOps(self)`
    ('key', 'values'): ('(fst %s)', 'vals'),
    ('key', 'row_id'): ('(snd %s)', 'rowid'),
    ('record', '_row_id'): ('%s', 'Z'),
  }

  def attr(self, e, env, k):
    if e.attr == '__name__' and isinstance(e.value, ast.Call) and self.dotted(e.value.func) == 'type' \
       and len(e.value.args) == 1 and not e.value.keywords:
      return self.ex(e.value.args[0], env, lambda t, ty: k('(type_name %s)' % t, 'str') if ty == 'val'
                     else _fail('type(..).__name__ on %s' % ty, e))
    def kb(t, ty):
      r = self.ATTRS.get((ty, e.attr))
      if r is None:
        _fail('attribute .%s of type %s' % (e.attr, ty), e)
      return k(r[0] % t, r[1])
    return self.ex(e.value, env, kb)

  def subscript(self, e, env, k):
    if isinstance(e.slice, ast.Slice):
      s = e.slice
      if s.upper is None and s.step is None and isinstance(s.lower, ast.Constant) and isinstance(s.lower.value, int) \
         and s.lower.value >= 0:
        def kb(t, ty):
          if ty != 'str':
            _fail('slice of type %s' % ty, e)
          return k('(str_from %s %d%%nat)' % (t, s.lower.value), 'str')
        return self.ex(e.value, env, kb)
      _fail('slice', e)
    def kl(l, tl):
      def ki(i, ti):
        if (tl, ti) != ('ids', 'Z'):
          _fail('subscript on %s with %s' % (tl, ti), e)
        v = self.fresh()
        return 'bind (list_get %s %s) (fun %s => %s)' % (l, i, v, k(v, 'Z'))
      return self.ex(e.slice, env, ki)
    return self.ex(e.value, env, kl)

  # ---- calls ---------------------------------------------------------------------------------
  def dotted(self, e):
    if isinstance(e, ast.Name):
      return e.id
    if isinstance(e, ast.Attribute):
      b = self.dotted(e.value)
      return None if b is None else b + '.' + e.attr
    return None

  def call(self, e, env, k):
    f = e.func
    d = self.dotted(f)
    # self._table.Record(row_id, self._source_relation)
    if d == 'self._table.Record' and len(e.args) == 2 and not e.keywords and self.dotted(e.args[1]) == 'self._source_relation':
      def kr(t, ty):
        if ty != 'Z':
          _fail('Record(%s)' % ty, e)
        return k('(mk_record %s)' % t, 'record')
      return self.ex(e.args[0], env, kr)
    if d == 'len' and len(e.args) == 1 and not e.keywords:
      def kl(t, ty):
        if ty == 'ids':
          return k('(len_z %s)' % t, 'Z')
        if ty == 'rset':
          return self.invoke('RecordSet.__len__', [(t, ty)], {}, e, k)
        _fail('len of %s' % ty, e)
      return self.ex(e.args[0], env, kl)
    if d == 'isinstance' and len(e.args) == 2 and self.dotted(e.args[1]) == 'Number':
      return self.ex(e.args[0], env, lambda t, ty: k('(is_number %s)' % t, 'bool') if ty == 'val' else _fail('isinstance on %s' % ty, e))
    if d == 'tuple' and len(e.args) == 1 and isinstance(e.args[0], ast.GeneratorExp):
      return self.genexp(e.args[0], env, k)
    if isinstance(f, ast.Attribute) and f.attr == '__name__' :
      _fail('call of __name__', e)
    if isinstance(f, ast.Attribute) and f.attr == 'startswith' and len(e.args) == 1 and not e.keywords:
      def ks(tts):
        (s, ts), (p, tp) = tts
        if (ts, tp) != ('str', 'str'):
          _fail('startswith on %s, %s' % (ts, tp), e)
        return k('(str_startswith %s %s)' % (s, p), 'bool')
      return self.exs([f.value, e.args[0]], env, ks)
    # table.get_column(c) / table.get_column(c).get_cell_value(r)
    if isinstance(f, ast.Attribute) and f.attr == 'get_cell_value' and isinstance(f.value, ast.Call) \
       and isinstance(f.value.func, ast.Attribute) and f.value.func.attr == 'get_column' \
       and len(e.args) == 1 and len(f.value.args) == 1 and not e.keywords and not f.value.keywords:
      def kc(tts):
        (tb, tt), (c, tc), (r, tr) = tts
        if (tt, tc, tr) != ('table', 'str', 'rowid'):
          _fail('get_column(..).get_cell_value(..) on %s, %s, %s' % (tt, tc, tr), e)
        v = self.fresh()
        return 'bind (cell_value %s %s %s) (fun %s => %s)' % (tb, c, r, v, k(v, 'val'))
      return self.exs([f.value.func.value, f.value.args[0], e.args[0]], env, kc)
    if isinstance(f, ast.Attribute) and f.attr == 'get_column' and len(e.args) == 1 and not e.keywords:
      def kg(tts):
        (tb, tt), (c, tc) = tts
        if (tt, tc) != ('table', 'str'):
          _fail('get_column on %s, %s' % (tt, tc), e)
        v = self.fresh()
        return 'bind (get_column %s %s) (fun %s => %s)' % (tb, c, v, k(v, 'unit'))
      return self.exs([f.value, e.args[0]], env, kg)
    # a local of class type called: key(row_id[, values])
    if isinstance(f, ast.Name) and f.id in env and env[f.id][1] == 'cls':
      cls = env[f.id][0]
      return self.exs(list(e.args), env, lambda tts: self.invoke('SortKey.__init__', [(cls, 'cls')] + tts, {}, e,
                                                                 lambda t, ty: k(t, 'key@' + cls)))
    # a local bisect function called: bisect_func(ids, x, key=key)
    if isinstance(f, ast.Name) and f.id in env and env[f.id][1] == 'side':
      if len(e.args) != 2 or len(e.keywords) != 1 or e.keywords[0].arg != 'key':
        _fail('call shape of a bisect function', e)
      def kb(tts):
        (l, tl), (x, tx), (c, tc) = tts
        if tl != 'ids' or tc != 'cls' or tx != 'key@' + c:
          _fail('bisect call on %s, %s, key=%s' % (tl, tx, tc), e)
        v, r = self.fresh(), self.fresh()
        return 'bind (bisect_call %s (%s %s) (fun %s => %s %s (RId %s) None) %s %s) (fun %s => %s)' % (
          env[f.id][0], self.funcs['SortKey.__lt__']['coq'], c, r, self.funcs['SortKey.__init__']['coq'], c, r, l, x,
          v, k(v, 'Z'))
      return self.exs(list(e.args) + [e.keywords[0].value], env, kb)
    # type(a).__name__ is an Attribute, handled in attr(): see below
    # methods of translated classes
    if isinstance(f, ast.Attribute):
      def km(t, ty):
        if ty != 'rset':
          _fail('method .%s of type %s' % (f.attr, ty), e)
        if f.attr == '_to_local_row_id':
          return self.exs(list(e.args), env, lambda tts: self._bindcall('to_local_row_id %s %s' % (t, tts[0][0]), 'Z', k)
                          if len(tts) == 1 and tts[0][1] == 'record' and not e.keywords else _fail('_to_local_row_id call', e))
        for cls in ('RecordSet', 'FindOps'):
          q = cls + '.' + f.attr
          if q in self.funcs:
            return self.call_args(q, [(t, ty)], e, env, k)
        _fail('unknown method %s' % f.attr, e)
      return self.ex(f.value, env, km)
    if isinstance(f, ast.Name) and f.id in self.funcs:
      return self.call_args(f.id, [], e, env, k)
    if isinstance(f, ast.Name) and f.id in env and env[f.id][1] == 'sorted_lookup':
      # _sorted_lookup(rec, group_by=group_by, order_by=order_by): the call shape is pinned
      if len(e.args) != 1 or [kw.arg for kw in e.keywords] != ['group_by', 'order_by']:
        _fail('_sorted_lookup call shape', e)
      def ksl(tts):
        if [ty for _, ty in tts] != ['record', 'GB', 'OB']:
          _fail('_sorted_lookup argument types', e)
        return self._bindcall('%s %s' % (env[f.id][0], ' '.join(t for t, _ in tts)), 'rset', k)
      return self.exs([e.args[0]] + [kw.value for kw in e.keywords], env, ksl)
    _fail('call of %s' % (d or type(f).__name__), e)

  def _bindcall(self, term, ty, k):
    v = self.fresh()
    return 'bind (%s) (fun %s => %s)' % (term, v, k(v, ty))

  def call_args(self, q, first, e, env, k):
    """evaluate positional (incl. *args) and keyword arguments left to right, then invoke q"""
    pos = []
    for a in e.args:
      pos.append(a.value if isinstance(a, ast.Starred) else a)
    starred = [isinstance(a, ast.Starred) for a in e.args]
    if any(starred) and (len(e.args) != 1 or e.keywords):
      _fail('*args call shape', e)
    kws = [(kw.arg, kw.value) for kw in e.keywords]
    if any(a is None for a, _ in kws):
      _fail('**kwargs', e)
    def kall(tts):
      return self.invoke(q, first + tts[:len(pos)], dict(zip([a for a, _ in kws], tts[len(pos):])), e, k)
    return self.exs(pos + [v for _, v in kws], env, kall)

  def invoke(self, q, args, kwargs, node, k):
    fn = self.funcs.get(q)
    if fn is None:
      _fail('call of untranslated %s' % q, node)
    params = fn['params']
    if len(args) > len(params):
      _fail('too many arguments for %s' % q, node)
    given = {}
    for (name, _ty, _d), a in zip(params, args):
      given[name] = a
    for name, a in kwargs.items():
      if name in given or name not in [p[0] for p in params]:
        _fail('keyword %s for %s' % (name, q), node)
      given[name] = a
    def go(i, acc):
      if i == len(params):
        v = self.fresh()
        return 'bind (%s %s) (fun %s => %s)' % (fn['coq'], ' '.join(fn.get('extra', []) + acc), v, k(v, fn['ret']))
      name, ty, default = params[i]
      if name in given:
        t, tg = given[name]
        return self.coerce(t, tg, ty, lambda c: go(i + 1, acc + [c]), node)
      if default is None:
        _fail('missing argument %s for %s' % (name, q), node)
      return go(i + 1, acc + [default])
    return go(0, [])

  def genexp(self, g, env, k):
    if len(g.generators) != 1 or g.generators[0].ifs or g.generators[0].is_async:
      _fail('generator expression shape', g)
    gen = g.generators[0]
    def ki(l, tl):
      if tl != 'cspec':
        _fail('generator over %s' % tl, g)
      it = self.fresh()
      pat, env2 = self.unpack_target(gen.target, 'citem', env)
      body = self.ex(g.elt, env2, lambda t, ty: ('OK %s' % t) if ty == 'val' else _fail('generator element %s' % ty, g))
      v = self.fresh()
      return "bind (map_m (fun %s => let '%s := %s in %s) %s) (fun %s => %s)" % (it, pat, it, body, l, v, k(v, 'vals'))
    return self.ex(gen.iter, env, ki)

  def unpack_target(self, tgt, ty, env):
    """pattern for `let '<pat> := x` and the extended environment"""
    env2 = dict(env)
    if isinstance(tgt, ast.Name):
      env2[tgt.id] = (tgt.id, ty)
      return tgt.id, env2
    if isinstance(tgt, ast.Tuple) and ty == 'citem' and len(tgt.elts) == 2 and all(isinstance(x, ast.Name) for x in tgt.elts):
      a, b = tgt.elts
      env2[a.id] = (a.id, 'str')
      env2[b.id] = (b.id, 'Z')
      return '(%s, %s)' % (a.id, b.id), env2
    _fail('loop / assignment target', tgt)

  # ------------------------------------------------------------------------------------------
  # statements
  def blk(self, stmts, env, ctx):
    """ctx: {'ret': type, 'self_init': bool, 'append': (accname, type) or None}"""
    if not stmts:
      if ctx.get('self_init'):
        fields = ctx['fields']
        if sorted(fields) != ['row_id', 'values']:
          _fail('SortKey.__init__ sets %r' % (sorted(fields),))
        return 'OK (Some (%s, %s))' % (fields['values'], fields['row_id'])
      return 'OK None'
    s, rest = stmts[0], stmts[1:]
    if isinstance(s, ast.Expr) and isinstance(s.value, ast.Constant) and isinstance(s.value.value, str):
      return self.blk(rest, env, ctx)          # docstring
    if isinstance(s, ast.Return):
      if s.value is None:
        _fail('bare return', s)
      return self.ex(s.value, env, lambda t, ty: self.coerce(t, ty, ctx['ret'], lambda c: 'OK (Some %s)' % c, s))
    if isinstance(s, ast.Raise):
      if isinstance(s.exc, ast.Call) and isinstance(s.exc.func, ast.Name) and s.exc.func.id in EXN:
        return 'Raise %s' % EXN[s.exc.func.id]
      _fail('raise', s)
    if isinstance(s, ast.Assign) and len(s.targets) == 1:
      tgt = s.targets[0]
      if isinstance(tgt, ast.Name):
        def ka(t, ty):
          env2 = dict(env)
          env2[tgt.id] = (tgt.id, ty)
          return 'let %s := %s in %s' % (tgt.id, t, self.blk(rest, env2, ctx))
        return self.ex(s.value, env, ka)
      if isinstance(tgt, ast.Tuple):
        def kt(t, ty):
          pat, env2 = self.unpack_target(tgt, ty, env)
          return "let '%s := %s in %s" % (pat, t, self.blk(rest, env2, ctx))
        return self.ex(s.value, env, kt)
      if ctx.get('self_init') and isinstance(tgt, ast.Attribute) and self.dotted(tgt.value) == 'self':
        want = {'row_id': 'rowid', 'values': 'vals'}.get(tgt.attr)
        if want is None or tgt.attr in ctx['fields']:
          _fail('assignment to self.%s' % tgt.attr, s)
        def ks(t, ty):
          def kc(c):
            name = 'self_' + tgt.attr
            ctx2 = dict(ctx)
            ctx2['fields'] = dict(ctx['fields'])
            ctx2['fields'][tgt.attr] = name
            return 'let %s := %s in %s' % (name, c, self.blk(rest, env, ctx2))
          return self.coerce(t, ty, want, kc, s)
        return self.ex(s.value, env, ks)
      _fail('assignment target', s)
    if isinstance(s, ast.Expr) and isinstance(s.value, ast.Call):
      f = s.value.func
      if ctx.get('append') and isinstance(f, ast.Attribute) and f.attr == 'append' and self.dotted(f.value) == ctx['append'][0]:
        if rest or len(s.value.args) != 1:
          _fail('append must end the loop body', s)
        return self.ex(s.value.args[0], env, lambda t, ty: ('OK %s' % t) if ty == ctx['append'][1] else _fail('append of %s' % ty, s))
      return self.ex(s.value, env, lambda t, ty: self.blk(rest, env, ctx))
    if isinstance(s, ast.If):
      r = self.blk(rest, env, ctx) if rest else None
      def seq(a):
        return a if r is None else 'fl_seq (%s) (%s)' % (a, r)
      def kc(c, tc):
        a = self.blk(s.body, env, ctx)
        b = self.blk(s.orelse, env, ctx) if s.orelse else 'OK None'
        return '(if %s then %s else %s)' % (self.truthy(c, tc, s), seq(a), seq(b))
      if ctx.get('append') or ctx.get('self_init'):
        _fail('if inside an accumulating loop / __init__', s)
      return self.ex(s.test, env, kc)
    if isinstance(s, ast.Try):
      if len(s.handlers) != 1 or s.orelse or s.finalbody or s.handlers[0].name is not None \
         or not isinstance(s.handlers[0].type, ast.Name) or s.handlers[0].type.id not in EXN:
        _fail('try shape', s)
      if self.assigned(s.body) & self.used_after(rest):
        _fail('names assigned in try are used after it', s)
      t = 'fl_try (%s) %s (%s)' % (self.blk(s.body, env, ctx), EXN[s.handlers[0].type.id], self.blk(s.handlers[0].body, env, ctx))
      return t if not rest else 'fl_seq (%s) (%s)' % (t, self.blk(rest, env, ctx))
    if isinstance(s, ast.For):
      return self.for_(s, rest, env, ctx)
    _fail('statement %s' % type(s).__name__, s)

  def assigned(self, stmts):
    out = set()
    for s in stmts:
      for n in ast.walk(s):
        if isinstance(n, ast.Name) and isinstance(n.ctx, ast.Store):
          out.add(n.id)
    return out

  def used_after(self, stmts):
    out = set()
    for s in stmts:
      for n in ast.walk(s):
        if isinstance(n, ast.Name) and isinstance(n.ctx, ast.Load):
          out.add(n.id)
    return out

  def for_(self, s, rest, env, ctx):
    if s.orelse:
      _fail('for-else', s)
    it = s.iter
    if isinstance(it, ast.Call) and self.dotted(it.func) == 'zip' and len(it.args) == 3 and not it.keywords:
      if not (isinstance(s.target, ast.Tuple) and len(s.target.elts) == 3 and
              isinstance(s.target.elts[0], ast.Name) and isinstance(s.target.elts[1], ast.Name)):
        _fail('zip loop target', s)
      if self.assigned(s.body) & (set(env) | self.used_after(rest)):
        _fail('the loop body assigns names that live outside it', s)
      def kz(tts):
        (x, tx), (y, ty), (z, tz) = tts
        if (tx, ty, tz) != ('vals', 'vals', 'cspec'):
          _fail('zip over %s, %s, %s' % (tx, ty, tz), s)
        a, b = s.target.elts[0].id, s.target.elts[1].id
        c = self.fresh()
        env2 = dict(env)
        env2[a] = (a, 'val')
        env2[b] = (b, 'val')
        pat, env3 = self.unpack_target(s.target.elts[2], 'citem', env2)
        body = self.blk(s.body, env3, ctx)
        t = "for_zip3 (fun %s %s %s => let '%s := %s in %s) %s %s %s" % (a, b, c, pat, c, body, x, y, z)
        return t if not rest else 'fl_seq (%s) (%s)' % (t, self.blk(rest, env, ctx))
      return self.exs(list(it.args), env, kz)
    _fail('for loop shape', s)

  # ------------------------------------------------------------------------------------------
  def define(self, q, coq, params, ret, body_stmts, env, extra_binders='', extra=None, ctx=None, comment=''):
    """params: [(name, type, default term or None)]"""
    env = dict(env)
    for name, ty, _d in params:
      env[name] = (name, ty)
    c = {'ret': ret}
    c.update(ctx or {})
    body = self.blk(body_stmts, env, c)
    binders = ' '.join('(%s : %s)' % (n, COQ_TY[t]) for n, t, _ in params)
    self.out.append('(* %s%s *)\nDefinition %s %s %s : exc %s :=\n  fl_finish (%s).\n' % (
      q, comment, coq, extra_binders, binders, COQ_TY[ret], body))
    self.funcs[q] = {'coq': coq, 'params': params, 'ret': ret, 'extra': extra or []}


COQ_TY['record'] = 'Z'
COQ_TY['none'] = 'unit'


def find_def(body, kind, name):
  for n in body:
    if isinstance(n, kind) and n.name == name:
      return n
  _fail('%s %s not found' % (kind.__name__, name))


def pin(node, expected_src, what):
  """the AST of `node` must equal the AST of expected_src (one statement or a list of them)"""
  exp = ast.parse(expected_src).body
  got = node if isinstance(node, list) else [node]
  if [ast.dump(x) for x in got] != [ast.dump(x) for x in exp]:
    _fail('%s is no longer `%s`' % (what, expected_src.strip()))


def default_term(d, ty):
  if d is None:
    return None
  if isinstance(d, ast.Constant) and d.value is None and ty == 'optvals':
    return 'None'
  if isinstance(d, ast.Constant) and isinstance(d.value, str) and ty == 'str':
    return strl(d.value)
  _fail('default value for a parameter of type %s' % ty, d)


def method_params(fn, types, skip_self=True):
  """[(name, type, default)] from a FunctionDef, using the declared types"""
  a = fn.args
  if a.kwarg or a.posonlyargs:
    _fail('parameter kinds of %s' % fn.name, fn)
  names = [x.arg for x in a.args][1 if skip_self else 0:]
  defaults = [None] * (len(names) - len(a.defaults)) + list(a.defaults)
  if len(a.defaults) > len(names):
    _fail('defaults of %s' % fn.name, fn)
  out = []
  for n, d in zip(names, defaults):
    if n not in types:
      _fail('no type declared for parameter %s of %s' % (n, fn.name), fn)
    out.append((n, types[n], default_term(d, types[n])))
  if a.vararg:
    if a.vararg.arg not in types:
      _fail('no type for *%s' % a.vararg.arg, fn)
    out.append((a.vararg.arg, types[a.vararg.arg], None))
  for x, d in zip(a.kwonlyargs, a.kw_defaults):
    if x.arg not in types:
      _fail('no type declared for parameter %s of %s' % (x.arg, fn.name), fn)
    out.append((x.arg, types[x.arg], default_term(d, types[x.arg]) if types[x.arg] not in ('GB', 'OB') else None))
  if set(n for n, _, _ in out) != set(types):
    _fail('parameters of %s are %r, expected %r' % (fn.name, [n for n, _, _ in out], sorted(types)), fn)
  return out


HEADER = '''(* GENERATED by /verif/harness/bs2v.py from %s -- do not edit; regenerated on every run. *)
From Coq Require Import ZArith List Bool.
Import ListNotations.
Require Import Grist.Model.Bisect Grist.Model.BisectPy.
Open Scope Z_scope.

'''


def translate(grist_dir):
  tr = Tr()
  srcs = ['sort_key.py', 'records.py', os.path.join('functions', 'prevnext.py')]
  mods = {}
  for s in srcs:
    with open(os.path.join(grist_dir, s)) as f:
      mods[s] = ast.parse(f.read())

  # ---- sort_key.py ----------------------------------------------------------------------------
  msk = find_def(mods['sort_key.py'].body, ast.FunctionDef, 'make_sort_key')
  if [a.arg for a in msk.args.args] != ['table', 'sort_spec']:
    _fail('parameters of make_sort_key')
  body = [s for s in msk.body if not (isinstance(s, ast.Expr) and isinstance(s.value, ast.Constant))]
  if len(body) != 4 or not isinstance(body[2], ast.ClassDef) or body[2].name != 'SortKey':
    _fail('make_sort_key is no longer: col_sort_spec = []; for ..; class SortKey; return SortKey')
  pin(body[0], 'col_sort_spec = []', 'first statement of make_sort_key')
  pin(body[3], 'return SortKey', 'last statement of make_sort_key')
  loop = body[1]
  if not (isinstance(loop, ast.For) and isinstance(loop.target, ast.Name) and tr.dotted(loop.iter) == 'sort_spec' and not loop.orelse):
    _fail('loop of make_sort_key', loop)
  env0 = {'table': ('table', 'table'), 'sort_spec': ('sort_spec', 'strs')}
  env1 = dict(env0)
  env1[loop.target.id] = (loop.target.id, 'str')
  lb = tr.blk(loop.body, env1, {'ret': 'cspec', 'append': ('col_sort_spec', 'citem')})
  tr.out.append('(* sort_key.make_sort_key: col_sort_spec = []; for %s in sort_spec: ...; col_sort_spec.append(..) *)\n'
                'Definition make_sort_key_spec (table : pytable) (sort_spec : list (list Z)) : exc (list (list Z * Z)) :=\n'
                '  map_m (fun %s => %s) sort_spec.\n' % (loop.target.id, loop.target.id, lb))
  cls = body[2]
  closure = {'table': ('(cls_table cls)', 'table'), 'col_sort_spec': ('(cls_spec cls)', 'cspec')}
  init = find_def(cls.body, ast.FunctionDef, '__init__')
  tr.define('SortKey.__init__', 'SortKey___init__',
            [('cls', 'cls', None)] + method_params(init, {'row_id': 'rowid', 'values': 'optvals'}), 'key',
            init.body, closure, ctx={'self_init': True, 'fields': {}})
  lt = find_def(cls.body, ast.FunctionDef, '__lt__')
  tr.define('SortKey.__lt__', 'SortKey___lt__',
            [('cls', 'cls', None), ('self', 'key', None)] + method_params(lt, {'other': 'key'}), 'bool', lt.body, closure)
  for n in cls.body:
    if isinstance(n, ast.FunctionDef) and n.name not in ('__init__', '__lt__'):
      _fail('SortKey has another method: %s' % n.name, n)

  # ---- records.py -----------------------------------------------------------------------------
  rec = mods['records.py']
  for n in rec.body:
    if isinstance(n, ast.Assign) and tr.dotted(n.targets[0]) == '_min_row_id':
      pin(n, '_min_row_id = -sys.float_info.max', '_min_row_id')
    if isinstance(n, ast.Assign) and tr.dotted(n.targets[0]) == '_max_row_id':
      pin(n, '_max_row_id = sys.float_info.max', '_max_row_id')
  imp = [n for n in rec.body if isinstance(n, ast.ImportFrom) and n.module == 'bisect']
  if len(imp) != 1 or sorted(a.name for a in imp[0].names) != ['bisect_left', 'bisect_right'] or any(a.asname for a in imp[0].names):
    _fail('records.py no longer has `from bisect import bisect_left, bisect_right`')
  genv = {'_min_row_id': ('RNegInf', 'rowid'), '_max_row_id': ('RPosInf', 'rowid'),
          'bisect_left': ('BLeft', 'side'), 'bisect_right': ('BRight', 'side')}
  rs = find_def(rec.body, ast.ClassDef, 'RecordSet')
  fo = find_def(rec.body, ast.ClassDef, 'FindOps')
  pin(find_def(fo.body, ast.FunctionDef, '__init__').body, 'self._rset = record_set', 'FindOps.__init__')
  for prop in ('find', '_find'):
    p = find_def(rs.body, ast.FunctionDef, prop)
    pb = [s for s in p.body if not (isinstance(s, ast.Expr) and isinstance(s.value, ast.Constant))]
    pin(pb, 'return FindOps(self)', 'RecordSet.%s' % prop)
    if [tr.dotted(d) for d in p.decorator_list] != ['property']:
      _fail('RecordSet.%s is not a property' % prop)
  sb = 'RecordSet.'
  def rsm(name, types, ret):
    fn = find_def(rs.body, ast.FunctionDef, name)
    tr.define(sb + name, 'RecordSet_' + name, [('self', 'rset', None)] + method_params(fn, types), ret, fn.body, genv)
  rsm('__len__', {}, 'Z')
  rsm('_at', {'index': 'Z'}, 'record')
  rsm('_get_sort_key', {}, 'cls')
  rsm('_bisect_index', {'bisect_func': 'side', 'search_row_id': 'rowid', 'search_values': 'optvals'}, 'Z')
  rsm('_bisect_find', {'bisect_func': 'side', 'shift': 'Z', 'search_row_id': 'rowid', 'search_values': 'optvals'}, 'record')
  rsm('_find_eq', {'values': 'vals'}, 'record')
  def fom(name, types, ret):
    fn = find_def(fo.body, ast.FunctionDef, name)
    tr.define('FindOps.' + name, 'FindOps_' + name, [('self', 'rset', None)] + method_params(fn, types), ret, fn.body, genv)
  fom('previous', {'row': 'record'}, 'record')
  fom('next', {'row': 'record'}, 'record')
  fom('rank', {'row': 'record', 'order': 'str'}, 'Z')
  for name in ('lt', 'le', 'gt', 'ge', 'eq'):
    fom(name, {'values': 'vals'}, 'record')
  for n in fo.body:
    if isinstance(n, ast.FunctionDef) and 'FindOps.' + n.name not in tr.funcs and n.name != '__init__':
      _fail('FindOps has another method: %s' % n.name, n)

  # ---- functions/prevnext.py ------------------------------------------------------------------
  pn = mods[os.path.join('functions', 'prevnext.py')]
  sl = find_def(pn.body, ast.FunctionDef, '_sorted_lookup')
  if [a.arg for a in sl.args.kwonlyargs] != ['group_by', 'order_by'] or [a.arg for a in sl.args.args] != ['rec']:
    _fail('parameters of _sorted_lookup')
  penv = {'_sorted_lookup': ('sorted_lookup', 'sorted_lookup')}
  for name, types in (('PREVIOUS', {'rec': 'record', 'group_by': 'GB', 'order_by': 'OB'}),
                      ('NEXT', {'rec': 'record', 'group_by': 'GB', 'order_by': 'OB'}),
                      ('RANK', {'rec': 'record', 'group_by': 'GB', 'order_by': 'OB', 'order': 'str'})):
    fn = find_def(pn.body, ast.FunctionDef, name)
    if fn.args.args and [a.arg for a in fn.args.args] != ['rec']:
      _fail('positional parameters of %s' % name)
    ps = method_params(fn, types, skip_self=False)
    tr.define(name, 'PN_' + name, ps, 'record' if name != 'RANK' else 'Z', fn.body, penv,
              extra_binders='{GB OB : Type} (sorted_lookup : Z -> GB -> OB -> exc pyrset)')
  return HEADER % ', '.join(srcs) + '\n'.join(tr.out)


if __name__ == '__main__':
  import sys
  print(translate(sys.argv[1] if len(sys.argv) > 1 else '/repo/sandbox/grist'))
