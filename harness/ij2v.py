"""
ij2v -- fail-closed translator from /repo/sandbox/grist/imports/import_json.py to Gallina (used by harness/props/c33.py).

The generated file coq/gen/JsonImport_gen.v is written in terms of the Python primitives of Model/JsonImportPy.v and the
value types of Model/JsonImport.v.  Pure functions (_is_included, the option parsing of __init__, first_available_key,
_grist_type, _dump_value, _transpose, _dump_table, _dictify, GRIST_TYPES) are translated expression by expression; the
method Tables.add_row is translated by ij2v_walk.py (object state as an explicit event log).  Anything outside the subset
raises Untranslatable.  Types are given by the specs in ij2v_spec.py.

Types: 'bool' 'nat' 'str' 'cell' 'ref' 'grow' 'gcol' 'pytype' 'dcell' 'json' 'none', ('L', t) list, ('O', t) Optional,
('OD', t) OrderedDict str -> t, ('AL', k, v) literal dict, ('P', a, b) pair, ('T', [t...]) dict literal with constant keys.
"""
import ast


class Untranslatable(Exception):
  pass


def fail(node, msg):
  raise Untranslatable('%s (line %s: %s)' % (msg, getattr(node, 'lineno', '?'),
                                             ast.unparse(node)[:90] if isinstance(node, ast.AST) else node))


def coq_ty(t):
  if isinstance(t, tuple):
    if t[0] == 'L':
      return '(list %s)' % coq_ty(t[1])
    if t[0] == 'O':
      return '(option %s)' % coq_ty(t[1])
    if t[0] == 'OD':
      return '(list (str * %s))' % coq_ty(t[1])
    if t[0] == 'AL':
      return '(list (%s * %s))' % (coq_ty(t[1]), coq_ty(t[2]))
    if t[0] == 'P':
      return '(%s * %s)' % (coq_ty(t[1]), coq_ty(t[2]))
    if t[0] == 'T':
      return '(' + ' * '.join(coq_ty(x) for x in t[1]) + ')'
  return {'bool': 'bool', 'nat': 'nat', 'str': 'str', 'cell': 'cell', 'ref': 'ref', 'grow': 'grow', 'gcol': 'gcol',
          'pytype': 'pytype', 'dcell': 'dcell', 'json': 'json'}[t]


def strlit(s):
  return '[' + '; '.join('%d%%Z' % ord(c) for c in s) + ']'


PYTYPES = {'int': 'TyInt', 'float': 'TyFloat', 'bool': 'TyBool', 'str': 'TyStr', 'Ref': 'TyRef'}
ATTRS = {('grow', 'values'): ('row_values %s', ('OD', 'cell')), ('grow', 'parent'): ('row_parent %s', ('O', 'ref')),
         (('O', 'ref'), 'ref'): ('parent_ref %s', 'ref'),                   # row.parent.ref
         (('O', 'ref'), 'table_name'): ('ref_table_name (parent_ref %s)', 'str'),
         ('ref', 'table_name'): ('ref_table_name %s', 'str'), ('ref', 'rowid'): ('ref_rowid %s', 'nat'),
         ('cell', 'table_name'): ('cell_table_name %s', 'str'), ('cell', 'rowid'): ('cell_rowid %s', 'nat'),
         ('gcol', 'type'): ('col_type_of %s', 'str'), ('gcol', 'values'): ('col_values_of %s', ('L', 'cell'))}
COERCE = {(('O', 'ref'), 'cell'): 'cell_of_oref %s', ('ref', 'cell'): 'CR %s', ('nat', 'dcell'): 'dcell_of_nat %s',
          ('cell', 'dcell'): 'dcell_of_cell %s', ('json', 'cell'): 'cell_of_json %s', ('none', 'cell'): 'cnone',
          ('json', ('L', ('P', 'str', 'json'))): 'json_items %s'}
FIELDS = ('L', ('P', 'str', 'json'))
COERCE[(('L', 'ref'), ('L', 'cell'))] = 'map CR %s'
DEFAULTS = {'ref': '(([], O) : ref)', 'str': '([] : str)', 'cell': 'cnone'}


def coerce(code, ty, want, node=None):
  if ty == want:
    return code
  if ty == 'none' and isinstance(want, tuple) and want[0] == 'O':
    return 'None'
  if (ty, want) in COERCE:
    c = COERCE[(ty, want)]
    return '(' + (c % code if '%s' in c else c) + ')'
  fail(node, 'cannot use a %r where a %r is expected' % (ty, want))


class Tr(object):
  """One function.  funcs: name -> (coq name, extra leading args, [param types], return type)."""

  def __init__(self, funcs, fields, glob):
    self.funcs, self.fields, self.glob = funcs, fields, glob
    self.env = {}
    self.hints = {}

  def var(self, name):
    return 'v_' + name

  def pat(self, target, ty):
    """Binds a loop / comprehension target; returns the Coq pattern."""
    if isinstance(target, ast.Name):
      self.env[target.id] = ty
      return self.var(target.id)
    if isinstance(target, ast.Tuple) and isinstance(ty, tuple) and ty[0] == 'P' and len(target.elts) == 2 and \
       all(isinstance(e, ast.Name) for e in target.elts):
      self.env[target.elts[0].id], self.env[target.elts[1].id] = ty[1], ty[2]
      return "'(%s, %s)" % (self.var(target.elts[0].id), self.var(target.elts[1].id))
    fail(target, 'unsupported target for element type %r' % (ty,))

  def truthy(self, node):
    code, ty = self.expr(node)
    if ty == 'bool':
      return code
    if isinstance(ty, tuple) and ty[0] in ('L', 'OD'):
      return '(py_truthy_list %s)' % code
    if isinstance(ty, tuple) and ty[0] == 'O':
      return '(py_truthy_opt %s)' % code
    fail(node, 'truth value of a %r' % (ty,))

  def elem_ty(self, ty, node):
    if isinstance(ty, tuple) and ty[0] == 'L':
      return ty[1]
    fail(node, 'iteration over a %r' % (ty,))

  def comp(self, node):
    """[elt for target in iter if cond...] -> (code, element type)."""
    if len(node.generators) != 1 or node.generators[0].is_async:
      fail(node, 'only one generator')
    g = node.generators[0]
    it, ity = self.expr(g.iter)
    saved = dict(self.env)
    p = self.pat(g.target, self.elem_ty(ity, g.iter))
    for c in g.ifs:
      it = '(filter (fun %s => %s) %s)' % (p, self.truthy(c), it)
    elt = node.elt if not isinstance(node, ast.DictComp) else fail(node, 'dict comprehension')
    ecode, ety = self.expr(elt)
    self.env = saved
    return '(map (fun %s => %s) %s)' % (p, ecode, it), ety

  def expr(self, n):
    if isinstance(n, ast.Name):
      if n.id in self.env:
        return self.var(n.id), self.env[n.id]
      if n.id in self.glob:
        return self.glob[n.id]
      fail(n, 'unknown name')
    if isinstance(n, ast.Constant):
      if n.value is True or n.value is False:
        return ('true' if n.value else 'false'), 'bool'
      if n.value is None:
        return 'None', 'none'
      if isinstance(n.value, str):
        return strlit(n.value), 'str'
      if isinstance(n.value, int) and 0 <= n.value < 1000:
        return '%d%%nat' % n.value, 'nat'
      fail(n, 'constant')
    if isinstance(n, ast.Attribute):
      if isinstance(n.value, ast.Name) and n.value.id == 'self':
        if n.attr not in self.fields:
          fail(n, 'unknown field of self')
        return 'self' + n.attr, self.fields[n.attr]
      code, ty = self.expr(n.value)
      if (ty, n.attr) in ATTRS:
        c, t = ATTRS[(ty, n.attr)]
        return '(' + c % code + ')', t
      fail(n, 'attribute %s of a %r' % (n.attr, ty))
    if isinstance(n, ast.IfExp):
      a, ta = self.expr(n.body)
      b, tb = self.expr(n.orelse)
      t = tb if ta == 'none' else ta
      if {ta, tb} == {'json', FIELDS}:
        t = FIELDS                                           # a JSON value known to be a dict, used as its items
      if ta != tb and 'none' in (ta, tb) and not (isinstance(t, tuple) and t[0] == 'O'):
        t = 'cell'                                           # `x if c else None` as a cell value
      return '(if %s then %s else %s)' % (self.truthy(n.test), coerce(a, ta, t, n), coerce(b, tb, t, n)), t
    if isinstance(n, ast.BoolOp):
      op = 'andb' if isinstance(n.op, ast.And) else 'orb'
      code = self.truthy(n.values[0])
      for v in n.values[1:]:
        code = '(%s %s %s)' % (op, code, self.truthy(v))
      return code, 'bool'
    if isinstance(n, ast.UnaryOp) and isinstance(n.op, ast.Not):
      return '(negb %s)' % self.truthy(n.operand), 'bool'
    if isinstance(n, ast.BinOp) and isinstance(n.op, ast.Add):
      a, ta = self.expr(n.left)
      b, tb = self.expr(n.right)
      if ta == tb == 'str':
        return '(%s ++ %s)' % (a, b), 'str'
      if ta == tb == 'nat':
        return '(%s + %s)%%nat' % (a, b), 'nat'
      fail(n, '+ on %r and %r' % (ta, tb))
    if isinstance(n, ast.Compare) and len(n.ops) == 1:
      return self.compare(n)
    if isinstance(n, (ast.ListComp, ast.GeneratorExp)):
      code, ety = self.comp(n)
      return code, ('L', ety)
    if isinstance(n, ast.Dict):
      if not all(isinstance(k, ast.Constant) and isinstance(k.value, str) for k in n.keys):
        fail(n, 'dict literal with non-constant keys')
      parts = [self.expr(v) for v in n.values]
      if parts and all(t == 'json' for _, t in parts):                   # a dict of JSON values, e.g. {'': value}
        return '[' + '; '.join('(%s, %s)' % (strlit(k.value), c) for k, (c, _) in zip(n.keys, parts)) + ']', FIELDS
      return '(' + ', '.join(c for c, _ in parts) + ')', ('T', tuple(t for _, t in parts))
    if isinstance(n, ast.Call):
      return self.call(n)
    if isinstance(n, ast.Subscript) and isinstance(n.slice, ast.Constant) and isinstance(n.slice.value, int) and \
       not isinstance(n.slice.value, bool) and 0 <= n.slice.value < 100:
      a, ta = self.expr(n.value)                              # xs[i]; IndexError is not modelled: default value
      t = self.elem_ty(ta, n)
      if t not in DEFAULTS:
        fail(n, 'indexing a list of %r' % (t,))
      return '(nth %d %s %s)' % (n.slice.value, a, DEFAULTS[t]), t
    fail(n, 'unsupported expression')

  def compare(self, n):
    op, left, right = n.ops[0], n.left, n.comparators[0]
    if isinstance(op, (ast.Eq, ast.NotEq)):
      a, ta = self.expr(left)
      if ta == 'pytype' and isinstance(right, ast.Name) and right.id in PYTYPES:
        code = '(pytype_eqb %s %s)' % (a, PYTYPES[right.id])
        return (code if isinstance(op, ast.Eq) else '(negb %s)' % code), 'bool'
      fail(n, '== on a %r' % (ta,))
    if isinstance(op, (ast.In, ast.NotIn)):
      a, ta = self.expr(left)
      b, tb = self.expr(right)
      if ta == 'str' and isinstance(tb, tuple) and tb[0] == 'OD':
        code = '(od_mem %s %s)' % (a, b)
        return (code if isinstance(op, ast.In) else '(negb %s)' % code), 'bool'
      fail(n, 'membership of a %r in a %r' % (ta, tb))
    fail(n, 'unsupported comparison')
