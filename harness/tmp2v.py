"""
tmp2v -- fail-closed translator for the temporary-row-id code of C26 (DESIGN 4.1; notes/agent_prompts/TIGHTEN.md):

  action_summary.py  ActionSummary.update_new_rows_map, translate_new_row_ids
  column.py          BaseReferenceColumn._reject_unresolved_temp_ids,
                     ReferenceColumn.prepare_new_values, ReferenceListColumn.prepare_new_values
  useractions.py     the row-id preparation at the top of doBulkUpdateRecord (translate, keep-last de-duplication)
                     and of doBulkRemoveRecord (which ids reach the doc action, which the reference clean-up)

The Gallina text is regenerated from /repo on every run into coq/gen/TempIds_gen.v and the bridging lemmas of
coq/theories/Proofs/TempIds_bridge.v are re-checked against it.  Anything outside the subset below raises
Untranslatable (-> core.TieBroken).  Library: coq/theories/Lib/PyTmp.v, Lib/PyMonad.v.

Types:  Z, OZ (int or None), bool, LZ, LOZ, cell (pycell), Lcell, tid, tref (result of _forTable: the table id),
        zdict, od (ordered dict int->int), PZZ (list of int pairs), LA (list of a type variable A), cols
        (dict col id -> LA, as an association list), obj (an object that is always truthy).
The ActionSummary's per-table maps are the explicit state `summ : Z -> zdict`.
"""
import ast


class Untranslatable(Exception):
  pass


def fail(node, msg):
  raise Untranslatable('%s (line %s): %s' % (msg, getattr(node, 'lineno', '?'), ast.dump(node)[:160]))


COQ_TY = {'Z': 'Z', 'OZ': '(option Z)', 'bool': 'bool', 'LZ': '(list Z)', 'LOZ': '(list (option Z))',
          'cell': 'pycell', 'Lcell': '(list pycell)', 'tid': 'Z', 'zdict': 'zdict', 'PZZ': '(list (Z * Z))',
          'LA': '(list A)', 'cols': '(list (Z * list A))', 'summ': '(Z -> zdict)', 'unit': 'unit'}
LIST_OF = {'Z': 'LZ', 'cell': 'Lcell'}
ELEM_OF = {'LZ': 'Z', 'LOZ': 'OZ', 'Lcell': 'cell'}
SUMMARY_PATHS = ('action_summary', 'self._engine.out_actions.summary')


def dotted(e):
  parts = []
  while isinstance(e, ast.Attribute):
    parts.append(e.attr)
    e = e.value
  if isinstance(e, ast.Name):
    parts.append(e.id)
    return '.'.join(reversed(parts))
  return None


def is_isinstance(n, tyname):
  return (isinstance(n, ast.Call) and isinstance(n.func, ast.Name) and n.func.id == 'isinstance' and len(n.args) == 2
          and isinstance(n.args[0], ast.Name) and isinstance(n.args[1], ast.Name) and n.args[1].id == tyname)


class Tr(object):
  def __init__(self, attrs):
    self.attrs = attrs        # dotted python path -> (coq term, type), e.g. self._target_table.table_id

  # ---- boolean conditions, with narrowing of option / cell typed names --------------------------------
  def cond(self, n, env, kt, kf):
    """text of `if n then kt(env') else kf(env)`; kt gets the environment narrowed by the test"""
    if isinstance(n, ast.BoolOp) and isinstance(n.op, ast.And):
      first, rest = n.values[0], n.values[1:]
      rest_n = rest[0] if len(rest) == 1 else ast.BoolOp(op=ast.And(), values=rest, lineno=n.lineno)
      return self.cond(first, env, lambda e2: self.cond(rest_n, e2, kt, kf), kf)
    if isinstance(n, ast.Name) and env.get(n.id, (None, None))[1] == 'OZ':
      # truthiness of an int-or-None: None and 0 are falsy
      x = env[n.id][0]
      e2 = dict(env); e2[n.id] = (x, 'Z')
      return '(match %s with None => %s | Some %s => if (%s =? 0) then %s else %s end)' % (
        x, kf(env), x, x, kf(env), kt(e2))
    if isinstance(n, ast.Name) and env.get(n.id, (None, None))[1] in ('LZ', 'Lcell', 'LA'):
      return '(if (py_is_nil %s) then %s else %s)' % (env[n.id][0], kf(env), kt(env))
    if isinstance(n, ast.Name) and env.get(n.id, (None, None))[1] == 'obj':
      return kt(env)            # an object that is always passed: truthy
    if is_isinstance(n, 'list') and env.get(n.args[0].id, (None, None))[1] == 'cell':
      x = env[n.args[0].id][0]
      e2 = dict(env); e2[n.args[0].id] = (x + '__l', 'LZ')
      return '(match %s with CList %s__l => %s | _ => %s end)' % (x, x, kt(e2), kf(env))
    if is_isinstance(n, 'int') and env.get(n.args[0].id, (None, None))[1] == 'cell':
      x = env[n.args[0].id][0]
      e2 = dict(env); e2[n.args[0].id] = (x + '__z', 'Z')
      return '(match %s with CInt %s__z => %s | _ => %s end)' % (x, x, kt(e2), kf(env))
    c, t = self.ex(n, env)
    if t != 'bool':
      fail(n, 'condition of type %s' % t)
    return '(if %s then %s else %s)' % (c, kt(env), kf(env))

  def boolean(self, n, env):
    return self.cond(n, env, lambda e: 'true', lambda e: 'false')

  # ---- expressions ---------------------------------------------------------------------------------------
  def ex(self, n, env):
    if isinstance(n, ast.Name):
      if n.id not in env:
        fail(n, 'unbound name')
      return env[n.id]
    if isinstance(n, ast.Constant) and isinstance(n.value, int) and not isinstance(n.value, bool):
      return '(%d)' % n.value, 'Z'
    if isinstance(n, ast.UnaryOp) and isinstance(n.op, ast.USub) and isinstance(n.operand, ast.Constant) and \
       isinstance(n.operand.value, int) and not isinstance(n.operand.value, bool):
      return '(-%d)' % n.operand.value, 'Z'
    if isinstance(n, ast.Attribute):
      d = dotted(n)
      if d in self.attrs:
        return self.attrs[d]
      if n.attr == 'temp_row_ids' and isinstance(n.value, ast.Name) and env.get(n.value.id, (0, 0))[1] == 'tref':
        return '(summ %s)' % env[n.value.id][0], 'zdict'
      fail(n, 'attribute')
    if isinstance(n, ast.Compare) and len(n.ops) == 1:
      l, lt = self.ex(n.left, env)
      r, rt = self.ex(n.comparators[0], env)
      if lt == 'Z' and rt == 'Z':
        op = {ast.Lt: '<?', ast.LtE: '<=?', ast.Eq: '=?'}.get(type(n.ops[0]))
        if op:
          return '(%s %s %s)' % (l, op, r), 'bool'
        if isinstance(n.ops[0], ast.NotEq):
          return '(negb (%s =? %s))' % (l, r), 'bool'
      fail(n, 'comparison of %s and %s' % (lt, rt))
    if isinstance(n, ast.IfExp):
      return self.ifexp(n, env)
    if isinstance(n, ast.ListComp):
      return self.listcomp(n, env)
    if isinstance(n, ast.DictComp):
      return self.dictcomp(n, env)
    if isinstance(n, ast.GeneratorExp):
      return self.pairs_gen(n, env)
    if isinstance(n, ast.Call):
      return self.call(n, env)
    fail(n, 'expression')

  def call(self, n, env):
    f = n.func
    if n.keywords:
      fail(n, 'keyword arguments')
    if isinstance(f, ast.Name):
      if f.id == 'len' and len(n.args) == 1:
        a, t = self.ex(n.args[0], env)
        if t in ('LZ', 'LA', 'Lcell', 'LOZ'):
          return '(py_len %s)' % a, 'Z'
      if f.id == 'set' and len(n.args) == 1:
        a, t = self.ex(n.args[0], env)
        if t == 'LZ':
          return '(py_set %s)' % a, 'LZ'
      if f.id == 'int' and len(n.args) == 1:
        a, t = self.ex(n.args[0], env)
        if t == 'Z':
          return a, 'Z'             # int() of an int (Record arguments are outside the domain)
      if f.id == 'sorted' and len(n.args) == 1:
        a, t = self.ex(n.args[0], env)
        if t == 'LZ':
          return '(py_sorted %s)' % a, 'LZ'
      if f.id == 'any' and len(n.args) == 1 and isinstance(n.args[0], ast.GeneratorExp):
        g = n.args[0]
        if len(g.generators) == 1 and not g.generators[0].ifs and isinstance(g.generators[0].target, ast.Name):
          it, itt = self.ex(g.generators[0].iter, env)
          if itt in ELEM_OF:
            v = g.generators[0].target.id
            e2 = dict(env); e2[v] = (v, ELEM_OF[itt])
            return '(existsb (fun %s => %s) %s)' % (v, self.boolean(g.elt, e2), it), 'bool'
      fail(n, 'call')
    if isinstance(f, ast.Attribute):
      recv = dotted(f.value)
      if f.attr == 'translate_new_row_ids' and recv in SUMMARY_PATHS and len(n.args) == 2:
        t, tt = self.ex(n.args[0], env)
        x, xt = self.ex(n.args[1], env)
        if tt == 'tid' and xt == 'LZ':
          return '(translate_new_row_ids summ %s %s)' % (t, x), 'LZ'
        if tt == 'tid' and xt == 'Lcell':
          return '(translate_new_row_ids_cells summ %s %s)' % (t, x), 'Lcell'
      if f.attr == 'get' and len(n.args) == 2:
        d, dt = self.ex(f.value, env)
        k, kt = self.ex(n.args[0], env)
        v, vt = self.ex(n.args[1], env)
        if dt == 'zdict' and kt == vt == 'Z':
          return '(py_dict_get %s %s %s)' % (d, k, v), 'Z'
        if dt == 'zdict' and kt == vt == 'cell':
          return '(py_dict_get_cell %s %s %s)' % (d, k, v), 'cell'
      if f.attr == 'values' and not n.args:
        d, dt = self.ex(f.value, env)
        if dt == 'od':
          return '(py_dict_values %s)' % d, 'LZ'
      if f.attr == '_forTable' and recv == 'self' and len(n.args) == 1:
        t, tt = self.ex(n.args[0], env)
        if tt == 'tid':
          return t, 'tref'
    fail(n, 'call')

  def coerce(self, term, t, want, n):
    if t == want:
      return term
    if t == 'LZ' and want == 'cell':
      return '(CList %s)' % term
    fail(n, 'type %s where %s is needed' % (t, want))

  def ifexp(self, n, env):
    # (value if isinstance(value, list) else (value,))  -- the items of a cell
    if is_isinstance(n.test, 'list') and isinstance(n.body, ast.Name) and n.body.id == n.test.args[0].id and \
       isinstance(n.orelse, ast.Tuple) and len(n.orelse.elts) == 1 and isinstance(n.orelse.elts[0], ast.Name) and \
       n.orelse.elts[0].id == n.body.id and env.get(n.body.id, (0, 0))[1] == 'cell':
      return '(py_cell_items %s)' % env[n.body.id][0], 'Lcell'
    b, bt = self.ex(n.orelse, env)
    def kt(e2):
      a, at = self.ex(n.body, e2)
      return self.coerce(a, at, bt, n)
    return self.cond(n.test, env, kt, lambda e: b), bt

  def listcomp(self, n, env):
    if len(n.generators) != 1 or n.generators[0].ifs or not isinstance(n.generators[0].target, ast.Name):
      fail(n, 'list comprehension shape')
    g = n.generators[0]
    v = g.target.id
    it, itt = self.ex(g.iter, env)
    # [l[i] for i in keep]
    if isinstance(n.elt, ast.Subscript) and isinstance(n.elt.value, ast.Name) and isinstance(n.elt.slice, ast.Name) \
       and n.elt.slice.id == v and itt == 'LZ':
      l, lt = self.ex(n.elt.value, env)
      if lt in ('LZ', 'LA', 'Lcell'):
        return '(flat_map (fun %s => py_index %s %s) %s)' % (v, l, v, it), lt
      fail(n, 'indexing a %s' % lt)
    if itt not in ELEM_OF:
      fail(n, 'comprehension over %s' % itt)
    e2 = dict(env); e2[v] = (v, ELEM_OF[itt])
    e, et = self.ex(n.elt, e2)
    if et not in LIST_OF:
      fail(n, 'list of %s' % et)
    return '(map (fun %s => %s) %s)' % (v, e, it), LIST_OF[et]

  def dictcomp(self, n, env):
    if len(n.generators) != 1 or n.generators[0].ifs:
      fail(n, 'dict comprehension shape')
    g = n.generators[0]
    tg = g.target
    if not (isinstance(tg, ast.Tuple) and len(tg.elts) == 2 and all(isinstance(x, ast.Name) for x in tg.elts)):
      fail(n, 'dict comprehension target')
    a, b = tg.elts[0].id, tg.elts[1].id
    it = g.iter
    # {k: i for i, k in enumerate(l)}
    if isinstance(it, ast.Call) and isinstance(it.func, ast.Name) and it.func.id == 'enumerate' and len(it.args) == 1:
      l, lt = self.ex(it.args[0], env)
      if lt != 'LZ':
        fail(n, 'enumerate over %s' % lt)
      e2 = dict(env); e2[a] = (a, 'Z'); e2[b] = (b, 'Z')
      k, kt = self.ex(n.key, e2)
      v, vt = self.ex(n.value, e2)
      if kt != 'Z' or vt != 'Z':
        fail(n, 'dict of %s -> %s' % (kt, vt))
      return "(py_dict_of (map (fun '(%s, %s) => (%s, %s)) (py_enumerate %s)))" % (a, b, k, v, l), 'od'
    # {c: E for c, values in columns.items()}
    if isinstance(it, ast.Call) and isinstance(it.func, ast.Attribute) and it.func.attr == 'items' and not it.args:
      d, dt = self.ex(it.func.value, env)
      if dt != 'cols' or not (isinstance(n.key, ast.Name) and n.key.id == a):
        fail(n, 'dict comprehension over %s' % dt)
      e2 = dict(env); e2[a] = (a, 'Z'); e2[b] = (b, 'LA')
      v, vt = self.ex(n.value, e2)
      if vt != 'LA':
        fail(n, 'column of %s' % vt)
      return "(map (fun '(%s, %s) => (%s, %s)) %s)" % (a, b, a, v, d), 'cols'
    fail(n, 'dict comprehension source')

  def pairs_gen(self, n, env):
    # ((a, b) for (a, b) in zip(X, Y) if COND)
    if len(n.generators) != 1:
      fail(n, 'generator shape')
    g = n.generators[0]
    tg = g.target
    it = g.iter
    if not (isinstance(tg, ast.Tuple) and len(tg.elts) == 2 and all(isinstance(x, ast.Name) for x in tg.elts) and
            isinstance(it, ast.Call) and isinstance(it.func, ast.Name) and it.func.id == 'zip' and len(it.args) == 2):
      fail(n, 'generator shape')
    a, b = tg.elts[0].id, tg.elts[1].id
    x, xt = self.ex(it.args[0], env)
    y, yt = self.ex(it.args[1], env)
    if xt not in ELEM_OF or yt not in ELEM_OF:
      fail(n, 'zip of %s and %s' % (xt, yt))
    e2 = dict(env); e2[a] = (a, ELEM_OF[xt]); e2[b] = (b, ELEM_OF[yt])
    def emit(e3):
      if not (isinstance(n.elt, ast.Tuple) and len(n.elt.elts) == 2):
        fail(n, 'generator element')
      p, pt = self.ex(n.elt.elts[0], e3)
      q, qt = self.ex(n.elt.elts[1], e3)
      if pt != 'Z' or qt != 'Z':
        fail(n, 'pair of %s and %s' % (pt, qt))
      return '[(%s, %s)]' % (p, q)
    test = g.ifs[0] if len(g.ifs) == 1 else (ast.BoolOp(op=ast.And(), values=g.ifs, lineno=n.lineno) if g.ifs else None)
    body = emit(e2) if test is None else self.cond(test, e2, emit, lambda e: '[]')
    return "(flat_map (fun '(%s, %s) => %s) (combine %s %s))" % (a, b, body, x, y), 'PZZ'

  # ---- statements: continuation-passing, result in the py_result monad ----------------------------------
  def block(self, stmts, env, k):
    """k(env) gives the text for falling off the end"""
    if not stmts:
      return k(env)
    s, rest = stmts[0], stmts[1:]
    if isinstance(s, ast.Expr) and isinstance(s.value, ast.Constant) and isinstance(s.value.value, str):
      return self.block(rest, env, k)
    if isinstance(s, ast.Assign) and len(s.targets) == 1 and isinstance(s.targets[0], ast.Name):
      v, t = self.ex(s.value, env)
      n = s.targets[0].id
      if n in env and env[n][1] != t:
        fail(s, '%s changes type from %s to %s' % (n, env[n][1], t))
      e2 = dict(env); e2[n] = (n, t)
      return 'let %s := %s in\n%s' % (n, v, self.block(rest, e2, k))
    if isinstance(s, ast.Return):
      if rest:
        fail(s, 'code after return')
      return self.on_return(s, env)
    if isinstance(s, ast.If) and not s.orelse:
      return self.cond(s.test, env, lambda e2: self.block(s.body + rest, e2, k), lambda e2: self.block(rest, e2, k))
    if isinstance(s, ast.Expr) and isinstance(s.value, ast.Call) and isinstance(s.value.func, ast.Attribute):
      c = s.value
      f = c.func
      # t.temp_row_ids.update(<pairs>)
      if f.attr == 'update' and len(c.args) == 1 and not c.keywords:
        d = f.value
        if isinstance(d, ast.Attribute) and d.attr == 'temp_row_ids' and isinstance(d.value, ast.Name) and \
           env.get(d.value.id, (0, 0))[1] == 'tref':
          t = env[d.value.id][0]
          p, pt = self.ex(c.args[0], env)
          if pt != 'PZZ':
            fail(s, 'update with %s' % pt)
          return 'let summ := (py_maps_set summ %s (py_dict_update (summ %s) %s)) in\n%s' % (
            t, t, p, self.block(rest, env, k))
      # self._reject_unresolved_temp_ids(values)
      if f.attr == '_reject_unresolved_temp_ids' and dotted(f.value) == 'self' and len(c.args) == 1 and not c.keywords:
        a, at = self.ex(c.args[0], env)
        if at != 'Lcell':
          fail(s, 'reject of %s' % at)
        return '(py_bind (reject_unresolved_temp_ids %s) (fun _ =>\n%s))' % (a, self.block(rest, env, k))
      # self._do_doc_action(actions.BulkRemoveRecord(table_id, X)): X is what the doc action removes
      if f.attr == '_do_doc_action' and dotted(f.value) == 'self' and len(c.args) == 1 and \
         isinstance(c.args[0], ast.Call) and dotted(c.args[0].func) == 'actions.BulkRemoveRecord' and \
         len(c.args[0].args) == 2 and isinstance(c.args[0].args[0], ast.Name) and c.args[0].args[0].id == 'table_id':
        a, at = self.ex(c.args[0].args[1], env)
        if at != 'LZ':
          fail(s, 'doc action on %s' % at)
        e2 = dict(env); e2['removed__'] = ('removed__', 'LZ')
        return 'let removed__ := %s in\n%s' % (a, self.block(rest, e2, k))
    fail(s, 'statement')

  # for value in values: for r in ITEMS: if COND: raise ValueError(...)   (nothing else in the bodies)
  def exists_loops(self, s, env):
    if not (isinstance(s, ast.For) and not s.orelse and isinstance(s.target, ast.Name) and len(s.body) == 1):
      fail(s, 'loop shape')
    it, itt = self.ex(s.iter, env)
    if itt not in ELEM_OF:
      fail(s, 'loop over %s' % itt)
    v = s.target.id
    e2 = dict(env); e2[v] = (v, ELEM_OF[itt])
    b = s.body[0]
    if isinstance(b, ast.For):
      inner = self.exists_loops(b, e2)
    elif isinstance(b, ast.If) and not b.orelse and len(b.body) == 1 and isinstance(b.body[0], ast.Raise):
      exc = b.body[0].exc
      exc = exc.func if isinstance(exc, ast.Call) else exc
      if not (isinstance(exc, ast.Name) and exc.id == 'ValueError'):
        fail(b, 'raise of something other than ValueError')
      inner = self.boolean(b.test, e2)
    else:
      fail(b, 'loop body')
    return '(existsb (fun %s => %s) %s)' % (v, inner, it)


# ---------------------------------------------------------------------------------------------------------
def find_method(tree, cls, name):
  for c in tree.body:
    if isinstance(c, ast.ClassDef) and c.name == cls:
      for f in c.body:
        if isinstance(f, ast.FunctionDef) and f.name == name:
          return f
  raise Untranslatable('no method %s.%s' % (cls, name))


def params_of(fn):
  return [a.arg for a in fn.args.args]


def strip_doc(stmts):
  return [s for s in stmts if not (isinstance(s, ast.Expr) and isinstance(s.value, ast.Constant)
                                   and isinstance(s.value.value, str))]


def sig(params):
  return ' '.join('(%s : %s)' % (n, COQ_TY[t]) for n, t in params)


HEADER = '''(* GENERATED by /verif/harness/tmp2v.py from %s -- do not edit; regenerated on every run. *)
From Coq Require Import ZArith List Bool.
Import ListNotations.
Require Import Grist.Lib.PyPrelude Grist.Lib.PyMonad Grist.Lib.PyTmp.
Open Scope Z_scope.

'''


def gen_translate(fn, name, elem_list_ty):
  """ActionSummary.translate_new_row_ids for ids (LZ) or cell values (Lcell)"""
  if params_of(fn) != ['self', 'table_id', 'row_ids']:
    raise Untranslatable('parameters of translate_new_row_ids: %r' % params_of(fn))
  tr = Tr({})
  tr.on_return = lambda s, env: tr.ex(s.value, env)[0] if tr.ex(s.value, env)[1] == elem_list_ty else \
      fail(s, 'returns %s' % tr.ex(s.value, env)[1])
  env = {'table_id': ('table_id', 'tid'), 'row_ids': ('row_ids', elem_list_ty)}
  body = tr.block(strip_doc(fn.body), env, lambda e: fail(fn, 'falls off the end'))
  return 'Definition %s %s : %s :=\n%s.\n' % (
    name, sig([('summ', 'summ'), ('table_id', 'tid'), ('row_ids', elem_list_ty)]), COQ_TY[elem_list_ty], body)


def gen_update_map(fn):
  if params_of(fn) != ['self', 'table_id', 'temp_row_ids', 'final_row_ids']:
    raise Untranslatable('parameters of update_new_rows_map: %r' % params_of(fn))
  tr = Tr({})
  tr.on_return = lambda s, env: fail(s, 'return in update_new_rows_map')
  env = {'table_id': ('table_id', 'tid'), 'temp_row_ids': ('temp_row_ids', 'LOZ'),
         'final_row_ids': ('final_row_ids', 'LZ')}
  body = tr.block(strip_doc(fn.body), env, lambda e: 'summ')
  return 'Definition update_new_rows_map %s : Z -> zdict :=\n%s.\n' % (
    sig([('summ', 'summ'), ('table_id', 'tid'), ('temp_row_ids', 'LOZ'), ('final_row_ids', 'LZ')]), body)


def gen_reject(fn):
  if params_of(fn) != ['self', 'values']:
    raise Untranslatable('parameters of _reject_unresolved_temp_ids: %r' % params_of(fn))
  stmts = strip_doc(fn.body)
  if len(stmts) != 1:
    raise Untranslatable('_reject_unresolved_temp_ids has %d statements' % len(stmts))
  tr = Tr({})
  c = tr.exists_loops(stmts[0], {'values': ('values', 'Lcell')})
  return 'Definition reject_unresolved_temp_ids (values : list pycell) : py_result unit :=\nif %s then PyErr PyValueError else PyOk tt.\n' % c


def gen_prepare(fn, cls, name):
  if params_of(fn) != ['self', 'row_ids', 'values', 'ignore_data', 'action_summary']:
    raise Untranslatable('parameters of %s.prepare_new_values: %r' % (cls, params_of(fn)))
  tr = Tr({'self._target_table.table_id': ('target_table_id', 'tid'), 'self.table_id': ('self_table_id', 'tid')})
  def on_return(s, env):
    # return super(Cls, self).prepare_new_values(row_ids, values, ...): what goes on is `values`
    c = s.value
    ok = (isinstance(c, ast.Call) and isinstance(c.func, ast.Attribute) and c.func.attr == 'prepare_new_values' and
          isinstance(c.func.value, ast.Call) and isinstance(c.func.value.func, ast.Name) and
          c.func.value.func.id == 'super' and len(c.args) == 2 and isinstance(c.args[0], ast.Name) and
          c.args[0].id == 'row_ids' and isinstance(c.args[1], ast.Name))
    if not ok:
      fail(s, 'return is not the call of the base class')
    v, t = tr.ex(c.args[1], env)
    if t != 'Lcell':
      fail(s, 'passes on %s' % t)
    return '(PyOk %s)' % v
  tr.on_return = on_return
  env = {'values': ('values', 'Lcell'), 'action_summary': ('action_summary', 'obj')}
  body = tr.block(strip_doc(fn.body), env, lambda e: fail(fn, 'falls off the end'))
  return 'Definition %s %s : py_result (list pycell) :=\n%s.\n' % (
    name, sig([('summ', 'summ'), ('self_table_id', 'tid'), ('target_table_id', 'tid'), ('values', 'Lcell')]), body)


SELECTED = {}     # the statement runs last translated as fragments (for the differential validation)


def is_assign_to(s, name):
  return isinstance(s, ast.Assign) and len(s.targets) == 1 and isinstance(s.targets[0], ast.Name) and \
      s.targets[0].id == name


def gen_update_prep(fn):
  """doBulkUpdateRecord: from the translation of row_ids to the call of convert_action_values (exclusive)"""
  stmts = strip_doc(fn.body)
  start = next((i for i, s in enumerate(stmts) if is_assign_to(s, 'row_ids')), None)
  end = next((i for i, s in enumerate(stmts) if isinstance(s, ast.Assign) and 'convert_action_values' in ast.dump(s.value)), None)
  if start is None or end is None or start >= end:
    raise Untranslatable('doBulkUpdateRecord: cannot find the row-id preparation before convert_action_values')
  # pin: the prepared row_ids and columns are what is converted
  c = stmts[end].value
  ok = (isinstance(c, ast.Call) and dotted(c.func) == 'self._engine.convert_action_values' and len(c.args) == 1 and
        isinstance(c.args[0], ast.Call) and dotted(c.args[0].func) == 'actions.BulkUpdateRecord' and
        [getattr(a, 'id', None) for a in c.args[0].args] == ['table_id', 'row_ids', 'columns'])
  if not ok or params_of(fn) != ['self', 'table_id', 'row_ids', 'columns']:
    raise Untranslatable('doBulkUpdateRecord: convert_action_values is not called on (table_id, row_ids, columns)')
  tr = Tr({})
  tr.on_return = lambda s, env: fail(s, 'return in the row-id preparation')
  env = {'table_id': ('table_id', 'tid'), 'row_ids': ('row_ids', 'LZ'), 'columns': ('columns', 'cols')}
  def k(e):
    if e['row_ids'][1] != 'LZ' or e['columns'][1] != 'cols':
      fail(fn, 'types at the end of the preparation')
    return '(%s, %s)' % (e['row_ids'][0], e['columns'][0])
  SELECTED['update'] = stmts[start:end]
  body = tr.block(stmts[start:end], env, k)
  return 'Definition update_row_ids {A : Type} %s : list Z * list (Z * list A) :=\n%s.\n' % (
    sig([('summ', 'summ'), ('table_id', 'tid'), ('row_ids', 'LZ'), ('columns', 'cols')]), body)


def gen_remove_prep(fn):
  """doBulkRemoveRecord: which ids the doc action removes and which set the reference clean-up uses"""
  if params_of(fn) != ['self', 'table_id', 'row_ids_or_records']:
    raise Untranslatable('parameters of doBulkRemoveRecord: %r' % params_of(fn))
  stmts = strip_doc(fn.body)
  start = next((i for i, s in enumerate(stmts) if is_assign_to(s, 'row_ids')), None)
  loop = next((i for i, s in enumerate(stmts) if isinstance(s, ast.For)), None)
  if start is None or loop is None or start >= loop:
    raise Untranslatable('doBulkRemoveRecord: cannot find the row-id preparation before the clean-up loop')
  # pin: the clean-up asks every referring column about `row_id_set`, which the loop does not reassign
  uses = [n for n in ast.walk(stmts[loop]) if isinstance(n, ast.Call) and isinstance(n.func, ast.Attribute)
          and n.func.attr == 'get_updates_for_removed_target_rows']
  if len(uses) != 1 or [getattr(a, 'id', None) for a in uses[0].args] != ['row_id_set'] or \
     any(isinstance(n, ast.Name) and n.id == 'row_id_set' and isinstance(n.ctx, ast.Store) for n in ast.walk(stmts[loop])):
    raise Untranslatable('doBulkRemoveRecord: the clean-up loop does not use row_id_set as expected')
  tr = Tr({})
  tr.on_return = lambda s, env: fail(s, 'return in the row-id preparation')
  env = {'table_id': ('table_id', 'tid'), 'row_ids_or_records': ('row_ids_or_records', 'LZ')}
  def k(e):
    if e.get('removed__', (0, 0))[1] != 'LZ' or e.get('row_id_set', (0, 0))[1] != 'LZ':
      fail(fn, 'the preparation does not define both the removed ids and row_id_set')
    return '(removed__, row_id_set)'
  SELECTED['remove'] = stmts[start:loop]
  body = tr.block(stmts[start:loop], env, k)
  return 'Definition remove_row_ids %s : list Z * list Z :=\n%s.\n' % (
    sig([('summ', 'summ'), ('table_id', 'tid'), ('row_ids_or_records', 'LZ')]), body)


def generate(grist_dir):
  import os
  def parse(f):
    with open(os.path.join(grist_dir, f)) as fh:
      return ast.parse(fh.read())
  asum, col, ua = parse('action_summary.py'), parse('column.py'), parse('useractions.py')
  tfn = find_method(asum, 'ActionSummary', 'translate_new_row_ids')
  parts = [
    gen_translate(tfn, 'translate_new_row_ids', 'LZ'),
    gen_translate(tfn, 'translate_new_row_ids_cells', 'Lcell'),
    gen_update_map(find_method(asum, 'ActionSummary', 'update_new_rows_map')),
    gen_reject(find_method(col, 'BaseReferenceColumn', '_reject_unresolved_temp_ids')),
    gen_prepare(find_method(col, 'ReferenceColumn', 'prepare_new_values'), 'ReferenceColumn', 'ref_prepare_new_values'),
    gen_prepare(find_method(col, 'ReferenceListColumn', 'prepare_new_values'), 'ReferenceListColumn',
                'reflist_prepare_new_values'),
    gen_update_prep(find_method(ua, 'UserActions', 'doBulkUpdateRecord')),
    gen_remove_prep(find_method(ua, 'UserActions', 'doBulkRemoveRecord')),
  ]
  return HEADER % ('%s/{action_summary,column,useractions}.py' % grist_dir) + '\n'.join(parts)


def fragment_functions(grist_dir):
  """The two translated statement runs of useractions.py as Python functions, executed as they are written:
  update(summary, table_id, row_ids, columns) -> (row_ids, columns); remove(summary, table_id, ids) -> (removed, set)."""
  import os
  import textwrap
  generate(grist_dir)
  with open(os.path.join(grist_dir, 'useractions.py')) as fh:
    lines = fh.read().splitlines()
  def seg(stmts):
    return textwrap.dedent('\n'.join(lines[stmts[0].lineno - 1:stmts[-1].end_lineno]))
  src = ('def update(self, table_id, row_ids, columns):\n' + textwrap.indent(seg(SELECTED['update']), '  ') +
         '\n  return row_ids, columns\n'
         'def remove(self, table_id, row_ids_or_records, actions):\n' + textwrap.indent(seg(SELECTED['remove']), '  ') +
         '\n  return self.removed, row_id_set\n')
  ns = {}
  exec(compile(src, '<useractions fragments>', 'exec'), ns)    # pylint: disable=exec-used
  return ns['update'], ns['remove']
