"""
Shared machinery of the C01 (undo) and C03 (redo) checks: the implementation oracles on one bundle, the traced
history run (event-trace tie with Model/ActionLog.v, evaluated once and cached for both properties), replay of
witnesses, and the classification of failures into root causes.
"""
import collections
import copy
import hashlib
import json
import os
import random
import time
import traceback

from harness import core
from harness import gristenv as G
from harness import histgen
from harness import histrun
from harness import k1trace

# bits of the code the Coq side returns for a trace (0 = everything agrees)
B_ACCEPT, B_UNDO_INC, B_STORED, B_UNDO, B_STATE, B_SC1, B_SC2, B_MUNDO, B_MREDO, B_NOTHM, B_LAWS = 1, 2, 4, 8, 16, 32, 64, 128, 256, 512, 1024
B_MUNDO_DATA, B_MREDO_DATA = 2048, 4096
B_NOTHM2 = 8192   # outside the stage-2 class (bundle_ok2); informational
CODE_DEF = '''
Definition b2z (b : bool) (k : Z) : Z := if b then 0 else k.
Definition trace_code (tr : trace TT) : Z :=
  let w := walk TT tr in
  let ur := undo_redo_code TT tr in
  b2z (w_accepted w) 1 + b2z (w_undo_inc w) 2 + b2z (w_stored w) 4 + b2z (w_undo w) 8 + b2z (w_state w) 16 +
  b2z (w_sc1 w) 32 + b2z (w_sc2 w) 64 + ur +
  b2z (bundle_ok3 OO (state_of_snapshot TT (tr_start tr)) (map fst (tr_events tr))) 512 +
  b2z (bundle_ok2 OO (state_of_snapshot TT (tr_start tr)) (map fst (tr_events tr))) 8192 +
  b2z (laws_monitor TT tr) 1024.
'''

WEIGHTS = {'rencol': 6, 'rmcol': 6, 'rmtable': 3, 'rentable': 4, 'addformula': 8, 'modtype': 5, 'modformula': 5,
           'toformula': 3, 'todata': 3, 'summary': 4, 'summaryformula': 3, 'updsummary': 3, 'rmrec': 6,
           'invalid': 1}


# ---------------------------------------------------------------------------------------------------------
# implementation oracles on one bundle

def classify_undo_failure(out, exc_text):
  """Root cause of a failing ApplyUndoActions, from the bundle's own stored/undo lists."""
  stored = G.reprs(out.stored)
  undo = G.reprs(out.undo)
  removed = {a[1] for a in stored if a[0] == 'RemoveTable'}
  added = collections.defaultdict(set)
  for a in stored:
    if a[0] == 'AddRecord':
      added[a[1]].add(a[2])
    elif a[0] == 'BulkAddRecord':
      added[a[1]].update(a[2])
  if 'non-existent record' in exc_text:
    for a in undo:
      if a[0] in ('UpdateRecord', 'BulkUpdateRecord') and a[1] in removed:
        rows = [a[2]] if a[0] == 'UpdateRecord' else a[2]
        if any(r in added[a[1]] for r in rows):
          return 'undo-raises:removed-table-new-row'
      else:
        break       # only the front-inserted restores
  return 'undo-raises'


def _cells_of(a):
  """(table, {col: set(rows)}) written by an Update action repr."""
  if a[0] == 'UpdateRecord':
    return a[1], {c: {a[2]} for c in a[3]}
  if a[0] == 'BulkUpdateRecord':
    return a[1], {c: set(a[2]) for c in a[3]}
  return None, {}


def _update_values(a):
  """{(col, row): value} written by an Update action repr."""
  if a[0] == 'UpdateRecord':
    return {(c, a[2]): v for c, v in a[3].items()}
  if a[0] == 'BulkUpdateRecord':
    return {(c, r): vs[k] for c, vs in a[3].items() for k, r in enumerate(a[2])}
  return {}


def _restore_carries_originals(undo, positions, t, c, before, after_undo):
  """The known defect (R2) is an ORDERING defect: the restore of the conversion delta carries the original values but is
  replayed while the column still has the new type.  So: every cell that differs after the undo sits in column (t, c),
  and for each of them the restore in the undo list names the value the cell had before the bundle."""
  if before is None or after_undo is None:
    return False
  if set(before) != set(after_undo):
    return False
  restored = {}
  for i in positions:
    restored.update(_update_values(undo[i]))
  n = 0
  for tab in before:
    if before[tab]['ids'] != after_undo[tab]['ids'] or set(before[tab]['cols']) != set(after_undo[tab]['cols']):
      return False
    for col in before[tab]['cols']:
      for rid, x, y in zip(before[tab]['ids'], before[tab]['cols'][col], after_undo[tab]['cols'][col]):
        if G.canon(x) != G.canon(y):
          if (tab, col) != (t, c) or (c, rid) not in restored:
            return False
          if G.canon(G.norm(restored[(c, rid)])) != G.canon(x):
            return False
          n += 1
  return n > 0


def classify_restore_failure(out, before=None, after_undo=None):
  """Root cause of an undo that runs but does not restore, from the bundle's own stored/undo lists (and, to keep the
  known kinds narrow, the documents before the bundle and after the undo)."""
  stored = G.reprs(out.stored)
  undo = G.reprs(out.undo)
  # (R2) data -> formula ModifyColumn with a type change: the conversion delta is restored BEFORE the ModifyColumn undo
  for a in stored:
    if a[0] == 'ModifyColumn' and a[3].get('isFormula') and 'type' in a[3]:
      t, c = a[1], a[2]
      pos_mod = [i for i, u in enumerate(undo) if u[0] == 'ModifyColumn' and u[1] == t and u[2] == c]
      pos_upd = [i for i, u in enumerate(undo) if _cells_of(u)[0] == t and c in _cells_of(u)[1]]
      if pos_mod and pos_upd and max(pos_upd) > min(pos_mod) and \
         _restore_carries_originals(undo, [i for i in pos_upd if i > min(pos_mod)], t, c, before, after_undo):
        return 'undo-does-not-restore:to-formula-type-change'
  # (R3) a restore in the leading run of updates of the undo list (front-inserted restores live there) that puts back
  #      a value which a doc action of this very bundle wrote into that cell, for a row the bundle removed
  def values_of(a):
    if a[0] == 'UpdateRecord':
      return {(c, a[2]): v for c, v in a[3].items()}
    if a[0] == 'BulkUpdateRecord':
      return {(c, r): vs[k] for c, vs in a[3].items() for k, r in enumerate(a[2])}
    return {}
  removed_rows = collections.defaultdict(set)
  for a in stored:
    if a[0] == 'RemoveRecord':
      removed_rows[a[1]].add(a[2])
    elif a[0] == 'BulkRemoveRecord':
      removed_rows[a[1]].update(a[2])
  written = collections.defaultdict(list)
  for a in stored:
    for (c, r), v in values_of(a).items():
      written[(a[1], c, r)].append(G.norm(v))
  for u in undo:
    if u[0] not in ('UpdateRecord', 'BulkUpdateRecord'):
      break
    for (c, r), v in values_of(u).items():
      if r in removed_rows[u[1]] and G.norm(v) in written[(u[1], c, r)]:
        return 'undo-does-not-restore:front-restore-of-written-cell'
  return 'undo-does-not-restore'


def strict_diff(a, b, limit=6):
  d = G.diff_snapshots(a, b, limit)
  if d:
    return d
  out = []
  for t in sorted(set(a) & set(b)):
    for c in sorted(set(a[t]['cols']) & set(b[t]['cols'])):
      for rid, x, y in zip(a[t]['ids'], a[t]['cols'][c], b[t]['cols'][c]):
        if json.dumps(x, sort_keys=True, default=repr) != json.dumps(y, sort_keys=True, default=repr):
          out.append('%s.%s[row %s]: %r vs %r' % (t, c, rid, x, y))
          if len(out) >= limit:
            return out
  return out or ['canonical JSON of the snapshots differs']


_ERR_DIFF = None


def only_decoded_errors(diffs):
  """Every difference is an error cell ['E', <exception>] that became ['E', 'NoneType']: the value of a cell that depends
  on an error cell restored from its ENCODING (decode_object gives a RaisedException whose .error is None)."""
  global _ERR_DIFF
  import re
  if _ERR_DIFF is None:
    _ERR_DIFF = re.compile(r"^[^:]+\[row \d+\]: \['E', '[A-Za-z_.]+'(?:, .*)?\] vs \['E', 'NoneType'\]$")
  return bool(diffs) and all(_ERR_DIFF.match(x) for x in diffs)


def undo_redo_oracle(e, out, before, after, before_schema):
  """C01/C03 oracle for a bundle that has just been applied (engine is left in the post-bundle state when the
  oracles pass).  Returns a list of (prop, kind, what)."""
  res = []
  undo = G.reprs(out.undo)
  stored = G.reprs(out.stored)
  try:
    G.apply(e, [['ApplyUndoActions', undo]])
  except Exception:
    t = traceback.format_exc()
    res.append(('C01', classify_undo_failure(out, t), t[-300:]))
    return res
  u = G.snapshot(e)
  if has_cycle(u):
    return res               # a cyclic formula program shows up: values are history dependent (C18/C05), not C01/C03
  if G.canon(u) != G.canon(before):      # canon (JSON text) also tells True from 1, which == does not
    d = strict_diff(before, u, limit=12)
    kind = classify_restore_failure(out, before, u)
    if kind == 'undo-does-not-restore' and only_decoded_errors(d):
      kind = 'undo-does-not-restore:error-cell-decoded'
    elif kind == 'undo-does-not-restore' and only_trigger_cells_of_readded_rows(e, out, before, u):
      kind = 'undo-does-not-restore:trigger-rerun-on-readded-row'
    elif kind == 'undo-does-not-restore' and stale_summary(before) and only_summary_tables_differ(before, u):
      # the document was inconsistent BEFORE the bundle (ReplaceTableData does not maintain summary tables); the bundle's
      # recalculation drops the stale summary rows and its undo does not bring them back
      kind = 'undo-does-not-restore:' + STALE
    elif kind == 'undo-does-not-restore' and only_formula_cells_differ(e, before, u):
      # schema, row ids and every data cell are restored; only recomputed (formula) cells differ
      kind = 'undo-does-not-restore:formula-cells-only'
    res.append(('C01', kind, '; '.join(d[:6])))
  if G.engine_schema(e) != before_schema:
    res.append(('C01', 'undo-schema-differs', 'engine schema after undo differs'))
  try:
    G.apply(e, [['ApplyDocActions', stored]])
  except Exception:
    res.append(('C03', 'redo-raises', traceback.format_exc()[-300:]))
    return res
  rd = G.snapshot(e)
  if has_cycle(rd):
    return res
  if G.canon(rd) != G.canon(after):
    d = strict_diff(after, rd, limit=12)
    kind = 'redo-differs'
    if only_decoded_errors(d):
      kind = 'redo-differs:error-cell-decoded'
    elif only_formula_cells_differ(e, after, rd):
      kind = 'redo-differs:formula-cells-only'
    res.append(('C03', kind, '; '.join(d[:6])))
  return res


def has_cycle(snap):
  return 'CircularRefError' in G.canon(snap)


def build(history):
  """A document after the given bundles (failed bundles are cleaned, as in the history runs)."""
  e, _ = G.new_doc()
  for b in history:
    try:
      G.apply(e, b)
    except Exception:
      G.clean(e)
  return e


def check_bundle(e, bundle):
  """Applies the bundle and runs the undo/redo oracles. Returns (issues, out or None)."""
  before = G.snapshot(e)
  before_schema = G.engine_schema(e)
  try:
    out = G.apply(e, bundle)
  except Exception:
    G.clean(e)
    return [], None
  after = G.snapshot(e)
  if has_cycle(before) or has_cycle(after):
    return [], out           # cyclic formula programs have history-dependent values (C18/C05): outside C01/C03
  return undo_redo_oracle(e, out, before, after, before_schema), out


def replay_witness(w, prop, ctx=None):
  """Witness {'history': [...], 'bundle': [...]} -> description if the bundle still fails the oracle of prop."""
  e = build(w.get('history', []))
  if w.get('whole_history'):
    d = whole_history_undo(w['history'])
    if d and w.get('kind') and not d.startswith(w['kind'] + ':'):
      return None
    return d
  issues, _out = check_bundle(e, w['bundle'])
  for p, kind, what in issues:
    if p == prop and kind in ('undo-does-not-restore', 'redo-differs', 'undo-does-not-restore:formula-cells-only',
                              'redo-differs:formula-cells-only') and ctx is not None and (w.get('kind') or '').endswith(('after-undo', 'after-redo')):
      iss = {'kind': kind}
      refine_with_code(iss, code_of_bundle(ctx, w.get('history', []), w['bundle']))
      kind = iss['kind']
    if p == prop and (not w.get('kind') or kind == w['kind']):
      return '%s: %s' % (kind, what)
  return None


def only_formula_cells_differ(e, a, b):
  """Same tables and row ids, and every differing cell sits in a formula column (by the engine schema)."""
  if set(a) != set(b):
    return False
  for t in a:
    if a[t]['ids'] != b[t]['ids'] or set(a[t]['cols']) != set(b[t]['cols']):
      return False
    sch = e.schema.get(t)
    for c in a[t]['cols']:
      if json.dumps(a[t]['cols'][c], sort_keys=True, default=repr) != json.dumps(b[t]['cols'][c], sort_keys=True, default=repr):
        col = sch.columns.get(c) if sch is not None else None
        if col is None or not col.isFormula:
          return False
  return True


def only_trigger_cells_of_readded_rows(e, out, a, b):
  """Every differing cell sits in a row that the bundle removed and the undo re-added, in a DATA column that carries a
  (default/trigger) formula (the re-adding BulkAddRecord re-runs the formula over the restored value) or in a
  formula column (derived; it may read such a cell); at least one of the former."""
  if set(a) != set(b):
    return False
  removed = collections.defaultdict(set)
  whole = set()
  for act in G.reprs(out.stored):
    if act[0] == 'RemoveRecord':
      removed[act[1]].add(act[2])
    elif act[0] == 'BulkRemoveRecord':
      removed[act[1]].update(act[2])
    elif act[0] == 'RemoveTable':
      whole.add(act[1])
  n = 0
  for t in a:
    if a[t]['ids'] != b[t]['ids'] or set(a[t]['cols']) != set(b[t]['cols']):
      return False
    sch = e.schema.get(t)
    for c in a[t]['cols']:
      for rid, x, y in zip(a[t]['ids'], a[t]['cols'][c], b[t]['cols'][c]):
        if json.dumps(x, sort_keys=True, default=repr) != json.dumps(y, sort_keys=True, default=repr):
          col = sch.columns.get(c) if sch is not None else None
          if col is None or not (t in whole or rid in removed[t]):
            return False
          if col.isFormula:
            continue                # a formula cell of a re-added row: derived (it may read the re-run trigger cell)
          if not col.formula:
            return False
          n += 1
  return n > 0


STALE = 'stale-summary-after-ReplaceTableData'


def _summary_sources(snap):
  """{summary table id: source table id} from the metadata of a snapshot."""
  mt = snap.get('_grist_Tables')
  if not mt:
    return {}
  ids, tid, src = mt['ids'], mt['cols'].get('tableId', []), mt['cols'].get('summarySourceTable', [])
  by_ref = dict(zip(ids, tid))
  return {t: by_ref.get(s) for t, s in zip(tid, src) if s}


def stale_summary(snap):
  """A summary row whose `group` names a record that its source table does not have: the state docactions.ReplaceTableData
  leaves behind (it loads the new rows without maintaining the summary tables of the table)."""
  for st, src in _summary_sources(snap).items():
    if st not in snap or src not in snap or 'group' not in snap[st]['cols']:
      continue
    have = set(snap[src]['ids'])
    for g in snap[st]['cols']['group']:
      if isinstance(g, list) and g[:1] == ['L'] and any(r not in have for r in g[1:]):
        return True
  return False


def only_summary_tables_differ(a, b):
  sums = set(_summary_sources(a)) | set(_summary_sources(b))
  diff = [t for t in set(a) | set(b) if G.canon(a.get(t)) != G.canon(b.get(t))]
  return bool(diff) and all(t in sums for t in diff)


def history_goes_stale(history):
  """Replays the history: True if a bundle containing ReplaceTableData leaves a stale summary row (see stale_summary)."""
  e, _ = G.new_doc()
  for b in history:
    try:
      G.apply(e, copy.deepcopy(b))
    except Exception:
      G.clean(e)
      continue
    if any(a and a[0] == 'ReplaceTableData' for a in b) and stale_summary(G.snapshot(e)):
      return True
  return False


def classify_history_failure(tb, history=None):
  if "KeyError: '#lookup#" in tb and 'in RenameTable' in tb:
    return 'history-undo-raises:rename-table-lookup-column'
  if history is not None and 'for non-existent record' in tb and history_goes_stale(history):
    return 'history-undo-raises:' + STALE
  return 'history-undo-raises'


def whole_history_undo(history):
  """Applies the bundles, then undoes all successful ones in reverse; description if the start is not reached."""
  e, _ = G.new_doc()
  start = G.snapshot(e)
  undos = []
  for b in history:
    before = G.canon(G.snapshot(e))
    try:
      out = G.apply(e, b)
      undos.append(G.reprs(out.undo))
      if has_cycle(G.snapshot(e)):
        return None        # cyclic formula program: values are history dependent (C18/C05), outside C01
    except Exception:
      G.clean(e)
      if G.canon(G.snapshot(e)) != before:
        return None        # a failed bundle left a trace (C04's subject): not a history C01 speaks about
  for i, u in enumerate(reversed(undos)):
    try:
      G.apply(e, [['ApplyUndoActions', u]])
    except Exception:
      tb = traceback.format_exc()
      return '%s: undoing bundle %d of %d (in reverse) raises: %s' % (classify_history_failure(tb, history), len(undos) - i,
                                                                     len(undos), tb[-300:])
  end = G.snapshot(e)
  if G.canon(end) != G.canon(start):
    kind = 'history-undo-differs:formula-cells-only' if only_formula_cells_differ(e, start, end) else 'history-undo-differs'
    return kind + ': after undoing all bundles in reverse the document differs from the start: ' + \
           '; '.join(strict_diff(start, end))
  return None


def shrink_history_issue(history, kind):
  """Smaller history on which undoing everything in reverse still fails in the same way."""
  def fails(h):
    try:
      d = whole_history_undo(h)
    except Exception:
      return False
    return bool(d) and d.startswith(kind + ':')
  if not fails(history):
    return history
  h = histgen.shrink_list(history, fails, max_steps=120)
  # then shrink inside the bundles
  for k in range(len(h)):
    if len(h[k]) > 1:
      def fails_b(b, k=k):
        return fails(h[:k] + [b] + h[k + 1:])
      h = h[:k] + [histgen.shrink_list(h[k], fails_b, max_steps=30)] + h[k + 1:]
  return h


def shrink_issue(history, bundle, prop, kind):
  """Smaller (history, bundle) with the same failure kind (kind may be a tuple of acceptable kinds)."""
  kinds = kind if isinstance(kind, tuple) else (kind,)
  def fails_h(h):
    try:
      issues, _ = check_bundle(build(h), copy.deepcopy(bundle))
    except Exception:
      return False
    return any(p == prop and k in kinds for p, k, _ in issues)
  h = histgen.shrink_list(history, fails_h, max_steps=80) if len(history) > 1 and fails_h(history) else history
  def fails_b(b):
    try:
      issues, _ = check_bundle(build(h), copy.deepcopy(b))
    except Exception:
      return False
    return any(p == prop and k in kinds for p, k, _ in issues)
  b = histgen.shrink_list(bundle, fails_b, max_steps=40) if len(bundle) > 1 else bundle
  return h, b


# ---------------------------------------------------------------------------------------------------------
# traced history run (cached)

class PendGen(histgen.HistGen):
  """histgen plus bundles built to put renames/removals between a calc delta and the flush: a formula column is
  turned into a data column (doModifyColumn brings it and what it reads up to date in mid-bundle, which leaves
  deltas pending for the columns it reads), then columns/rows/tables around it are renamed or removed."""
  directed = 0.45

  def _on_table(self, t, kind, meta):
    saved = self.pick_table
    self.pick_table = lambda m, summary=False: t if not summary else saved(m, summary=True)
    try:
      return self.gen(kind, meta)
    finally:
      self.pick_table = saved

  trig = 0.0       # share of bundles about data columns WITH formulas (default / trigger) and ReplaceTableData

  def formula_data_column(self, meta, t):
    """AddColumn of a data column that carries a formula: default formula (recalcWhen 0, with or without
    recalcDeps), never (1) or trigger on every manual update (2)."""
    r = self.r
    lower = [c for c in meta.data_cols(t['id']) if self.level_of(c) < 1 and not c.get('formula')]
    x = r.choice(lower) if lower else None
    cid = r.choice(['dflt', 'trg', 'auto', 'stamp'])
    f = r.choice(['"c"', 'rec.id * 10', '$id + 1000'] +
                 (['$%s' % x['colId'], 'str($%s) + "!"' % x['colId'], 'UPPER(str($%s))' % x['colId']] if x else []))
    rw = r.choice([0, 0, 1, 2, 2])
    deps = ['L', x['id']] if (x and rw == 0 and r.random() < 0.5) else None
    self.pend(t['tableId'], cid, 1)
    if x and r.random() < 0.3:
      # a counter: the result depends on the cell's own value, so running the trigger once more is visible
      rw = r.choice([0, 0, 2])
      return ['AddColumn', t['tableId'], cid, {'type': r.choice(['Int', 'Int', 'Any', 'Numeric']), 'isFormula': False,
                                               'formula': '(value or 0) + 1', 'recalcWhen': rw,
                                               'recalcDeps': ['L', x['id']] if rw == 0 else None}]
    return ['AddColumn', t['tableId'], cid, {'type': r.choice(['Any', 'Text', 'Int', 'Numeric']), 'isFormula': False,
                                             'formula': f, 'recalcWhen': rw, 'recalcDeps': deps}]

  def reader_column(self, meta, t):
    """A formula column that READS a data column carrying a formula; its id sorts before or after the column it
    reads (the engine reaches the columns of a table in the order of their ids)."""
    r = self.r
    fds = [c for c in meta.data_cols(t['id']) if c.get('formula')]
    if not fds:
      return None
    c = r.choice(fds)
    have = {x['colId'] for x in meta.visible_cols(t['id'])}
    cid = next((n for n in (r.choice(['Aa', 'zz']) + str(k) for k in range(1, 9)) if n not in have), None)
    if cid is None:
      return None
    self.pend(t['tableId'], cid, 2)
    return ['AddColumn', t['tableId'], cid, {'type': 'Text', 'isFormula': True, 'formula': '"r %%s" %% $%s' % c['colId']}]

  def replace_table_data(self, meta, t):
    """ReplaceTableData whose ids overlap the existing ones fully, partially or not at all."""
    r = self.r
    tid = t['tableId']
    rows = meta.rows(tid)
    top = max(rows) if rows else 0
    mode = r.choice(['same', 'partial', 'disjoint', 'subset'])
    if mode == 'same' and rows:
      ids = list(rows)
    elif mode == 'subset' and rows:
      ids = r.sample(rows, max(1, len(rows) // 2))
    elif mode == 'partial' and rows:
      ids = r.sample(rows, max(1, len(rows) // 2)) + [top + 1, top + 3]
    else:
      ids = [top + 1, top + 2]
    cols = [c for c in meta.data_cols(t['id']) if not c.get('formula') or r.random() < 0.3]
    cols = r.sample(cols, min(len(cols), r.randint(0, 2)))
    return ['ReplaceTableData', tid, ids, {c['colId']: [self.value(c['type'], meta) for _ in ids] for c in cols}]

  def trig_bundle(self, e):
    r = self.r
    meta = histgen.Meta(e)
    tabs = meta.user_tables()
    if not tabs:
      return None
    have = [t for t in tabs if any(c.get('formula') for c in meta.data_cols(t['id']))]
    if not have or r.random() < 0.2:
      return [self.formula_data_column(meta, r.choice(tabs))]
    if r.random() < 0.15:
      a = self.reader_column(meta, r.choice(have))
      if a:
        return [a]
    t = r.choice(have)
    tid = t['tableId']
    fds = [c for c in meta.data_cols(t['id']) if c.get('formula')]
    plain = [c for c in meta.data_cols(t['id']) if not c.get('formula')]
    rows = meta.rows(tid)
    acts = []
    names = {c['colId']: c['colId'] for c in fds}
    for _ in range(r.randint(1, 4)):
      k = r.choice(['override', 'override', 'dep', 'addrec', 'addrec', 'rmrec', 'rmcol', 'rencol', 'replace', 'replace'])
      live = [c for c in fds if names.get(c['colId'])]
      if k == 'override' and rows and live:
        c = r.choice(live)
        rs = r.sample(rows, min(len(rows), r.randint(1, 2)))
        acts.append(['BulkUpdateRecord', tid, rs, {names[c['colId']]: [self.value(c['type'], meta) for _ in rs]}])
      elif k == 'dep' and rows and plain:
        c = r.choice(plain)
        rs = r.sample(rows, min(len(rows), r.randint(1, 2)))
        acts.append(['BulkUpdateRecord', tid, rs, {c['colId']: [self.value(c['type'], meta) for _ in rs]}])
      elif k == 'addrec':
        n = r.randint(1, 2)
        cols = {}
        if plain and r.random() < 0.7:
          c = r.choice(plain)
          cols[c['colId']] = [self.value(c['type'], meta) for _ in range(n)]
        if live and r.random() < 0.3:
          c = r.choice(live)
          cols[names[c['colId']]] = [self.value(c['type'], meta) for _ in range(n)]
        acts.append(['BulkAddRecord', tid, [None] * n, cols])
      elif k == 'rmrec' and rows:
        acts.append(['BulkRemoveRecord', tid, r.sample(rows, min(len(rows), r.randint(1, 2)))])
      elif k == 'rmcol' and live:
        c = r.choice(live)
        acts.append(['RemoveColumn', tid, names[c['colId']]])
        names[c['colId']] = None
      elif k == 'rencol' and live:
        c = r.choice(live)
        new = 'q%d' % r.randint(1, 99)
        acts.append(['RenameColumn', tid, names[c['colId']], new])
        names[c['colId']] = new
      elif k == 'replace':
        acts.append(self.replace_table_data(meta, t))
        break
    self.stats['trig'] += 1
    return acts or None

  def rename_gone_bundle(self, e):
    """One bundle with a rename and a row that disappears after one of its formula cells was recalculated in the bundle:
    a source table of a summary table is renamed (or one of its columns) and a row is removed / moved to another group;
    or a data column is turned into a formula, read in mid-bundle (CopyFromColumn), renamed, and a row is removed."""
    r = self.r
    meta = histgen.Meta(e)
    tabs = [t for t in meta.user_tables() if meta.rows(t['tableId'])]
    if not tabs:
      return None
    srcs = {t['summarySourceTable'] for t in meta.tables.values() if t['summarySourceTable']}
    with_sum = [t for t in tabs if t['id'] in srcs]
    t = r.choice(with_sum) if with_sum and r.random() < 0.6 else r.choice(tabs)
    tid = t['tableId']
    rows = meta.rows(tid)
    data = [c for c in meta.data_cols(t['id']) if not c.get('formula')]
    acts = []
    if t['id'] not in srcs and len(data) >= 2:
      d, x = r.sample(data, 2)
      acts += [['ModifyColumn', tid, d['colId'], {'isFormula': True, 'formula': 'rec.id + 1'}],
               ['CopyFromColumn', tid, d['colId'], x['colId'], None]]
      data = [d]
    used_t = {x['tableId'] for x in meta.tables.values()}
    new_t = next((n for n in ('Zz%d' % r.randint(1, 99) for _ in range(5)) if n not in used_t), None)
    for _ in range(r.randint(1, 2)):
      if r.random() < 0.5 and data:
        c = r.choice(data)
        new = 'q%d' % r.randint(1, 99)
        acts.append(['RenameColumn', tid, c['colId'], new])
        data = [x for x in data if x is not c]
      elif new_t:
        acts.append(['RenameTable', tid, new_t])
        tid, new_t = new_t, None
    if r.random() < 0.7 or not data:
      acts.append(['BulkRemoveRecord', tid, r.sample(rows, min(len(rows), r.randint(1, 2)))])
    else:
      c = r.choice(data)
      acts.append(['UpdateRecord', tid, r.choice(rows), {c['colId']: self.value(c['type'], meta)}])
    self.stats['rename-gone'] += 1
    return acts

  SIDE_COL = 'sidefx'

  def sideeffect_bundle(self, e):
    """Formulas with a side effect that raise afterwards (the engine rolls the side effect back inside the bundle): first
    such a column is added (it calls OTHER.lookupOrAddDerived and raises on even row ids); later bundles change what it
    reads right after a doc action whose numbers of stored and undo actions differ."""
    r = self.r
    meta = histgen.Meta(e)
    tabs = [t for t in meta.user_tables() if meta.rows(t['tableId'])]
    have = [t for t in tabs if any(c['colId'] == self.SIDE_COL for c in meta.formula_cols(t['id']))]
    if not have:
      if len(tabs) < 2:
        return None
      t, o = r.sample(tabs, 2)
      xs = [c for c in meta.data_cols(t['id']) if not c.get('formula')]
      ks = [c for c in meta.data_cols(o['id']) if not c.get('formula') and c['type'] in ('Text', 'Any')]
      if not xs or not ks:
        return None
      f = '%s.lookupOrAddDerived(%s=str($%s))\nif rec.id %% 2 == 0:\n  raise Exception("side")\nreturn 1\n' % (
        o['tableId'], r.choice(ks)['colId'], r.choice(xs)['colId'])
      self.pend(t['tableId'], self.SIDE_COL, 8)
      return [['AddColumn', t['tableId'], self.SIDE_COL, {'type': 'Any', 'isFormula': True, 'formula': f}]]
    t = r.choice(have)
    tid = t['tableId']
    col = next(c for c in meta.formula_cols(t['id']) if c['colId'] == self.SIDE_COL)
    import re
    m = re.search(r'str\(\$(\w+)\)', col['formula'])
    x = next((c for c in meta.data_cols(t['id']) if m and c['colId'] == m.group(1)), None)
    rows = [q for q in meta.rows(tid) if q % 2 == 0]
    if x is None or not rows:
      return None
    others = [c for c in meta.data_cols(t['id']) if c is not x and not c.get('formula')]
    first = []
    k = r.choice(['rmcol', 'noopmod', 'rmmissing', 'none'])
    if k == 'rmcol' and others:
      first = [['RemoveColumn', tid, r.choice(others)['colId']]]
    elif k == 'noopmod':
      first = [['ModifyColumn', tid, x['colId'], {'type': x['type']}]]
    elif k == 'rmmissing':
      first = [['BulkRemoveRecord', tid, [max(meta.rows(tid)) + 5]]]
    self.stats['sideeffect'] += 1
    return first + [['UpdateRecord', tid, r.choice(rows), {x['colId']: self.value(x['type'], meta)}]]

  def bundle(self, e, max_len=3):
    r = self.r
    if self.directed and r.random() < 0.08:
      b = self.rename_gone_bundle(e)
      if b:
        return b
    if self.directed and r.random() < 0.06:
      b = self.sideeffect_bundle(e)
      if b:
        return b
    if r.random() < self.trig:
      b = self.trig_bundle(e)
      if b:
        return b
    if r.random() >= self.directed:
      return histgen.HistGen.bundle(self, e, max_len)
    meta = histgen.Meta(e)
    cands = [t for t in meta.user_tables() if meta.formula_cols(t['id'])]
    if not cands:
      a = self._on_table(r.choice(meta.user_tables()), 'addformula', meta) if meta.user_tables() else None
      return [a] if a else histgen.HistGen.bundle(self, e, max_len)
    t = r.choice(cands)
    tid = t['tableId']
    fcs = meta.formula_cols(t['id'])
    acts = []
    for _ in range(r.randint(0, 2)):
      a = self._on_table(t, r.choice(['addrec', 'updrec', 'updrec', 'rmrec']), meta)
      if a:
        acts.append(a)
    top = max(fcs, key=self.level_of)
    acts.append(['ModifyColumn', tid, r.choice([top, r.choice(fcs)])['colId'], {'isFormula': False}])
    fnames = [c['colId'] for c in fcs]
    used_t = {x['tableId'] for x in meta.tables.values()}
    for _ in range(r.randint(1, 4)):
      k = r.choice(['rencol', 'rmcol', 'rmcol', 'rentable', 'rentable', 'rmtable', 'rmrec', 'addrec', 'modtype'])
      if k in ('rencol', 'rmcol') and fnames:
        c = r.choice(fnames)
        if k == 'rencol':
          new = 'q%d' % r.randint(1, 99)           # a valid, unused identifier: the engine keeps it as it is
          acts.append(['RenameColumn', tid, c, new])
          fnames[fnames.index(c)] = new
        else:
          acts.append(['RemoveColumn', tid, c])
          fnames.remove(c)
      elif k == 'rentable':
        new = 'Zz%d' % r.randint(1, 99)
        if new in used_t:
          continue
        acts.append(['RenameTable', tid, new])
        used_t.add(new)
        tid = new                                  # later actions of the bundle use the new id
      elif k == 'rmtable':
        acts.append(['RemoveTable', tid])
        break
      else:
        a = self._on_table(t, k, meta)
        if a and len(a) > 1 and a[1] == t['tableId']:
          a = [a[0], tid] + a[2:]
        if a:
          acts.append(a)
    self.stats['directed'] += 1
    return acts


def refine_with_code(issue, code):
  """The model replays the ENGINE's undo / stored list of the recorded trace as plain doc actions.  When that replay
  restores (reproduces) every cell but the engine ends elsewhere, the action log is right and the difference comes
  from the recalculation the engine runs afterwards (C05's subject: incremental recalculation is history dependent for
  some programs)."""
  if code is None or code & (B_ACCEPT | B_UNDO_INC | B_STORED | B_UNDO | B_STATE):
    return
  if issue['kind'] in ('undo-does-not-restore', 'undo-does-not-restore:formula-cells-only') and not code & B_MUNDO:
    issue['kind'] = 'undo-does-not-restore:recalculation-after-undo'
  if issue['kind'] in ('redo-differs', 'redo-differs:formula-cells-only') and not code & B_MREDO:
    issue['kind'] = 'redo-differs:recalculation-after-redo'


def code_of_bundle(ctx, history, bundle):
  """Event-trace code of one bundle replayed on a fresh document (None if it cannot be traced)."""
  e = build(history)
  I = k1trace.Interner()
  try:
    with k1trace.instrumented():
      tr = k1trace.record_bundle(e, copy.deepcopy(bundle))
    tr.pop('out')
    term = k1trace.trace_term(I, tr)
  except Exception:
    return None
  try:
    return eval_codes(ctx, I, [term])[0]
  except Exception:
    return None


FOCUS_DOC = [
  [['AddTable', 'T', [{'id': 'B', 'type': 'Int', 'isFormula': False, 'formula': ''},
                      {'id': 'A', 'type': 'Text', 'isFormula': False, 'formula': '"row%s" % $B'},
                      {'id': 'Tr', 'type': 'Int', 'isFormula': False, 'formula': '$B * 1000'},
                      {'id': 'F', 'type': 'Int', 'isFormula': True, 'formula': '$B * 2'},
                      {'id': 'D', 'type': 'Text', 'isFormula': False, 'formula': ''}]]],
  [['BulkAddRecord', 'T', [None, None, None], {'B': [1, 2, 3], 'D': ['x', 'y', 'z']}]],
]


def counter_doc(label):
  """T.Rev is a revision counter (trigger formula (value or 0) + 1, recalcDeps=[B]); a formula column reads it; its id
  (`label`) sorts before or after `Rev`.  Column refs: manualSort=1, B=2, Rev=3."""
  return [
    [['AddTable', 'T', [{'id': 'B', 'type': 'Int', 'isFormula': False, 'formula': ''},
                        {'id': 'Rev', 'type': 'Int', 'isFormula': False, 'formula': '(value or 0) + 1'},
                        {'id': label, 'type': 'Text', 'isFormula': True, 'formula': '"rev %s" % $Rev'}]]],
    [['UpdateRecord', '_grist_Tables_column', 3, {'recalcWhen': 0, 'recalcDeps': ['L', 2]}]],
    [['BulkAddRecord', 'T', [None, None, None], {'B': [1, 2, 3]}]],
    [['UpdateRecord', 'T', 2, {'B': 20}]],
  ]


COUNTER_BUNDLES = [
  [['UpdateRecord', 'T', 1, {'B': 10}]],
  [['BulkUpdateRecord', 'T', [1, 2, 3], {'B': [10, 21, 30]}]],
  [['AddRecord', 'T', None, {'B': 7}]],
  [['UpdateRecord', 'T', 2, {'B': 22, 'Rev': 50}]],
  [['AddRecord', 'T', None, {'B': 7}], ['UpdateRecord', 'T', 1, {'B': 11}]],
  [['RemoveRecord', 'T', 2]],
]


def counter_search(prop, found, limit):
  """Value-dependent trigger formulas read by a formula column that the engine evaluates before / after them."""
  for label in ('Label', 'Zlabel'):
    hist = counter_doc(label)
    for b in COUNTER_BUNDLES:
      try:
        issues, _ = check_bundle(build(hist), copy.deepcopy(b))
      except Exception:
        continue
      for p_, kind, what in issues:
        if p_ == prop and not any(f[0] == kind for f in found):
          found.append((kind, '[focused search, counter trigger formula read by formula column %s] %s' % (label, what),
                        {'history': hist, 'bundle': b, 'kind': kind}))
          if len(found) >= limit:
            return found
  return found


def focused_search(kinds, prop, limit=4, light=False):
  """After a broken tie: the doc-action kinds of the disagreeing bundle, aimed at each kind of column (default-formula
  data column A, trigger-formula data column Tr, formula column F, plain data column D) of a small document, alone and
  after an edit of that column / of what it reads / an added row.  Returns [(kind, what, replay)] for `prop`."""
  kinds = {k.replace('Bulk', '') for k in kinds}
  docs = [('default', FOCUS_DOC),
          ('trigger', FOCUS_DOC + [[['ModifyColumn', 'T', 'Tr', {'recalcWhen': 2}]], [['UpdateRecord', 'T', 1, {'B': 5}]]])]
  vals = {'A': 'edited', 'Tr': 7, 'F': 7, 'D': 'q', 'B': 9}
  found = []
  counter_search(prop, found, limit)
  if len(found) >= limit:
    return found
  for dname, hist in docs:
    for col in ('A', 'Tr', 'F', 'D'):
      pres = [[], [['UpdateRecord', 'T', 1, {'B': 9}]], [['AddRecord', 'T', None, {'B': 4}]]]
      if light:
        pres = [[]]
      if col != 'F' and not light:
        pres.append([['UpdateRecord', 'T', 1, {col: vals[col]}]])
        pres.append([['AddRecord', 'T', None, {'B': 4, col: vals[col]}]])
      mains = []
      if 'RemoveColumn' in kinds:
        mains.append([['RemoveColumn', 'T', col]])
      if 'RemoveColumn' in kinds and col == 'A':
        # a data column WITH a formula created, edited and removed in the same bundle
        for info in ({'type': 'Text', 'isFormula': False, 'formula': '"c"'},
                     {'type': 'Int', 'isFormula': False, 'formula': '$B * 7', 'recalcWhen': 2},
                     {'type': 'Any', 'isFormula': True, 'formula': '$B + 1'}):
          mains.append([['AddColumn', 'T', 'C', info], ['RemoveColumn', 'T', 'C']])
          if not info['isFormula']:
            mains.append([['AddColumn', 'T', 'C', info], ['UpdateRecord', 'T', 2, {'C': 'q' if info['type'] == 'Text' else 5}],
                          ['RemoveColumn', 'T', 'C']])
            mains.append([['AddColumn', 'T', 'C', info], ['UpdateRecord', 'T', 2, {'C': 'q' if info['type'] == 'Text' else 5}],
                          ['RenameColumn', 'T', 'C', 'C2'], ['RemoveColumn', 'T', 'C2']])
      if 'RenameColumn' in kinds:
        mains.append([['RenameColumn', 'T', col, 'q7']])
        mains.append([['RenameColumn', 'T', col, 'q7'], ['RemoveColumn', 'T', 'q7']])
      if 'ModifyColumn' in kinds:
        mains.append([['ModifyColumn', 'T', col, {'type': 'Text' if col in ('Tr', 'F') else 'Int'}]])
        mains.append([['ModifyColumn', 'T', col, {'isFormula': col != 'F'}]])
      if 'RemoveRecord' in kinds:
        mains.append([['RemoveRecord', 'T', 1]])
        mains.append([['BulkRemoveRecord', 'T', [1, 3]]])
      if 'UpdateRecord' in kinds and col != 'F':
        mains.append([['UpdateRecord', 'T', 2, {col: vals[col]}]])
      if 'AddRecord' in kinds:
        mains.append([['AddRecord', 'T', None, {'B': 8}]])
      if 'RemoveTable' in kinds:
        mains.append([['RemoveTable', 'T']])
      if 'RenameTable' in kinds:
        mains.append([['RenameTable', 'T', 'Zz1']])
        mains.append([['RenameTable', 'T', 'Zz1'], ['RemoveTable', 'Zz1']])
      if 'ReplaceTableData' in kinds and col == 'A':
        for ids in ([1, 2, 3], [1, 2], [2, 5], [5, 6]):
          mains.append([['ReplaceTableData', 'T', ids, {'B': [10 * i for i in ids]}]])
          mains.append([['ReplaceTableData', 'T', ids, {}]])
      for pre in pres:
        for main in mains:
          b = pre + main
          try:
            issues, _ = check_bundle(build(hist), copy.deepcopy(b))
          except Exception:
            continue
          for p_, kind, what in issues:
            if p_ == prop and not any(f[0] == kind for f in found):
              found.append((kind, '[focused search, %s-formula document, column %s] %s' % (dname, col, what),
                            {'history': hist, 'bundle': b, 'kind': kind}))
              if len(found) >= limit:
                return found
  return found


RG_PLAIN = [
  [['AddTable', 'T', [{'id': 'A', 'type': 'Int', 'isFormula': False}, {'id': 'D', 'type': 'Text', 'isFormula': False},
                      {'id': 'X', 'type': 'Text', 'isFormula': False}]]],
  [['BulkAddRecord', 'T', [None, None, None], {'A': [1, 2, 3], 'D': ['x', 'y', '5']}]],
]
RG_SUMMARY = [
  [['AddTable', 'T', [{'id': 'A', 'type': 'Text', 'isFormula': False}, {'id': 'N', 'type': 'Int', 'isFormula': False}]]],
  [['BulkAddRecord', 'T', [None, None, None], {'A': ['a', 'b', 'b'], 'N': [1, 2, 3]}]],
  [['CreateViewSection', 1, 0, 'record', [2], None]],     # summary table T_summary_A (group by A) with the SUM column N
]
_TOF = ['ModifyColumn', 'T', 'D', {'isFormula': True, 'formula': '$A+1'}]
_CPY = ['CopyFromColumn', 'T', 'D', 'X', None]            # forces D to be computed in mid-bundle


def rename_gone_cases():
  """ONE bundle with a rename (column / table; also the indirect renames of a summary table and its columns) and a row
  that disappears after one of its formula cells was recalculated earlier in the bundle: the restore of that cell is
  inserted at the FRONT of the undo list and must name the ORIGINAL (pre-rename) column and table."""
  return [
    ('to-formula, copy, RenameColumn, RemoveRecord', RG_PLAIN, [_TOF, _CPY, ['RenameColumn', 'T', 'D', 'E'], ['RemoveRecord', 'T', 2]]),
    ('to-formula, copy, RenameTable, RemoveRecord', RG_PLAIN, [_TOF, _CPY, ['RenameTable', 'T', 'U'], ['RemoveRecord', 'U', 2]]),
    ('to-formula, copy, RenameColumn, RenameTable, BulkRemoveRecord', RG_PLAIN,
     [_TOF, _CPY, ['RenameColumn', 'T', 'D', 'E'], ['RenameTable', 'T', 'U'], ['BulkRemoveRecord', 'U', [1, 2]]]),
    ('source column renamed, last row of a summary group removed', RG_SUMMARY, [['RenameColumn', 'T', 'N', 'M'], ['RemoveRecord', 'T', 1]]),
    ('source table renamed, only row of a summary group moved', RG_SUMMARY, [['RenameTable', 'T', 'U'], ['UpdateRecord', 'U', 1, {'A': 'b'}]]),
    ('group-by column renamed, last row of a summary group removed', RG_SUMMARY, [['RenameColumn', 'T', 'A', 'B'], ['RemoveRecord', 'T', 1]]),
    ('control without rename', RG_PLAIN, [_TOF, _CPY, ['RemoveRecord', 'T', 2]]),
  ]


def rename_gone_search(prop, found, limit):
  for name, hist, b in rename_gone_cases():
    try:
      issues, _ = check_bundle(build(hist), copy.deepcopy(b))
    except Exception:
      continue
    for p_, kind, what in issues:
      if p_ == prop and not any(f[0] == kind for f in found):
        found.append((kind, '[template: rename + row gone after recalculation; %s] %s' % (name, what),
                      {'history': hist, 'bundle': b, 'kind': kind}))
        if len(found) >= limit:
          return found
  return found


# the K1 glue of useractions.doModifyColumn that no trace can show when it is skipped: the hand-off of the conversion
# changes to the summary, and the per-column flush for "not to_formula"
GLUE_PINS = [
  ('changes', 'self._engine.out_actions.summary.add_changes(table_id, col_id, changes)'),
  ('not to_formula', None),      # body: pop the ModifyColumn undo, try: flush_calc_changes_for_column, finally: push it back
]


def check_glue_pins():
  """[] if doModifyColumn still hands EVERY non-empty list of conversion changes to the summary (`if changes:` with
  exactly that call) and flushes the column exactly when `not to_formula`; otherwise descriptions of what differs."""
  import ast
  with open(os.path.join(core.GRIST, 'useractions.py')) as f:
    tree = ast.parse(f.read())
  fn = next((n for n in ast.walk(tree) if isinstance(n, ast.FunctionDef) and n.name == 'doModifyColumn'), None)
  if fn is None:
    return ['useractions.doModifyColumn not found']
  bad = []
  adds = [n for n in ast.walk(fn) if isinstance(n, ast.If) and 'summary.add_changes(' in ast.unparse(n)]
  if len(adds) != 1 or ast.unparse(adds[0].test) != GLUE_PINS[0][0] or adds[0].orelse or \
     [ast.unparse(x) for x in adds[0].body] != [GLUE_PINS[0][1]]:
    bad.append('the hand-off of the conversion changes is not `if changes: %s` (found: %s)'
               % (GLUE_PINS[0][1], '; '.join(ast.unparse(n).replace('\n', ' ')[:160] for n in adds) or 'none'))
  fl = [n for n in ast.walk(fn) if isinstance(n, ast.If) and 'flush_calc_changes_for_column(' in ast.unparse(n)]
  if len(fl) != 1 or ast.unparse(fl[0].test) != GLUE_PINS[1][0] or fl[0].orelse:
    bad.append('the per-column flush is not guarded by `if not to_formula:` exactly once')
  return bad


TYPECHANGE_DOC = [
  [['AddTable', 'T', [{'id': 'A', 'type': 'Int', 'isFormula': False}, {'id': 'D', 'type': 'Text', 'isFormula': False},
                      {'id': 'N', 'type': 'Numeric', 'isFormula': False}, {'id': 'Y', 'type': 'Any', 'isFormula': False},
                      {'id': 'I', 'type': 'Int', 'isFormula': False}]]],
  [['BulkAddRecord', 'T', [None] * 4, {'A': [1, 2, 3, 4], 'D': ['5', 'n/a', '7.5', '30'], 'N': [1.0, 2.5, 0.0, 30.0],
                                       'Y': ['5', 7.5, True, 'x'], 'I': [1, 0, 2, 30]}]],
]


def typechange_cases():
  """ModifyColumn setting isFormula AND type together, on columns holding values that the new type's convert() alters."""
  out = []
  for col, typ in [('D', 'Int'), ('D', 'Numeric'), ('D', 'Bool'), ('N', 'Int'), ('N', 'Text'), ('N', 'Bool'),
                   ('Y', 'Int'), ('Y', 'Text'), ('I', 'Bool'), ('I', 'Text'), ('I', 'Numeric')]:
    for k, f in enumerate(('$A', '$A * 10')):
      if k == 0 or (col, typ) in (('D', 'Int'), ('N', 'Int'), ('I', 'Bool')):
        out.append(('%s -> %s formula %s' % (col, typ, f), TYPECHANGE_DOC,
                    [['ModifyColumn', 'T', col, {'isFormula': True, 'type': typ, 'formula': f}]]))
  out.append(('D -> Int formula, then an edit elsewhere', TYPECHANGE_DOC,
              [['ModifyColumn', 'T', 'D', {'isFormula': True, 'type': 'Int', 'formula': '$A'}], ['UpdateRecord', 'T', 1, {'A': 9}]]))
  return out


def typechange_search(prop, found, limit):
  for name, hist, b in typechange_cases():
    try:
      issues, _ = check_bundle(build(hist), copy.deepcopy(b))
    except Exception:
      continue
    for p_, kind, what in issues:
      if p_ == prop and not any(f[0] == kind for f in found):
        found.append((kind, '[template: isFormula and type changed together; %s] %s' % (name, what),
                      {'history': hist, 'bundle': b, 'kind': kind}))
        if len(found) >= limit:
          return found
  return found


_SIDE_FORMULA = 'Schools.lookupOrAddDerived(city=$city)\nif $amount < 0:\n  raise Exception("negative amount")\nreturn None\n'
SIDE_DOC = [
  [['AddTable', 'Address', [{'id': 'city', 'type': 'Text', 'isFormula': False}, {'id': 'state', 'type': 'Text', 'isFormula': False},
                            {'id': 'amount', 'type': 'Numeric', 'isFormula': False}]]],
  [['AddTable', 'Schools', [{'id': 'name', 'type': 'Text', 'isFormula': False}, {'id': 'city', 'type': 'Text', 'isFormula': False},
                            {'id': 'ucity', 'type': 'Text', 'isFormula': True, 'formula': '$city.upper()'}]]],
  [['BulkAddRecord', 'Schools', [None, None], {'name': ['MIT', 'NYU'], 'city': ['Boston', 'New York']}]],
  [['BulkAddRecord', 'Address', [None, None], {'city': ['New York', 'Boston'], 'state': ['NY', 'MA'], 'amount': [1, 2]}]],
  [['AddColumn', 'Address', 'A', {'type': 'Any', 'isFormula': True, 'formula': _SIDE_FORMULA}]],
  [['AddTable', 'Extra', [{'id': 'X', 'type': 'Int', 'isFormula': False}]]],
  [['AddRecord', 'Extra', None, {'X': 1}]],
]


def sideeffect_cases():
  """A formula with a side effect (lookupOrAddDerived) that raises afterwards: the engine rolls the side effect back inside
  the (successful) bundle, trimming stored / undo.  Placed after doc actions whose numbers of stored and undo actions
  differ: RemoveColumn of a data column with values (1 stored, 2 undo), RemoveTable of a non-empty table (1 / 2), a
  ModifyColumn that changes nothing and a BulkRemoveRecord of missing rows (1 / 0)."""
  bad = ['UpdateRecord', 'Address', 2, {'city': 'Albany', 'amount': -3}]
  firsts = [('RemoveColumn(data)', ['RemoveColumn', 'Address', 'state']), ('RemoveTable(non-empty)', ['RemoveTable', 'Extra']),
            ('no-op ModifyColumn', ['ModifyColumn', 'Address', 'state', {'type': 'Text'}]),
            ('BulkRemoveRecord of missing rows', ['BulkRemoveRecord', 'Extra', [7, 8]]),
            ('AddRecord', ['AddRecord', 'Extra', None, {'X': 2}])]
  out = [('rolled back alone', SIDE_DOC, [bad]),
         ('side effect kept', SIDE_DOC, [['UpdateRecord', 'Address', 2, {'city': 'Albany', 'amount': 5}]])]
  for n, a in firsts:
    out.append((n + ', then rolled-back side effect', SIDE_DOC, [a, bad]))
    out.append((n + ', rolled-back side effect, then an edit', SIDE_DOC, [a, bad, ['UpdateRecord', 'Schools', 1, {'name': 'M'}]]))
  out.append(('two rollbacks after RemoveColumn', SIDE_DOC,
              [['RemoveColumn', 'Address', 'state'], bad, ['UpdateRecord', 'Address', 1, {'city': 'Troy', 'amount': -1}]]))
  return out


def sideeffect_search(prop, found, limit):
  for name, hist, b in sideeffect_cases():
    try:
      issues, _ = check_bundle(build(hist), copy.deepcopy(b))
    except Exception:
      continue
    for p_, kind, what in issues:
      if p_ == prop and not any(f[0] == kind for f in found):
        found.append((kind, '[template: formula side effect rolled back inside the bundle; %s] %s' % (name, what),
                      {'history': hist, 'bundle': b, 'kind': kind}))
        if len(found) >= limit:
          return found
  return found


def template_search(prop, limit=6):
  """Fixed templates, run on every check (a few seconds): counter trigger formulas read by a formula column, and -- without
  any preceding edit -- ReplaceTableData with overlapping / partial / disjoint ids and AddColumn-with-formula / update /
  (rename) / RemoveColumn bundles on the small documents of focused_search."""
  found = rename_gone_search(prop, [], limit)
  typechange_search(prop, found, limit)
  sideeffect_search(prop, found, limit)
  for f in focused_search({'ReplaceTableData', 'RemoveColumn'}, prop, limit=limit, light=True):
    if len(found) < limit and not any(g[0] == f[0] for g in found):
      found.append(f)
  return found


def own_hash():
  h = hashlib.sha1()
  h.update(histrun.tree_hash().encode())
  for p in ('harness/k1trace.py', 'harness/k1check.py', 'coq/theories/Model/ActionLog.v',
            'coq/theories/Model/ActionLogEnc.v', 'coq/theories/Proofs/ActionLog_stage3.v', 'harness/da2v.py'):
    with open(os.path.join(core.VERIF, p), 'rb') as f:
      h.update(f.read())
  return h.hexdigest()[:16]


def traced_run(ctx, n_hist, nb):
  """Runs n_hist random histories under the recorder, evaluates the model on every bundle trace inside Coq,
  runs the undo/redo oracles on the implementation.  Cached per tree/tier/seed so C01 and C03 share it."""
  key = 'k1_%s_%s_%d_%d_%d' % (own_hash(), ctx.tier, ctx.seed, n_hist, nb)
  cdir = os.path.join(core.VERIF, 'work', 'histcache')
  os.makedirs(cdir, exist_ok=True)
  path = os.path.join(cdir, key + '.json')
  with core.flock(os.path.join(cdir, '.k1lock')):
    if os.path.exists(path):
      with open(path) as f:
        return json.load(f)
    res = _traced_run(ctx, n_hist, nb)
    with open(path + '.tmp', 'w') as f:
      json.dump(res, f, default=repr)
    os.rename(path + '.tmp', path)
    files = sorted((os.path.getmtime(os.path.join(cdir, x)), x) for x in os.listdir(cdir) if x.startswith('k1_'))
    for _, x in files[:-4]:
      os.remove(os.path.join(cdir, x))
    return res


def _traced_run(ctx, n_hist, nb):
  t0 = time.time()
  I = k1trace.Interner()
  terms, metas = [], []
  stats = collections.Counter()
  issues = []          # implementation-side failures: dict(prop, kind, what, replay)
  problems = []        # instrumentation / engine-invariant problems (tie level)
  samples = []
  base = (ctx.seed * 7919 + 17) & 0x7fffffff
  from harness import da2v
  try:
    da_table = da2v.extract_all()
  except core.TieBroken:
    da_table = None            # reported by regenerate()
  with k1trace.instrumented():
    for i in range(n_hist):
      r = random.Random(base * 100003 + i)
      gen = PendGen(r, weights=WEIGHTS if i % 2 else None)
      gen.directed = [0.0, 0.3, 0.6][i % 3]
      gen.trig = [0.0, 0.5, 0.25, 0.5][i % 4]
      e, _ = G.new_doc()
      history = []
      for _ in range(r.randint(1, 2)):
        b = [gen.gen_addtable(histgen.Meta(e))]
        try:
          G.apply(e, b)
          gen.after_bundle(e)
          history.append(b)
        except Exception:
          G.clean(e)
      if r.random() < 0.5:
        # some formulas and rows; init_doc applies its bundles through gen._do: record them for the replays
        orig_do = gen._do
        def _do(e_, b_, orig_do=orig_do, history=history):
          out_ = orig_do(e_, b_)
          history.append(b_)            # failed ones are cleaned, exactly as build() does on replay
          return out_
        gen._do = _do
        gen.init_doc(e, n_tables=1)
        gen._do = orig_do
      start_snapshot = G.snapshot(e)
      undos = []
      for b in range(nb):
        bundle = gen.bundle(e)
        before = G.snapshot(e)
        before_schema = G.engine_schema(e)
        try:
          tr = k1trace.record_bundle(e, bundle)
        except Exception:
          stats['failed_bundles'] += 1
          G.clean(e)
          history.append(bundle)       # replays run failed bundles too (and clean up the same way)
          if G.canon(G.snapshot(e)) != G.canon(before):
            # the failed bundle left a trace (that is C04's subject, reported there): this document is no longer
            # the one the undo lists were made for
            stats['history-abandoned-after-failed-bundle-left-a-trace'] += 1
            undos = None
            break
          continue
        gen.after_bundle(e)
        stats['bundles'] += 1
        after = G.snapshot(e)
        out = tr.pop('out')
        if has_cycle(after) or has_cycle(before):
          stats['history-abandoned-cyclic-formula-program'] += 1
          history.append(bundle)
          undos = None
          break
        for p in tr['problems']:
          problems.append({'what': p, 'bundle': bundle})
        for evt in tr['events']:
          stats['ev:' + evt[0]] += 1
          if evt[0] == 'doc':
            stats['doc:' + evt[1][0]] += 1
            # differential validation of the regenerated effect programs: the undo actions the engine appended for this
            # doc action are one of the paths extracted from docactions.py
            if da_table is not None and evt[1][0] in da_table:
              if da2v.undo_kinds_ok(da_table, evt[1], evt[2]):
                stats['gen-effects:undo-kinds-agree'] += 1
              else:
                stats['gen-effects:undo-kinds-DIFFER'] += 1
                problems.append({'what': 'regenerated effect program of %s does not produce the undo actions the engine '
                                         'appended: %r' % (evt[1][0], [u[0] if u else None for u in evt[2]]), 'bundle': bundle})
        # the tie
        traced = False
        try:
          term = k1trace.trace_term(I, tr)
          ch = k1trace.untouched_changed(tr, k1trace.touched_tables(tr))
          if ch:
            problems.append({'what': 'tables changed without any recorded event: %r' % (ch,), 'bundle': bundle})
          terms.append(term)
          kinds = sorted({evt[0] if evt[0] != 'doc' else evt[1][0] for evt in tr['events']})
          pend = pending_structure(tr['events'])
          metas.append({'bundle': bundle, 'history': copy.deepcopy(history), 'kinds': kinds, 'pending': pend,
                        'n_events': len(tr['events']),
                        'shape': [evt[0] if evt[0] != 'doc' else evt[1][0] for evt in tr['events']]})
          traced = True
          if len(samples) < 4:
            samples.append({'bundle': bundle, 'events': [short_event(x) for x in tr['events'][:12]]})
        except k1trace.Unmodelled as u:
          stats['outside-value-model:' + str(u)[:40]] += 1
        # the implementation oracles
        for p, kind, what in undo_redo_oracle(e, out, before, after, before_schema):
          issues.append({'prop': p, 'kind': kind, 'what': what, 'trace_index': len(terms) - 1 if traced else None,
                         'replay': {'history': copy.deepcopy(history), 'bundle': bundle}})
          stats['oracle:' + kind] += 1
        if G.snapshot(e) != after:
          undos = None
          break                    # an oracle failed and left the document elsewhere: stop this history
        undos.append(G.reprs(out.undo))
        history.append(bundle)
      # whole-history undo
      ok = True
      for k, u in enumerate(reversed(undos or [])):
        try:
          G.apply(e, [['ApplyUndoActions', u]])
        except Exception:
          ok = False
          issues.append({'prop': 'C01', 'kind': classify_history_failure(traceback.format_exc(), history),
                         'what': traceback.format_exc()[-300:],
                         'replay': {'history': copy.deepcopy(history), 'whole_history': True}})
          break
      if ok and undos:
        end = G.snapshot(e)
        stats['histories_undone'] += 1
        if G.canon(end) != G.canon(start_snapshot):
          issues.append({'prop': 'C01', 'kind': 'history-undo-differs:formula-cells-only'
                                                if only_formula_cells_differ(e, start_snapshot, end) else 'history-undo-differs',
                         'what': '; '.join(strict_diff(start_snapshot, end)),
                         'replay': {'history': copy.deepcopy(history), 'whole_history': True}})
    # fixed template bundles (rename + row gone after a recalculation, ...): their traces join the tie
    for name, hist, b in rename_gone_cases() + typechange_cases():
      try:
        e = build(hist)
        before = G.snapshot(e)
        before_schema = G.engine_schema(e)
        tr = k1trace.record_bundle(e, copy.deepcopy(b))
        out = tr.pop('out')
        after = G.snapshot(e)
        terms.append(k1trace.trace_term(I, tr))
        for p_, kind, what in undo_redo_oracle(e, out, before, after, before_schema):
          issues.append({'prop': p_, 'kind': kind, 'what': '[template: %s] %s' % (name, what), 'trace_index': len(terms) - 1,
                         'replay': {'history': copy.deepcopy(hist), 'bundle': b}})
          stats['oracle:' + kind] += 1
        metas.append({'bundle': b, 'history': copy.deepcopy(hist), 'kinds': sorted({evt[0] if evt[0] != 'doc' else evt[1][0] for evt in tr['events']}),
                      'pending': pending_structure(tr['events']), 'n_events': len(tr['events']), 'template': name,
                      'shape': [evt[0] if evt[0] != 'doc' else evt[1][0] for evt in tr['events']]})
        stats['template-traces'] += 1
      except k1trace.Unmodelled as u:
        stats['outside-value-model:' + str(u)[:40]] += 1
      except Exception:
        stats['template-bundle-failed'] += 1
  t_rec = time.time() - t0
  codes = eval_codes(ctx, I, terms)
  for iss in issues:
    refine_with_code(iss, codes[iss['trace_index']] if iss.get('trace_index') is not None else None)
  return {'metas': metas, 'codes': codes, 'stats': dict(stats), 'issues': issues, 'problems': problems,
          'samples': samples, 'wall_record_s': round(t_rec, 1), 'wall_s': round(time.time() - t0, 1),
          'types': sorted(I.types)}


def short_event(evt):
  s = json.dumps(evt[1] if evt[0] == 'doc' else list(evt), default=repr)
  return s if len(s) < 160 else s[:160] + '...'


def pending_structure(events):
  """Does a rename/removal happen between a Calc and the flush (stage 3 of the theorem)?"""
  pending = False
  for evt in events:
    if evt[0] == 'calc':
      pending = True
    elif evt[0] == 'doc' and pending and evt[1][0] in ('RemoveRecord', 'BulkRemoveRecord', 'RemoveColumn', 'RenameColumn',
                                                     'RemoveTable', 'RenameTable'):
      return True
  return False


def eval_z(ctx, name, imports, fn, cases, shard=40, extra_defs='', timeout=900):
  """Like core.Ctx.run_cases, but returns the Z value of `fn case` for every case (one coqc per shard, 8 at a time)."""
  import re
  import subprocess
  paths = []
  for k in range(0, len(cases), shard):
    part = cases[k:k + shard]
    path = os.path.join(ctx.work, 'zcases_%s_%d.v' % (name, k // shard))
    with open(path, 'w') as f:
      f.write('From Coq Require Import ZArith List Bool String.\nImport ListNotations.\n')
      for imp in imports:
        f.write('Require Import %s.\n' % imp)
      f.write('Open Scope Z_scope.\n' + extra_defs + '\n')
      f.write('Definition the_cases := [\n  ' + ';\n  '.join(part) + '\n].\n')
      f.write('Goal True. idtac "@@RESULT". exact I. Qed.\n')
      f.write('Eval vm_compute in (map (%s) the_cases).\n' % fn)
    paths.append((k, len(part), path))
  out_vals = [None] * len(cases)
  pending, running = list(paths), []
  def start(item):
    k, n, path = item
    p = subprocess.Popen(['timeout', str(timeout), 'coqc', '-w', '-notation-overridden,-deprecated',
                          '-Q', os.path.join(core.COQ, 'theories'), 'Grist', '-Q', os.path.join(core.COQ, 'gen'), 'GristGen',
                          path], stdout=subprocess.PIPE, stderr=subprocess.STDOUT, cwd=ctx.work)
    return (k, n, path, p)
  while pending or running:
    while pending and len(running) < 8:
      running.append(start(pending.pop(0)))
    k, n, path, p = running.pop(0)
    out = p.communicate()[0].decode('utf8', 'replace')
    if p.returncode != 0 or '@@RESULT' not in out:
      for (_k, _n, _p, q) in running:
        q.kill()
      raise core.TieBroken('cases file %s does not evaluate: %s' % (os.path.basename(path), out[-1500:]))
    tail = out.split('@@RESULT', 1)[1]
    m = re.search(r'=\s*\[(.*?)\]\s*:\s*list Z', tail, re.S)
    if not m:
      raise core.TieBroken('cannot parse result of %s: %s' % (os.path.basename(path), tail[-500:]))
    vals = [int(t.strip().replace('%Z', '').replace('(', '').replace(')', '')) for t in m.group(1).split(';') if t.strip()]
    if len(vals) != n:
      raise core.TieBroken('result of %s has %d values for %d cases' % (os.path.basename(path), len(vals), n))
    out_vals[k:k + n] = vals
  return out_vals


def eval_codes(ctx, I, terms):
  """code per trace: bits 1..256 = disagreements (see B_*), bit 512 = the hypotheses of the proved theorem
  (bundle_ok3: doc actions, then calc deltas interleaved with the supported doc actions, then the flush; lossless;
  SC2) do NOT hold for this trace; bit 8192 = outside the narrower stage-2 class bundle_ok2."""
  if not terms:
    return []
  defs = I.defs() + CODE_DEF
  return eval_z(ctx, 'k1', k1trace.IMPORTS + ['Grist.Proofs.ActionLog_proofs', 'Grist.Proofs.ActionLog_calc', 'Grist.Proofs.ActionLog_stage3'],
                'trace_code', terms, shard=40, extra_defs=defs)
