"""
rl2v -- fail-closed translator for the code C07 decides on (main._decode_db_value, the column classes' set /
_clean_up_value, objtypes.safe_shift / RaisedException.decode_args / strict_equal / equal_encoding) into Gallina terms
over the value universe of coq/theories/Model/Values.v, built from the primitives of Model/ReloadPrims.v.

Expressions become terms of type `result value` (E) or `result bool` (B); statement lists become `result (option R)`
(returned value or fall-through).  An `if` duplicates the rest of the block into both branches, so assignments inside
branches need no join.  Everything that is not listed here raises Untranslatable.
"""
import ast
import os


class Untranslatable(Exception):
  pass


def bad(node, why):
  raise Untranslatable('%s at line %s: %s' % (why, getattr(node, 'lineno', '?'), ast.dump(node)[:160]))


def slit(s):
  if all(32 <= ord(c) < 127 and c != '"' for c in s):
    return '(Str "%s")' % s
  return '[%s]' % '; '.join(str(ord(c)) for c in s)


def find(tree, cls, name):
  body = tree.body
  if cls:
    cs = [n for n in body if isinstance(n, ast.ClassDef) and n.name == cls]
    if len(cs) != 1:
      raise Untranslatable('class %s not found once' % cls)
    body = cs[0].body
  fs = [n for n in body if isinstance(n, ast.FunctionDef) and n.name == name]
  if len(fs) != 1:
    raise Untranslatable('function %s.%s not found once' % (cls, name))
  return fs[0]


TYPE_NAMES = {'int': 'ty_int', 'float': 'ty_float', 'bytes': 'ty_bytes'}
CLASS_NAMES = {'str': 'CStr', 'list': 'CList', 'int': 'CInt', 'float': 'CFloat', 'bool': 'CBool'}
MUTATING = {'safe_shift': 'gen_safe_shift'}          # helper -> generated name; mutates its first argument (a list variable)
EXC_FIELDS = ['_name', '_message', 'details', 'user_input', 'error']
EXC_DEFAULTS = {'_name': 'PNone', '_message': 'PNone', 'details': 'PNone', 'user_input': 'NO_INPUT', 'error': 'PNone'}


class Fn(object):
  """translation of one function; kind: value | bool | set | shift | exc"""

  def __init__(self, kind):
    self.kind = kind
    self.types = set()       # names bound to type objects
    self.n = 0
    self.obj = None          # name of the RaisedException under construction (kind exc)
    self.classes = set()     # locals bound to a class made by type(name, (Exception,), {})
    self.mut = None          # the mutated list parameter (kind shift)

  def fresh(self, base='t'):
    self.n += 1
    return '%s%d' % (base, self.n)

  def var(self, name):
    return 'x_' + name

  # ---- atoms ---------------------------------------------------------------------------------
  def atom(self, e):
    """a pure term of type value, or None"""
    if isinstance(e, ast.Name) and e.id not in self.types:
      return self.var(e.id)
    if isinstance(e, ast.Constant):
      if e.value is None:
        return 'PNone'
      if e.value is True or e.value is False:
        return '(PBool %s)' % ('true' if e.value else 'false')
      if isinstance(e.value, int):
        return '(PInt false %d)' % e.value if e.value >= 0 else '(PInt false (%d))' % e.value
      if isinstance(e.value, str):
        return '(PStr false %s)' % slit(e.value)
    if isinstance(e, ast.Dict) and not e.keys:
      return '(PDict [])'
    if isinstance(e, ast.Attribute) and isinstance(e.value, ast.Name):
      if self.obj and e.value.id == self.obj and e.attr in EXC_FIELDS:
        return 'x_%s_%s' % (self.obj, e.attr)
      if e.value.id == 'RaisedException' and e.attr == 'NO_INPUT':
        return 'NO_INPUT'
    return None

  def with_val(self, e, k):
    a = self.atom(e)
    if a is not None:
      return k(a)
    t = self.fresh()
    return '(bind %s (fun %s => %s))' % (self.E(e), t, k(t))

  # ---- types -----------------------------------------------------------------------------------
  def is_type_expr(self, e):
    return ((isinstance(e, ast.Call) and isinstance(e.func, ast.Name) and e.func.id == 'type' and len(e.args) == 1)
            or (isinstance(e, ast.Name) and (e.id in self.types or e.id in TYPE_NAMES)))

  def Ty(self, e, k):
    if isinstance(e, ast.Name):
      return k(self.var(e.id) if e.id in self.types else TYPE_NAMES[e.id])
    return self.with_val(e.args[0], lambda a: k('(p_type %s)' % a))

  # ---- value expressions -------------------------------------------------------------------------
  def E(self, e):
    a = self.atom(e)
    if a is not None:
      return '(Ok %s)' % a
    if isinstance(e, ast.IfExp):
      return '(bind %s (fun c => if c then %s else %s))' % (self.B(e.test), self.E(e.body), self.E(e.orelse))
    if isinstance(e, ast.Call):
      f = e.func
      if e.keywords:
        bad(e, 'keyword arguments')
      if isinstance(f, ast.Name):
        one = {'float': 'p_float orc', 'int': 'p_int', 'tuple': 'p_tuple orc', 'list': 'p_list orc'}
        if f.id in one and len(e.args) == 1:
          return self.with_val(e.args[0], lambda a: '(%s %s)' % (one[f.id], a))
        if f.id == 'decode_object' and len(e.args) == 1:
          return self.with_val(e.args[0], lambda a: '(Ok (e_decode_object %s))' % a)
        if f.id == 'encode_object' and len(e.args) == 1:
          return self.with_val(e.args[0], lambda a: '(Ok (e_encode_object %s))' % a)
        if (f.id == 'type' and len(e.args) == 3 and isinstance(e.args[1], ast.Tuple) and len(e.args[1].elts) == 1
            and isinstance(e.args[1].elts[0], ast.Name) and e.args[1].elts[0].id == 'Exception'
            and isinstance(e.args[2], ast.Dict) and not e.args[2].keys):
          return self.with_val(e.args[0], lambda a: '(p_new_exc_class %s)' % a)
        if f.id in self.classes and len(e.args) <= 1:
          if not e.args:
            return '(p_instantiate %s [])' % self.var(f.id)
          return self.with_val(e.args[0], lambda a: '(p_instantiate %s [%s])' % (self.var(f.id), a))
      if isinstance(f, ast.Attribute):
        dotted = ast.unparse(f)
        if dotted == 'objtypes.decode_object' and len(e.args) == 1:
          return self.with_val(e.args[0], lambda a: '(Ok (e_decode_object %s))' % a)
        if dotted == 'marshal.loads' and len(e.args) == 1:
          return self.with_val(e.args[0], lambda a: '(e_marshal_loads %s)' % a)
        if dotted == 'json.loads' and len(e.args) == 1:
          return self.with_val(e.args[0], lambda a: '(p_json_loads orc %s)' % a)
        if dotted == 'objtypes.RecordList.from_repr' and len(e.args) == 1:
          return self.with_val(e.args[0], lambda a: '(p_recordlist_from_repr orc %s)' % a)
        if (f.attr == 'get' and len(e.args) == 2 and isinstance(e.args[0], ast.Constant) and isinstance(e.args[0].value, str)
            and self.atom(e.args[1]) is not None):
          return self.with_val(f.value, lambda a: '(p_dict_get %s %s %s)' % (a, slit(e.args[0].value), self.atom(e.args[1])))
    bad(e, 'expression outside the translated subset')

  # ---- boolean expressions ---------------------------------------------------------------------------
  def B(self, e):
    if isinstance(e, ast.BoolOp):
      op = 'p_and' if isinstance(e.op, ast.And) else 'p_or'
      out = self.B(e.values[-1])
      for v in reversed(e.values[:-1]):
        out = '(%s %s %s)' % (op, self.B(v), out)
      return out
    if isinstance(e, ast.UnaryOp) and isinstance(e.op, ast.Not):
      return '(p_not %s)' % self.B(e.operand)
    if isinstance(e, ast.Compare) and len(e.ops) == 1:
      l, op, r = e.left, e.ops[0], e.comparators[0]
      if self.is_type_expr(l) and self.is_type_expr(r) and isinstance(op, (ast.Eq, ast.Is)):
        return self.Ty(l, lambda a: self.Ty(r, lambda b: '(Ok (pytype_eqb %s %s))' % (a, b)))
      if isinstance(op, ast.Is) and isinstance(r, ast.Constant) and r.value is None:
        return self.with_val(l, lambda a: '(Ok (p_is_none %s))' % a)
      if isinstance(r, ast.Constant) and type(r.value) is int:
        if isinstance(op, ast.Eq):
          return self.with_val(l, lambda a: '(Ok (py_eq_small %s %d))' % (a, r.value))
        if isinstance(op, ast.Gt):
          return self.with_val(l, lambda a: '(p_gt_int %s %d)' % (a, r.value))
      if isinstance(op, ast.Eq):
        return self.with_val(l, lambda a: self.with_val(r, lambda b: '(p_eq orc %s %s)' % (a, b)))
    if isinstance(e, ast.Call) and not e.keywords:
      f = e.func
      if isinstance(f, ast.Name):
        if (f.id == 'isinstance' and len(e.args) == 2 and isinstance(e.args[1], ast.Name) and e.args[1].id in CLASS_NAMES):
          return self.with_val(e.args[0], lambda a: '(Ok (p_isinstance %s %s))' % (a, CLASS_NAMES[e.args[1].id]))
        if f.id == 'isnan' and len(e.args) == 1:
          return self.with_val(e.args[0], lambda a: '(p_isnan %s)' % a)
        if f.id == 'all' and len(e.args) == 1 and isinstance(e.args[0], ast.GeneratorExp):
          g = e.args[0]
          if len(g.generators) != 1 or g.generators[0].ifs or not isinstance(g.generators[0].target, ast.Name):
            bad(e, 'generator shape')
          v = self.var(g.generators[0].target.id)
          return self.with_val(g.generators[0].iter, lambda a: '(p_all orc (fun %s => %s) %s)' % (v, self.B(g.elt), a))
      if isinstance(f, ast.Attribute):
        dotted = ast.unparse(f)
        if dotted == 'objtypes.is_int_short' and len(e.args) == 1:
          return self.with_val(e.args[0], lambda a: '(p_is_int_short %s)' % a)
        if f.attr == 'startswith' and len(e.args) == 1 and isinstance(e.args[0], ast.Constant) and isinstance(e.args[0].value, str):
          return self.with_val(f.value, lambda a: '(p_startswith %s %s)' % (a, slit(e.args[0].value)))
        if f.attr == 'is_integer' and not e.args:
          return self.with_val(f.value, lambda a: '(p_is_integer %s)' % a)
    if isinstance(e, ast.Name) and e.id not in self.types:
      return '(p_truthy orc %s)' % self.var(e.id)
    bad(e, 'condition outside the translated subset')

  # ---- statements --------------------------------------------------------------------------------------
  def ret(self, term_of_atom, e, boolean=False):
    if self.kind == 'bool':
      return '(bind %s (fun r => Ok (Some r)))' % self.B(e)
    if self.kind == 'shift':
      return self.with_val_e(e, lambda a: '(Ok (Some (%s, %s)))' % (a, self.var(self.mut)))
    return self.with_val_e(e, lambda a: '(Ok (Some %s))' % a)

  def with_val_e(self, e, k):
    a = self.atom(e)
    if a is not None:
      return k(a)
    t = self.fresh('r')
    return '(bind %s (fun %s => %s))' % (self.E(e), t, k(t))

  def hoist(self, e, k):
    """calls of list-mutating helpers inside e, in evaluation order, become pair-lets around k(e')"""
    calls = [n for n in ast.walk(e) if isinstance(n, ast.Call) and isinstance(n.func, ast.Name) and n.func.id in MUTATING]
    if not calls:
      return k(e)
    calls.sort(key=lambda n: (n.lineno, n.col_offset))
    c = calls[0]
    if not (1 <= len(c.args) <= 2 and isinstance(c.args[0], ast.Name)) or c.keywords:
      bad(c, 'call of a mutating helper')
    lst = c.args[0].id
    dflt = self.atom(c.args[1]) if len(c.args) == 2 else 'PNone'
    if dflt is None:
      bad(c, 'default of a mutating helper must be an atom')
    tmp = self.fresh('s')

    class Sub(ast.NodeTransformer):
      def visit_Call(self_inner, node):
        if node is c:
          return ast.copy_location(ast.Name(id=tmp, ctx=ast.Load()), node)
        return self_inner.generic_visit(node)
    e2 = ast.fix_missing_locations(Sub().visit(e))
    return '(bind (%s %s %s) (fun pr => let %s := fst pr in let %s := snd pr in %s))' % (
      MUTATING[c.func.id], self.var(lst), dflt, self.var(tmp), self.var(lst), self.hoist(e2, k))

  def T(self, stmts):
    if not stmts:
      return '(Ok None)'
    s, rest = stmts[0], stmts[1:]
    if isinstance(s, ast.Expr) and isinstance(s.value, ast.Constant) and isinstance(s.value.value, str):
      return self.T(rest)                                  # docstring
    if isinstance(s, ast.Pass):
      return self.T(rest)
    if isinstance(s, ast.Return):
      if s.value is None:
        bad(s, 'bare return')
      if self.obj and isinstance(s.value, ast.Name) and s.value.id == self.obj:
        return '(Ok (Some (PTuple [%s])))' % '; '.join('x_%s_%s' % (self.obj, f) for f in EXC_FIELDS)
      return self.hoist(s.value, lambda e: self.ret(None, e))
    if isinstance(s, ast.Assert) and s.msg is None:
      return '(bind %s (fun c => if c then %s else Raise E_Assertion))' % (self.B(s.test), self.T(rest))
    if isinstance(s, ast.Assign) and len(s.targets) == 1:
      return self.assign(s.targets[0], s.value, rest)
    if isinstance(s, ast.If):
      return '(bind %s (fun c => if c then %s else %s))' % (self.B(s.test), self.T(s.body + rest), self.T(s.orelse + rest))
    if isinstance(s, ast.Try):
      h = s.handlers
      if not (len(h) == 1 and isinstance(h[0].type, ast.Name) and h[0].type.id == 'Exception' and not s.orelse and not s.finalbody):
        bad(s, 'try shape')
      hb = h[0].body
      if len(hb) == 1 and isinstance(hb[0], ast.Pass):
        if (len(s.body) == 1 and isinstance(s.body[0], ast.Assign) and len(s.body[0].targets) == 1
            and isinstance(s.body[0].targets[0], ast.Name)):
          x = self.var(s.body[0].targets[0].id)
          return '(let %s := p_try_value %s %s in %s)' % (x, self.E(s.body[0].value), x, self.T(rest))
        assigned = set(n.id for b in s.body for n in ast.walk(b) if isinstance(n, ast.Name) and isinstance(n.ctx, ast.Store))
        used = set(n.id for b in rest for n in ast.walk(b) if isinstance(n, ast.Name) and isinstance(n.ctx, ast.Load))
        if assigned & used:
          bad(s, 'a variable assigned inside try is used after it')
        return '(p_try_block %s %s)' % (self.T(s.body), self.T(rest))
      if (self.kind == 'bool' and len(hb) == 1 and isinstance(hb[0], ast.Return) and isinstance(hb[0].value, ast.Constant)
          and hb[0].value.value in (True, False) and len(s.body) == 1 and isinstance(s.body[0], ast.Return) and not rest):
        return '(bind (p_try_bool %s %s) (fun r => Ok (Some r)))' % (self.B(s.body[0].value), 'true' if hb[0].value.value else 'false')
      bad(s, 'except handler shape')
    if (self.kind == 'set' and not rest and isinstance(s, ast.Expr) and isinstance(s.value, ast.Call)
        and isinstance(s.value.func, ast.Attribute) and s.value.func.attr == 'set' and isinstance(s.value.func.value, ast.Call)
        and isinstance(s.value.func.value.func, ast.Name) and s.value.func.value.func.id == 'super'
        and len(s.value.args) == 2 and isinstance(s.value.args[0], ast.Name) and s.value.args[0].id == 'row_id'):
      return self.with_val_e(s.value.args[1], lambda a: '(Ok (Some %s))' % a)
    bad(s, 'statement outside the translated subset')

  def assign(self, tgt, value, rest):
    # x = type(y)
    if isinstance(tgt, ast.Name) and self.is_type_expr(value) and isinstance(value, ast.Call):
      self.types.add(tgt.id)
      return self.Ty(value, lambda a: '(let %s := %s in %s)' % (self.var(tgt.id), a, self.T(rest)))
    # x = arg.pop(0) if arg else None
    if (isinstance(tgt, ast.Name) and isinstance(value, ast.IfExp) and isinstance(value.test, ast.Name)
        and isinstance(value.orelse, ast.Constant) and value.orelse.value is None and isinstance(value.body, ast.Call)
        and isinstance(value.body.func, ast.Attribute) and value.body.func.attr == 'pop'
        and isinstance(value.body.func.value, ast.Name) and value.body.func.value.id == value.test.id
        and len(value.body.args) == 1 and isinstance(value.body.args[0], ast.Constant) and value.body.args[0].value == 0):
      lst = value.test.id
      return '(bind (p_pop0_or_none orc %s) (fun pr => let %s := fst pr in let %s := snd pr in %s))' % (
        self.var(lst), self.var(tgt.id), self.var(lst), self.T(rest))
    # exc = cls(None)
    if (self.kind == 'exc' and isinstance(tgt, ast.Name) and isinstance(value, ast.Call) and isinstance(value.func, ast.Name)
        and value.func.id == 'cls' and len(value.args) == 1 and isinstance(value.args[0], ast.Constant) and value.args[0].value is None):
      self.obj = tgt.id
      lets = ''.join('let x_%s_%s := %s in ' % (tgt.id, f, EXC_DEFAULTS[f]) for f in EXC_FIELDS)
      return '(%s%s)' % (lets, self.T(rest))
    if isinstance(tgt, ast.Name):
      name = self.var(tgt.id)
      if (isinstance(value, ast.Call) and isinstance(value.func, ast.Name) and value.func.id == 'type' and len(value.args) == 3):
        self.classes.add(tgt.id)
    elif (isinstance(tgt, ast.Attribute) and isinstance(tgt.value, ast.Name) and self.obj and tgt.value.id == self.obj
          and tgt.attr in EXC_FIELDS):
      name = 'x_%s_%s' % (self.obj, tgt.attr)
    else:
      bad(tgt, 'assignment target')
    return self.hoist(value, lambda e: self.with_val_e(e, lambda a: '(let %s := %s in %s)' % (name, a, self.T(rest))))


TARGETS = [
  # file, class, function, kind, generated name, parameters (python names)
  ('main.py', None, '_decode_db_value', 'value', 'gen_decode_db_value', ['value']),
  ('column.py', 'BoolColumn', 'set', 'set', 'gen_BoolColumn_set', ['value']),
  ('column.py', 'NumericColumn', 'set', 'set', 'gen_NumericColumn_set', ['value']),
  ('column.py', 'ChoiceListColumn', 'set', 'set', 'gen_ChoiceListColumn_set', ['value']),
  ('column.py', 'ReferenceColumn', '_clean_up_value', 'value', 'gen_ReferenceColumn_clean_up_value', ['value']),
  ('column.py', 'ReferenceListColumn', '_clean_up_value', 'value', 'gen_ReferenceListColumn_clean_up_value', ['value']),
  ('objtypes.py', None, 'safe_shift', 'shift', 'gen_safe_shift', ['arg', 'default']),
  ('objtypes.py', 'RaisedException', 'decode_args', 'exc', 'gen_decode_args', ['args']),
  ('objtypes.py', None, 'strict_equal', 'bool', 'gen_strict_equal', ['a', 'b']),
  ('objtypes.py', None, 'equal_encoding', 'bool', 'gen_equal_encoding', ['a', 'b']),
]


def check_params(fd, kind, params):
  a = fd.args
  names = [x.arg for x in a.args]
  if kind == 'set':
    want = ['self', 'row_id'] + params
  elif kind == 'exc':
    want = ['cls']
    if not (a.vararg and a.vararg.arg == params[0]):
      raise Untranslatable('%s: *args expected' % fd.name)
  elif names[:1] == ['self']:
    want = ['self'] + params
  else:
    want = params
  if names != want or a.kwonlyargs or a.kwarg or (a.vararg and kind != 'exc'):
    raise Untranslatable('%s: parameters %r, expected %r' % (fd.name, names, want))
  if kind == 'shift':
    if not (len(a.defaults) == 1 and isinstance(a.defaults[0], ast.Constant) and a.defaults[0].value is None):
      raise Untranslatable('safe_shift: default of `default` must be None')
  elif a.defaults:
    raise Untranslatable('%s: default values' % fd.name)


def translate_function(fd, kind, gname, params):
  check_params(fd, kind, params)
  fn = Fn(kind)
  if kind == 'shift':
    fn.mut = params[0]
  body = fn.T(fd.body)
  ps = ' '.join('(x_%s : value)' % p for p in params)
  if kind == 'bool':
    return 'Definition %s %s : result bool :=\n  p_fn false %s.\n' % (gname, ps, body)
  if kind == 'shift':
    return 'Definition %s %s : result (value * value) :=\n  p_fn (PNone, x_%s) %s.\n' % (gname, ps, params[0], body)
  return 'Definition %s %s : result value :=\n  p_fn PNone %s.\n' % (gname, ps, body)


HEADER = '''(* GENERATED by harness/rl2v.py from %s -- do not edit. *)
From Coq Require Import ZArith List Bool String.
Import ListNotations.
Require Import Grist.Lib.PyFloat Grist.Model.Values Grist.Model.Reload Grist.Model.ReloadPrims.
Open Scope Z_scope.

Section Gen.
Variable orc : oracles.
(* callees that are not translated here: objtypes.decode_object / encode_object (Model/Values.v), marshal.loads *)
Variable e_decode_object : value -> value.
Variable e_encode_object : value -> value.
Variable e_marshal_loads : value -> result value.

'''


def translate_all(grist_dir):
  trees = {}
  parts = []
  order = sorted(TARGETS, key=lambda t: 0 if t[3] == 'shift' else 1)      # helpers first
  for fname, cls, name, kind, gname, params in order:
    if fname not in trees:
      with open(os.path.join(grist_dir, fname)) as f:
        trees[fname] = ast.parse(f.read())
    fd = find(trees[fname], cls, name)
    parts.append('(* %s: %s%s *)\n%s' % (fname, cls + '.' if cls else '', name, translate_function(fd, kind, gname, params)))
  return HEADER % 'main.py, column.py, objtypes.py' + '\n'.join(parts) + '\n' + dispatch_text()


# usertypes class -> ctype pattern of Model/Values.v
CTYPES = [('Text', 'TText'), ('Blob', 'TBlob'), ('Any', 'TAny'), ('Bool', 'TBool'), ('Int', 'TInt'), ('Numeric', 'TNumeric'),
          ('Date', 'TDate'), ('DateTime', 'TDateTime _'), ('Choice', 'TChoice'), ('ChoiceList', 'TChoiceList'),
          ('PositionNumber', 'TPositionNumber'), ('ManualSortPos', 'TManualSortPos'), ('Id', 'TId'), ('Reference', 'TRef _'),
          ('ReferenceList', 'TRefList _'), ('Attachments', 'TAttachments')]
SET_KINDS = {'BaseColumn.set': 'KIdentity', 'BoolColumn.set': 'KBool', 'NumericColumn.set': 'KNumeric',
             'PositionColumn.set': 'KNumeric',          # pinned: PositionColumn.set passes the value on to NumericColumn.set
             'ChoiceListColumn.set': 'KChoiceList'}
CLEAN_KINDS = {'ReferenceColumn._clean_up_value': 'KRef', 'ReferenceListColumn._clean_up_value': 'KRefList'}


def dispatch_text():
  """Which translated function stores a value in a column of each type: read off the running classes (usertypes.<T>.ColType
  and the method resolution order of the column classes)."""
  import column        # noqa: F401  (sets usertypes.<T>.ColType)
  import usertypes
  lines = []
  for name, pat in CTYPES:
    col = getattr(usertypes, name).ColType
    q = col.set.__qualname__
    if q == 'BaseReferenceColumn.set':
      kind = CLEAN_KINDS.get(col._clean_up_value.__qualname__)
    else:
      kind = SET_KINDS.get(q)
    if kind is None:
      raise Untranslatable('column class of %s stores values through %s' % (name, q))
    lines.append('  | %s => %s' % (pat, kind))
  return ('(* usertypes.<T>.ColType.set, resolved on the running classes *)\nDefinition gen_set_kind (T : ctype) : set_kind :=\n'
          '  match T with\n' + '\n'.join(lines) + '\n  end.\n\n'
          'Definition gen_col_set (T : ctype) (v : value) : result value :=\n  match gen_set_kind T with\n'
          '  | KIdentity => Ok v\n  | KBool => gen_BoolColumn_set v\n  | KNumeric => gen_NumericColumn_set v\n'
          '  | KChoiceList => gen_ChoiceListColumn_set v\n  | KRef => gen_ReferenceColumn_clean_up_value v\n'
          '  | KRefList => gen_ReferenceListColumn_clean_up_value v\n  end.\n' + COMPOSED)


# fixed text: the translated functions put together the way load_table / _recompute_step / _changes_to_actions call them
COMPOSED = '''
(* marshal.loads of a bytes object, by the model's unmarshal *)
Definition loads_of (unmarshal : list Z -> value) (x : value) : result value :=
  match x with PBytes _ b => Ok (unmarshal b) | _ => Raise E_Type end.

End Gen.

Section Composed.
Variable orc : oracles.

(* the reload of a cell with the translated _decode_db_value and the translated set of the column's class; the .error
   description of a decoded error cell is that of the translated decode_args (Proofs/Reload_bridge.v: decoded_err_by_gen) *)
Definition code_reload (marshal : value -> list Z) (unmarshal : list Z -> value) (T : ctype) (fuel : nat) (c : cell) : result cell :=
  let x := unmarshal (marshal (to_db marshal (encode_f orc fuel (fst c)))) in
  bind (gen_decode_db_value (decode_f orc fuel) (loads_of unmarshal) x) (fun d =>
  bind (gen_col_set orc T d) (fun w => Ok (w, snd (from_db orc unmarshal fuel x)))).

Definition code_recompute_cell (previous new : value) : result (option (value * value)) :=
  bind (gen_strict_equal orc new previous) (fun same => Ok (if same then None else Some (previous, new))).

Definition code_flush_cell (fuel : nat) (chg : option (value * value)) : result (option value) :=
  match chg with
  | Some (before, after) =>
      bind (gen_equal_encoding orc (encode_f orc fuel) before after) (fun same => Ok (if same then None else Some after))
  | None => Ok None
  end.

End Composed.
'''


# glue that is not translated: pinned by the hash of its AST (comments and layout do not matter)
PINNED = [('main.py', None, 'table_data_from_db'), ('column.py', 'BaseColumn', 'set'), ('column.py', 'BaseReferenceColumn', 'set'),
          ('column.py', 'PositionColumn', 'set'), ('objtypes.py', 'RaisedException', '__init__'),
          ('objtypes.py', None, 'is_int_short'), ('actions.py', None, 'decode_bulk_values')]


def pin_hashes(grist_dir):
  import hashlib
  out = {}
  for fname, cls, name in PINNED:
    with open(os.path.join(grist_dir, fname)) as f:
      fd = find(ast.parse(f.read()), cls, name)
    out['%s:%s%s' % (fname, cls + '.' if cls else '', name)] = hashlib.sha1(ast.dump(fd).encode()).hexdigest()[:16]
  # the change-detection statements inside two long functions
  with open(os.path.join(grist_dir, 'engine.py')) as f:
    fd = find(ast.parse(f.read()), 'Engine', '_recompute_step')
  blocks = [n for n in ast.walk(fd) if isinstance(n, ast.If) and isinstance(n.test, ast.Name) and n.test.id == 'save_value']
  if len(blocks) != 1:
    raise Untranslatable('Engine._recompute_step: `if save_value:` block not found once')
  out['engine.py:_recompute_step:if save_value'] = hashlib.sha1(ast.dump(blocks[0]).encode()).hexdigest()[:16]
  with open(os.path.join(grist_dir, 'action_summary.py')) as f:
    fd = find(ast.parse(f.read()), 'ActionSummary', '_changes_to_actions')
  st = [n for n in fd.body if isinstance(n, ast.Assign) and isinstance(n.targets[0], ast.Name) and n.targets[0].id == 'full_row_ids']
  if len(st) != 1:
    raise Untranslatable('ActionSummary._changes_to_actions: full_row_ids statement not found once')
  out['action_summary.py:_changes_to_actions:full_row_ids'] = hashlib.sha1(ast.dump(st[0]).encode()).hexdigest()[:16]
  return out
