"""dep2v, part 2: statements (CPS) and the functions translated for C05.  See harness/dep2v.py."""
import ast

from harness.dep2v import Ex, Untranslatable, dotted, fail, is_all_rows, strip_doc


def unp(n):
  return ast.unparse(n)


class St(object):
  """Statement lists in continuation-passing style.  `fall`: the value when control falls off the end;
  `cont`: the value of `continue` (None outside a worklist body); `views`: statements on index maps that are views
  of the edge set in the model (exact text), emitted as nothing."""
  VIEWS = ('self._in_node_map.setdefault(edge.in_node, set()).add(edge)',
           'self._out_node_map.setdefault(edge.out_node, set()).add(edge)',
           'self._in_node_map.get(edge.in_node, set()).remove(edge)',
           'self._reset_invalidated_keys_cache()')

  def __init__(self, ex, fall, cont=None, ret=None):
    self.ex, self.fall, self.cont, self.ret = ex, fall, cont, ret

  def block(self, stmts):
    if not stmts:
      return self.fall
    s, rest = stmts[0], stmts[1:]
    if isinstance(s, ast.Return):
      if rest:
        fail(s, 'code after return')
      if s.value is None:
        return self.fall
      return self.ret(self.ex.e(s.value)) if self.ret else self.ex.e(s.value)
    if isinstance(s, ast.Continue):
      if rest or self.cont is None:
        fail(s, 'continue')
      return self.cont
    if isinstance(s, ast.Assign) and len(s.targets) == 1 and isinstance(s.targets[0], ast.Name):
      v = s.targets[0].id
      rhs = self.rhs(s.value)
      self.ex.env[v] = v
      return '(let %s := %s in %s)' % (v, rhs, self.block(rest))
    if isinstance(s, ast.Expr) and isinstance(s.value, ast.Call):
      if unp(s) in self.VIEWS:
        return self.block(rest)
      var, val = self.effect(s.value)
      return '(let %s := %s in %s)' % (var, val, self.block(rest))
    if isinstance(s, ast.If):
      return self.if_(s, rest)
    if isinstance(s, ast.For):
      return self.for_(s, rest)
    fail(s, 'statement outside the subset')

  def ends(self, stmts):
    return bool(stmts) and isinstance(stmts[-1], (ast.Return, ast.Continue))

  def if_(self, s, rest):
    c = self.ex.cond(s.test)
    saved = dict(self.ex.env)
    if self.ends(s.body) and not s.orelse:
      a = self.block(s.body)
      self.ex.env = dict(saved)
      return '(if %s then %s else %s)' % (c, a, self.block(rest))
    a = self.block(s.body + rest)
    self.ex.env = dict(saved)
    b = self.block(s.orelse + rest)
    self.ex.env = dict(saved)
    return '(if %s then %s else %s)' % (c, a, b)

  def rhs(self, v):
    if isinstance(v, ast.Call) and dotted(v.func) == 'set' and not v.args:
      return '[]'
    if isinstance(v, ast.Call) and dotted(v.func) in ('self._out_node_map.pop', 'self._out_node_map.get') and \
       len(v.args) == 2 and isinstance(v.args[1], ast.Tuple) and not v.args[1].elts and not v.keywords:
      return '(out_edges E %s)' % self.ex.e(v.args[0])
    return self.ex.e(v)

  def effect(self, c):
    """A call statement that changes one threaded variable: (variable, new value)."""
    f, a = dotted(c.func), c.args
    if c.keywords:
      fail(c, 'keyword arguments')
    if f == 'self._all_edges.add' and len(a) == 1:
      return 'E', '(add_edge E %s)' % self.ex.e(a[0])
    if f == 'self._all_edges.remove' and len(a) == 1:
      return 'E', '(edges_remove E %s)' % self.ex.e(a[0])
    if f == 'edge.relation.reset_all' and not a and self.ex.env.get('__edge__') == 'edge':
      return 'R', '(reset_all R (e_rel edge))'
    if f == 'edge.relation.reset_rows' and len(a) == 1 and self.ex.env.get('__edge__') == 'edge':
      return 'R', '(reset_rows R (e_rel edge) %s)' % self.ex.e(a[0])
    if f == 'self.source_relation.reset_rows' and len(a) == 1:
      return 'R', '(source_relation_reset R %s)' % self.ex.e(a[0])
    if f == 'self.reset_rows' and len(a) == 1:
      return 'R', '(self_reset R %s)' % self.ex.e(a[0])
    if f == 'self._row_key_map.insert' and len(a) == 2:
      return 'rk', '((%s, %s) :: rk)' % (self.ex.e(a[0]), self.ex.e(a[1]))
    if f == 'affected_rows.update' and len(a) == 1 and 'affected_rows' in self.ex.env:
      return 'affected_rows', '(affected_rows ++ %s)' % self.ex.e(a[0])
    if f == 'self.clear_dependencies' and len(a) == 1:
      return 'g', '(g_clear g %s)' % self.ex.e(a[0])
    if f == 'self.dep_graph.add_edge' and len(a) == 1 and isinstance(a[0], ast.Starred) and unp(a[0].value) == 'edge':
      return 'E', '(add_edge E edge)'
    if f == 'self._recompute_edge_set.add' and len(a) == 1:
      return 'seen', '(%s :: seen)' % self.ex.e(a[0])
    if f == 'to_invalidate.append' and len(a) == 1:
      return 'to_invalidate', '(%s :: to_invalidate)' % self.ex.e(a[0])
    fail(c, 'call statement outside the idiom table')

  def mods(self, stmts):
    """Threaded variables a loop body changes (in order of first change)."""
    out = []
    module = ast.Module(body=stmts, type_ignores=[])
    local = [t.id for s in ast.walk(module) if isinstance(s, ast.Assign) for t in s.targets if isinstance(t, ast.Name)]
    for s in ast.walk(module):
      if isinstance(s, ast.Expr) and isinstance(s.value, ast.Call) and unp(s) not in self.VIEWS:
        v = self.effect_var(s.value, local)
        if v not in out:
          out.append(v)
    return out

  def effect_var(self, c, local=()):
    saved = dict(self.ex.env)
    for nm in ('edge', 'key', 'affected_rows') + tuple(local):
      self.ex.env.setdefault(nm, nm)
    try:
      return self.effect(c)[0]
    except Untranslatable:
      fail(c, 'call statement outside the idiom table')
    finally:
      self.ex.env = saved

  def for_(self, s, rest):
    if s.orelse or not isinstance(s.target, ast.Name):
      fail(s, 'for loop')
    it = s.iter
    if isinstance(it, ast.Call) and dotted(it.func) == 'self._in_node_map.get' and len(it.args) == 2 and \
       isinstance(it.args[1], ast.Tuple) and not it.args[1].elts:
      seq = '(in_edges (g_edges g) %s)' % self.ex.e(it.args[0])
    elif isinstance(it, ast.Name):
      seq = self.ex.e(it)
    else:
      fail(it, 'loop iterable')
    tv = s.target.id
    saved = dict(self.ex.env)
    self.ex.env[tv] = tv
    if tv == 'edge':
      self.ex.env['__edge__'] = 'edge'
    mods = self.mods(s.body)
    if not mods:
      fail(s, 'loop without effect')
    tup = mods[0] if len(mods) == 1 else "'(%s)" % ', '.join(mods)
    acc = mods[0] if len(mods) == 1 else '(%s)' % ', '.join(mods)
    body = St(self.ex, acc).block(s.body)
    self.ex.env = dict(saved)
    for m in mods:
      self.ex.env[m] = m
    return '(let %s := fold_left (fun %s %s => %s) %s %s in %s)' % (tup, tup, tv, body, seq, acc, self.block(rest))
