"""cb2v: statements.  compile_function(tr, fdef, params, mode, ret) -> the text of one Coq definition.
mode: 'pure' (a term of type ret), 'res' (res ret; calls that may raise are sequenced with bind),
'gen' (a generator function: the list of what it yields; may call itself on ast.iter_child_nodes)."""
import ast

from harness.cb2v import fail, cname, cty, is_res


def assigned(stmts):
  out = []
  def add(x):
    if x not in out:
      out.append(x)
  for s in stmts:
    if isinstance(s, ast.Assign):
      for t in s.targets:
        for e in (t.elts if isinstance(t, ast.Tuple) else [t]):
          if isinstance(e, ast.Name):
            add(e.id)
    elif isinstance(s, ast.Expr) and isinstance(s.value, ast.Call) and isinstance(s.value.func, ast.Attribute) \
         and s.value.func.attr == 'append' and isinstance(s.value.func.value, ast.Name):
      add(s.value.func.value.id)
    elif isinstance(s, (ast.If, ast.For)):
      for x in assigned(s.body + s.orelse):
        add(x)
  return out


def terminates(stmts):
  if not stmts:
    return False
  s = stmts[-1]
  if isinstance(s, ast.Return):
    return True
  return isinstance(s, ast.If) and terminates(s.body) and terminates(s.orelse)


def pat(names):
  return cname(names[0]) if len(names) == 1 else "'(" + ', '.join(cname(v) for v in names) + ')'


class Fn(object):
  def __init__(self, tr, mode, ret):
    self.tr, self.mode, self.ret = tr, mode, ret

  def tup(self, names, env):
    t = env[names[0]][0] if len(names) == 1 else '(' + ', '.join(env[v][0] for v in names) + ')'
    return 'Ok %s' % t if self.mode == 'res' else t

  def bind_vars(self, names, value, env, rest):
    """value: the (possibly monadic) tuple of the new values of `names`."""
    if self.mode == 'res':
      return 'bind (%s) (fun st_ => let %s := st_ in\n%s)' % (value, pat(names), rest(env))
    return 'let %s := (%s) in\n%s' % (pat(names), value, rest(env))

  def seq(self, stmts, env, tail):
    if not stmts:
      if tail is None:
        fail('end of function', 'a path without return')
      return tail(env)
    s, more = stmts[0], stmts[1:]
    rest = lambda e: self.seq(more, e, tail)
    src = ast.unparse(s)
    if src in self.tr.skip or (isinstance(s, ast.Expr) and isinstance(s.value, ast.Constant)):
      return rest(env)
    if isinstance(s, ast.Return):
      c, t = self.tr.expr(s.value, env)
      if self.mode == 'res':
        if is_res(t):
          if t[1] != self.ret:
            fail(s, 'returns %r' % (t,))
          return c
        if t != self.ret:
          fail(s, 'returns %r, declared %r' % (t, self.ret))
        return 'Ok %s' % c
      if t != self.ret:
        fail(s, 'returns %r, declared %r' % (t, self.ret))
      return c
    if isinstance(s, ast.Assign) and len(s.targets) == 1:
      if isinstance(s.value, ast.List) and not s.value.elts and isinstance(s.targets[0], ast.Name) \
         and s.targets[0].id in self.tr.local_types:
        c, t = '[]', self.tr.local_types[s.targets[0].id]        # an empty list: its type is declared in the plan
      else:
        c, t = self.tr.expr(s.value, env)
      tg = s.targets[0]
      monadic = is_res(t)
      if monadic:
        if self.mode != 'res':
          fail(s, 'a call that may raise in a pure function')
        t = t[1]
      if isinstance(tg, ast.Name):
        names, types = [tg.id], [t]
      elif isinstance(tg, ast.Tuple) and isinstance(t, tuple) and t[0] == 'tuple' and len(t) - 1 == len(tg.elts) \
           and all(isinstance(e, ast.Name) for e in tg.elts):
        names, types = [e.id for e in tg.elts], list(t[1:])
      else:
        fail(s, 'assignment target')
      env2 = dict(env, **{v: (cname(v), ty) for v, ty in zip(names, types)})
      if monadic:
        return 'bind (%s) (fun st_ => let %s := st_ in\n%s)' % (c, pat(names), rest(env2))
      return 'let %s := %s in\n%s' % (pat(names), c, rest(env2))
    if isinstance(s, ast.Expr) and isinstance(s.value, ast.Call) and isinstance(s.value.func, ast.Attribute) \
       and s.value.func.attr == 'append' and isinstance(s.value.func.value, ast.Name) and len(s.value.args) == 1:
      v = s.value.func.value.id
      if v not in env:
        fail(s, 'append to an unknown list')
      c, t = self.tr.expr(s.value.args[0], env)
      lt = env[v][1]
      if {'Lpatch': 'patch', 'Ltext': 'text', 'Lnode': 'node'}.get(lt) != t:
        fail(s, 'append of a %r to a %r' % (t, lt))
      return 'let %s := %s ++ [%s] in\n%s' % (cname(v), env[v][0], c, rest(dict(env, **{v: (cname(v), lt)})))
    if isinstance(s, ast.If) and isinstance(s.test, ast.Name) and env.get(s.test.id, (0, 0))[1] == 'Omatch' \
       and not terminates(s.body):
      # `m = regexp.match(...)` / `if m:`: inside the branch m is the match object
      v = s.test.id
      names = [x for x in assigned(s.body + s.orelse) if x in env]      # the others are local to the branch
      if not names:
        fail(s, 'an `if` that changes nothing')
      tail2 = lambda e: self.tup(names, e)
      inner = self.seq(s.body, dict(env, **{v: (cname(v), 'match')}), tail2)
      value = 'match %s with Some %s =>\n%s\n| None =>\n%s\nend' % (env[v][0], cname(v), inner,
                                                                    self.seq(s.orelse, env, tail2))
      return self.bind_vars(names, value, env, rest)
    if isinstance(s, ast.If):
      cond = self.tr.truth(s.test, env)
      if terminates(s.body) and (terminates(s.orelse) or not s.orelse):
        other = self.seq(s.orelse, env, None) if s.orelse else rest(env)
        return 'if %s then\n%s\nelse\n%s' % (cond, self.seq(s.body, env, None), other)
      names = [x for x in assigned(s.body + s.orelse) if x in env]      # the others are local to the branch
      if not names:
        fail(s, 'an `if` that changes nothing')
      tail2 = lambda e: self.tup(names, e)
      value = 'if %s then\n%s\nelse\n%s' % (cond, self.seq(s.body, env, tail2), self.seq(s.orelse, env, tail2))
      return self.bind_vars(names, value, env, rest)
    if isinstance(s, ast.For) and not s.orelse:
      it, tit = self.tr.expr(s.iter, env)
      from harness.cb2v import ELEM
      if tit not in ELEM:
        fail(s, 'iteration over %r' % (tit,))
      if not isinstance(s.target, ast.Name):
        fail(s, 'loop target')
      names = [v for v in assigned(s.body) if v in env]
      if not names:
        fail(s, 'a loop that changes nothing')
      x = s.target.id
      env_in = dict(env, **{x: (cname(x), ELEM[tit])})
      env_in.update({v: (cname(v), env[v][1]) for v in names})
      body = self.seq(s.body, env_in, lambda e: self.tup(names, e))
      init = '(' + ', '.join(env[v][0] for v in names) + ')' if len(names) > 1 else env[names[0]][0]
      fold = 'fold_res' if self.mode == 'res' else 'fold_left'
      value = '%s (fun st_ %s => let %s := st_ in\n%s) %s %s' % (fold, cname(x), pat(names), body, it, init)
      env_out = dict(env, **{v: (cname(v), env[v][1]) for v in names})
      return self.bind_vars(names, value, env_out, rest)
    fail(s, 'statement')

  # generator functions
  def gen(self, stmts, env):
    parts = []
    for s in stmts:
      if isinstance(s, ast.Expr) and isinstance(s.value, ast.Constant):
        continue
      if isinstance(s, ast.Expr) and isinstance(s.value, ast.Yield) and s.value.value is not None:
        c, t = self.tr.expr(s.value.value, env)
        if t != self.ret:
          fail(s, 'yields a %r' % (t,))
        parts.append('[%s]' % c)
      elif isinstance(s, ast.If):
        parts.append('(if %s then %s else %s)' % (self.tr.truth(s.test, env), self.gen(s.body, env),
                                                  self.gen(s.orelse, env) if s.orelse else '[]'))
      elif isinstance(s, ast.For) and not s.orelse and isinstance(s.target, ast.Name) and len(s.body) == 1 \
           and isinstance(s.body[0], ast.Expr) and isinstance(s.body[0].value, ast.YieldFrom):
        it, tit = self.tr.expr(s.iter, env)
        if tit != 'Lnode':
          fail(s, 'iteration over %r' % (tit,))
        x = s.target.id
        c, t = self.tr.expr(s.body[0].value.value, dict(env, **{x: (cname(x), 'node')}))
        if t != {'node': 'Lnode'}.get(self.ret):
          fail(s, 'yield from a %r' % (t,))
        parts.append('(flat_map (fun %s => %s) %s)' % (cname(x), c, it))
      else:
        fail(s, 'statement of a generator')
    return '(' + ' ++ '.join(parts) + ')' if parts else '[]'


def compile_function(tr, coqname, fdef, params, mode, ret, stmts=None, recursive=False, globals_=None):
  """params: [(python name, type)]; type '_' = not translated (oracle objects such as atok)."""
  env = dict(globals_ or {})
  env.update({p: (cname(p), t) for p, t in params if t != '_'})
  fn = Fn(tr, mode, ret)
  body_stmts = fdef.body if stmts is None else stmts
  if mode == 'gen':
    body = fn.gen(body_stmts, env)
    rty = '(list %s)' % cty(ret)
  else:
    body = fn.seq(body_stmts, env, None)
    rty = cty(('res', ret)) if mode == 'res' else cty(ret)
  binders = ' '.join('(%s : %s)' % (cname(p), cty(t)) for p, t in params if t != '_')
  kw = 'Fixpoint' if recursive else 'Definition'
  struct = ' {struct %s}' % cname(recursive) if recursive else ''
  return '%s %s %s%s : %s :=\n%s.\n' % (kw, coqname, binders, struct, rty, body)
