"""
sch2v -- fail-closed translator for functions/schedule.py (C35): Python AST -> Gallina over Lib/PySched.v.

Three kinds of function bodies:
  'pure'  assignments / if / return over pure expressions                  -> a term
  'exc'   + raise ValueError(...), raising primitives, for/break/else      -> exc R   (exception monad)
  'gen'   generators: for over a list, `while True` (last statement, with fuel), yield / continue / return
                                                                            -> result T (what was yielded)
Everything that is not listed in the binding (harness/sch2v_bind.py) or below raises Untranslatable.
Expressions are typed (types are plain strings, see sch2v_bind.TYPES); a primitive marked `raises` is bound
with `bind` before the statement it occurs in and is only accepted where Python evaluates it unconditionally.
Control flow is translated in continuation style: the rest of the block is duplicated into both branches of
an `if`.  Loop-carried variables are those assigned in a loop body that are bound before the loop.
"""
import ast


class Untranslatable(Exception):
  pass


def fail(node, msg):
  raise Untranslatable('%s (line %s: %s)' % (msg, getattr(node, 'lineno', '?'),
                                             ast.dump(node)[:140] if isinstance(node, ast.AST) else node))


def strlit(s):
  return '[' + '; '.join('%d%%Z' % ord(c) for c in s) + ']'


def dotted(n):
  if isinstance(n, ast.Name):
    return n.id
  if isinstance(n, ast.Attribute):
    d = dotted(n.value)
    return d + '.' + n.attr if d else None
  return None


def assigned(stmts):
  """Names (and 'self') assigned anywhere in the statements."""
  out = []
  for s in stmts:
    for n in ast.walk(s):
      tgt = []
      if isinstance(n, ast.Assign):
        tgt = n.targets
      elif isinstance(n, ast.AugAssign):
        tgt = [n.target]
      elif isinstance(n, ast.Expr) and isinstance(n.value, ast.Call) and isinstance(n.value.func, ast.Attribute) \
          and isinstance(n.value.func.value, ast.Name):
        tgt = [n.value.func.value]          # x.method(...) as a statement may rebind x (mutators)
      for t in tgt:
        for m in ast.walk(t):
          if isinstance(m, ast.Name) and m.id not in out:
            out.append(m.id)
  return out


class Tr(object):
  def __init__(self, binding):
    self.b = binding
    self.n = 0
    self.binds = None

  def fresh(self, base='r'):
    self.n += 1
    return '%s_%d' % (base, self.n)

  # ------------------------------------------------------------------ expressions
  def truthy(self, node, term, ty):
    t = self.b['truthy'].get(ty)
    if ty.startswith('list '):
      t = '(nonempty {})'
    if ty.startswith('option ') and t is None:
      t = '(is_some {})'
    if t is None:
      fail(node, 'truth value of a %s' % ty)
    return t.format(term)

  def pure(self, n, env, want=None):
    saved, self.binds = self.binds, None
    try:
      return self.expr(n, env, want)
    finally:
      self.binds = saved

  def raising(self, node, term, ty):
    if self.binds is None:
      fail(node, 'an expression that may raise is used where Python evaluates it conditionally')
    v = self.fresh()
    self.binds.append((v, term))
    return v, ty

  def prim(self, node, p, terms):
    tmpl, argtys, rty, raises = p
    term = '(' + tmpl.format(*terms) + ')'
    return self.raising(node, term, rty) if raises else (term, rty)

  def args(self, node, p, args, env, recv=None):
    if len(args) != len(p[1]):
      fail(node, 'arity')
    return ([recv] if recv is not None else []) + [self.expr(a, env, t)[0] for a, t in zip(args, p[1])]

  def expr(self, n, env, want=None):
    term, ty = self.expr_(n, env, want)
    if want is not None and ty != want:
      c = self.b['coerce'].get((ty, want))
      if c is None:
        fail(n, 'type %s where %s is expected' % (ty, want))
      return c.format(term), want
    return term, ty

  def expr_(self, n, env, want):
    b = self.b
    if isinstance(n, ast.Name):
      if n.id in env:
        return env[n.id]
      if n.id in b['consts']:
        return b['consts'][n.id]
      fail(n, 'unbound name %s' % n.id)
    if isinstance(n, ast.Constant):
      v = n.value
      if isinstance(v, bool):
        return ('true' if v else 'false'), 'bool'
      if isinstance(v, int):
        return '(%d)%%Z' % v, 'Z'
      if isinstance(v, str):
        return strlit(v), 'str'
      fail(n, 'constant')
    if isinstance(n, (ast.Tuple, ast.List)):
      if want is not None and want.startswith('list ') or isinstance(n, ast.List):
        et = want[5:] if want and want.startswith('list ') else None
        parts = [self.expr(e, env, et) for e in n.elts]
        if not parts and et is None:
          fail(n, 'empty list of unknown type')
        et = et or parts[0][1]
        if any(p[1] != et for p in parts):
          fail(n, 'mixed list')
        return '[' + '; '.join(p[0] for p in parts) + ']', 'list ' + et
      parts = [self.expr(e, env) for e in n.elts]
      if len(parts) != 2:
        fail(n, 'only pairs')
      return '(%s, %s)' % (parts[0][0], parts[1][0]), 'prod %s|%s' % (parts[0][1], parts[1][1])
    if isinstance(n, ast.Attribute):
      if dotted(n) in env:                       # self.f inside __init__
        return env[dotted(n)]
      recv, rty = self.expr(n.value, env)
      f = b['fields'].get((rty, n.attr))
      if f is None:
        fail(n, 'field %s of %s' % (n.attr, rty))
      return '(%s %s)' % (f[0], recv), f[1]
    if isinstance(n, ast.BinOp):
      l, lt = self.expr(n.left, env)
      r, rt = self.expr(n.right, env)
      p = b['binops'].get((type(n.op).__name__, lt, rt))
      if p is None:
        fail(n, 'operator %s on %s, %s' % (type(n.op).__name__, lt, rt))
      return '(' + p[0].format(l, r) + ')', p[1]
    if isinstance(n, ast.UnaryOp) and isinstance(n.op, ast.Not):
      t, ty = self.expr(n.operand, env)
      return '(negb %s)' % self.truthy(n, t, ty), 'bool'
    if isinstance(n, ast.Compare):
      return self.compare(n, env)
    if isinstance(n, ast.BoolOp):
      return self.boolop(n, env)
    if isinstance(n, ast.IfExp):
      c, cty = self.expr(n.test, env)
      a, aty = self.pure(n.body, env, want)
      o, _ = self.pure(n.orelse, env, aty)
      return '(if %s then %s else %s)' % (self.truthy(n, c, cty), a, o), aty
    if isinstance(n, ast.Subscript):
      recv, rty = self.expr(n.value, env)
      key, kty = self.expr(n.slice, env)
      if rty.startswith('dict ') and kty in ('str', 'ostr'):        # D[k]: KeyError when missing
        return self.raising(n, '(%s %s %s)' % ('assoc_find' if kty == 'str' else 'assoc_find_o', recv, key), rty[5:])
      fail(n, 'subscript of %s by %s' % (rty, kty))
    if isinstance(n, ast.Call):
      return self.call(n, env, want)
    fail(n, 'expression')

  def compare(self, n, env):
    if len(n.ops) != 1:
      fail(n, 'chained comparison')
    op = type(n.ops[0]).__name__
    right = n.comparators[0]
    if op in ('Is', 'IsNot'):
      if not (isinstance(right, ast.Constant) and right.value is None):
        fail(n, 'is')
      l, lt = self.expr(n.left, env)
      if not lt.startswith('option '):
        fail(n, 'is None on %s' % lt)
      return ('(negb (is_some %s))' if op == 'Is' else '(is_some %s)') % l, 'bool'
    l, lt = self.expr(n.left, env)
    r, rt = self.expr(right, env)
    p = self.b['compares'].get((op, lt, rt))
    if p is None and op in ('In', 'NotIn'):
      m = None
      if rt.startswith('dict ') and lt == 'str':
        m = 'assoc_mem {1} {0}'
      elif rt.startswith('dict ') and lt == 'ostr':
        m = 'ostr_mem_dict {1} {0}'
      elif rt in ('list str', 'set str') and lt == 'str':
        m = 'str_mem {0} {1}'
      if m is not None:
        p = m if op == 'In' else 'negb (' + m + ')'
    if p is None:
      fail(n, 'comparison %s on %s, %s' % (op, lt, rt))
    return '(' + p.format(l, r) + ')', 'bool'

  def boolop(self, n, env):
    op = type(n.op).__name__
    # `x is not None and <test using x>` on an option: x is its content in the test
    if op == 'And' and len(n.values) == 2 and isinstance(n.values[0], ast.Compare) \
        and isinstance(n.values[0].ops[0], ast.IsNot) and isinstance(n.values[0].left, ast.Name) \
        and isinstance(n.values[0].comparators[0], ast.Constant) and n.values[0].comparators[0].value is None:
      x = n.values[0].left.id
      t, ty = self.expr(n.values[0].left, env)
      if not ty.startswith('option '):
        fail(n, 'is not None on %s' % ty)
      v = self.fresh(x)
      env2 = dict(env)
      env2[x] = (v, ty[7:])
      body, bty = self.pure(n.values[1], env2)
      return '(match %s with Some %s => %s | None => false end)' % (t, v, self.truthy(n, body, bty)), 'bool'
    if op == 'And' and len(n.values) == 2 and isinstance(n.values[0], ast.Name):
      x = n.values[0].id
      t, ty = self.expr(n.values[0], env)
      if ty.startswith('option ') and ty[7:] in self.b['always_truthy']:
        # `x and f(x)`: None stays None; a value of an always-true type goes to f(x)
        v = self.fresh(x)
        env2 = dict(env)
        env2[x] = (v, ty[7:])
        body, bty = self.pure(n.values[1], env2, ty[7:])
        return '(match %s with Some %s => Some %s | None => None end)' % (t, v, body), ty
    first, fty = self.expr(n.values[0], env)
    rest = [self.pure(v, env, fty[7:] if fty.startswith('option list ') else None) for v in n.values[1:]]
    if len(rest) != 1:
      fail(n, 'boolean operator with more than two operands')
    p = self.b['boolops'].get((op, fty, rest[0][1]))
    if p is None:
      fail(n, '%s on %s, %s' % (op, fty, rest[0][1]))
    return '(' + p[0].format(first, rest[0][0]) + ')', p[1]

  def call(self, n, env, want):
    b = self.b
    f = n.func
    name = dotted(f)
    # timedelta(**{unit: number})
    if name == 'timedelta' and not n.args and len(n.keywords) == 1 and n.keywords[0].arg is None \
        and isinstance(n.keywords[0].value, ast.Dict) and len(n.keywords[0].value.keys) == 1:
      d = n.keywords[0].value
      return self.prim(n, b['calls']['timedelta**'], [self.expr(d.keys[0], env, 'str')[0],
                                                      self.expr(d.values[0], env, 'Z')[0]])
    # int(g or 0)
    if name == 'int' and len(n.args) == 1 and isinstance(n.args[0], ast.BoolOp) and isinstance(n.args[0].op, ast.Or) \
        and len(n.args[0].values) == 2 and isinstance(n.args[0].values[1], ast.Constant) \
        and isinstance(n.args[0].values[1].value, int):
      g, gty = self.expr(n.args[0].values[0], env)
      if gty != 'ostr':
        fail(n, 'int(x or k) on %s' % gty)
      return self.prim(n, b['calls']['int_or'], [g, '(%d)%%Z' % n.args[0].values[1].value])
    if name == 'timedelta' and len(n.args) == 1 and not n.keywords and isinstance(n.args[0], ast.Constant) \
        and n.args[0].value == 0 and n.args[0].value is not False:
      return self.prim(n, b['calls']['timedelta(0)'], [])
    if name == 'int' and len(n.args) == 1 and not n.keywords:
      a, aty = self.expr(n.args[0], env)
      if aty not in ('str', 'ostr'):
        fail(n, 'int of %s' % aty)
      return self.prim(n, b['calls']['int:' + aty], [a])
    if isinstance(f, ast.Attribute) and f.attr == 'group' and len(n.args) == 1 and not n.keywords \
        and isinstance(n.args[0], ast.Constant) and isinstance(n.args[0].value, str):
      recv, rty = self.expr(f.value, env)
      g = b['groups'].get((rty, n.args[0].value))
      if g is not None:
        return '(' + g[0].format(recv) + ')', g[1]
    # D[k](m): a dict of functions
    if isinstance(f, ast.Subscript) and isinstance(f.value, ast.Name) and f.value.id in b['dispatch']:
      p = b['dispatch'][f.value.id]
      key = self.expr(f.slice, env, 'str')[0]
      return self.prim(n, p, [key] + self.args(n, (None, p[1][1:]), n.args, env))
    kws = tuple(k.arg for k in n.keywords)
    if name is not None and name.split('.')[0] not in env:
      key = name if not kws else name + '(' + ','.join(kws) + ')'
      p = b['calls'].get(key)
      if p is None:
        fail(n, 'call of %s' % key)
      return self.prim(n, p, self.args(n, p, list(n.args) + [k.value for k in n.keywords], env))
    if isinstance(f, ast.Attribute):
      recv, rty = self.expr(f.value, env)
      p = b['methods'].get((rty, f.attr, len(n.args)))
      if p is None or kws:
        fail(n, 'method %s of %s' % (f.attr, rty))
      return self.prim(n, p, self.args(n, p, n.args, env, recv))
    fail(n, 'call')
