"""Records the outcome of `./seedtest Cxx seeded/<dir>` (log given) in seeded/<dir>/meta.json ('confirmed' block).
usage: python -m harness.recordseed <seeded dir name> <seedtest log> [note]"""
import json
import re
import sys

name, log = sys.argv[1], sys.argv[2]
note = sys.argv[3] if len(sys.argv) > 3 else None
txt = open(log, errors='replace').read()
sec = re.split(r'^== ', txt, flags=re.M)
d = {}
for s in sec:
  head = s.split('\n', 1)[0]
  d[head] = s
def exit_of(s):
  m = re.search(r'^exit (\d+)', s or '', re.M)
  return int(m.group(1)) if m else None
patched = d.get('check on patched tree', '')
viol = re.findall(r'^VIOLATION .*', patched, re.M)
broken = re.findall(r'BROKEN (\S+)', patched)
m = re.search(r'check exit (\d+)', patched)
check_exit = int(m.group(1)) if m else None
restored = d.get('restoring: check on /repo', '')
import os
_rl = '/tmp/fin_restore_%s.log' % name[:3]
if not restored and os.path.exists(_rl):
  restored = open(_rl, errors='replace').read()
p = '/verif/seeded/%s/meta.json' % name
meta = json.load(open(p))
old = meta.get('confirmed', {})
pinned = re.search(r'\d+ failed, \d+ passed.*', d.get('pinned tests on patched tree', ''))
conf = {
  'demo_unchanged_exit': exit_of(d.get('demo on unchanged tree')),
  'demo_patched_exit': exit_of(d.get('demo on patched tree')),
  'pinned_tests_patched': pinned.group(0) if pinned else old.get('pinned_tests_patched'),
  'check_exit_patched': check_exit,
  'violation_lines': len(viol),
  'no_failing_input_found': sum(1 for v in viol if v.rstrip().endswith('no-failing-input-found')),
  'broken': sorted(set(broken)),
  'check_on_repo_after': 'exit=0' if 'exit=0' in restored and '\nVIOLATION' not in restored else restored.strip()[-200:],
  'status': 'caught' if check_exit == 1 and viol else 'missed',
  'ran': './seedtest %s /verif/seeded/%s --tests' % (name[:3], name),
}
ost = old.get('status') or ''
if not ost and 'exit 1' in str(old.get('check', '')):
  ost = 'caught'
# how the check as it stood when the seeded change arrived did: kept across re-runs
at_first = old.get('at_first') or ('tie-only' if 'without failing input' in ost else
                                   'missed' if ('missed' in ost or 'after strengthening' in ost) else ('caught' if ost else None))
if at_first is None:
  at_first = 'caught' if conf['status'] == 'caught' else 'missed'
conf['at_first'] = at_first
if at_first == 'tie-only' and conf['status'] == 'caught':
  conf['status'] = 'reported without failing input at first, concrete input after strengthening'
  conf['first_result'] = old.get('first_result') or old.get('check')
if at_first == 'missed' and conf['status'] == 'caught':
  conf['status'] = 'missed at first, caught after strengthening'
  conf['first_result'] = old.get('first_result') or old.get('check')
for k in ('strengthening', 'first_result', 'check'):
  if k in old and k not in conf:
    conf[k] = old[k]
if note:
  conf['note'] = note
meta['confirmed'] = conf
json.dump(meta, open(p, 'w'), indent=1)
print(name, conf['status'], 'violations=%d' % len(viol), 'broken=%s' % conf['broken'], 'demo %s/%s' % (conf['demo_unchanged_exit'], conf['demo_patched_exit']), conf['pinned_tests_patched'])
