"""Fail-closed translation of the deciding code of the rollback (C04, C29) into coq/gen/Rollback_gen.v.

Translated from /repo on every run (anything outside the subset raises core.TieBroken):
  * Engine._get_undo_checkpoint / Engine._undo_to_checkpoint  -> functions over the five lists of out_actions
  * docactions.[Bulk]AddRecord / [Bulk]UpdateRecord / BulkRemoveRecord / ReplaceTableData -> the ORDER of their effects
    (assert / resolve column / append undo / tell the summary / mutate cells)
  * Engine.apply_user_actions -> the try / except skeleton (checkpoint, per-action reset of _schema_updated, and the
    except branch: which calls, in which order, under which guard)
  * ActionGroup.flush_calc_changes and ActionSummary._changes_to_actions' undo half -> where each undo action goes
    (appended / inserted at index 0, which names, which row filter)
Pinned by (alpha-normalised, docstring-free) AST hash: the rest of those functions and Engine.apply_doc_action.
Proofs/Rollback_bridge.v bridges every generated definition to Model/Rollback.v.
"""
import ast
import hashlib
import os

from harness import core


class Untranslatable(Exception):
  pass


def fail(node, msg):
  raise Untranslatable('%s (line %s: %s)' % (msg, getattr(node, 'lineno', '?'),
                                             ast.unparse(node)[:120] if node is not None else ''))


def parse(fname):
  with open(os.path.join(core.GRIST, fname)) as f:
    return ast.parse(f.read())


def find_method(tree, cls, name):
  for n in tree.body:
    if isinstance(n, ast.ClassDef) and n.name == cls:
      for m in n.body:
        if isinstance(m, ast.FunctionDef) and m.name == name:
          return m
  raise Untranslatable('%s.%s not found' % (cls, name))


def body_of(fn):
  """Statements without the docstring."""
  b = list(fn.body)
  if b and isinstance(b[0], ast.Expr) and isinstance(b[0].value, ast.Constant) and isinstance(b[0].value.value, str):
    b = b[1:]
  return b


# ---------------------------------------------------------------------------------------------------------------
# pins: AST equality up to comments, docstrings, formatting and the names of local variables

class _Alpha(ast.NodeTransformer):
  def __init__(self, fn):
    self.map = {}
    for a in fn.args.args:
      if a.arg != 'self':
        self.map.setdefault(a.arg, 'v%d' % len(self.map))
    for n in ast.walk(fn):
      if isinstance(n, ast.Name) and isinstance(n.ctx, ast.Store):
        self.map.setdefault(n.id, 'v%d' % len(self.map))
      if isinstance(n, ast.ExceptHandler) and n.name:
        self.map.setdefault(n.name, 'v%d' % len(self.map))

  def visit_Name(self, n):
    return ast.copy_location(ast.Name(id=self.map.get(n.id, n.id), ctx=n.ctx), n)

  def visit_arg(self, n):
    n.arg = self.map.get(n.arg, n.arg)
    return n

  def visit_ExceptHandler(self, n):
    self.generic_visit(n)
    if n.name:
      n.name = self.map.get(n.name, n.name)
    return n


def norm_hash(fn):
  import copy
  f = copy.deepcopy(fn)
  f.body = body_of(f) or [ast.Pass()]
  f = _Alpha(f).visit(f)
  return hashlib.sha256(ast.dump(f, annotate_fields=False, include_attributes=False).encode()).hexdigest()[:16]


# (file, class, method) -> hash of the text the model was written from (HEAD 811c657)
PINS = {}


def check_pins(trees):
  out = {}
  for (fname, cls, name), want in sorted(PINS.items()):
    got = norm_hash(find_method(trees[fname], cls, name))
    out['%s:%s.%s' % (fname, cls, name)] = got
    if want is not None and got != want:
      raise Untranslatable('%s: %s.%s changed (AST %s, the model was written from %s): re-read it and update '
                           'Model/Rollback.v and harness/rb2v.py' % (fname, cls, name, got, want))
  return out


# ---------------------------------------------------------------------------------------------------------------
# 1. the checkpoint functions

FIELDS = {'calc': 'oa_calc', 'stored': 'oa_stored', 'direct': 'oa_direct', 'undo': 'oa_undo', 'retValues': 'oa_ret'}


def _is_out_actions(node, alias=None):
  """self.out_actions, or the local alias bound to it."""
  if alias and isinstance(node, ast.Name) and node.id == alias:
    return True
  return isinstance(node, ast.Attribute) and node.attr == 'out_actions' and \
    isinstance(node.value, ast.Name) and node.value.id == 'self'


def _field(node, alias=None):
  if isinstance(node, ast.Attribute) and node.attr in FIELDS and _is_out_actions(node.value, alias):
    return FIELDS[node.attr]
  return None


def tr_get_checkpoint(fn):
  b = body_of(fn)
  if len(b) != 2 or not isinstance(b[0], ast.Assign) or not _is_out_actions(b[0].value) or \
     not isinstance(b[0].targets[0], ast.Name) or not isinstance(b[1], ast.Return):
    fail(fn, '_get_undo_checkpoint is no longer "alias = self.out_actions; return (lengths...)"')
  alias = b[0].targets[0].id
  tup = b[1].value
  if not isinstance(tup, ast.Tuple):
    fail(tup, 'checkpoint is not a tuple')
  items = []
  for e in tup.elts:
    if not (isinstance(e, ast.Call) and isinstance(e.func, ast.Name) and e.func.id == 'len' and len(e.args) == 1):
      fail(e, 'checkpoint component is not len(<out_actions list>)')
    f = _field(e.args[0], alias)
    if f is None:
      fail(e, 'checkpoint component is not a list of out_actions')
    items.append('length (%s o)' % f)
  return ('Definition gen_get_undo_checkpoint {A : Type} (o : oacts A) : list nat :=\n  [%s].' % '; '.join(items),
          len(items))


def tr_undo_to_checkpoint(fn):
  b = body_of(fn)
  if len(b) != 2 or not isinstance(b[0], ast.Assign) or not isinstance(b[1], ast.If) or b[1].orelse:
    fail(fn, '_undo_to_checkpoint is no longer "new = self._get_undo_checkpoint(); if new != checkpoint: ..."')
  param = fn.args.args[1].arg
  newv = b[0].targets[0].id
  call = b[0].value
  if not (isinstance(call, ast.Call) and ast.unparse(call.func) == 'self._get_undo_checkpoint' and not call.args):
    fail(call, 'the new checkpoint is not self._get_undo_checkpoint()')
  t = b[1].test
  if not (isinstance(t, ast.Compare) and len(t.ops) == 1 and isinstance(t.ops[0], ast.NotEq) and
          {ast.unparse(t.left), ast.unparse(t.comparators[0])} == {newv, param}):
    fail(t, 'the guard is not new_checkpoint != checkpoint')
  env = {}          # local name -> Coq nat expression
  applied = None
  sliced = {}       # local list name -> Coq list expression
  dels = []         # (field, nat expr) in source order
  for s in b[1].body:
    if isinstance(s, ast.Assign) and isinstance(s.targets[0], ast.Tuple) and ast.unparse(s.value) == param:
      for i, e in enumerate(s.targets[0].elts):
        if not isinstance(e, ast.Name):
          fail(s, 'tuple pattern')
        env[e.id] = 'nth %d checkpoint 0%%nat' % i
      arity = len(s.targets[0].elts)
    elif isinstance(s, ast.Assign) and isinstance(s.targets[0], ast.Name) and isinstance(s.value, ast.Subscript):
      sl = s.value.slice
      f = _field(s.value.value)
      if f is None or not isinstance(sl, ast.Slice) or sl.upper is not None or sl.step is not None or \
         not isinstance(sl.lower, ast.Name) or sl.lower.id not in env:
        fail(s, 'not <out_actions list>[<checkpoint component>:]')
      sliced[s.targets[0].id] = 'skipn (%s) (%s o)' % (env[sl.lower.id], f)
    elif isinstance(s, ast.Expr) and isinstance(s.value, ast.Call) and ast.unparse(s.value.func).startswith('log.'):
      continue
    elif isinstance(s, ast.Expr) and isinstance(s.value, ast.Call) and \
         ast.unparse(s.value.func) == 'self.user_actions.ApplyUndoActions':
      a = s.value.args
      if len(a) != 1 or not isinstance(a[0], ast.ListComp) or len(a[0].generators) != 1 or a[0].generators[0].ifs:
        fail(s, 'ApplyUndoActions argument')
      g = a[0].generators[0]
      if ast.unparse(a[0].elt) != 'actions.get_action_repr(%s)' % ast.unparse(g.target) or \
         not isinstance(g.iter, ast.Name) or g.iter.id not in sliced or applied is not None:
        fail(s, 'ApplyUndoActions is not applied to the reprs of the sliced undo actions, once')
      applied = sliced[g.iter.id]
    elif isinstance(s, ast.Delete) and len(s.targets) == 1 and isinstance(s.targets[0], ast.Subscript):
      sub = s.targets[0]
      f = _field(sub.value)
      sl = sub.slice
      if f is None or not isinstance(sl, ast.Slice) or sl.upper is not None or sl.step is not None or \
         not isinstance(sl.lower, ast.Name) or sl.lower.id not in env or applied is None:
        fail(s, 'not "del <out_actions list>[<checkpoint component>:]" after the undo')
      dels.append((f, env[sl.lower.id]))
    else:
      fail(s, 'statement outside the translated subset')
  if applied is None:
    fail(fn, 'no ApplyUndoActions')
  fields = ['oa_calc', 'oa_stored', 'oa_direct', 'oa_undo', 'oa_ret']
  expr = {f: '%s o' % f for f in fields}
  for f, n in dels:
    expr[f] = 'firstn (%s) (%s)' % (n, expr[f])
  rec = '@Build_oacts A %s' % ' '.join('(%s)' % expr[f] for f in fields)
  return ('Definition gen_undo_to_checkpoint {A : Type} (checkpoint : list nat) (o : oacts A) : option (list A) * oacts A :=\n'
          '  if list_nat_eqb (gen_get_undo_checkpoint o) checkpoint then (None, o)\n'
          '  else (Some (%s),\n        %s).' % (applied, rec), arity)


# ---------------------------------------------------------------------------------------------------------------
# 2. the order of the effects of the record doc actions

IGNORED_CALLS = ('self._engine.invalidate_records', 'self._engine.prevent_recalc', 'self._engine.trigger_columns_changed',
                 'self._engine.fetch_table')


def _classify_call(c):
  f = ast.unparse(c.func)
  if f == 'self._engine.out_actions.undo.append':
    return 'OUndo'
  if f.startswith('self._engine.out_actions.summary.'):
    return 'OSum'
  if f in ('self._engine.add_records', 'self._engine.load_table') or f.endswith('.set') or f.endswith('.unset'):
    return 'OMut'
  if f.endswith('.get_column'):
    return 'OResolve'
  return None


def _effects(stmts, out):
  for s in stmts:
    if isinstance(s, ast.Assert):
      out.append('OAssert')
    elif isinstance(s, (ast.For, ast.If, ast.With)):
      # calls in the loop header / condition first, then the body, in source order
      hdr = s.iter if isinstance(s, ast.For) else (s.test if isinstance(s, ast.If) else None)
      if hdr is not None:
        _calls(hdr, out)
      _effects(s.body, out)
      _effects(getattr(s, 'orelse', []), out)
    elif isinstance(s, (ast.Assign, ast.Expr, ast.AugAssign)):
      _calls(s.value, out)
    elif isinstance(s, ast.Return):
      if s.value is not None:
        _calls(s.value, out)
    else:
      fail(s, 'statement form not expected in a record doc action')


def _calls(expr, out):
  for n in ast.walk(expr):
    if isinstance(n, ast.Call):
      k = _classify_call(n)
      if k is not None:
        out.append(k)


def dedup(l):
  out = []
  for x in l:
    if not out or out[-1] != x:
      out.append(x)
  return out


def tr_order(fn):
  eff = []
  _effects(body_of(fn), eff)
  # every call on the engine / columns must be classified or explicitly known to be irrelevant to the rollback
  for n in ast.walk(fn):
    if isinstance(n, ast.Call):
      f = ast.unparse(n.func)
      if (f.startswith('self._engine.') or f.startswith('self.')) and _classify_call(n) is None and \
         f not in IGNORED_CALLS and not f.startswith('self.Bulk'):
        fail(n, 'unknown effect in a record doc action')
  return dedup(eff)


def tr_delegates(fn, target):
  b = body_of(fn)
  if len(b) != 1 or not isinstance(b[0], (ast.Expr, ast.Return)) or not isinstance(b[0].value, ast.Call) or \
     ast.unparse(b[0].value.func) != 'self.' + target:
    fail(fn, '%s no longer just calls %s' % (fn.name, target))


# ---------------------------------------------------------------------------------------------------------------
# 3. the skeleton of apply_user_actions

def _guarded_calls(stmts, guard, out):
  for s in stmts:
    if isinstance(s, ast.Try):
      _guarded_calls(s.body, guard + ['try'], out)
      for h in s.handlers:
        for n in ast.walk(h):
          if isinstance(n, ast.Call) and ast.unparse(n.func).startswith('self.'):
            fail(n, 'an exception handler inside the except branch calls the engine')
      if s.orelse or s.finalbody:
        fail(s, 'try with else/finally inside the except branch')
    elif isinstance(s, ast.If):
      t = ast.unparse(s.test)
      if t != 'self._schema_updated' or s.orelse:
        fail(s, 'unexpected condition in the except branch')
      _guarded_calls(s.body, guard + ['schema'], out)
    elif isinstance(s, ast.Raise):
      if s.exc is not None:
        fail(s, 'the except branch no longer re-raises the original exception')
      out.append(('GAlways' if not guard else 'G' + ''.join(g.capitalize() for g in guard), 'CReraise'))
    elif isinstance(s, (ast.Expr, ast.Assign)):
      for n in ast.walk(s.value):
        if isinstance(n, ast.Call):
          f = ast.unparse(n.func)
          if f.startswith('self.'):
            name = {'self.out_actions.flush_calc_changes': 'CFlush', 'self._undo_to_checkpoint': 'CUndoToCheckpoint',
                    'self.assert_schema_consistent': 'CAssertSchema'}.get(f)
            if name is None:
              fail(n, 'unknown engine call in the except branch')
            if name == 'CUndoToCheckpoint' and [ast.unparse(a) for a in n.args] != ['checkpoint']:
              fail(n, '_undo_to_checkpoint is not given the checkpoint taken before the loop')
            out.append(('GAlways' if not guard else 'G' + ''.join(g.capitalize() for g in guard), name))
          elif not (f.startswith('log.') or f.startswith('sys.') or f.startswith('traceback.')):
            fail(n, 'unknown call in the except branch')
    else:
      fail(s, 'statement form not expected in the except branch')


def tr_apply_skeleton(fn):
  b = body_of(fn)
  tries = [i for i, s in enumerate(b) if isinstance(s, ast.Try)]
  if len(tries) != 1:
    fail(fn, 'apply_user_actions does not have exactly one top-level try')
  i = tries[0]
  t = b[i]
  pre = b[i - 1]
  if not (isinstance(pre, ast.Assign) and ast.unparse(pre) == 'checkpoint = self._get_undo_checkpoint()'):
    fail(pre, 'the checkpoint is not taken right before the try')
  if len(t.body) != 1 or not isinstance(t.body[0], ast.For) or ast.unparse(t.body[0].iter) != 'user_actions':
    fail(t, 'the try body is not the loop over user_actions')
  loop = t.body[0].body
  if ast.unparse(loop[0]) != 'self._schema_updated = False':
    fail(loop[0], 'the loop does not start by resetting _schema_updated')
  texts = [ast.unparse(s) for s in loop]
  want_in_loop = ['self.out_actions.retValues.append(self._apply_one_user_action(user_action))',
                  'if self._schema_updated:\n    self.assert_schema_consistent()']
  pos = [texts.index(w) if w in texts else -1 for w in want_in_loop]
  if -1 in pos or pos != sorted(pos):
    fail(t.body[0], 'the loop no longer applies the action and then checks the schema')
  if len(t.handlers) != 1 or ast.unparse(t.handlers[0].type) != 'Exception' or t.orelse or t.finalbody:
    fail(t, 'handlers of the try')
  out = []
  _guarded_calls(t.handlers[0].body, [], out)
  # nothing of the recalculation phase may be inside the try
  after = [ast.unparse(s) for s in b[i + 1:]]
  if not any('_bring_all_up_to_date' in a for a in after):
    fail(fn, 'recalculation is no longer after the try')
  return out


# ---------------------------------------------------------------------------------------------------------------
# 4. where the flushed undo actions go

def tr_flush(fn):
  texts = [ast.unparse(s) for s in body_of(fn)]
  want = 'self.summary.convert_deltas_to_actions(self.stored, self.undo)'
  if want not in texts:
    fail(fn, 'flush_calc_changes no longer converts the summary into (self.stored, self.undo)')
  return 'FlushIntoStoredAndUndo'


def tr_undo_half(fn):
  """The statements of _changes_to_actions that touch out_undo: (position, rows, names)."""
  out = []
  for n in ast.walk(fn):
    if isinstance(n, ast.Call) and isinstance(n.func, ast.Attribute) and isinstance(n.func.value, ast.Name) and \
       n.func.value.id == 'out_undo':
      if n.func.attr == 'append' and len(n.args) == 1:
        pos, arg = 'PAppend', n.args[0]
      elif n.func.attr == 'insert' and len(n.args) == 2 and ast.unparse(n.args[0]) == '0':
        pos, arg = 'PFront', n.args[1]
      else:
        fail(n, 'out_undo is used in an unknown way')
      if not (isinstance(arg, ast.Call) and ast.unparse(arg.func) == 'update_action'):
        fail(n, 'out_undo does not receive update_action(...)')
      a = [ast.unparse(x) for x in arg.args]
      rows = {'preserved_row_ids': 'RPreserved', 'defunct_row_ids': 'RGone'}.get(a[0])
      if rows is None or a[1] != '0':
        fail(n, 'undo update is not over preserved/defunct rows with the BEFORE values')
      names = {(): 'NLatest', ('orig_table_id', 'orig_col_id'): 'NOriginal'}.get(tuple(a[2:]))
      if names is None:
        fail(n, 'unknown names in the undo update')
      out.append((n.lineno, '(%s, %s, %s)' % (pos, rows, names)))
  out.sort()
  # the row filters feeding them
  src = ast.unparse(fn)
  for need in ('row_ids_before = self.filter_out_new_rows(delta_key, full_row_ids)',
               'preserved_row_ids = self.filter_out_gone_rows(table_id, row_ids_before)',
               'defunct_row_ids = [r for r in row_ids_before if r not in preserved_row_ids_set]'):
    if need not in src:
      raise Untranslatable('_changes_to_actions no longer computes: %s' % need)
  return [x for _, x in out]


# ---------------------------------------------------------------------------------------------------------------
# 5. Engine.get_formula_value: what is saved before and put back after the evaluation of one cell (C29)

def tr_get_formula_value(fn):
  out = []
  saved_var = None
  def guard_of_save(value):
    if ast.unparse(value) == 'set(self.docmodel._auto_remove_set)':
      return 'GAlways'
    if isinstance(value, ast.IfExp) and ast.unparse(value.body) == 'set(self.docmodel._auto_remove_set)':
      return 'GCond'
    return None
  def restore(s, guard):
    if isinstance(s, ast.Assign) and ast.unparse(s.targets[0]) == 'self.docmodel._auto_remove_set':
      if saved_var is None or ast.unparse(s.value) != saved_var:
        fail(s, '_auto_remove_set is not set back to the saved set')
      out.append((guard, 'FRestoreAutoRemoves'))
      return True
    return False
  for s in body_of(fn):
    src = ast.unparse(s)
    if isinstance(s, ast.Assign) and src == 'checkpoint = self._get_undo_checkpoint()':
      out.append(('GAlways', 'FCheckpoint'))
    elif isinstance(s, ast.Assign) and '_auto_remove_set' in src:
      g = guard_of_save(s.value)
      if g is None or not isinstance(s.targets[0], ast.Name):
        fail(s, 'unknown use of _auto_remove_set before the evaluation')
      saved_var = s.targets[0].id
      out.append((g, 'FSaveAutoRemoves'))
    elif isinstance(s, ast.Assign) and src in ('table = self.tables[table_id]', 'col = table.get_column(col_id)',
                                               'self._sync_request = True'):
      continue
    elif isinstance(s, ast.Try):
      if s.handlers or s.orelse or len(s.body) != 1 or not isinstance(s.body[0], ast.Return) or \
         not ast.unparse(s.body[0].value).startswith('self._recompute_one_cell('):
        fail(s, 'the evaluation is no longer "try: return self._recompute_one_cell(...) finally: ..."')
      out.append(('GAlways', 'FEvaluate'))
      for f in s.finalbody:
        fsrc = ast.unparse(f)
        if fsrc == 'self._sync_request = False':
          continue
        if fsrc == 'self._undo_to_checkpoint(checkpoint)':
          out.append(('GAlways', 'FUndoToCheckpoint'))
        elif restore(f, 'GAlways'):
          pass
        elif isinstance(f, ast.If) and not f.orelse and len(f.body) == 1 and restore(f.body[0], 'GCond'):
          pass
        else:
          fail(f, 'statement outside the translated subset in the finally of get_formula_value')
    else:
      fail(s, 'statement outside the translated subset in get_formula_value')
  return out


# ---------------------------------------------------------------------------------------------------------------

PIN_LIST = [('engine.py', 'Engine', 'apply_user_actions'), ('engine.py', 'Engine', 'apply_doc_action'),
            ('engine.py', 'Engine', '_apply_one_user_action'), ('engine.py', 'Engine', 'get_formula_value'),
            ('engine.py', 'Engine', '_recompute'), ('engine.py', 'Engine', '_recompute_one_cell'),
            ('engine.py', 'Engine', '_use_node'), ('depend.py', 'Graph', 'invalidate_deps'),
            ('docmodel.py', 'DocModel', 'apply_auto_removes'), ('docmodel.py', 'DocModel', 'setAutoRemove'),
            ('docactions.py', 'DocActions', 'BulkAddRecord'), ('docactions.py', 'DocActions', 'BulkRemoveRecord'),
            ('docactions.py', 'DocActions', 'BulkUpdateRecord'), ('docactions.py', 'DocActions', 'ReplaceTableData'),
            ('action_obj.py', 'ActionGroup', 'flush_calc_changes'),
            ('action_summary.py', 'ActionSummary', '_changes_to_actions'),
            ('action_summary.py', 'ActionSummary', 'convert_deltas_to_actions'),
            ('action_summary.py', 'ActionSummary', 'add_records'), ('action_summary.py', 'ActionSummary', 'remove_records'),
            ('action_summary.py', 'ActionSummary', 'add_changes')]


def generate():
  """(text of coq/gen/Rollback_gen.v, info dict)."""
  trees = {f: parse(f) for f in ('engine.py', 'docactions.py', 'action_obj.py', 'action_summary.py', 'docmodel.py', 'depend.py')}
  eng, doc = trees['engine.py'], trees['docactions.py']
  out = ['(* GENERATED by /verif/harness/rb2v.py from sandbox/grist/{engine,docactions,action_obj,action_summary}.py',
         '   -- regenerated on every run; bridged to Model/Rollback.v in Proofs/Rollback_bridge.v. *)',
         'From Coq Require Import List Arith Bool.', 'Import ListNotations.',
         'Require Import Grist.Lib.RbPrelude.', '']
  t1, n1 = tr_get_checkpoint(find_method(eng, 'Engine', '_get_undo_checkpoint'))
  t2, n2 = tr_undo_to_checkpoint(find_method(eng, 'Engine', '_undo_to_checkpoint'))
  out += ['(* Engine._get_undo_checkpoint *)', t1, '', '(* Engine._undo_to_checkpoint: (undo actions handed to ApplyUndoActions,',
          '   out_actions afterwards); None = nothing to revert *)', t2, '',
          'Definition gen_checkpoint_arity : nat * nat := (%d, %d)%%nat.' % (n1, n2), '']
  orders = {}
  for name in ('BulkAddRecord', 'BulkUpdateRecord', 'BulkRemoveRecord', 'ReplaceTableData'):
    orders[name] = tr_order(find_method(doc, 'DocActions', name))
    out.append('Definition gen_order_%s : list okind := [%s].' % (name, '; '.join(orders[name])))
  for single, bulk in (('AddRecord', 'BulkAddRecord'), ('UpdateRecord', 'BulkUpdateRecord'), ('RemoveRecord', 'BulkRemoveRecord')):
    tr_delegates(find_method(doc, 'DocActions', single), bulk)
  out.append('')
  sk = tr_apply_skeleton(find_method(eng, 'Engine', 'apply_user_actions'))
  out += ['(* the except branch of Engine.apply_user_actions: (guard, call) in source order *)',
          'Definition gen_except_branch : list (eguard * ecall) :=\n  [%s].' % '; '.join('(%s, %s)' % gc for gc in sk), '']
  fl = tr_flush(find_method(trees['action_obj.py'], 'ActionGroup', 'flush_calc_changes'))
  uh = tr_undo_half(find_method(trees['action_summary.py'], 'ActionSummary', '_changes_to_actions'))
  out += ['(* ActionGroup.flush_calc_changes / ActionSummary._changes_to_actions: where the restoring updates go *)',
          'Definition gen_flush_target : flushkind := %s.' % fl,
          'Definition gen_undo_half : list (upos * urows * unames) :=\n  [%s].' % '; '.join(uh), '']
  gfv = tr_get_formula_value(find_method(eng, 'Engine', 'get_formula_value'))
  out += ['(* Engine.get_formula_value: (guard, step) in source order *)',
          'Definition gen_get_formula_value : list (eguard * fcall) :=\n  [%s].' % '; '.join('(%s, %s)' % gc for gc in gfv), '']
  pins, changed = {}, []
  for k in PIN_LIST:
    got = norm_hash(find_method(trees[k[0]], k[1], k[2]))
    pins['%s:%s.%s' % k] = got
    if PIN_VALUES.get(k) is not None and got != PIN_VALUES[k]:
      changed.append('%s: %s.%s (AST %s, the model was written from %s)' % (k + (got, PIN_VALUES[k])))
  return '\n'.join(out), {'orders': orders, 'except_branch': sk, 'undo_half': uh, 'pins': pins, 'pins_changed': changed,
                          'checkpoint_arity': (n1, n2)}


# hashes of the functions as of /repo 811c657 (printed by `python -m harness.rb2v`)
PIN_VALUES = {
  ('engine.py', 'Engine', 'apply_user_actions'): '86b424f7b42b0617',
  ('engine.py', 'Engine', 'apply_doc_action'): 'b8a0ea962e3635ab',
  ('engine.py', 'Engine', '_apply_one_user_action'): 'a74810b847b6936e',
  ('engine.py', 'Engine', 'get_formula_value'): '4bf6737bf2e3a8dc',
  ('engine.py', 'Engine', '_recompute'): '5f8f64eb44da29a0',
  ('engine.py', 'Engine', '_recompute_one_cell'): 'c8c4c113e0ee3d0d',
  ('engine.py', 'Engine', '_use_node'): '5af138cbdfbaf5a1',
  ('depend.py', 'Graph', 'invalidate_deps'): 'f36d2b5b981b9ac5',
  ('docmodel.py', 'DocModel', 'apply_auto_removes'): '02f9cc53a2b93422',
  ('docmodel.py', 'DocModel', 'setAutoRemove'): 'ba6c61c95d4c94e4',
  ('docactions.py', 'DocActions', 'BulkAddRecord'): '1b7c3f579472d60f',
  ('docactions.py', 'DocActions', 'BulkRemoveRecord'): '2f43a0fd0af056d1',
  ('docactions.py', 'DocActions', 'BulkUpdateRecord'): '19510195eae84d42',
  ('docactions.py', 'DocActions', 'ReplaceTableData'): 'e190800a371703e0',
  ('action_obj.py', 'ActionGroup', 'flush_calc_changes'): '6472e22c4517eca2',
  ('action_summary.py', 'ActionSummary', '_changes_to_actions'): 'add146f2de32ac8d',
  ('action_summary.py', 'ActionSummary', 'convert_deltas_to_actions'): '30994c926bf98227',
  ('action_summary.py', 'ActionSummary', 'add_records'): 'a919e8705121022d',
  ('action_summary.py', 'ActionSummary', 'remove_records'): 'cbdb3ee4f27598b6',
  ('action_summary.py', 'ActionSummary', 'add_changes'): '2c9d063d0121cd0f',
}


def regenerate(ctx):
  try:
    text, info = generate()
  except Untranslatable as e:
    raise core.TieBroken('rollback code is outside the translated subset / a pinned function changed: %s' % e)
  core.write_if_changed(os.path.join(core.COQ, 'gen', 'Rollback_gen.v'), text)
  # the row filters of action_summary.py are translated by harness/sl2v.py (C02's translator): same file, same text
  from harness import sl2v
  try:
    py_text = sl2v.generate()
  except sl2v.Untranslatable as e:
    raise core.TieBroken('action_summary.py is outside the subset of harness/sl2v.py: %s' % e)
  core.write_if_changed(os.path.join(core.COQ, 'gen', 'StoredLogPy_gen.v'), py_text)
  ctx.extra['rb2v'] = {'pinned_functions': len(info['pins']), 'orders': info['orders'],
                       'except_branch': info['except_branch'], 'undo_half': info['undo_half']}
  if info['pins_changed']:
    # (the generated file is already written: a semantic edit of translated code also breaks its bridging proof)
    raise core.TieBroken('pinned rollback code changed; re-read it and update Model/Rollback.v and harness/rb2v.py: ' +
                         '; '.join(info['pins_changed']))
  return info


if __name__ == '__main__':
  t, info = generate()
  print(t)
  print('PIN_VALUES = {')
  for k in PIN_LIST:
    print('  %r: %r,' % (k, info['pins']['%s:%s.%s' % k]))
  print('}')


# ---------------------------------------------------------------------------------------------------------------
# differential validation of the translator (every run)

VALIDATE_DEFS = '''
Definition oleq (a b : option (list nat)) : bool :=
  match a, b with Some x, Some y => list_nat_eqb x y | None, None => true | _, _ => false end.
Definition oaeq (a b : oacts nat) : bool :=
  list_nat_eqb (oa_calc a) (oa_calc b) && list_nat_eqb (oa_stored a) (oa_stored b) &&
  list_nat_eqb (oa_direct a) (oa_direct b) && list_nat_eqb (oa_undo a) (oa_undo b) && list_nat_eqb (oa_ret a) (oa_ret b).
'''
VALIDATE_CHECK = ('fun c : (list nat * oacts nat * list nat) * (option (list nat) * oacts nat) => '
                  "let '((ck, o, ck_of_o), (ea, eo)) := c in "
                  'list_nat_eqb (gen_get_undo_checkpoint o) ck_of_o && '
                  "(let '(a, o2) := gen_undo_to_checkpoint ck o in oleq a ea && oaeq o2 eo)")


def _nl(l):
  return '[' + '; '.join('%d%%nat' % x for x in l) + ']'


def _oa(lists):
  return '(Build_oacts %s)' % ' '.join(_nl(l) for l in lists)


def checkpoint_cases(rng, n):
  """(Coq case terms, descriptions): the running Engine._get_undo_checkpoint / _undo_to_checkpoint on a bare engine
  object whose out_actions lists hold numbered dummy actions."""
  import engine as E
  import action_obj
  import actions

  class UA(object):
    def __init__(self):
      self.calls = []
    def ApplyUndoActions(self, reprs):
      self.calls.append([r[2] for r in reprs])

  def objs(ids):
    return [actions.RemoveRecord('T', i) for i in ids]

  def ids_of(l):
    return [a.row_id if hasattr(a, 'row_id') else a for a in l]

  cases, descs = [], []
  counter = [0]
  def fresh(k):
    out = list(range(counter[0], counter[0] + k))
    counter[0] += k
    return out
  for i in range(n):
    counter[0] = 1
    eng = E.Engine.__new__(E.Engine)
    eng.out_actions = action_obj.ActionGroup()
    eng.user_actions = UA()
    oa = eng.out_actions
    base = [fresh(rng.randint(0, 3)) for _ in range(5)]
    base[2] = fresh(len(base[1]))                          # direct runs parallel to stored
    oa.calc, oa.stored, oa.direct, oa.undo, oa.retValues = objs(base[0]), objs(base[1]), list(base[2]), objs(base[3]), list(base[4])
    ck = E.Engine._get_undo_checkpoint(eng)
    mode = rng.random()
    if mode < 0.75:
      ext = [fresh(rng.choice([0, 0, 1, 2])) for _ in range(5)]
      ext[2] = fresh(len(ext[1]))
      oa.calc += objs(ext[0]); oa.stored += objs(ext[1]); oa.direct += ext[2]; oa.undo += objs(ext[3]); oa.retValues += ext[4]
    else:
      ck = tuple(rng.randint(0, 4) for _ in ck)            # an arbitrary checkpoint: slicing semantics
    cur = [ids_of(oa.calc), ids_of(oa.stored), list(oa.direct), ids_of(oa.undo), list(oa.retValues)]
    ck_of_o = E.Engine._get_undo_checkpoint(eng)
    E.Engine._undo_to_checkpoint(eng, ck)
    after = [ids_of(oa.calc), ids_of(oa.stored), list(oa.direct), ids_of(oa.undo), list(oa.retValues)]
    if len(eng.user_actions.calls) > 1:
      raise core.TieBroken('_undo_to_checkpoint calls ApplyUndoActions more than once')
    applied = eng.user_actions.calls[0] if eng.user_actions.calls else None
    cases.append('((%s, %s, %s), (%s, %s))' % (_nl(ck), _oa(cur), _nl(ck_of_o),
                                                 'None' if applied is None else 'Some %s' % _nl(applied), _oa(after)))
    descs.append('checkpoint %r on out_actions %r: engine applied %r and left %r' % (ck, cur, applied, after))
  return cases, descs


ORDER_OF_POINT = {'undo.append': 'OUndo', 'undo.insert': 'OUndo', 'set': 'OMut', 'copy': 'OMut', 'clear': 'OMut'}


def order_mismatches(info, run_bundle, logged_doc):
  """The generated effect orders against the order of the instrumented calls in real runs of the four doc actions."""
  log = [[['AddTable', 'T', [{'id': 'A', 'type': 'Int', 'isFormula': False}, {'id': 'C', 'type': 'Int', 'isFormula': False}]]],
         [['BulkAddRecord', 'T', [1, 2], {'A': [1, 2]}]]]
  probes = {'BulkAddRecord': ['BulkAddRecord', 'T', [3, 4], {'A': [5, 6], 'C': [1, 2]}],
            'BulkUpdateRecord': ['BulkUpdateRecord', 'T', [1, 2], {'A': [5, 6], 'C': [1, 2]}],
            'BulkRemoveRecord': ['BulkRemoveRecord', 'T', [1, 2]],
            'ReplaceTableData': ['ReplaceTableData', 'T', [1, 5], {'A': [5, 6]}]}
  bad = []
  for name, act in sorted(probes.items()):
    run = run_bundle(logged_doc(log), [['ApplyDocActions', [act]]])
    d = [x for x in run.docs if x['name'] == name]
    if run.raised is not None or not d:
      raise core.TieBroken('probe %s did not run: %r' % (name, run.raised))
    seen = []
    for st, _ in d[0]['steps']:
      k = 'OSum' if st.startswith('sum:') else ORDER_OF_POINT.get(st)
      if k:
        seen.append(k)
    want = [k for k in info['orders'][name] if k not in ('OAssert', 'OResolve')]
    if dedup(seen) != want:
      bad.append('%s: generated order %r, instrumented engine %r' % (name, want, dedup(seen)))
  return bad
