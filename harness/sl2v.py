"""
sl2v -- fail-closed translator for the small pure pieces of sandbox/grist/action_summary.py (C02/C31, DESIGN 4.1).

Same pattern as harness/py2v.py (the translated text is regenerated from /repo on every run and the proofs are
re-checked against it), for the fragment those pieces need and py2v does not have: strings, Optional, dicts used as
maps (get / get with default / pop with default / item assignment), `is None`, `!= False` on an optional bool,
list comprehensions with a filter, `sorted(<generator over dict.items() with tuple unpacking>)`, an early
`if not x: return ...`.  Anything else raises Untranslatable (the check then reports a broken tie).

Types (strings):  str, ostr (Optional[str]), Z, bool, obool, zlist, renames (dict str -> ostr),
                  pmap (dict Z -> bool), deltas (dict Z -> (V, V)), tables (dict str -> tdelta), otd, td, V.
"""
import ast
import os

from harness import core


class Untranslatable(Exception):
  pass


DICTS = {   # dict type -> (key eqb, key type, value type)
  'renames': ('str_eqb', 'str', 'ostr'),
  'pmap': ('Z.eqb', 'Z', 'bool'),
  'tables': ('str_eqb', 'str', 'td'),
}
OPTION_OF = {'str': 'ostr', 'bool': 'obool', 'td': 'otd'}
TD_ATTRS = {'_rows_present_before': ('td_pb', 'pmap'), '_rows_present_after': ('td_pa', 'pmap')}


def fail(node, msg):
  raise Untranslatable('%s at line %s: %s' % (msg, getattr(node, 'lineno', '?'), ast.dump(node)[:200]))


class Tr(object):
  def __init__(self, env, self_attrs, funcs):
    self.env = dict(env)            # python name -> (coq term, type)
    self.self_attrs = self_attrs    # attribute of self -> (coq term, type)
    self.funcs = funcs              # python function name -> (coq name, [arg types], result type)

  def coerce(self, term, ty, want, node):
    if want is None or ty == want:
      return term
    if OPTION_OF.get(ty) == want:
      return '(Some %s)' % term
    fail(node, 'type %s where %s is needed' % (ty, want))

  def expr(self, n, want=None):
    term, ty = self.expr_(n, want)
    return self.coerce(term, ty, want, n), (want or ty)

  def expr_(self, n, want):
    if isinstance(n, ast.Name):
      if n.id not in self.env:
        fail(n, 'unbound name')
      return self.env[n.id]
    if isinstance(n, ast.Constant):
      if n.value is None:
        if want not in ('ostr', 'obool', 'otd'):
          fail(n, 'None where no Optional is expected')
        return 'None', want
      if n.value is True or n.value is False:
        return ('true' if n.value else 'false'), 'bool'
      if isinstance(n.value, str):
        return '(%s)' % core.strlit(n.value), 'str'
      fail(n, 'constant')
    if isinstance(n, ast.Attribute) and isinstance(n.value, ast.Name) and n.value.id == 'self':
      if n.attr not in self.self_attrs:
        fail(n, 'attribute of self')
      return self.self_attrs[n.attr]
    if isinstance(n, ast.Attribute):
      v, ty = self.expr(n.value)
      if ty == 'td' and n.attr in TD_ATTRS:
        return '(%s %s)' % (TD_ATTRS[n.attr][0], v), TD_ATTRS[n.attr][1]
      fail(n, 'attribute')
    if isinstance(n, ast.BinOp) and isinstance(n.op, ast.Add):
      a, _ = self.expr(n.left, 'str')
      b, _ = self.expr(n.right, 'str')
      return '(%s ++ %s)' % (a, b), 'str'
    if isinstance(n, ast.Subscript) and isinstance(n.slice, ast.Slice):
      s = n.slice
      if not (isinstance(s.lower, ast.Constant) and s.lower.value == 1 and s.upper is None and s.step is None):
        fail(n, 'slice')
      a, _ = self.expr(n.value, 'str')
      return '(py_drop1 %s)' % a, 'str'
    if isinstance(n, ast.BoolOp) and isinstance(n.op, ast.Or):
      parts = [self.expr(v, 'bool')[0] for v in n.values]
      return '(%s)' % ' || '.join(parts), 'bool'
    if isinstance(n, ast.UnaryOp) and isinstance(n.op, ast.Not):
      a, ty = self.expr(n.operand)
      if ty == 'bool':
        return '(negb %s)' % a, 'bool'
      fail(n, 'not')
    if isinstance(n, ast.IfExp):
      # `x if y is None else z` with y an optional variable: z may use y as a plain value
      t = n.test
      if (isinstance(t, ast.Compare) and len(t.ops) == 1 and isinstance(t.ops[0], ast.Is)
          and isinstance(t.comparators[0], ast.Constant) and t.comparators[0].value is None
          and isinstance(t.left, ast.Name) and self.env.get(t.left.id, (None, None))[1] == 'ostr'):
        name = t.left.id
        a, ty = self.expr(n.body, want)
        sub = Tr(self.env, self.self_attrs, self.funcs)
        sub.env[name] = (name + '__v', 'str')
        b, _ = sub.expr(n.orelse, ty)
        return '(match %s with None => %s | Some %s__v => %s end)' % (self.env[name][0], a, name, b), ty
      c, _ = self.expr(t, 'bool')
      a, ty = self.expr(n.body, want)
      b, _ = self.expr(n.orelse, ty)
      return '(if %s then %s else %s)' % (c, a, b), ty
    if isinstance(n, ast.Compare) and len(n.ops) == 1:
      op, right = n.ops[0], n.comparators[0]
      if isinstance(op, ast.Is) and isinstance(right, ast.Constant) and right.value is None:
        a, ty = self.expr(n.left)
        if ty not in ('ostr', 'obool', 'otd'):
          fail(n, '`is None` on a non-optional')
        return '(match %s with None => true | Some _ => false end)' % a, 'bool'
      if isinstance(op, ast.NotEq) and isinstance(right, ast.Constant) and right.value is False:
        a, ty = self.expr(n.left)
        if ty != 'obool':
          fail(n, '`!= False` on something that is not an optional bool')
        return '(py_ne_false %s)' % a, 'bool'
      fail(n, 'comparison')
    if isinstance(n, ast.ListComp) and len(n.generators) == 1:
      g = n.generators[0]
      if not (isinstance(g.target, ast.Name) and isinstance(n.elt, ast.Name) and n.elt.id == g.target.id
              and len(g.ifs) == 1 and not g.is_async):
        fail(n, 'list comprehension')
      it, ty = self.expr(g.iter, 'zlist')
      sub = Tr(self.env, self.self_attrs, self.funcs)
      sub.env[g.target.id] = (g.target.id, 'Z')
      c, _ = sub.expr(g.ifs[0], 'bool')
      return '(filter (fun %s => %s) %s)' % (g.target.id, c, it), 'zlist'
    if isinstance(n, ast.Call):
      return self.call(n, want)
    fail(n, 'expression')

  def call(self, n, want):
    f = n.func
    if n.keywords:
      fail(n, 'keyword arguments')
    if isinstance(f, ast.Name) and f.id == 'sorted' and len(n.args) == 1 and isinstance(n.args[0], ast.GeneratorExp):
      g = n.args[0]
      gen = g.generators[0] if len(g.generators) == 1 else fail(n, 'generators')
      tgt = gen.target
      ok = (isinstance(tgt, ast.Tuple) and len(tgt.elts) == 2 and isinstance(tgt.elts[0], ast.Name)
            and isinstance(tgt.elts[1], ast.Tuple) and len(tgt.elts[1].elts) == 2
            and all(isinstance(x, ast.Name) for x in tgt.elts[1].elts)
            and isinstance(g.elt, ast.Name) and g.elt.id == tgt.elts[0].id and len(gen.ifs) == 1
            and isinstance(gen.iter, ast.Call) and isinstance(gen.iter.func, ast.Attribute)
            and gen.iter.func.attr == 'items' and not gen.iter.args)
      if not ok:
        fail(n, 'sorted(generator)')
      d, ty = self.expr(gen.iter.func.value)
      if ty != 'deltas':
        fail(n, 'items() of something that is not a delta map')
      r, b, a = tgt.elts[0].id, tgt.elts[1].elts[0].id, tgt.elts[1].elts[1].id
      sub = Tr(self.env, self.self_attrs, self.funcs)
      sub.env[r] = ('(fst p__)', 'Z')
      sub.env[b] = ('(fst (snd p__))', 'V')
      sub.env[a] = ('(snd (snd p__))', 'V')
      c, _ = sub.expr(gen.ifs[0], 'bool')
      return '(sort_by Z.ltb (map fst (filter (fun p__ => %s) (py_items Z.eqb %s))))' % (c, d), 'zlist'
    if isinstance(f, ast.Name) and f.id == 'equal_encoding' and len(n.args) == 2:
      a, _ = self.expr(n.args[0], 'V')
      b, _ = self.expr(n.args[1], 'V')
      return '(Z.eqb %s %s)' % (a, b), 'bool'
    if isinstance(f, ast.Name) and f.id in self.funcs:
      cn, argt, rt = self.funcs[f.id]
      if len(argt) != len(n.args):
        fail(n, 'arity')
      args = [self.expr(x, t)[0] for x, t in zip(n.args, argt)]
      return '(%s %s)' % (cn, ' '.join(args)), rt
    if isinstance(f, ast.Attribute) and f.attr == 'startswith' and len(n.args) == 1:
      a, _ = self.expr(f.value, 'str')
      b, _ = self.expr(n.args[0], 'str')
      return '(py_startswith %s %s)' % (a, b), 'bool'
    if isinstance(f, ast.Attribute) and f.attr == 'get' and len(n.args) in (1, 2):
      d, ty = self.expr(f.value)
      if ty not in DICTS:
        fail(n, 'get on something that is not a map')
      eqb, kt, vt = DICTS[ty]
      k, _ = self.expr(n.args[0], kt)
      look = '(aget %s %s %s)' % (eqb, k, d)
      if len(n.args) == 1:
        return look, OPTION_OF[vt]
      dflt, _ = self.expr(n.args[1], vt)
      return '(match %s with Some v__ => v__ | None => %s end)' % (look, dflt), vt
    fail(n, 'call')

  # -- statements of a function body; returns the Coq term of the result
  def body(self, stmts, result, ret_type):
    """result: None for a function that returns a value; or the self attribute (a map) whose final value is the
    result of a procedure."""
    if not stmts:
      if result is None:
        fail(ast.Pass(), 'missing return')
      return self.self_attrs[result][0]
    s, rest = stmts[0], stmts[1:]
    if isinstance(s, ast.Expr) and isinstance(s.value, ast.Constant) and isinstance(s.value.value, str):
      return self.body(rest, result, ret_type)          # docstring
    if isinstance(s, ast.Return) and result is None and not rest:
      return self.expr(s.value, ret_type)[0]
    if isinstance(s, ast.Assign) and len(s.targets) == 1:
      tgt = s.targets[0]
      # x = self.<map>.pop(k, default)
      v = s.value
      if (isinstance(tgt, ast.Name) and isinstance(v, ast.Call) and isinstance(v.func, ast.Attribute)
          and v.func.attr == 'pop' and len(v.args) == 2 and isinstance(v.func.value, ast.Attribute)
          and isinstance(v.func.value.value, ast.Name) and v.func.value.value.id == 'self'):
        attr = v.func.value.attr
        d, ty = self.self_attrs[attr]
        if ty != 'renames':
          fail(s, 'pop on something that is not the rename map')
        k, _ = self.expr(v.args[0], 'ostr')
        dflt, _ = self.expr(v.args[1], 'ostr')
        val = '(match py_oget %s %s with Some v__ => v__ | None => %s end)' % (k, d, dflt)
        new = '(py_odel %s %s)' % (k, d)
        sub = Tr(self.env, dict(self.self_attrs), self.funcs)
        sub.env[tgt.id] = (tgt.id, 'ostr')
        sub.self_attrs[attr] = (attr + '__1', ty)
        return '(let %s := %s in let %s__1 := %s in %s)' % (tgt.id, val, attr, new, sub.body(rest, result, ret_type))
      # self.<map>[k] = v
      if (isinstance(tgt, ast.Subscript) and isinstance(tgt.value, ast.Attribute) and isinstance(tgt.value.value, ast.Name)
          and tgt.value.value.id == 'self'):
        attr = tgt.value.attr
        d, ty = self.self_attrs[attr]
        if ty != 'renames':
          fail(s, 'item assignment on something that is not the rename map')
        k, _ = self.expr(tgt.slice, 'str')
        val, _ = self.expr(s.value, 'ostr')
        sub = Tr(self.env, dict(self.self_attrs), self.funcs)
        sub.self_attrs[attr] = (attr + '__2', ty)
        return '(let %s__2 := aset str_eqb %s %s %s in %s)' % (attr, k, val, d, sub.body(rest, result, ret_type))
      if isinstance(tgt, ast.Name):
        val, ty = self.expr(s.value)
        sub = Tr(self.env, self.self_attrs, self.funcs)
        sub.env[tgt.id] = (tgt.id, ty)
        return '(let %s := %s in %s)' % (tgt.id, val, sub.body(rest, result, ret_type))
      fail(s, 'assignment')
    # if not t: return e      (t an optional table delta; afterwards t is the delta itself)
    if (isinstance(s, ast.If) and not s.orelse and len(s.body) == 1 and isinstance(s.body[0], ast.Return)
        and isinstance(s.test, ast.UnaryOp) and isinstance(s.test.op, ast.Not) and isinstance(s.test.operand, ast.Name)
        and self.env.get(s.test.operand.id, (None, None))[1] == 'otd' and result is None):
      name = s.test.operand.id
      early, _ = self.expr(s.body[0].value, ret_type)
      sub = Tr(self.env, self.self_attrs, self.funcs)
      sub.env[name] = (name + '__v', 'td')
      return '(match %s with None => %s | Some %s__v => %s end)' % (self.env[name][0], early, name,
                                                                 sub.body(rest, result, ret_type))
    fail(s, 'statement')


COQ_TY = {'str': 'str', 'ostr': '(option str)', 'Z': 'Z', 'bool': 'bool', 'zlist': '(list Z)', 'renames': 'renames',
          'tables': '(list (str * tdelta))', 'deltas': 'rowdeltas', 'V': 'V'}


def find_function(tree, cls, name):
  scope = tree.body
  if cls is not None:
    cs = [n for n in tree.body if isinstance(n, ast.ClassDef) and n.name == cls]
    if len(cs) != 1:
      raise Untranslatable('class %s not found' % cls)
    scope = cs[0].body
  fs = [n for n in scope if isinstance(n, ast.FunctionDef) and n.name == name]
  if len(fs) != 1:
    raise Untranslatable('function %s.%s not found' % (cls, name))
  return fs[0]


def translate_function(tree, cls, name, coq_name, params, ret_type, self_attrs, funcs, result=None):
  """params: [(python name, type)] excluding self; self_attrs: {attr: type} become leading Coq parameters."""
  fn = find_function(tree, cls, name)
  if fn.decorator_list or fn.args.vararg or fn.args.kwarg or fn.args.kwonlyargs or fn.args.defaults:
    raise Untranslatable('%s: signature' % name)
  names = [a.arg for a in fn.args.args]
  if names != (['self'] if cls else []) + [p for p, _ in params]:
    raise Untranslatable('%s: parameters %r' % (name, names))
  env = {p: (p, t) for p, t in params}
  sa = {a: (a, t) for a, t in self_attrs.items()}
  body = Tr(env, sa, funcs).body(fn.body, result, ret_type)
  binders = ' '.join('(%s : %s)' % (a, COQ_TY[t]) for a, t in list(self_attrs.items()) + params)
  rt = COQ_TY[self_attrs[result]] if result else COQ_TY[ret_type]
  return 'Definition %s %s : %s :=\n  %s.\n' % (coq_name, binders, rt, body)


def translate_assignment(tree, cls, func, var, coq_name, params, ret_type, funcs):
  """The right-hand side of the (single) top-level assignment to `var` in a method body, as a function of params."""
  fn = find_function(tree, cls, func)
  hits = [s for s in fn.body if isinstance(s, ast.Assign) and len(s.targets) == 1
          and isinstance(s.targets[0], ast.Name) and s.targets[0].id == var]
  if len(hits) != 1:
    raise Untranslatable('%s: %d assignments to %s' % (func, len(hits), var))
  env = {p: (p, t) for p, t in params}
  term, _ = Tr(env, {}, funcs).expr(hits[0].value, ret_type)
  binders = ' '.join('(%s : %s)' % (p, COQ_TY[t]) for p, t in params)
  return 'Definition %s %s : %s :=\n  %s.\n' % (coq_name, binders, COQ_TY[ret_type], term)


# the statements of _changes_to_actions that connect the translated pieces (stored half); compared as ast dumps
def stored_half_shape(tree):
  fn = find_function(tree, 'ActionSummary', '_changes_to_actions')
  src = []
  for s in fn.body:
    if isinstance(s, ast.If):
      d = ast.dump(s.test)
      if 'column_delta' in d or 'defunct' in d:
        src.append(ast.unparse(s))
    if isinstance(s, ast.Assign) and isinstance(s.targets[0], ast.Name) and s.targets[0].id in ('table_id', 'col_id'):
      src.append(ast.unparse(s))
  return src


EXPECTED_SHAPE = [
  'if not column_delta:\n    return',
  'table_id = root_name(table_id)',
  'col_id = root_name(col_id)',
  'if not defunct:\n    row_ids_after = self.filter_out_gone_rows(table_id, full_row_ids)\n'
  '    if row_ids_after:\n        out_stored.append(update_action(row_ids_after, 1))',
]


def generate():
  """Text of coq/gen/StoredLogPy_gen.v."""
  path = os.path.join(core.GRIST, 'action_summary.py')
  with open(path) as f:
    tree = ast.parse(f.read())
  F = {}
  out = ['(* GENERATED by /verif/harness/sl2v.py from sandbox/grist/action_summary.py -- regenerated on every run. *)',
         'From Coq Require Import ZArith List Bool.', 'Import ListNotations.', 'Require Import Grist.Model.StoredLog.',
         'Open Scope Z_scope.', '']
  out.append(translate_function(tree, None, 'defunct_name', 'defunct_name_py', [('name', 'str')], 'str', {}, F))
  out.append(translate_function(tree, None, 'is_defunct', 'is_defunct_py', [('name', 'str')], 'bool', {}, F))
  out.append(translate_function(tree, None, 'root_name', 'root_name_py', [('name', 'str')], 'str', {}, F))
  F = {'defunct_name': ('defunct_name_py', ['str'], 'str'), 'is_defunct': ('is_defunct_py', ['str'], 'bool'),
       'root_name': ('root_name_py', ['str'], 'str')}
  LR = {'_new_to_old': 'renames'}
  out.append(translate_function(tree, 'LabelRenames', 'add_rename', 'add_rename_py', [('before', 'ostr'), ('after', 'str')],
                                None, LR, F, result='_new_to_old'))
  out.append(translate_function(tree, 'LabelRenames', 'is_created', 'is_created_py', [('latest_name', 'str')], 'bool', LR, F))
  out.append(translate_function(tree, 'LabelRenames', 'original_name', 'original_name_py', [('latest_name', 'str')], 'str',
                                LR, F))
  AS = {'_tables': 'tables'}
  for fn in ('filter_out_new_rows', 'filter_out_gone_rows'):
    out.append(translate_function(tree, 'ActionSummary', fn, fn + '_py', [('table_id', 'str'), ('row_ids', 'zlist')],
                                  'zlist', AS, F))
  out.append(translate_assignment(tree, 'ActionSummary', '_changes_to_actions', 'full_row_ids', 'full_row_ids_py',
                                  [('column_delta', 'deltas')], 'zlist', F))
  out.append(translate_assignment(tree, 'ActionSummary', '_changes_to_actions', 'defunct', 'defunct_py',
                                  [('table_id', 'str'), ('col_id', 'str')], 'bool', F))
  shape = stored_half_shape(tree)[:len(EXPECTED_SHAPE)]
  fn = find_function(tree, 'ActionSummary', '_changes_to_actions')
  uses = [n for n in ast.walk(fn) if isinstance(n, ast.Name) and n.id == 'out_stored']
  if len(uses) != 1:
    raise Untranslatable('_changes_to_actions touches out_stored %d times (the model follows exactly one append)' % len(uses))
  if shape != EXPECTED_SHAPE:
    raise Untranslatable('the stored half of _changes_to_actions no longer has the shape the model follows: %r' % (shape,))
  return '\n'.join(out)
