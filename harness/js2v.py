"""
js2v -- fail-closed translator for the Python side of C38 (DESIGN 4.1): the generator script
sandbox/gen_js_schema.py (get_ts_type, main) and usertypes.get_pure_type / get_type_default.

The translated text is regenerated from /repo on every run and the bridging proofs (Proofs/JsSchema_bridge.v) are
re-checked against it, so a semantic edit of the script breaks a proof rather than a sample.

Subset.  Two kinds of function:
  'out'  (writes to stdout; Coq value: option (list Z) = the text written, None = exception / outside the model)
         statements:  print(<str expr>)   |   for <name> in <list expr>: <statements>
  'pure' statements:  <name> = <expr> ... ; return <expr>
Expressions: str / int constants, None (as a dict.get default), names, <str const> % <expr or tuple> (Lib.JsPrelude.py_percent,
which parses the format string inside Coq), x.split('<c>', 1)[0], d.get(k, default) on a module-level dict, calls of
translated pure functions, and the attribute / item accesses listed in ATTRS.  Anything else raises Untranslatable.

Types: str int schema_mod tables table columns column strdict valdict pyval.
"""
import ast

COQ_TYPE = {
  'str': 'list Z', 'int': 'Z', 'schema_mod': 'JsSchema.schema', 'strdict': 'list (list Z * list Z)',
  'valdict': 'list (list Z * py_val)', 'pyval': 'py_val', 'tables': 'list table', 'columns': 'list column',
  'table': 'table', 'column': 'column',
}
ELEM = {'tables': 'table', 'columns': 'column'}
DICT_VALUE = {'strdict': 'str', 'valdict': 'pyval'}
# (type of the object, access) -> (Coq projection, result type);  access: '.attr', '.method()', "['key']"
ATTRS = {
  ('schema_mod', '.SCHEMA_VERSION'): ('JsSchema.sch_version', 'int'),
  ('schema_mod', '.schema_create_actions()'): ('JsSchema.sch_tables', 'tables'),
  ('table', '.table_id'): ('JsSchema.tbl_id', 'str'),
  ('table', '.columns'): ('JsSchema.tbl_columns', 'columns'),
  ('column', "['id']"): ('JsSchema.col_id', 'str'),
  ('column', "['type']"): ('JsSchema.col_type', 'str'),
  ('column', "['formula']"): ('JsSchema.col_formula', 'str'),
}
COQ_RESERVED = {'type', 'at', 'in', 'as', 'fun', 'let', 'match', 'end', 'with', 'if', 'then', 'else', 'return', 'fix',
                'forall', 'exists', 'Type', 'Prop', 'Set', 'using', 'where', 'for', 'cofix', 'struct', 'str', 'nl', 'bind'}


class Untranslatable(Exception):
  pass


def fail(node, msg):
  raise Untranslatable('%s at line %s: %s' % (msg, getattr(node, 'lineno', '?'), ast.dump(node)[:160]))


def ident(name):
  return name + '_' if name in COQ_RESERVED else name


def coq_str(s):
  """A str constant as a Coq term of type list Z (same encoding as harness/props/c38.py S())."""
  def plain(c):
    return c == '\n' or ' ' <= c <= '~'
  parts, i = [], 0
  while i < len(s):
    j, p = i, plain(s[i])
    while j < len(s) and plain(s[j]) == p:
      j += 1
    run = s[i:j]
    if p:
      parts.extend('JsPrelude.str "%s"%%string' % run[k:k + 100].replace('"', '""') for k in range(0, len(run), 100))
    else:
      parts.append('[' + '; '.join('%d%%Z' % ord(c) for c in run) + ']')
    i = j
  return '(' + ' ++ '.join(parts) + ')' if parts else '[]'


class Tr(object):
  def __init__(self, globals_, funcs):
    self.globals = globals_      # python name -> type   (module-level dicts, the `schema` module): leading parameters
    self.funcs = funcs           # python name of an already translated pure function -> ([arg types], result type)
    self.env = {}                # local python name -> type

  # ---- expressions: -> (coq term, type, pure?)   (an impure term has Coq type option T)
  def expr(self, e):
    if isinstance(e, ast.Constant):
      if isinstance(e.value, str):
        return coq_str(e.value), 'str', True
      if type(e.value) is int:
        return '(%d)%%Z' % e.value, 'int', True
      fail(e, 'constant outside the subset')
    if isinstance(e, ast.Name):
      if e.id in self.env:
        return ident(e.id), self.env[e.id], True
      if e.id in self.globals:
        return ident(e.id), self.globals[e.id], True
      fail(e, 'unbound name')
    if isinstance(e, ast.Attribute):
      obj, t, _ = self.pure(e.value)
      return self.access(e, obj, t, '.' + e.attr)
    if isinstance(e, ast.Subscript):
      # x.split('<c>', 1)[0]
      v = e.value
      if (isinstance(v, ast.Call) and isinstance(v.func, ast.Attribute) and v.func.attr == 'split' and not v.keywords and
          len(v.args) == 2 and isinstance(v.args[0], ast.Constant) and isinstance(v.args[0].value, str) and
          len(v.args[0].value) == 1 and isinstance(v.args[1], ast.Constant) and v.args[1].value == 1 and
          type(v.args[1].value) is int and isinstance(e.slice, ast.Constant) and e.slice.value == 0 and
          type(e.slice.value) is int):
        s, t, _ = self.pure(v.func.value)
        if t != 'str':
          fail(e, '.split on a non-str')
        return '(JsPrelude.take_until %d %s)' % (ord(v.args[0].value), s), 'str', True
      if isinstance(e.slice, ast.Constant) and isinstance(e.slice.value, str):
        obj, t, _ = self.pure(e.value)
        return self.access(e, obj, t, '[%r]' % e.slice.value)
      fail(e, 'subscript outside the subset')
    if isinstance(e, ast.Call):
      return self.call(e)
    if isinstance(e, ast.BinOp) and isinstance(e.op, ast.Mod):
      if not (isinstance(e.left, ast.Constant) and isinstance(e.left.value, str)):
        fail(e, '% on something that is not a str constant')
      items = e.right.elts if isinstance(e.right, ast.Tuple) else [e.right]
      args = []
      for a in items:
        term, t, _ = self.pure(a)
        if t == 'str':
          args.append('JsPrelude.AStr %s' % term)
        elif t == 'int':
          args.append('JsPrelude.AInt %s' % term)
        else:
          fail(a, '% argument of type ' + t)
      return '(JsPrelude.py_percent %s [%s])' % (coq_str(e.left.value), '; '.join(args)), 'str', False
    fail(e, 'expression outside the subset')

  def pure(self, e):
    r = self.expr(e)
    if not r[2]:
      fail(e, 'an expression that may raise is used where a value is needed')
    return r

  def access(self, node, obj, t, how):
    if (t, how) not in ATTRS:
      fail(node, 'access %s on %s' % (how, t))
    proj, rt = ATTRS[(t, how)]
    return '(%s %s)' % (proj, obj), rt, True

  def call(self, e):
    if e.keywords:
      fail(e, 'keyword arguments')
    f = e.func
    if isinstance(f, ast.Name) and f.id in self.funcs and f.id not in self.env:
      argt, rt = self.funcs[f.id]
      if len(e.args) != len(argt):
        fail(e, 'arity')
      terms = []
      for a, want in zip(e.args, argt):
        term, t, _ = self.pure(a)
        if t != want:
          fail(a, 'argument of type %s where %s is expected' % (t, want))
        terms.append(term)
      return '(%s %s)' % (ident(f.id), ' '.join([ident(g) for g in self.globals] + terms)), rt, True
    if isinstance(f, ast.Name) and f.id == 'reversed' and 'reversed' not in self.env and len(e.args) == 1:
      term, t, _ = self.pure(e.args[0])
      if t in ELEM:
        return '(List.rev %s)' % term, t, True
      fail(e, 'reversed of ' + t)
    if isinstance(f, ast.Attribute):
      obj, t, _ = self.pure(f.value)
      if f.attr == 'get' and t in DICT_VALUE and len(e.args) == 2:
        k, kt, _ = self.pure(e.args[0])
        if kt != 'str':
          fail(e, 'dict key of type ' + kt)
        vt = DICT_VALUE[t]
        d = e.args[1]
        if isinstance(d, ast.Constant) and d.value is None and vt == 'pyval':
          dv = 'JsSchema.PyNone'
        else:
          dv, dt, _ = self.pure(d)
          if dt != vt:
            fail(d, 'default of type %s in a dict of %s' % (dt, vt))
        return '(JsPrelude.py_dict_get %s %s %s)' % (obj, k, dv), vt, True
      if not e.args:
        return self.access(e, obj, t, '.%s()' % f.attr)
    fail(e, 'call outside the subset')

  # ---- statements
  def out_block(self, stmts):
    """Statements of an 'out' function -> Coq term of type option (list Z)."""
    items = []
    for st in stmts:
      if (isinstance(st, ast.Expr) and isinstance(st.value, ast.Call) and isinstance(st.value.func, ast.Name) and
          st.value.func.id == 'print' and 'print' not in self.env):
        c = st.value
        if c.keywords or len(c.args) != 1:
          fail(st, 'print with other than one positional argument')
        term, t, is_pure = self.expr(c.args[0])
        if t != 'str':
          fail(st, 'print of a non-str')
        items.append('JsPrelude.py_print %s' % ('(Some %s)' % term if is_pure else term))
      elif isinstance(st, ast.For):
        if st.orelse or not isinstance(st.target, ast.Name):
          fail(st, 'for with else / tuple target')
        it, t, _ = self.pure(st.iter)
        if t not in ELEM:
          fail(st, 'for over ' + t)
        name = st.target.id
        if name in self.env or name in self.globals or name in self.funcs:
          fail(st, 'loop variable shadows another name')
        self.env[name] = ELEM[t]
        body = self.out_block(st.body)
        del self.env[name]        # (the leaked loop variable is not used afterwards: a later use is an unbound name)
        items.append('JsPrelude.py_for %s (fun %s => %s)' % (it, ident(name), body))
      else:
        fail(st, 'statement outside the subset')
    return '(JsPrelude.out_seq [\n    ' + ';\n    '.join(items) + '])'

  def pure_block(self, stmts):
    """Statements of a 'pure' function -> (Coq term, type)."""
    lets = []
    for k, st in enumerate(stmts):
      if isinstance(st, ast.Assign) and len(st.targets) == 1 and isinstance(st.targets[0], ast.Name):
        term, t, _ = self.pure(st.value)
        name = st.targets[0].id
        if name in self.globals or name in self.funcs or (name in self.env and self.env[name] != t):
          fail(st, 'assignment rebinding a global / changing a type')
        lets.append('let %s := %s in' % (ident(name), term))
        self.env[name] = t
      elif isinstance(st, ast.Return) and st.value is not None and k == len(stmts) - 1:
        term, t, _ = self.pure(st.value)
        return '\n  '.join(lets + [term]), t
      else:
        fail(st, 'statement outside the subset')
    raise Untranslatable('function does not end in a return')


def strip_docstring(body):
  if body and isinstance(body[0], ast.Expr) and isinstance(body[0].value, ast.Constant) and isinstance(body[0].value.value, str):
    return body[1:]
  return body


def find_function(tree, name):
  defs = [n for n in ast.walk(tree) if isinstance(n, (ast.FunctionDef, ast.AsyncFunctionDef, ast.ClassDef)) and n.name == name]
  top = [n for n in tree.body if isinstance(n, ast.FunctionDef) and n.name == name]
  if len(defs) != 1 or len(top) != 1:
    raise Untranslatable('%s is not defined exactly once, at module level' % name)
  fn = top[0]
  a = fn.args
  if fn.decorator_list or a.vararg or a.kwarg or a.kwonlyargs or a.defaults or a.posonlyargs:
    raise Untranslatable('%s has decorators / default or star arguments' % name)
  return fn


def translate_functions(tree, globals_, specs):
  """specs: [(name, kind, [param types])] in dependency order -> (coq text, {name: ([param types], result type)})."""
  for n in ast.walk(tree):
    if (isinstance(n, ast.Name) and isinstance(n.ctx, (ast.Store, ast.Del)) and n.id == 'print') or \
       (isinstance(n, (ast.FunctionDef, ast.ClassDef)) and n.name == 'print') or \
       (isinstance(n, ast.alias) and (n.asname or n.name) == 'print'):
      raise Untranslatable('print is rebound')
    if isinstance(n, (ast.Global, ast.Nonlocal)):
      raise Untranslatable('global / nonlocal statement')
  funcs, out = {}, []
  for name, kind, ptypes in specs:
    fn = find_function(tree, name)
    params = [a.arg for a in fn.args.args]
    if len(params) != len(ptypes):
      raise Untranslatable('%s takes %d parameters, %d expected' % (name, len(params), len(ptypes)))
    tr = Tr(globals_, funcs)
    for p_, t in zip(params, ptypes):
      if p_ in globals_ or p_ in funcs:
        raise Untranslatable('parameter %s of %s shadows a global' % (p_, name))
      tr.env[p_] = t
    binders = ' '.join('(%s : %s)' % (ident(n_), COQ_TYPE[t]) for n_, t in list(globals_.items()) + list(zip(params, ptypes)))
    body = strip_docstring(fn.body)
    if kind == 'out':
      term, rt, coq_rt = tr.out_block(body), 'out', 'option (list Z)'
    else:
      term, rt = tr.pure_block(body)
      coq_rt = COQ_TYPE[rt]
      funcs[name] = (ptypes, rt)
    out.append('(* %s, line %d *)\nDefinition %s %s : %s :=\n  %s.\n' % (name, fn.lineno, ident(name), binders, coq_rt, term))
  return '\n'.join(out), funcs


# ---------------------------------------------------------------------------------------------
# module-level structure ("glue"): pinned by shape

def only_uses(tree, name, allowed_functions):
  """`name` is assigned exactly once (module level, a dict display) and read only inside the given functions."""
  stores = [n for n in ast.walk(tree) if isinstance(n, ast.Name) and n.id == name and not isinstance(n.ctx, ast.Load)]
  top = [st for st in tree.body if isinstance(st, ast.Assign) and len(st.targets) == 1 and
         isinstance(st.targets[0], ast.Name) and st.targets[0].id == name and isinstance(st.value, ast.Dict)]
  if len(stores) != 1 or len(top) != 1:
    raise Untranslatable('%s is not assigned exactly once, at module level, from a dict display' % name)
  inside = set()
  for fn in tree.body:
    if isinstance(fn, ast.FunctionDef) and fn.name in allowed_functions:
      inside |= {id(n) for n in ast.walk(fn)}
  for n in ast.walk(tree):
    if isinstance(n, ast.Name) and n.id == name and isinstance(n.ctx, ast.Load) and id(n) not in inside:
      raise Untranslatable('%s is used outside %s (line %d)' % (name, sorted(allowed_functions), n.lineno))
    if isinstance(n, ast.Constant) and n.value == name:
      raise Untranslatable('%r appears as a string constant (line %d): possible indirect access' % (name, n.lineno))


def translate_gen_js_schema(path):
  """sandbox/gen_js_schema.py: the whole module must have the expected shape; get_ts_type and main are translated."""
  with open(path) as f:
    tree = ast.parse(f.read())
  seen = []
  for st in strip_docstring(tree.body):
    if isinstance(st, ast.Import) and [(a.name, a.asname) for a in st.names] == [('schema', None)]:
      seen.append('import schema')
    elif isinstance(st, ast.Assign) and len(st.targets) == 1 and isinstance(st.targets[0], ast.Name) and \
        st.targets[0].id == '_ts_types':
      seen.append('_ts_types')
    elif isinstance(st, ast.FunctionDef) and st.name in ('get_ts_type', 'main'):
      seen.append(st.name)
    elif (isinstance(st, ast.If) and not st.orelse and
          ast.dump(st.test) == ast.dump(ast.parse("__name__ == '__main__'", mode='eval').body) and
          [ast.dump(b) for b in st.body] == [ast.dump(ast.parse('main()').body[0])]):
      seen.append('guard')
    else:
      fail(st, 'module-level statement outside the expected shape of gen_js_schema.py')
  if sorted(seen) != sorted(['import schema', '_ts_types', 'get_ts_type', 'main', 'guard']):
    raise Untranslatable('gen_js_schema.py module level is %r' % (seen,))
  only_uses(tree, '_ts_types', {'get_ts_type'})
  return translate_functions(tree, {'_ts_types': 'strdict', 'schema': 'schema_mod'},
                             [('get_ts_type', 'pure', ['str']), ('main', 'out', [])])[0]


def translate_usertypes(path):
  """usertypes.py: get_pure_type and get_type_default; _type_defaults must be a plain module-level dict."""
  with open(path) as f:
    tree = ast.parse(f.read())
  only_uses(tree, '_type_defaults', {'get_type_default'})
  return translate_functions(tree, {'_type_defaults': 'valdict'},
                             [('get_pure_type', 'pure', ['str']), ('get_type_default', 'pure', ['str'])])[0]


HEADER = ('(* GENERATED by harness/js2v.py from sandbox/gen_js_schema.py and sandbox/grist/usertypes.py on every run '
          '-- do not edit *)\nFrom Coq Require Import String ZArith List Bool.\nImport ListNotations.\n'
          'Require Import Grist.Lib.JsPrelude Grist.Model.JsSchema.\nOpen Scope Z_scope.\n\n')


def translate_all(gen_path, usertypes_path):
  return HEADER + translate_gen_js_schema(gen_path) + '\n' + translate_usertypes(usertypes_path)
