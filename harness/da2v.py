"""da2v -- docactions.py (and the K1 glue around it) -> Coq, for C01/C03 (kernel K1).

Fail closed.  For every method of docactions.DocActions the EFFECT PROGRAM is extracted: in source order, the undo actions
it appends (constructor and argument expressions), the calls it makes on out_actions.summary, the calls that change the
document, early returns, and the guards (if / for) around them.  It is written to coq/gen/DocActions_gen.v as data
(`gen_effects`) and bridged in Proofs/DocActions_bridge.v to the table the ActionLog model was written from, which in turn is
proved to describe Model.ActionLog.apply_doc path by path.  Everything of a method that is NOT an effect (the statements that
compute the undo values, the assertions) is pinned by a hash of its AST that ignores comments, docstrings, layout and the
names of local variables; so are ActionSummary._changes_to_actions, Engine._get_undo_checkpoint / _undo_to_checkpoint /
_recompute_step (glue the event traces cannot see)."""
import ast
import hashlib
import json
import os

from harness import core

OUT = 'self._engine.out_actions'
MUTATORS = {'add_records', 'unset', 'set', 'load_table', 'rebuild_usercode', 'copy_from_column', 'pop', 'grow_to_max',
            'new_column_name'}
METHODS = ['AddRecord', 'BulkAddRecord', 'RemoveRecord', 'BulkRemoveRecord', 'UpdateRecord', 'BulkUpdateRecord',
           'ReplaceTableData', 'AddColumn', 'RemoveColumn', 'RenameColumn', 'ModifyColumn', 'AddTable', 'RemoveTable',
           'RenameTable']
PINNED = [('engine.py', 'Engine._recompute_step')]       # the other glue functions are translated (SKELETONS)
PIN_FILE = os.path.join(core.VERIF, 'harness', 'da2v_pins.json')


class _Alpha(ast.NodeTransformer):
  """Local names (parameters and assigned names) -> v0, v1, ... in order of first occurrence."""
  def __init__(self, local):
    self.local, self.map = local, {}

  def _n(self, name):
    if name in self.local:
      return self.map.setdefault(name, 'v%d' % len(self.map))
    return name

  def visit_Name(self, node):
    return ast.copy_location(ast.Name(id=self._n(node.id), ctx=node.ctx), node)

  def visit_arg(self, node):
    return ast.copy_location(ast.arg(arg=self._n(node.arg), annotation=None), node)


def _locals(fn):
  names = {a.arg for a in fn.args.args if a.arg != 'self'}
  for n in ast.walk(fn):
    if isinstance(n, ast.Name) and isinstance(n.ctx, ast.Store):
      names.add(n.id)
  return names


def _strip_doc(body):
  if body and isinstance(body[0], ast.Expr) and isinstance(body[0].value, ast.Constant) and isinstance(body[0].value.value, str):
    return body[1:]
  return body


def norm_hash(fn, stmts=None):
  """Hash of a function (or of the given statements of it): comments, docstrings, layout and local names do not count."""
  al = _Alpha(_locals(fn))
  body = _strip_doc(fn.body) if stmts is None else stmts
  args = ','.join(al._n(a.arg) for a in fn.args.args) + '/' + ast.dump(ast.Tuple(elts=list(fn.args.defaults), ctx=ast.Load()))
  txt = args + '|' + '\n'.join(ast.dump(al.visit(ast.parse(ast.unparse(s)).body[0]), annotate_fields=False) for s in body)
  return hashlib.sha1(txt.encode()).hexdigest()[:16]


def find(path, qual):
  with open(path) as f:
    tree = ast.parse(f.read())
  cls, name = qual.split('.')
  for c in tree.body:
    if isinstance(c, ast.ClassDef) and c.name == cls:
      for n in c.body:
        if isinstance(n, ast.FunctionDef) and n.name == name:
          return n
  raise core.TieBroken('%s: %s not found' % (os.path.basename(path), qual))


# ---------------------------------------------------------------------------------------------------------
# effect programs: ('undo', ctor, [args]) ('sum', method, [args]) ('mut', callee) ('ret',) ('call', method)
#                  ('if', test, [then], [else]) ('for', iter, [body])

def _dotted(e):
  try:
    return ast.unparse(e)
  except Exception:
    return None


def _only_mut(effs):
  return all(e[0] == 'mut' or (e[0] == 'for' and _only_mut(e[2])) or (e[0] == 'if' and _only_mut(e[2]) and _only_mut(e[3]))
             for e in effs)


class Extract(object):
  def __init__(self, fn):
    self.fn = fn
    self.bound = {}        # local name -> ('undo', ctor, args) it was assigned from actions.K(...)
    self.alias = set()     # local names bound to out_actions.summary
    self.rest = []         # statements that are not effects: pinned

  def action_expr(self, e):
    """actions.K(args)[.simplify()] or a local bound to one -> (ctor, [args]); else None."""
    if isinstance(e, ast.Name) and e.id in self.bound:
      return self.bound[e.id]
    if isinstance(e, ast.Call) and isinstance(e.func, ast.Attribute) and e.func.attr == 'simplify' and not e.args:
      return self.action_expr(e.func.value)
    if isinstance(e, ast.Call) and isinstance(e.func, ast.Attribute) and isinstance(e.func.value, ast.Name) \
       and e.func.value.id == 'actions':
      if e.keywords:
        raise core.TieBroken('docactions.%s: keyword arguments in an undo action' % self.fn.name)
      return (e.func.attr, [ast.unparse(a) for a in e.args])
    return None

  def stmt(self, s):
    """-> list of effects of one statement (possibly empty: then the statement goes to the pinned rest)."""
    if isinstance(s, ast.Expr) and isinstance(s.value, ast.Call):
      c = s.value
      callee = _dotted(c.func) or ''
      if callee == OUT + '.undo.append':
        a = self.action_expr(c.args[0]) if len(c.args) == 1 else None
        if a is None:
          raise core.TieBroken('docactions.%s: undo.append of something that is not actions.K(...)' % self.fn.name)
        return [('undo', a[0], a[1])]
      if callee.startswith(OUT + '.summary.') or (callee.count('.') == 1 and callee.split('.')[0] in self.alias):
        return [('sum', callee.rsplit('.', 1)[1], [ast.unparse(a) for a in c.args])]
      if callee.startswith(OUT):
        raise core.TieBroken('docactions.%s: unexpected use of out_actions: %s' % (self.fn.name, callee))
      if callee.startswith('self.') and callee.count('.') == 1 and callee[5:] in METHODS:
        return [('call', callee[5:])]
      if callee.rsplit('.', 1)[-1] in MUTATORS:
        return [('mut', callee)]
      self.rest.append(s)
      return []
    if isinstance(s, ast.Return):
      if s.value is not None and isinstance(s.value, ast.Call) and (_dotted(s.value.func) or '')[5:] in METHODS:
        return [('call', _dotted(s.value.func)[5:])]
      if s.value is not None:
        raise core.TieBroken('docactions.%s: returns a value' % self.fn.name)
      return [('ret',)]
    if isinstance(s, ast.Assign) and len(s.targets) == 1 and isinstance(s.targets[0], ast.Name):
      a = self.action_expr(s.value)
      if a is not None:
        self.bound[s.targets[0].id] = a
        return []          # shows up where it is appended
      if ast.unparse(s.value) == OUT + '.summary':
        self.alias.add(s.targets[0].id)
        return []
      if isinstance(s.value, ast.Call) and (_dotted(s.value.func) or '').rsplit('.', 1)[-1] in MUTATORS:
        self.rest.append(s)
        return [('mut', _dotted(s.value.func))]
      if OUT in ast.unparse(s):
        raise core.TieBroken('docactions.%s: out_actions used in an assignment' % self.fn.name)
      self.rest.append(s)
      return []
    if isinstance(s, ast.If):
      th, el = self.block(s.body), self.block(s.orelse)
      if th or el:
        return [('if', ast.unparse(s.test), th, el)]
      self.rest.append(s)
      return []
    if isinstance(s, ast.For):
      if s.orelse:
        raise core.TieBroken('docactions.%s: for/else' % self.fn.name)
      body = self.block(s.body)
      if not _only_mut(body):
        raise core.TieBroken('docactions.%s: undo / summary effects inside a loop' % self.fn.name)
      if body:
        self.rest.append(ast.parse('for %s in %s: pass' % (ast.unparse(s.target), ast.unparse(s.iter))).body[0])
        return [('for', ast.unparse(s.iter), body)]
      self.rest.append(s)
      return []
    if isinstance(s, (ast.Assert, ast.Assign, ast.AugAssign, ast.Pass)):
      if OUT in ast.unparse(s):
        raise core.TieBroken('docactions.%s: out_actions used in %s' % (self.fn.name, type(s).__name__))
      self.rest.append(s)
      return []
    raise core.TieBroken('docactions.%s: statement outside the subset: %s' % (self.fn.name, type(s).__name__))

  def block(self, stmts):
    out = []
    for s in stmts:
      out.extend(self.stmt(s))
    return out

  def run(self):
    return self.block(_strip_doc(self.fn.body))


# ---------------------------------------------------------------------------------------------------------
# Coq output, paths, pins

def _q(s):
  return '"' + s.replace('"', '""') + '"'


def coq_eff(e):
  if e[0] == 'undo':
    return '(EUndo %s [%s])' % (_q(e[1]), '; '.join(_q(a) for a in e[2]))
  if e[0] == 'sum':
    return '(ESum %s [%s])' % (_q(e[1]), '; '.join(_q(a) for a in e[2]))
  if e[0] == 'mut':
    return '(EMut %s)' % _q(e[1])
  if e[0] == 'call':
    return '(ECall %s)' % _q(e[1])
  if e[0] == 'ret':
    return 'ERet'
  if e[0] == 'if':
    return '(EIf %s %s %s)' % (_q(e[1]), coq_effs(e[2]), coq_effs(e[3]))
  if e[0] == 'for':
    return '(EFor %s %s)' % (_q(e[1]), coq_effs(e[2]))
  raise core.TieBroken('unknown effect %r' % (e,))


def coq_effs(es):
  return '[' + '; '.join(coq_eff(e) for e in es) + ']'


def paths(effs):
  """All (undo constructors, summary methods) a run of the effect program can produce; a 'ret' ends the run."""
  def go(es):            # -> list of (undos, sums, finished)
    acc = [([], [], False)]
    for e in es:
      nxt = []
      for (u, m, fin) in acc:
        if fin:
          nxt.append((u, m, fin))
        elif e[0] == 'undo':
          nxt.append((u + [e[1]], m, False))
        elif e[0] == 'sum':
          nxt.append((u, m + [e[1]], False))
        elif e[0] == 'ret':
          nxt.append((u, m, True))
        elif e[0] == 'if':
          for (u2, m2, f2) in go(e[2]) + go(e[3]):
            nxt.append((u + u2, m + m2, f2))
        else:
          nxt.append((u, m, fin))
      acc = nxt
    return acc
  out = []
  for (u, m, _f) in go(effs):
    if (u, m) not in out:
      out.append((u, m))
  return out


def extract_all(grist=None):
  """{method: (effects, hash of the pinned rest)} for docactions.DocActions."""
  grist = grist or core.GRIST
  table = {}
  for name in METHODS:
    fn = find(os.path.join(grist, 'docactions.py'), 'DocActions.' + name)
    fn = _Alpha(_locals(fn)).visit(fn)          # local names do not count: v0, v1, ... in order of first occurrence
    ex = Extract(fn)
    effs = ex.run()
    table[name] = (effs, norm_hash(fn, ex.rest))
  return table


def current_pins(grist=None):
  grist = grist or core.GRIST
  pins = {'docactions.%s:rest' % k: v[1] for k, v in extract_all(grist).items()}
  for fname, qual in PINNED:
    pins['%s:%s' % (fname, qual)] = norm_hash(find(os.path.join(grist, fname), qual))
  return pins


def check_pins(grist=None):
  """[] or the list of pinned pieces whose AST is not the one the model was written from."""
  with open(PIN_FILE) as f:
    want = json.load(f)
  have = current_pins(grist)
  return sorted(k for k in want if have.get(k) != want[k]) + sorted(k for k in have if k not in want)


HEADER = '''(* GENERATED by harness/da2v.py from sandbox/grist/docactions.py -- do not edit.
   The effect program of every doc action: undo actions appended, summary calls, document mutations, early returns, guards. *)
From Coq Require Import String List.
Import ListNotations.
Require Import Grist.Model.DocEffects.
Open Scope string_scope.

'''


def regenerate(ctx=None, grist=None, out=None):
  table = extract_all(grist)
  bad = check_pins(grist)
  if bad:
    raise core.TieBroken('K1 pins: the source of %s is not the text the ActionLog model was written from' % ', '.join(bad))
  lines = [HEADER, 'Definition gen_effects : list (string * list eff) :=\n  [ ']
  lines.append(';\n    '.join('(%s, %s)' % (_q(k), coq_effs(table[k][0])) for k in METHODS))
  lines.append(' ].\n\n')
  lines.append(skeletons_text(grist))
  path = out or os.path.join(core.VERIF, 'coq', 'gen', 'DocActions_gen.v')
  txt = ''.join(lines)
  old = open(path).read() if os.path.exists(path) else None
  if old != txt:
    with open(path, 'w') as f:
      f.write(txt)
  return table


def undo_kinds_ok(table, action_repr, undo_reprs):
  """Differential check of one recorded doc action: the constructors of the undo actions the ENGINE appended are one of the
  paths of the extracted effect program (up to .simplify(): Bulk forms may come out as single-record forms or vanish)."""
  name = action_repr[0]
  effs = table[name][0]
  while len(effs) == 1 and effs[0][0] == 'call':
    effs = table[effs[0][1]][0]
  got = [u[0].replace('Bulk', '') for u in undo_reprs if u is not None]
  for (u, _m) in paths(effs):
    want = [k.replace('Bulk', '') for k in u]
    if got == want:
      return True
    # simplify() of an empty bulk action is None: the recorder drops it
    if len(got) < len(want) and all(g in want for g in got) and None in undo_reprs:
      return True
  return False


if __name__ == '__main__':
  import sys
  if '--write-pins' in sys.argv:
    with open(PIN_FILE, 'w') as f:
      json.dump(current_pins(), f, indent=1, sort_keys=True)
  t = extract_all()
  for k in METHODS:
    print(k, paths(t[k][0]) if not (len(t[k][0]) == 1 and t[k][0][0][0] == 'call') else t[k][0])


# ---------------------------------------------------------------------------------------------------------
# skeletons: glue functions translated statement by statement (control structure kept, simple statements as normalised text)

SKELETONS = [('action_summary.py', 'ActionSummary._changes_to_actions'), ('engine.py', 'Engine._get_undo_checkpoint'),
             ('engine.py', 'Engine._undo_to_checkpoint'), ('useractions.py', 'UserActions.doModifyColumn')]


def _sk(stmts, where):
  out = []
  for s in stmts:
    if isinstance(s, ast.If):
      out.append('(SIf %s %s %s)' % (_q(ast.unparse(s.test)), _sk(s.body, where), _sk(s.orelse, where)))
    elif isinstance(s, ast.Return):
      out.append('(SRet %s)' % _q(ast.unparse(s.value) if s.value is not None else ''))
    elif isinstance(s, ast.For) and not s.orelse:
      out.append('(SFor %s %s)' % (_q(ast.unparse(s.target) + ' in ' + ast.unparse(s.iter)), _sk(s.body, where)))
    elif isinstance(s, ast.Try) and not s.handlers and not s.orelse:
      out.append('(STry %s %s)' % (_sk(s.body, where), _sk(s.finalbody, where)))
    elif isinstance(s, ast.FunctionDef):
      out.append('(SDef %s %s)' % (_q(s.name + '(' + ast.unparse(s.args) + ')'), _sk(_strip_doc(s.body), where)))
    elif isinstance(s, (ast.Assign, ast.AugAssign, ast.Expr, ast.Delete, ast.Assert, ast.Pass)):
      out.append('(SStmt %s)' % _q(ast.unparse(s)))
    else:
      raise core.TieBroken('%s: statement outside the skeleton subset: %s' % (where, type(s).__name__))
  return '[' + '; '.join(out) + ']'


def skeleton(path, qual):
  fn = find(path, qual)
  loc = _locals(fn)
  for n in ast.walk(fn):                      # parameters and locals of nested defs are local names too
    if isinstance(n, ast.FunctionDef) and n is not fn:
      loc |= _locals(n) | {n.name}
  fn = _Alpha(loc).visit(fn)
  return '(%s, %s)' % (_q(qual + '(' + ast.unparse(fn.args) + ')'), _sk(_strip_doc(fn.body), qual))


def skeletons_text(grist=None):
  grist = grist or core.GRIST
  return 'Definition gen_skeletons : list (string * list sk) :=\n  [ ' + \
         ';\n    '.join(skeleton(os.path.join(grist, f), q) for f, q in SKELETONS) + ' ].\n'
