"""
tb2v -- fail-closed translator from the functions and methods of /repo/sandbox/grist/textbuilder.py to Gallina
(used by harness/props/c37.py; the other translators py2v / py2v_ext / sl2v are left untouched).

What is specific here: methods with `self` fields.  A field read by a method is a parameter of the generated
function (`self._x` -> `self_x`); a field assigned by `__init__` is a local whose final value is part of the
result tuple.  Calls that leave the translated unit (another builder's get_text / map_back_patch, isinstance on
the input builder, indexing self._parts) are *opaque*: the binding names the Coq parameter that stands for them.

Statements:  x = e | self._x = e | x += e | x.append(e) | f(...) (may raise) | if / if-raise / if-return |
             for x in e (no break/continue/return) | assert | raise ValueError/AssertionError | return e
Blocks that may raise are in the `res` monad of Model/TextBuilder.v (`bind`, `fold_res`); functions declared
pure are plain terms.  Everything else aborts with Untranslatable.
"""
import ast

ELEM = {'LZ': 'Z', 'Ltext': 'text', 'Lpatch': 'patch', 'Lgpart': 'gpart'}
COQTY = {'Z': 'Z', 'B': 'bool', 'text': 'text', 'LZ': '(list Z)', 'Ltext': '(list text)', 'patch': 'patch',
         'Lpatch': '(list patch)', 'gpart': 'gpart', 'Lgpart': '(list gpart)', 'gmpart': 'gmpart', 'unit': 'unit',
         'mapped': 'mapped'}
PATCH_ATTR = {'start': ('p_start', 'Z'), 'end': ('p_end', 'Z'), 'old_text': ('p_old', 'text'),
              'new_text': ('p_new', 'text')}
ZCMP = {ast.Eq: '(%s =? %s)', ast.NotEq: 'negb (%s =? %s)', ast.Lt: '(%s <? %s)', ast.LtE: '(%s <=? %s)',
        ast.Gt: '(%s >? %s)', ast.GtE: '(%s >=? %s)'}
ERRORS = {'ValueError': 'ValueError', 'AssertionError': 'AssertionError'}


class Untranslatable(Exception):
  pass


def fail(node, msg):
  raise Untranslatable('%s (line %s: %s)' % (msg, getattr(node, 'lineno', '?'),
                                             ast.unparse(node)[:80] if isinstance(node, ast.AST) else node))


def coq_ty(t):
  if isinstance(t, tuple):
    return '(' + ' * '.join(coq_ty(x) for x in t) + ')'
  return COQTY[t]


def coq_name(key):
  """'self._x' -> 'self_x'; a Python name that is a Coq keyword gets a trailing underscore."""
  n = key.replace('self._', 'self_')
  return n + '_' if n in ('end', 'at', 'in', 'fun', 'match', 'with', 'let', 'if', 'then', 'else', 'return',
                          'text', 'patch', 'parts') else n


def key_of(node):
  """Variable key of an assignable / readable place: a name, or a field of self."""
  if isinstance(node, ast.Name):
    return node.id
  if isinstance(node, ast.Attribute) and isinstance(node.value, ast.Name) and node.value.id == 'self':
    return 'self.' + node.attr
  return None


class Spec(object):
  """What to translate and how its surroundings are named.
    cls, pyname : where the function is;  name : Coq name
    params      : [(key, type)] in order: self fields ('self._x'), opaque parameters, Python arguments
    ret         : ('pure', type) or ('res', type)
    result      : for __init__: the keys whose final values form the result tuple
    locals      : {key: type} for names whose first value is an empty list
    opaque      : {unparsed expression or callee: (Coq term, [arg types], result type, monadic?)}
    skip        : unparsed statements that only store an opaque object (e.g. 'self._in_builder = in_builder')
    funcs       : the module-level / method callees: {callee: (Coq term, [arg types], result type, monadic?)}
  """
  def __init__(self, **kw):
    self.locals = {}
    self.opaque = {}
    self.skip = ()
    self.result = None
    self.funcs = {}
    self.__dict__.update(kw)


class Tr(object):
  def __init__(self, spec):
    self.spec = spec
    self.monadic = spec.ret[0] == 'res'
    self.ret_ty = spec.ret[1]
    self.defs = []          # auxiliary definitions (loop bodies), in order
    self.nloops = 0

  # ---------------------------------------------------------------- expressions (pure)
  def expr(self, n, env):
    """-> (coq term, type)"""
    k = key_of(n)
    if k is not None:
      if k not in env:
        fail(n, 'unknown name')
      return env[k]
    src = ast.unparse(n)
    if src in self.spec.opaque and not self.spec.opaque[src][1] and not self.spec.opaque[src][3]:
      return self.spec.opaque[src][0], self.spec.opaque[src][2]       # an opaque expression (no arguments)
    if isinstance(n, ast.Constant):
      if isinstance(n.value, bool) or n.value is None:
        fail(n, 'constant')
      if isinstance(n.value, int):
        return ('(%d)' % n.value if n.value < 0 else '%d' % n.value), 'Z'
      if n.value == '':
        return '[]', 'text'
      fail(n, 'constant')
    if isinstance(n, ast.Attribute):
      v, t = self.expr(n.value, env)
      if t == 'patch' and n.attr in PATCH_ATTR:
        f, ty = PATCH_ATTR[n.attr]
        return '(%s %s)' % (f, v), ty
      fail(n, 'attribute')
    if isinstance(n, ast.BinOp):
      a, ta = self.expr(n.left, env)
      b, tb = self.expr(n.right, env)
      op = {ast.Add: '+', ast.Sub: '-', ast.Mult: '*'}.get(type(n.op))
      if op is None or ta != 'Z' or tb != 'Z':
        fail(n, 'arithmetic')
      return '(%s %s %s)' % (a, op, b), 'Z'
    if isinstance(n, ast.UnaryOp) and isinstance(n.op, ast.Not):
      a, ta = self.expr(n.operand, env)
      if ta != 'B':
        fail(n, 'not')
      return 'negb %s' % a, 'B'
    if isinstance(n, ast.UnaryOp) and isinstance(n.op, ast.USub) and isinstance(n.operand, ast.Constant) \
       and isinstance(n.operand.value, int):
      return '(-%d)' % n.operand.value, 'Z'
    if isinstance(n, ast.BoolOp):
      parts = [self.expr(v, env) for v in n.values]
      if any(t != 'B' for _c, t in parts):
        fail(n, 'boolean operator')
      op = ' || ' if isinstance(n.op, ast.Or) else ' && '
      return '(' + op.join(c for c, _t in parts) + ')', 'B'
    if isinstance(n, ast.Compare):
      if len(n.ops) != 1:
        fail(n, 'chained comparison')
      a, ta = self.expr(n.left, env)
      b, tb = self.expr(n.comparators[0], env)
      op = type(n.ops[0])
      if ta == 'Z' and tb == 'Z' and op in ZCMP:
        return ZCMP[op] % (a, b), 'B'
      if ta == 'text' and tb == 'text' and op in (ast.Eq, ast.NotEq):
        c = 'text_eqb %s %s' % (a, b)
        return ('(%s)' % c if op is ast.Eq else 'negb (%s)' % c), 'B'
      fail(n, 'comparison')
    if isinstance(n, ast.Subscript) and ast.unparse(n.value) + '[]' in self.spec.opaque:
      term, args, ty, _mon = self.spec.opaque[ast.unparse(n.value) + '[]']
      return self.call_args(term, [n.slice], args, env), ty
    if isinstance(n, ast.Subscript):
      v, t = self.expr(n.value, env)
      if isinstance(n.slice, ast.Slice):
        if t != 'text' or n.slice.step is not None:
          fail(n, 'slice')
        lo = self.typed(n.slice.lower, env, 'Z') if n.slice.lower is not None else '0'
        if n.slice.upper is None:
          return '(py_slice_from %s %s)' % (v, lo), 'text'
        return '(py_slice %s %s %s)' % (v, lo, self.typed(n.slice.upper, env, 'Z')), 'text'
      if t == 'LZ':
        return '(py_index %s %s)' % (v, self.typed(n.slice, env, 'Z')), 'Z'
      fail(n, 'subscript')
    if isinstance(n, ast.IfExp):
      c, tc, narrow = self.cond(n.test, env)
      a, ta = self.expr(n.body, dict(env, **narrow))
      b, tb = self.expr(n.orelse, env)
      if ta != tb:
        fail(n, 'branches of different types')
      return '(if %s then %s else %s)' % (c, a, b), ta
    if isinstance(n, ast.List):
      if len(n.elts) == 1:
        e, te = self.expr(n.elts[0], env)
        for lt, et in ELEM.items():
          if et == te:
            return '[%s]' % e, lt
      fail(n, 'list display')
    if isinstance(n, ast.ListComp):
      if len(n.generators) != 1 or n.generators[0].ifs or not isinstance(n.generators[0].target, ast.Name):
        fail(n, 'comprehension')
      it, tit = self.expr(n.generators[0].iter, env)
      if tit not in ELEM:
        fail(n, 'comprehension over a non-list')
      x = n.generators[0].target.id
      e, te = self.expr(n.elt, dict(env, **{x: (coq_name(x), ELEM[tit])}))
      for lt, et in ELEM.items():
        if et == te:
          return '(map (fun %s => %s) %s)' % (coq_name(x), e, it), lt
      fail(n, 'comprehension element type')
    if isinstance(n, ast.Tuple) and len(n.elts) == 4:
      return self.call_args('', n.elts, ['Z', 'Z', 'text', 'text'], env, tuple_=True), 'patch'
    if isinstance(n, ast.Call):
      return self.call(n, env)
    fail(n, 'expression')

  def typed(self, n, env, ty):
    c, t = self.expr(n, env)
    if t != ty:
      fail(n, 'expected %s, found %s' % (ty, t))
    return c

  def call_args(self, f, args, tys, env, tuple_=False):
    if len(args) != len(tys):
      fail(args[0] if args else f, 'number of arguments')
    cs = [self.typed(a, env, t) for a, t in zip(args, tys)]
    if tuple_:
      return '(' + ', '.join(cs) + ')'
    return '(%s %s)' % (f, ' '.join(cs)) if cs else f

  def cond(self, n, env):
    """condition -> (term, 'B', narrowing of the true branch)"""
    if isinstance(n, ast.Call) and isinstance(n.func, ast.Name) and n.func.id == 'isinstance' and \
       len(n.args) == 2 and isinstance(n.args[0], ast.Name) and isinstance(n.args[1], ast.Name):
      x, cls = n.args[0].id, n.args[1].id
      v, t = self.expr(n.args[0], env)
      if t == 'gpart' and cls == 'str':
        return '(gp_is_str %s)' % v, 'B', {x: ('(gp_str %s)' % v, 'text')}
      if t == 'gpart' and cls == 'bytes':
        return '(gp_is_bytes %s)' % v, 'B', {}
      if t == 'gmpart' and cls == 'str':
        return '(gm_is_str %s)' % v, 'B', {}
    c, t = self.expr(n, env)
    if t != 'B':
      fail(n, 'condition is not a boolean')
    return c, 'B', {}

  def callee(self, n, env):
    """-> (Coq term, [arg types], result type, monadic?) of a call to a known function, or None"""
    src = ast.unparse(n.func)
    for table in (self.spec.opaque, self.spec.funcs):
      if src in table:
        return table[src]
    if isinstance(n.func, ast.Attribute) and isinstance(n.func.value, ast.Name) and n.func.value.id in env:
      v, t = env[n.func.value.id]
      if t == 'gmpart' and n.func.attr == 'map_back_patch':
        return ('gm_map_back %s' % v, ['patch'], 'mapped', True)
    return None

  def call(self, n, env):
    if n.keywords:
      fail(n, 'keyword arguments')
    f = n.func
    src = ast.unparse(f)
    known = self.callee(n, env)
    if known is not None:
      term, args, ty, mon = known
      if mon:
        fail(n, 'call that may raise inside an expression')
      return self.call_args(term, n.args, args, env), ty
    if src == 'len' and len(n.args) == 1:
      v, t = self.expr(n.args[0], env)
      if t in ELEM or t == 'text':
        return '(len %s)' % v, 'Z'
    if src in ('min', 'max') and len(n.args) == 2:
      return self.call_args('Z.' + src, n.args, ['Z', 'Z'], env), 'Z'
    if src == 'sorted' and len(n.args) == 1:
      return self.call_args('sort_patches', n.args, ['Lpatch'], env), 'Lpatch'
    if src in ('bisect.bisect_right', 'bisect.bisect_left'):
      return self.call_args(src.split('.')[1], n.args, ['LZ', 'Z'], env), 'Z'
    if src == 'Patch':
      return self.call_args('', n.args, ['Z', 'Z', 'text', 'text'], env, tuple_=True), 'patch'
    if src == "''.join" and len(n.args) == 1:
      return self.call_args('concat', n.args, ['Ltext'], env), 'text'
    if isinstance(f, ast.Attribute) and isinstance(f.value, ast.Name) and f.value.id in env:
      v, t = env[f.value.id]
      if t == 'gpart' and f.attr == 'get_text' and not n.args:
        return '(gp_get_text %s)' % v, 'text'
      if t == 'gpart' and f.attr == 'decode' and [ast.unparse(a) for a in n.args] == ["'utf8'"]:
        return '(gp_decode %s)' % v, 'text'
    fail(n, 'call')

  # ---------------------------------------------------------------- statements
  def ok(self, term):
    return 'Ok %s' % term if self.monadic else term

  def tuple_of(self, keys, env):
    cs = [env[k][0] for k in keys]
    return cs[0] if len(cs) == 1 else '(' + ', '.join(cs) + ')'

  def pattern(self, keys, env):
    """binder text for the values of `keys` (as (fun st => let '(..) := st in ...)) -> (binder, opener)"""
    if len(keys) == 1:
      return env[keys[0]][0], ''
    return 'st', "let '(%s) := st in\n" % ', '.join(env[k][0] for k in keys)

  def monadic_value(self, n, env):
    """A call in the res monad (or None): -> (term, type)"""
    if isinstance(n, ast.Call):
      if ast.unparse(n) in self.spec.opaque and self.spec.opaque[ast.unparse(n)][3]:
        e = self.spec.opaque[ast.unparse(n)]
        return e[0], e[2]
      known = self.callee(n, env)
      if known is not None and known[3]:
        if not self.monadic:
          fail(n, 'call that may raise in a function declared pure')
        return self.call_args(known[0], n.args, known[1], env), known[2]
    return None

  def assigned(self, stmts):
    """keys assigned in a block, in order of first assignment"""
    out = []
    def add(k):
      if k is not None and k not in out:
        out.append(k)
    for s in stmts:
      if isinstance(s, ast.Assign):
        for t in s.targets:
          add(key_of(t) or fail(s, 'assignment target'))
      elif isinstance(s, ast.AugAssign):
        add(key_of(s.target) or fail(s, 'assignment target'))
      elif isinstance(s, ast.Expr) and isinstance(s.value, ast.Call) and isinstance(s.value.func, ast.Attribute) \
           and s.value.func.attr == 'append':
        add(key_of(s.value.func.value) or fail(s, 'append target'))
      elif isinstance(s, ast.If):
        for k in self.assigned(s.body) + self.assigned(s.orelse):
          add(k)
      elif isinstance(s, (ast.For, ast.While, ast.With, ast.Try)):
        fail(s, 'nested compound statement')
    return out

  def terminates(self, stmts):
    return bool(stmts) and isinstance(stmts[-1], (ast.Raise, ast.Return))

  def ret(self, n, env):
    """`return n` in the function's mode"""
    if n is None:
      fail(n, 'bare return')
    if isinstance(n, ast.IfExp) and self.monadic:
      c, _t, narrow = self.cond(n.test, env)
      return '(if %s then %s else %s)' % (c, self.ret(n.body, dict(env, **narrow)), self.ret(n.orelse, env))
    mv = self.monadic_value(n, env)
    if mv is not None:
      if mv[1] != self.ret_ty:
        fail(n, 'returns %s, declared %s' % (mv[1], self.ret_ty))
      return mv[0]
    if self.ret_ty == 'mapped':
      if isinstance(n, ast.Constant) and n.value is None:
        return self.ok('None')
      if isinstance(n, ast.Tuple) and len(n.elts) == 3:
        cs = [self.typed(e, env, t) for e, t in zip(n.elts, ['text', 'Z', 'patch'])]
        return self.ok('(Some (%s))' % ', '.join(cs))
      fail(n, 'return value')
    return self.ok(self.typed(n, env, self.ret_ty))

  def bind_var(self, key, term, ty, env):
    env = dict(env)
    env[key] = (coq_name(key), ty)
    return env

  def block(self, stmts, env, end):
    """Translates a statement list; `end(env)` is the term for falling off its end."""
    if not stmts:
      return end(env)
    s, rest = stmts[0], stmts[1:]
    go = lambda e: self.block(rest, e, end)
    if ast.unparse(s) in self.spec.skip:
      return go(env)
    if isinstance(s, ast.Expr) and isinstance(s.value, ast.Constant) and isinstance(s.value.value, str):
      return go(env)                                            # docstring
    if isinstance(s, ast.Return):
      if rest:
        fail(rest[0], 'statement after return')
      return self.ret(s.value, env)
    if isinstance(s, ast.Raise):
      exc = s.exc.func.id if isinstance(s.exc, ast.Call) and isinstance(s.exc.func, ast.Name) else None
      if exc not in ERRORS or not self.monadic or rest:
        fail(s, 'raise')
      return ERRORS[exc]                                       # the message is dropped
    if isinstance(s, ast.Assert):
      if not self.monadic or s.msg is not None:
        fail(s, 'assert')
      c, _t, _n = self.cond(s.test, env)
      return 'if %s then\n%s\nelse AssertionError' % (c, go(env))
    if isinstance(s, ast.Assign) and len(s.targets) == 1:
      key = key_of(s.targets[0]) or fail(s, 'assignment target')
      mv = self.monadic_value(s.value, env)
      if mv is not None:
        env2 = self.bind_var(key, None, mv[1], env)
        return 'bind (%s) (fun %s =>\n%s)' % (mv[0], coq_name(key), go(env2))
      if isinstance(s.value, ast.List) and not s.value.elts:
        if key not in self.spec.locals:
          fail(s, 'empty list of undeclared type')
        ty = self.spec.locals[key]
        term = '(@nil %s)' % COQTY[ELEM[ty]]
      else:
        term, ty = self.expr(s.value, env)
      if key in env and env[key][1] != ty:
        fail(s, 'variable changes its type')
      return 'let %s := %s in\n%s' % (coq_name(key), term, go(self.bind_var(key, term, ty, env)))
    if isinstance(s, ast.AugAssign):
      key = key_of(s.target) or fail(s, 'assignment target')
      op = {ast.Add: '+', ast.Sub: '-'}.get(type(s.op)) or fail(s, 'augmented assignment')
      if key not in env or env[key][1] != 'Z':
        fail(s, 'augmented assignment to a non-integer')
      return 'let %s := (%s %s %s) in\n%s' % (coq_name(key), env[key][0], op, self.typed(s.value, env, 'Z'), go(env))
    if isinstance(s, ast.Expr) and isinstance(s.value, ast.Call):
      c = s.value
      if isinstance(c.func, ast.Attribute) and c.func.attr == 'append' and len(c.args) == 1 and not c.keywords:
        key = key_of(c.func.value) or fail(s, 'append target')
        if key not in env or env[key][1] not in ELEM:
          fail(s, 'append to a non-list')
        e = self.typed(c.args[0], env, ELEM[env[key][1]])
        return 'let %s := %s ++ [%s] in\n%s' % (coq_name(key), env[key][0], e, go(env))
      mv = self.monadic_value(c, env)
      if mv is None:
        fail(s, 'expression statement')
      return 'bind (%s) (fun _ =>\n%s)' % (mv[0], go(env))
    if isinstance(s, ast.If):
      c, _t, narrow = self.cond(s.test, env)
      if self.terminates(s.body) and not s.orelse:
        return 'if %s then\n%s\nelse\n%s' % (c, self.block(s.body, dict(env, **narrow), end), go(env))
      if self.terminates(s.body) or self.terminates(s.orelse):
        fail(s, 'if with a branch that ends the function')
      keys = self.assigned(s.body + s.orelse)
      if not keys or any(k not in env for k in keys):
        fail(s, 'if assigns a variable that has no value before it')
      join = lambda e: self.ok(self.tuple_of(keys, e))
      bt = self.block(s.body, dict(env, **narrow), join)
      bf = self.block(s.orelse, env, join)
      binder, opener = self.pattern(keys, env)
      if self.monadic:
        return 'bind (if %s then\n%s\nelse\n%s) (fun %s =>\n%s%s)' % (c, bt, bf, binder, opener, go(env))
      return "let %s := (if %s then\n%s\nelse\n%s) in\n%s" % (
        binder if len(keys) == 1 else "'(%s)" % ', '.join(env[k][0] for k in keys), c, bt, bf, go(env))
    if isinstance(s, ast.For):
      return self.loop(s, env, go)
    fail(s, 'statement')

  def loop(self, s, env, go):
    if s.orelse or not isinstance(s.target, ast.Name) or not self.monadic:
      fail(s, 'for')
    it, tit = self.expr(s.iter, env)
    if tit not in ELEM:
      fail(s, 'loop over a non-list')
    for sub in ast.walk(s):
      if isinstance(sub, (ast.Return, ast.Break, ast.Continue)):
        fail(sub, 'return/break/continue in a loop')
    x = s.target.id
    if x in env:
      fail(s, 'loop variable shadows a name')
    state = [k for k in self.assigned(s.body) if k in env]
    fresh = [k for k in self.assigned(s.body) if k not in env]
    if not state:
      fail(s, 'loop without state')
    used = set()
    for st in s.body:
      for sub in ast.walk(st):
        k = key_of(sub)
        if k is not None:
          used.add(k)
    captured = [k for k in env if k in used and k not in state]
    self.nloops += 1
    name = '%s_loop%d' % (self.spec.name, self.nloops)
    benv = dict(env)
    benv[x] = (coq_name(x), ELEM[tit])
    body = self.block(s.body, benv, lambda e: self.ok(self.tuple_of(state, e)))
    st_ty = coq_ty(tuple(env[k][1] for k in state)) if len(state) > 1 else coq_ty(env[state[0]][1])
    binder, opener = self.pattern(state, env)
    self.defs.append('Definition %s %s(%s : %s) (%s : %s) : res %s :=\n%s%s.' % (
      name, ''.join('(%s : %s) ' % (env[k][0], coq_ty(env[k][1])) for k in captured),
      binder, st_ty, coq_name(x), coq_ty(ELEM[tit]), st_ty, opener, body))
    call = '%s%s' % (name, ''.join(' ' + env[k][0] for k in captured))
    env2 = {k: v for k, v in env.items() if k not in fresh}
    return 'bind (fold_res (%s) %s %s) (fun %s =>\n%s%s)' % (
      call, it, self.tuple_of(state, env), binder, opener, go(env2))


def find_function(tree, cls, name):
  body = tree.body
  if cls is not None:
    for n in tree.body:
      if isinstance(n, ast.ClassDef) and n.name == cls:
        body = n.body
        break
    else:
      raise Untranslatable('class %s not found' % cls)
  found = [n for n in body if isinstance(n, ast.FunctionDef) and n.name == name]
  if len(found) != 1:
    raise Untranslatable('%s.%s not found exactly once' % (cls, name))
  return found[0]


def indent(term):
  """one nesting level per open `(fun`, `if`...: purely cosmetic"""
  out, depth = [], 1
  for line in term.split('\n'):
    out.append('  ' * depth + line)
  return '\n'.join(out)


def translate(tree, spec):
  fn = find_function(tree, spec.cls, spec.pyname)
  if fn.decorator_list or fn.args.vararg or fn.args.kwarg or fn.args.kwonlyargs or fn.args.defaults:
    fail(fn, 'signature')
  pyargs = [a.arg for a in fn.args.args if a.arg != 'self']
  env = {}
  for key, ty in spec.params:
    if ty in COQTY:
      env[key] = (coq_name(key), ty)
  declared = set(k for k, _t in spec.params) | set(getattr(spec, 'opaque_args', ()))
  for a in pyargs:
    if a not in declared:
      fail(fn, 'argument %s has no declared type' % a)
  tr = Tr(spec)
  def end(e):
    if spec.result is not None:
      return tr.ok(tr.tuple_of(spec.result, e))
    if spec.ret == ('res', 'unit'):
      return 'Ok tt'
    fail(fn, 'function can fall off its end')
  term = tr.block(fn.body, env, end)
  ret = coq_ty(spec.ret[1])
  ret = 'res %s' % ret if spec.ret[0] == 'res' else ret
  params = ' '.join('(%s : %s)' % (coq_name(k), COQTY.get(ty, ty)) for k, ty in spec.params)
  return '\n\n'.join(tr.defs + ['Definition %s %s : %s :=\n%s.' % (spec.name, params, ret, indent(term))])


# ------------------------------------------------------------------------------------------------
# textbuilder.py: what is translated

VALIDATE = {'validate_patch': ('gen_validate_patch', ['text', 'patch'], 'unit', True)}
IO = [('self._input_offsets', 'LZ'), ('self._output_offsets', 'LZ')]
GET_POS = {'self.get_input_pos': ('gen_get_input_pos self_input_offsets self_output_offsets', ['Z'], 'Z', False)}
IN_TEXT = {'self._in_builder.get_text()': ('in_text', [], 'text', False)}

SPECS = [
  Spec(cls=None, pyname='make_patch', name='gen_make_patch', ret=('pure', 'patch'),
       params=[('full_text', 'text'), ('start', 'Z'), ('end', 'Z'), ('new_text', 'text')]),
  Spec(cls=None, pyname='validate_patch', name='gen_validate_patch', ret=('res', 'unit'),
       params=[('text', 'text'), ('patch', 'patch')]),
  Spec(cls='Text', pyname='get_text', name='gen_text_get_text', ret=('pure', 'text'),
       params=[('self._text', 'text')]),
  Spec(cls='Text', pyname='map_back_patch', name='gen_text_map_back', ret=('res', 'mapped'),
       params=[('self._text', 'text'), ('self._value', 'Z'), ('patch', 'patch')]),
  Spec(cls='Replacer', pyname='__init__', name='gen_replacer_init', ret=('res', ('LZ', 'LZ', 'text')),
       params=[('in_text', 'text'), ('patches', 'Lpatch')], opaque_args=('in_builder',),
       skip=('self._in_builder = in_builder',), opaque=IN_TEXT, funcs=VALIDATE, locals={'out_parts': 'Ltext'},
       result=['self._input_offsets', 'self._output_offsets', 'self._output_text']),
  Spec(cls='Replacer', pyname='get_text', name='gen_replacer_get_text', ret=('pure', 'text'),
       params=[('self._output_text', 'text')]),
  Spec(cls='Replacer', pyname='get_input_pos', name='gen_get_input_pos', ret=('pure', 'Z'),
       params=IO + [('out_pos', 'Z')]),
  Spec(cls='Replacer', pyname='map_back_patch', name='gen_replacer_map_back', ret=('res', 'mapped'),
       params=IO + [('self._output_text', 'text'), ('in_text', 'text'),
                    ('inner_map_back', 'patch -> res mapped'), ('patch', 'patch')],
       opaque=dict(IN_TEXT, **{'self._in_builder.map_back_patch': ('inner_map_back', ['patch'], 'mapped', True)}),
       funcs=dict(VALIDATE, **dict(GET_POS, make_patch=('gen_make_patch', ['text', 'Z', 'Z', 'text'], 'patch', False)))),
  Spec(cls='Replacer', pyname='map_back_offset', name='gen_map_back_offset', ret=('res', 'Z'),
       params=IO + [('inner_is_replacer', 'bool'), ('inner_map_back_offset', 'Z -> res Z'), ('out_pos', 'Z')],
       opaque={'isinstance(self._in_builder, Replacer)': ('inner_is_replacer', [], 'B', False),
               'self._in_builder.map_back_offset': ('inner_map_back_offset', ['Z'], 'Z', True)},
       funcs=GET_POS),
  Spec(cls='Combiner', pyname='__init__', name='gen_combiner_init', ret=('res', ('LZ', 'text')),
       params=[('parts', 'Lgpart')], locals={'self._offsets': 'LZ'}, result=['self._offsets', 'self._text']),
  Spec(cls='Combiner', pyname='get_text', name='gen_combiner_get_text', ret=('pure', 'text'),
       params=[('self._text', 'text')]),
  Spec(cls='Combiner', pyname='map_back_patch', name='gen_combiner_map_back', ret=('res', 'mapped'),
       params=[('self._text', 'text'), ('self._offsets', 'LZ'), ('part_at', 'Z -> gmpart'), ('patch', 'patch')],
       opaque={'self._parts[]': ('part_at', ['Z'], 'gmpart', False)}, funcs=VALIDATE),
]

HEADER = '''(* GENERATED by /verif/harness/tb2v.py from %s -- do not edit; regenerated on every run. *)
From Coq Require Import ZArith List Bool.
Import ListNotations.
Require Import Grist.Model.TextBuilder Grist.Lib.TbPrelude.
Open Scope Z_scope.

'''


def generate(source_path):
  with open(source_path) as f:
    tree = ast.parse(f.read())
  return HEADER % source_path + '\n\n'.join(translate(tree, spec) for spec in SPECS) + '\n'


if __name__ == '__main__':
  import sys
  print(generate(sys.argv[1]))
