"""
Helpers to drive the REAL Grist data engine from the harness process (DESIGN.md section 2.1 / 4.4).
The engine is imported from core.GRIST (= $VERIF_REPO/sandbox/grist), so checks always see the current tree.
"""
import copy
import json
import logging
import sys

from harness import core

core.setup_impl_path()
logging.disable(logging.CRITICAL)

import actions            # noqa: E402
import engine as engine_mod   # noqa: E402
import objtypes           # noqa: E402
import schema             # noqa: E402
import useractions        # noqa: E402


def ua(a):
  return useractions.from_repr(copy.deepcopy(a))


def new_engine():
  e = engine_mod.Engine()
  e.load_empty()
  return e


def new_doc():
  """A fresh document as the product creates it; returns (engine, ActionGroup of InitNewDoc)."""
  e = new_engine()
  out = e.apply_user_actions([ua(['InitNewDoc'])])
  return e, out


def apply(e, bundle, user=None):
  """Apply a bundle given as a list of repr lists.  Raises whatever the engine raises."""
  return e.apply_user_actions([ua(a) for a in bundle], user)


def reprs(doc_actions):
  return [actions.get_action_repr(a) for a in doc_actions]


def user_tables(e):
  return sorted(t for t in e.tables if not t.startswith('_grist_'))


def norm(x):
  """Canonical, JSON-able form of encoded cell values (never compares float text or object identity)."""
  if isinstance(x, bool) or x is None or isinstance(x, str):
    return x
  if isinstance(x, int):
    return x if abs(x) < 2 ** 53 else 'int:' + repr(x)
  if isinstance(x, float):
    if x != x:
      return 'NaN'
    if x in (float('inf'), float('-inf')):
      return repr(x)
    if x == int(x) and abs(x) < 2 ** 53:
      return int(x)          # 1.0 and 1 are the same cell value for Node/JSON
    return 'f:' + x.hex()
  if isinstance(x, (list, tuple)):
    return [norm(i) for i in x]
  if isinstance(x, dict):
    return {str(k): norm(v) for k, v in sorted(x.items(), key=lambda kv: str(kv[0]))}
  if isinstance(x, bytes):
    return 'b:' + x.hex()
  return 'obj:' + repr(x)


def snapshot(e, formulas=True, tables=None):
  """{table: {'ids': [...], 'cols': {col: [encoded...]}}} for every table, encoded as in engine replies."""
  out = {}
  for t in sorted(tables if tables is not None else e.tables):
    rep = actions.get_action_repr(e.fetch_table(t, formulas=formulas))
    out[t] = {'ids': list(rep[2]), 'cols': {c: norm(v) for c, v in sorted(rep[3].items())}}
  return out


def canon(d):
  return json.dumps(d, sort_keys=True, default=repr)


def diff_snapshots(a, b, limit=6):
  """Human-readable list of differences between two snapshots."""
  out = []
  for t in sorted(set(a) | set(b)):
    if t not in a:
      out.append('table %s only in second' % t)
      continue
    if t not in b:
      out.append('table %s only in first' % t)
      continue
    if a[t]['ids'] != b[t]['ids']:
      out.append('%s: row ids %r vs %r' % (t, a[t]['ids'][:12], b[t]['ids'][:12]))
      continue
    for c in sorted(set(a[t]['cols']) | set(b[t]['cols'])):
      va, vb = a[t]['cols'].get(c, '<no column>'), b[t]['cols'].get(c, '<no column>')
      if va != vb:
        if isinstance(va, list) and isinstance(vb, list) and len(va) == len(vb):
          for i, (x, y) in enumerate(zip(va, vb)):
            if x != y:
              out.append('%s.%s[row %s]: %r vs %r' % (t, c, a[t]['ids'][i], x, y))
              break
        else:
          out.append('%s.%s: %r vs %r' % (t, c, va, vb))
      if len(out) >= limit:
        return out
  return out


def schema_of_meta(e):
  """Schema as described by the metadata tables (what build_schema gives), as plain data."""
  meta_tables = e.fetch_table('_grist_Tables')
  meta_columns = e.fetch_table('_grist_Tables_column')
  return schema_to_plain(schema.build_schema(meta_tables, meta_columns))


def schema_to_plain(sch):
  out = {}
  for t, st in sch.items():
    out[t] = {c.colId: (c.type, bool(c.isFormula), c.formula, getattr(c, 'reverseColId', None))
              for c in st.columns.values()}
  return out


def engine_schema(e):
  return schema_to_plain(e.schema)


def clean(e):
  """Run Calculate so that no dirty cells are left (after a failed bundle; cf. C04)."""
  try:
    return apply(e, [['Calculate']])
  except Exception:
    return None


def clone_by_reload(e):
  """A second engine loaded from the data the first one reports (metadata first, then every table)."""
  f = new_engine()
  f.load_meta_tables(e.fetch_table('_grist_Tables'), e.fetch_table('_grist_Tables_column'))
  for t in e.tables:
    if t in ('_grist_Tables', '_grist_Tables_column'):
      continue
    f.load_table(e.fetch_table(t, formulas=True))
  f.load_done()
  return f
