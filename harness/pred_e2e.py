"""
End-to-end oracle for C17: documents with ACL rules, dropdown conditions and trigger conditions in the REAL engine,
a rename, and an independent specification of what every stored text / parsed form / column list must be afterwards.

The specification side uses only ast (end_col_offset of Attribute nodes) and the tokenizer -- not asttokens, not
textbuilder, not codebuilder -- so it is independent of the code under check.
"""
import ast
import io
import json
import re
import tokenize

from harness import core, predgen

core.setup_impl_path()

DOLLAR_RE = re.compile(r'\$(?=[a-zA-Z_])')


def spec_undollar(text):
  """($-free text, offsets in `text` of the replaced `$`) or None when it cannot be tokenized."""
  cand = [m.start() for m in DOLLAR_RE.finditer(text)]
  for _ in range(3):
    out, pos = [], 0
    newpos = {}
    for d in cand:
      out.append(text[pos:d])
      newpos[d] = sum(len(x) for x in out)
      out.append('rec.')
      pos = d + 1
    out.append(text[pos:])
    nodollar = ''.join(out)
    # a `$` inside a string or a comment is literal: find candidates that fall inside such tokens
    starts = [0]                    # tokenize reads lines from StringIO: they end at \n only
    for ln in nodollar.split('\n'):
      starts.append(starts[-1] + len(ln) + 1)
    inside = []
    try:
      for tok in tokenize.generate_tokens(io.StringIO(nodollar).readline):
        if tok.type in (tokenize.STRING, tokenize.COMMENT) or tok.type == getattr(tokenize, 'FSTRING_MIDDLE', -1):
          a = starts[tok.start[0] - 1] + tok.start[1]
          b = starts[tok.end[0] - 1] + tok.end[1]
          inside.append((a, b))
    except (tokenize.TokenError, SyntaxError, ValueError):     # incl. UnicodeDecodeError from the C tokenizer
      return nodollar, cand         # not tokenizable as it stands (the parser decides later): every `$name` counts
    bad = [d for d in cand if any(a <= newpos[d] < b for a, b in inside)]
    if not bad:
      return nodollar, cand
    cand = [d for d in cand if d not in bad]
  return None


def char_offset(text_lines_bytes, lineno, col):
  """(lineno, utf8 col) -> character offset."""
  off = 0
  for i in range(lineno - 1):
    off += len(text_lines_bytes[i].decode('utf8'))
  return off + len(text_lines_bytes[lineno - 1][:col].decode('utf8'))


def is_name(n, *names):
  return isinstance(n, ast.Name) and n.id in names


def spec_entities(kind, body, nodollar):
  """[(type, start offset in nodollar, name, extra)] by the documented shapes."""
  # lines as the parser counts them: \n, \r\n and \r end a line (str.splitlines would also split at \x0c, \x85, ...)
  lines = [l.encode('utf8') for l in re.findall(r'[^\r\n]*(?:\r\n|\r|\n)|[^\r\n]+$', nodollar)]
  out = []
  for n in ast.walk(body):
    if not isinstance(n, ast.Attribute):
      continue
    end = char_offset(lines, n.end_lineno, n.end_col_offset)
    start = end - len(n.attr)
    v = n.value
    if kind == 'ACL':
      if is_name(v, 'rec', 'newRec'):
        out.append(('recCol', start, n.attr, None))
      elif is_name(v, 'user'):
        out.append(('userAttr', start, n.attr, None))
      elif isinstance(v, ast.Attribute) and is_name(v.value, 'user'):
        out.append(('userAttrCol', start, n.attr, v.attr))
    elif kind == 'DC':
      if is_name(v, 'choice'):
        out.append(('choiceAttr', start, n.attr, None))
      elif is_name(v, 'rec'):
        out.append(('recCol', start, n.attr, None))
    elif kind == 'Trigger':
      if is_name(v, 'rec', 'oldRec'):
        out.append(('recCol', start, n.attr, None))
  return out


def spec_rename_text(text, kind, renamer):
  """The text with exactly the references `renamer(type, name, extra) -> new name | None` renamed; the text itself
  when it is not a parsable supported predicate formula.  Returns (new text, number of renamed references)."""
  u = spec_undollar(text)
  if u is None:
    return text, 0
  nodollar, dollars = u
  try:
    body = ast.parse(nodollar, mode='eval').body
  except SyntaxError:
    return text, 0
  if predgen.unsupported_reasons(body):
    return text, 0          # the collectors reject it: "don't do anything to a syntactically wrong formula"
  patches = []
  for (ty, start, name, extra) in spec_entities(kind, body, nodollar):
    new = renamer(ty, name, extra)
    if new is not None:
      # offset in the original text: every replaced `$` before it made the $-free text 3 longer
      shift = 0
      for i, d in enumerate(dollars):
        if d + 3 * i + 4 <= start:
          shift = 3 * (i + 1)
      patches.append((start - shift, start - shift + len(name), new))
  out = text
  for (a, b, new) in sorted(patches, reverse=True):
    assert out[a:b] == text[a:b]
    out = out[:a] + new + out[b:]
  return out, len(patches)


def rename_tree(t, kind, renamer):
  """The parse tree with the same references renamed (classification on the old parent)."""
  if not isinstance(t, list):
    return t
  if t and t[0] == 'Attr':
    parent, attr = t[1], t[2]
    new = None
    if kind == 'ACL':
      if parent in (['Name', 'rec'], ['Name', 'newRec']):
        new = renamer('recCol', attr, None)
      elif parent == ['Name', 'user']:
        new = renamer('userAttr', attr, None)
      elif parent[0] == 'Attr' and parent[1] == ['Name', 'user']:
        new = renamer('userAttrCol', attr, parent[2])
    elif kind == 'DC':
      if parent == ['Name', 'choice']:
        new = renamer('choiceAttr', attr, None)
      elif parent == ['Name', 'rec']:
        new = renamer('recCol', attr, None)
    elif kind == 'Trigger':
      if parent in (['Name', 'rec'], ['Name', 'oldRec']):
        new = renamer('recCol', attr, None)
    return ['Attr', rename_tree(parent, kind, renamer), attr if new is None else new]
  if t and t[0] == 'Const':
    return t
  if t and t[0] == 'Comment':
    return ['Comment', rename_tree(t[1], kind, renamer), t[2]]
  return [rename_tree(x, kind, renamer) for x in t]


def impl_parse(text):
  import predicate_formula
  try:
    return ('ok', predicate_formula.parse_predicate_formula(text))
  except SyntaxError:
    return ('syntax',)


def parses_as_module(text):
  """False when the text (with `$x` read as `rec.x`) does not even parse as a Python module."""
  u = spec_undollar(text)
  if u is None:
    return False
  try:
    ast.parse(u[0])
  except SyntaxError:
    return False
  return True


# ---------------------------------------------------------------------------------------------
# Documents

# T references C and D, which have same-named columns: the same condition text on T.B (Ref:C) and T.B2 (Ref:D) must be
# renamed differently (choice.X belongs to the referenced table); T.S references T itself
T_COLS = [('A', 'Text'), ('AA', 'Text'), ('B', 'Ref:C'), ('R', 'RefList:C'), ('N', 'Numeric'), ('Ch', 'ChoiceList'),
          ('B2', 'Ref:D'), ('R2', 'RefList:D'), ('S', 'Ref:T')]
C_COLS = [('A', 'Text'), ('B', 'Text'), ('Name', 'Text')]
D_COLS = [('A', 'Text'), ('B', 'Text'), ('Name', 'Text'), ('AA', 'Text')]
TABLE_COLS = {'T': T_COLS, 'C': C_COLS, 'D': D_COLS}
USER_ATTR = {'name': 'Cust', 'tableId': 'C', 'lookupColId': 'A', 'charId': 'Email'}


def fetch(e, table):
  from harness import gristenv
  rep = gristenv.actions.get_action_repr(e.fetch_table(table))
  ids, cols = rep[2], rep[3]
  return {rid: {c: cols[c][i] for c in cols} for i, rid in enumerate(ids)}


def build_doc(spec):
  """Builds the document described by `spec` in a fresh real engine."""
  from harness import gristenv
  e, _ = gristenv.new_doc()
  ap = lambda *acts: gristenv.apply(e, list(acts))
  ap(['AddTable', 'T', [{'id': c, 'type': t, 'isFormula': False} for c, t in T_COLS]])
  ap(['AddTable', 'C', [{'id': c, 'type': t, 'isFormula': False} for c, t in C_COLS]])
  ap(['AddTable', 'D', [{'id': c, 'type': t, 'isFormula': False} for c, t in D_COLS]])
  out = ap(['BulkAddRecord', '_grist_ACLResources', [None, None, None, None],
            {'tableId': ['*', 'T', 'C', 'D'],
             'colIds': ['*', spec['colids']['T'], spec['colids']['C'], spec['colids'].get('D', '*')]}])
  star, res_t, res_c, res_d = out.retValues[0]
  resource_of = {'T': res_t, 'C': res_c, 'D': res_d}
  # rules are created in the order of the list, so list order = row-id order; an item {'attr': {...}} is a rule
  # that defines a user attribute.  Specs without such items get the default attribute rule first.
  if not any('attr' in r for r in spec['acl_rules']):
    ap(['AddRecord', '_grist_ACLRules', None, {'resource': star, 'userAttributes': json.dumps(USER_ATTR)}])
  for r in spec['acl_rules']:
    if 'attr' in r:
      ap(['AddRecord', '_grist_ACLRules', None, {'resource': star, 'userAttributes': json.dumps(r['attr'])}])
      continue
    res = resource_of[r['table']]
    if r.get('raw'):
      rid = ap(['AddRecord', '_grist_ACLRules', None, {'resource': res, 'aclFormula': ''}]).retValues[0]
      ap(['ApplyDocActions', [['UpdateRecord', '_grist_ACLRules', rid, {'aclFormula': r['formula']}]]])
    else:
      ap(['AddRecord', '_grist_ACLRules', None, {'resource': res, 'aclFormula': r['formula']}])
  for d in spec['dcs']:
    ref = e.docmodel.get_column_rec('T', d['col']).id
    wo = json.dumps({'dropdownCondition': {'text': d['formula']}})
    if d.get('raw'):
      ap(['ApplyDocActions', [['UpdateRecord', '_grist_Tables_column', ref, {'widgetOptions': wo}]]])
    else:
      ap(['UpdateRecord', '_grist_Tables_column', ref, {'widgetOptions': wo}])
  for t in spec['triggers']:
    tref = e.docmodel.get_table_rec(t.get('table', 'T')).id
    cond = {'text': t['formula']} if t['mode'] == 'text' else {'config': {'customExpression': t['formula']}}
    if t.get('raw'):
      rid = ap(['AddRecord', '_grist_Triggers', None, {'tableRef': tref, 'eventTypes': ['L', 'add']}]).retValues[0]
      ap(['ApplyDocActions', [['UpdateRecord', '_grist_Triggers', rid, {'condition': json.dumps(cond)}]]])
    else:
      ap(['AddRecord', '_grist_Triggers', None, {'tableRef': tref, 'eventTypes': ['L', 'add'],
                                                 'condition': json.dumps(cond)}])
  return e


def loads_or_none(s):
  try:
    return json.loads(s)
  except (TypeError, ValueError):
    return None


def snapshot(e):
  """Everything C17 speaks about, keyed so that it can be compared across a rename."""
  tables = {rid: r['tableId'] for rid, r in fetch(e, '_grist_Tables').items()}
  cols = fetch(e, '_grist_Tables_column')
  resources = fetch(e, '_grist_ACLResources')
  rules = fetch(e, '_grist_ACLRules')
  attr_tables = {}
  items = {}
  for rid, r in rules.items():
    info = loads_or_none(r['userAttributes']) if r['userAttributes'] else None
    if isinstance(info, dict):
      attr_tables[info.get('name')] = info.get('tableId')
      items[('userattr', rid)] = info
  for rid, r in rules.items():
    if r['aclFormula']:
      items[('acl', rid)] = {'kind': 'ACL', 'text': r['aclFormula'], 'parsed': loads_or_none(r['aclFormulaParsed']),
                             'rule_table': resources[r['resource']]['tableId'] if r['resource'] in resources else None}
  for cid, c in cols.items():
    wo = loads_or_none(c['widgetOptions']) if c['widgetOptions'] else None
    if isinstance(wo, dict) and isinstance(wo.get('dropdownCondition'), dict) and 'text' in wo['dropdownCondition']:
      dc = wo['dropdownCondition']
      typ = c['type']
      items[('dc', cid)] = {'kind': 'DC', 'text': dc['text'], 'parsed': loads_or_none(dc.get('parsed')),
                            'ref_table': typ.split(':')[1] if typ.startswith(('Ref:', 'RefList:')) else None,
                            'self_table': tables.get(c['parentId'])}
  for tid, t in fetch(e, '_grist_Triggers').items():
    cond = loads_or_none(t['condition']) if t['condition'] else None
    if isinstance(cond, dict):
      table = tables.get(t['tableRef'])
      if 'text' in cond:
        items[('trigger-text', tid)] = {'kind': 'Trigger', 'text': cond['text'], 'parsed': cond.get('parsed'), 'table': table}
      cfg = cond.get('config')
      if isinstance(cfg, dict) and cfg.get('customExpression'):
        items[('trigger-config', tid)] = {'kind': 'Trigger', 'text': cfg['customExpression'],
                                          'parsed': cfg.get('customExpressionParsed'), 'table': table}
  return {'tables': tables, 'cols': {cid: (tables.get(c['parentId']), c['colId']) for cid, c in cols.items()},
          'resources': {rid: (r['tableId'], r['colIds']) for rid, r in resources.items()},
          'attr_tables': attr_tables, 'items': items}


# ---------------------------------------------------------------------------------------------
# The oracle

def expected_renamer(item, renames, attr_tables):
  kind = item['kind']
  if kind == 'ACL':
    def r(ty, name, extra):
      if ty == 'recCol':
        return renames.get((item['rule_table'], name))
      if ty == 'userAttrCol':
        return renames.get((attr_tables.get(extra), name))
      return None
  elif kind == 'DC':
    def r(ty, name, extra):
      return renames.get((item['ref_table'] if ty == 'choiceAttr' else item['self_table'], name))
  else:
    def r(ty, name, extra):
      return renames.get((item['table'], name))
  return r


def parsed_consistent(item):
  """The stored parsed form is the parse of the stored text (None when the text does not parse)."""
  p = impl_parse(item['text'])
  if p[0] != 'ok':
    return None
  return item['parsed'] == p[1]


def check_rename(before, after):
  """Compares two snapshots around one user action.  Returns (list of (kind, description), number of changes)."""
  bad = []
  col_renames = {}
  for cid, (t, c) in before['cols'].items():
    if cid in after['cols'] and after['cols'][cid][1] != c:
      col_renames[(t, c)] = after['cols'][cid][1]
  table_renames = {t: after['tables'][tid] for tid, t in before['tables'].items()
                   if tid in after['tables'] and after['tables'][tid] != t}
  changes = 0
  for key, old in before['items'].items():
    new = after['items'].get(key)
    if new is None:
      bad.append(('item-lost', '%r disappeared' % (key,)))
      continue
    if key[0] == 'userattr':
      exp = dict(old)
      if (old.get('tableId'), old.get('lookupColId')) in col_renames:
        exp['lookupColId'] = col_renames[(old.get('tableId'), old.get('lookupColId'))]
      if old.get('tableId') in table_renames:
        exp['tableId'] = table_renames[old.get('tableId')]
      changes += exp != old
      if new != exp:
        bad.append(('user-attribute', 'userAttributes %r became %r, expected %r' % (old, new, exp)))
      continue
    renamer = expected_renamer(old, col_renames, before['attr_tables'])
    exp_text, n = spec_rename_text(old['text'], old['kind'], renamer)
    changes += exp_text != old['text']
    if new['text'] != exp_text:
      bad.append(('text-not-exact', '%s %r: text %r became %r, expected %r (renames %r)' % (
        old['kind'], key, old['text'], new['text'], exp_text, sorted(col_renames.items()))))
      continue
    old_tree, new_tree = impl_parse(old['text']), impl_parse(new['text'])
    if old_tree[0] == 'ok':
      if new_tree != ('ok', rename_tree(old_tree[1], old['kind'], renamer)):
        bad.append(('tree-not-renamed', '%s %r: %r parses to %r, not the renamed old tree' % (
          old['kind'], key, new['text'], new_tree)))
        continue
    was = parsed_consistent(old)
    now = parsed_consistent(new)
    if now is False and (was is True or new['text'] != old['text']):
      bad.append(('stored-parsed-stale', '%s %r: stored parsed form %r is not the parse of the stored text %r' % (
        old['kind'], key, new['parsed'], new['text'])))
  for rid, (t, colids) in before['resources'].items():
    if rid not in after['resources']:
      bad.append(('item-lost', 'ACL resource %r disappeared' % rid))
      continue
    exp_t = table_renames.get(t, t)
    if colids and colids != '*':
      exp_c = ','.join(col_renames.get((t, c)) or c for c in colids.split(','))
    else:
      exp_c = colids
    changes += (exp_t, exp_c) != (t, colids)
    if after['resources'][rid] != (exp_t, exp_c):
      bad.append(('acl-resource', 'resource %r (%r, %r) became %r, expected %r' % (
        rid, t, colids, after['resources'][rid], (exp_t, exp_c))))
  return bad, changes


def run_spec(spec):
  """Builds the document, applies the actions one by one with the oracle around each.
  Returns (violations [(kind, what)], changes, per-action outcome list)."""
  from harness import gristenv
  e = build_doc(spec)
  out, total, outcomes = [], 0, []
  for action in spec['actions']:
    before = snapshot(e)
    try:
      gristenv.apply(e, [action])
    except Exception as ex:       # pylint: disable=broad-except
      blockers = [i['text'] for k, i in before['items'].items() if k[0] != 'userattr' and not parses_as_module(i['text'])]
      if isinstance(ex, SyntaxError) and blockers and action[0] in ('RenameColumn', 'BulkUpdateRecord', 'UpdateRecord'):
        out.append(('unparsable-formula-blocks-rename',
                    '%r raises %s: %s because the stored formula %r does not parse (it should be left untouched)'
                    % (action, type(ex).__name__, str(ex)[:80], blockers[0])))
      else:
        out.append(('rename-raises', '%r raises %s: %s' % (action, type(ex).__name__, str(ex)[:200])))
      outcomes.append('raised')
      # the engine rolled the bundle back: the document must be as before
      after = snapshot(e)
      if after != before:
        out.append(('failed-rename-left-changes', '%r failed but changed the stored rules/conditions' % (action,)))
      continue
    after = snapshot(e)
    bad, changes = check_rename(before, after)
    out.extend(bad)
    total += changes
    outcomes.append('changed' if changes else 'nothing-to-rename')
  return out, total, outcomes
