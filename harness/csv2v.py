"""
csv2v -- fail-closed translator for the grid logic of the CSV importer (C32).

Regenerates coq/gen/Csv_gen.v on every run from
  imports/import_utils.py : empty, column_count_modal, _count_nonempty, find_first_non_empty_row, _is_header,
                            expand_headers, headers_guess
  parse_data.py           : get_table_data
  imports/import_csv.py   : the part of _parse_open_file from `rows = list(reader)` (exclusive) to
                            `if not table_data:` (exclusive)
Proofs/Csv_bridge.v proves, against that regenerated text, that every translated function equals the hand-written
model function of Model/Csv.v, so an edit of the source that changes the meaning breaks a proof (or, when it
leaves the subset, the translation: Untranslatable = broken tie).

The translation is compositional over the Python AST (typed, because truthiness and `+` depend on the type):
  types        cell (str), int (Z), bool, unit, cd (column dict), counts (defaultdict(int)), options, list t, tuples
  expressions  names, int/str/bool constants, comparisons, and/or/not (on truth values), + - * % , conditional
               expression, tuple, list display, list comprehension / generator over one iterable (with filters),
               x[0]/x[1] on pairs, l[:n], l[a:], len, any, all, zip, enumerate, str, isinstance(x, str), `x is None`,
               x.strip(), max(itertools.chain(a, b)), max(list(d.items()), key=lambda k_v: k_v[1]),
               itertools.islice(l, a, None), defaultdict(int), parse_options.get(<known key>, default), calls of
               the translated functions, _is_numeric (the oracle `isnum`), and the parse_data objects on str cells
               (_guess_basic_types, ColumnConverter, get_grist_column, col["data"], col.pop("data")).
  statements   assignment (name, tuple of names, l[i] = e, col["id"] = e), augmented assignment (ints,
               counts[k] += v), x.append(e), x.extend(e), log.info/debug (dropped), return, break, continue,
               if/elif/else (joined on the assigned variables when no branch exits, otherwise the rest of the block
               goes into the branches), for over a list: fold_left when the body has no exit, else py_for / py_loop
               of Lib/CsvPrelude.v; `for a, b in zip(l, objs): b.convert_and_add(a)` (py_zip_update).
Anything else raises Untranslatable.
"""
import ast
import os

from harness import core


class Untranslatable(Exception):
  pass


def fail(node, msg):
  raise Untranslatable('%s at line %s: %s' % (msg, getattr(node, 'lineno', '?'),
                                              ast.dump(node)[:160] if isinstance(node, ast.AST) else node))


CELL, INT, BOOL, UNIT, CD, COUNTS, OPTS = 'cell', 'int', 'bool', 'unit', 'cd', 'counts', 'options'


def L(t):
  return ('list', t)


def T(*ts):
  return ('tup',) + ts


ROW = L(CELL)
GRID = L(ROW)


def coq_type(t):
  if t == CELL:
    return 'cell'
  if t == INT:
    return 'Z'
  if t == BOOL:
    return 'bool'
  if t == UNIT:
    return 'unit'
  if t == CD:
    return 'coldict'
  if t == COUNTS:
    return 'counts'
  if t == OPTS:
    return 'options'
  if t[0] == 'list':
    return '(list %s)' % coq_type(t[1])
  if t[0] == 'tup':
    return '(' + ' * '.join(coq_type(x) for x in t[1:]) + ')'
  raise Untranslatable('type %r' % (t,))


def is_list(t):
  return isinstance(t, tuple) and t[0] == 'list'


def is_tup(t):
  return isinstance(t, tuple) and t[0] == 'tup'


# python function name -> (coq name, parameter types, result type, uses the _is_numeric oracle)
FUNCS = {
  'empty': ('g_empty', [CELL], BOOL, False),
  'column_count_modal': ('g_column_count_modal', [GRID], INT, False),
  '_count_nonempty': ('g_count_nonempty', [ROW], INT, False),
  'find_first_non_empty_row': ('g_find_first_non_empty_row', [GRID], T(INT, ROW), False),
  '_is_header': ('g_is_header', [ROW, GRID], BOOL, True),
  'expand_headers': ('g_expand_headers', [ROW, INT, GRID], ROW, False),
  'headers_guess': ('g_headers_guess', [GRID], T(INT, ROW), True),
  'get_table_data': ('g_get_table_data', [GRID, INT, INT], L(CD), False),
}
MODULE_PREFIXES = ('import_utils', 'parse_data')
OPTION_KEYS = {'include_col_names_as_headers', 'NUM_ROWS'}


def var(name):
  return name + '_'


def dotted(n):
  if isinstance(n, ast.Name):
    return n.id
  if isinstance(n, ast.Attribute):
    d = dotted(n.value)
    return None if d is None else d + '.' + n.attr
  return None


def is_log_call(s):
  return (isinstance(s, ast.Expr) and isinstance(s.value, ast.Call) and
          dotted(s.value.func) in ('log.info', 'log.debug', 'log.warning'))


def strip_logs(stmts):
  return [s for s in stmts if not is_log_call(s) and not isinstance(s, ast.Pass)]


def has_exit(stmts, nested=False):
  """a return anywhere, or a break/continue that belongs to the enclosing loop"""
  for s in stmts:
    if isinstance(s, ast.Return):
      return True
    if isinstance(s, (ast.Break, ast.Continue)) and not nested:
      return True
    if isinstance(s, ast.If) and (has_exit(s.body, nested) or has_exit(s.orelse, nested)):
      return True
    if isinstance(s, ast.For) and has_exit(s.body, True):
      return True
  return False


def always_exits(stmts):
  if not stmts:
    return False
  s = stmts[-1]
  if isinstance(s, (ast.Return, ast.Break, ast.Continue)):
    return True
  return isinstance(s, ast.If) and always_exits(strip_logs(s.body)) and always_exits(strip_logs(s.orelse))


def has_return(stmts):
  return any(isinstance(n, ast.Return) for s in stmts for n in ast.walk(s))


def assigned_names(stmts):
  out = set()
  for s in stmts:
    if isinstance(s, ast.Assign):
      for t in s.targets:
        if isinstance(t, ast.Name):
          out.add(t.id)
        elif isinstance(t, ast.Tuple):
          out.update(e.id for e in t.elts if isinstance(e, ast.Name))
        elif isinstance(t, ast.Subscript) and isinstance(t.value, ast.Name):
          out.add(t.value.id)
    elif isinstance(s, ast.AugAssign):
      t = s.target
      if isinstance(t, ast.Name):
        out.add(t.id)
      elif isinstance(t, ast.Subscript) and isinstance(t.value, ast.Name):
        out.add(t.value.id)
    elif isinstance(s, ast.Expr) and isinstance(s.value, ast.Call) and isinstance(s.value.func, ast.Attribute) \
        and isinstance(s.value.func.value, ast.Name) and s.value.func.attr in ('append', 'extend'):
      out.add(s.value.func.value.id)
    elif isinstance(s, ast.If):
      out |= assigned_names(s.body) | assigned_names(s.orelse)
    elif isinstance(s, ast.For):
      z = zip_update_pattern(s)
      if z:
        out.add(z[1])
      else:
        out |= assigned_names(s.body)
  return out


def zip_update_pattern(s):
  """for a, b in zip(X, OBJS): b.convert_and_add(a)  ->  (X node, 'OBJS', a, b)"""
  if not (isinstance(s.target, ast.Tuple) and len(s.target.elts) == 2 and
          all(isinstance(e, ast.Name) for e in s.target.elts)):
    return None
  a, b = s.target.elts[0].id, s.target.elts[1].id
  it = s.iter
  if not (isinstance(it, ast.Call) and dotted(it.func) == 'zip' and len(it.args) == 2 and not it.keywords and
          isinstance(it.args[1], ast.Name)):
    return None
  if len(s.body) != 1 or s.orelse:
    return None
  c = s.body[0]
  if not (isinstance(c, ast.Expr) and isinstance(c.value, ast.Call) and not c.value.keywords and
          dotted(c.value.func) == b + '.convert_and_add' and len(c.value.args) == 1 and
          isinstance(c.value.args[0], ast.Name) and c.value.args[0].id == a):
    return None
  return (it.args[0], it.args[1].id, a, b)


class Ctx(object):
  def __init__(self, rettype, ret, fall, brk=None, cont=None):
    self.rettype, self.ret, self.fall, self.brk, self.cont = rettype, ret, fall, brk, cont


# declared types of locals that start as an empty display
LOCAL_TYPES = {'column_metadata': L(CD), 'table_data': GRID}


class Tr(object):
  def __init__(self):
    self.n = 0

  def fresh(self, base):
    self.n += 1
    return '%s%d__' % (base, self.n)

  # ---- expressions ---------------------------------------------------------------------------------

  def truthy(self, term, ty, node):
    if ty == BOOL:
      return term
    if ty == CELL or is_list(ty) or ty == COUNTS:
      return '(negb (is_nil %s))' % term
    if ty == INT:
      return '(negb (Z.eqb %s 0))' % term
    fail(node, 'truth value of type %r' % (ty,))

  def cond(self, n, env):
    term, ty = self.expr(n, env)
    return self.truthy(term, ty, n)

  def expr(self, n, env, want=None):
    term, ty = self.expr_(n, env, want)
    if want is not None and ty != want:
      fail(n, 'type %r where %r is needed' % (ty, want))
    return term, ty

  def expr_(self, n, env, want):
    if isinstance(n, ast.Name):
      if n.id not in env:
        fail(n, 'unbound name')
      return var(n.id), env[n.id]
    if isinstance(n, ast.Constant):
      v = n.value
      if v is True or v is False:
        return ('true' if v else 'false'), BOOL
      if isinstance(v, int):
        return '(%s)' % core.zlit(v), INT
      if isinstance(v, str):
        return ('([] : cell)' if v == '' else '(%s : cell)' % core.strlit(v)), CELL
      fail(n, 'constant')
    if isinstance(n, ast.UnaryOp) and isinstance(n.op, ast.Not):
      return '(negb %s)' % self.cond(n.operand, env), BOOL
    if isinstance(n, ast.BoolOp):
      op = 'andb' if isinstance(n.op, ast.And) else 'orb'
      terms = [self.cond(v, env) for v in n.values]
      out = terms[-1]
      for t in reversed(terms[:-1]):
        out = '(%s %s %s)' % (op, t, out)
      return out, BOOL
    if isinstance(n, ast.Compare):
      return self.compare(n, env)
    if isinstance(n, ast.BinOp):
      return self.binop(n, env, want)
    if isinstance(n, ast.IfExp):
      c = self.cond(n.test, env)
      a, ta = self.expr(n.body, env, want)
      b, _ = self.expr(n.orelse, env, ta)
      return '(if %s then %s else %s)' % (c, a, b), ta
    if isinstance(n, ast.Tuple):
      if want is not None and not (is_tup(want) and len(want) - 1 == len(n.elts)):
        fail(n, 'tuple where %r is needed' % (want,))
      parts = [self.expr(e, env, want[i + 1] if want else None) for i, e in enumerate(n.elts)]
      return '(' + ', '.join(p[0] for p in parts) + ')', T(*[p[1] for p in parts])
    if isinstance(n, ast.List):
      if not n.elts:
        if want is None or not is_list(want):
          fail(n, 'empty list display without a known type')
        return '([] : %s)' % coq_type(want), want
      parts = [self.expr(e, env, want[1] if want else None) for e in n.elts]
      if any(p[1] != parts[0][1] for p in parts):
        fail(n, 'list display of mixed types')
      return '[' + '; '.join(p[0] for p in parts) + ']', L(parts[0][1])
    if isinstance(n, (ast.ListComp, ast.GeneratorExp)):
      return self.comprehension(n, env)
    if isinstance(n, ast.Subscript):
      return self.subscript(n, env)
    if isinstance(n, ast.Call):
      return self.call(n, env, want)
    fail(n, 'expression')

  def compare(self, n, env):
    if len(n.ops) != 1:
      fail(n, 'chained comparison')
    op, right = n.ops[0], n.comparators[0]
    if isinstance(op, (ast.Is, ast.IsNot)):
      if not (isinstance(right, ast.Constant) and right.value is None):
        fail(n, '`is` with something else than None')
      _, ty = self.expr(n.left, env)
      if ty not in (CELL, INT, BOOL) and not is_list(ty):
        fail(n, '`is None` on type %r' % (ty,))
      # a str / int / list is never None
      return ('false' if isinstance(op, ast.Is) else 'true'), BOOL
    a, ta = self.expr(n.left, env)
    b, tb = self.expr(right, env, ta)
    if ta == INT:
      fn = {ast.Eq: 'Z.eqb %s %s', ast.NotEq: 'negb (Z.eqb %s %s)', ast.Lt: 'Z.ltb %s %s', ast.LtE: 'Z.leb %s %s',
            ast.Gt: 'Z.gtb %s %s', ast.GtE: 'Z.geb %s %s'}.get(type(op))
    elif ta == CELL:
      fn = {ast.Eq: 'cell_eqb %s %s', ast.NotEq: 'negb (cell_eqb %s %s)'}.get(type(op))
    else:
      fn = None
    if fn is None:
      fail(n, 'comparison on type %r' % (ta,))
    return '(' + fn % (a, b) + ')', BOOL

  def binop(self, n, env, want):
    if isinstance(n.op, ast.Mult):
      # [x] * n
      if isinstance(n.left, ast.List) and len(n.left.elts) == 1:
        x, tx = self.expr(n.left.elts[0], env, want[1] if want and is_list(want) else None)
        k, _ = self.expr(n.right, env, INT)
        return '(py_repeat %s %s)' % (x, k), L(tx)
      a, _ = self.expr(n.left, env, INT)
      b, _ = self.expr(n.right, env, INT)
      return '(Z.mul %s %s)' % (a, b), INT
    a, ta = self.expr(n.left, env)
    if isinstance(n.op, ast.Add):
      b, _ = self.expr(n.right, env, ta)
      if ta == INT:
        return '(Z.add %s %s)' % (a, b), INT
      if is_list(ta):
        return '(%s ++ %s)' % (a, b), ta
      fail(n, '+ on type %r' % (ta,))
    if isinstance(n.op, ast.Sub) and ta == INT:
      b, _ = self.expr(n.right, env, INT)
      return '(Z.sub %s %s)' % (a, b), INT
    if isinstance(n.op, ast.Mod) and ta == INT:
      if not (isinstance(n.right, ast.Constant) and isinstance(n.right.value, int) and n.right.value > 0):
        fail(n, '% with a divisor that is not a positive constant')
      return '(Z.modulo %s %s)' % (a, core.zlit(n.right.value)), INT
    fail(n, 'binary operator')

  def pattern(self, target, elem_ty, env):
    """binder pattern and the extended environment for a loop / comprehension target"""
    env2 = dict(env)
    if isinstance(target, ast.Name):
      if target.id in env:
        fail(target, 'loop variable shadows a variable')
      env2[target.id] = elem_ty
      return '(%s : %s)' % (var(target.id), coq_type(elem_ty)), env2
    if isinstance(target, ast.Tuple) and is_tup(elem_ty) and len(target.elts) == len(elem_ty) - 1 and \
        all(isinstance(e, ast.Name) for e in target.elts):
      for e, t in zip(target.elts, elem_ty[1:]):
        if e.id in env:
          fail(target, 'loop variable shadows a variable')
        env2[e.id] = t
      return "'((%s) : %s)" % (', '.join(var(e.id) for e in target.elts), coq_type(elem_ty)), env2
    fail(target, 'loop target')

  def comprehension(self, n, env):
    if len(n.generators) != 1 or n.generators[0].is_async:
      fail(n, 'comprehension with several generators')
    g = n.generators[0]
    it, tit = self.expr(g.iter, env)
    if not is_list(tit):
      fail(g.iter, 'comprehension over type %r' % (tit,))
    pat, env2 = self.pattern(g.target, tit[1], env)
    src = it
    for c in g.ifs:
      src = '(filter (fun %s => %s) %s)' % (pat, self.cond(c, env2), src)
    body, tb = self.expr(n.elt, env2)
    return '(map (fun %s => %s) %s)' % (pat, body, src), L(tb)

  def subscript(self, n, env):
    v, tv = self.expr(n.value, env)
    s = n.slice
    if isinstance(s, ast.Slice):
      if s.step is not None or not is_list(tv):
        fail(n, 'slice')
      if s.lower is None and s.upper is not None:
        b, _ = self.expr(s.upper, env, INT)
        return '(py_slice_to %s %s)' % (v, b), tv
      if s.lower is not None and s.upper is None:
        a, _ = self.expr(s.lower, env, INT)
        return '(py_slice_from %s %s)' % (v, a), tv
      fail(n, 'slice with both or no bounds')
    if isinstance(s, ast.Constant) and is_tup(tv) and len(tv) == 3 and s.value in (0, 1) and s.value is not True \
        and s.value is not False:
      return '(%s %s)' % ('fst' if s.value == 0 else 'snd', v), tv[1 + s.value]
    if isinstance(s, ast.Constant) and tv == CD and s.value == 'data':
      return '(cd_data %s)' % v, L(CELL)
    fail(n, 'subscript')

  def gen_over(self, g, env):
    """any(...)/all(...) argument: (binder, predicate source list, predicate body)"""
    if not isinstance(g, ast.GeneratorExp) or len(g.generators) != 1 or g.generators[0].ifs:
      fail(g, 'generator')
    gen = g.generators[0]
    it, tit = self.expr(gen.iter, env)
    if not is_list(tit):
      fail(g, 'generator over type %r' % (tit,))
    pat, env2 = self.pattern(gen.target, tit[1], env)
    return pat, it, self.cond(g.elt, env2)

  def call(self, n, env, want):
    name = dotted(n.func)
    args = n.args
    if n.keywords and not (name == 'max' and len(n.keywords) == 1):
      fail(n, 'keyword arguments')
    if name is not None:
      parts = name.split('.')
      if len(parts) == 2 and parts[0] in MODULE_PREFIXES:
        name = parts[1]
    if name in FUNCS:
      coq, ptys, rty, isnum = FUNCS[name]
      if len(args) != len(ptys):
        fail(n, 'number of arguments of %s' % name)
      terms = [self.expr(a, env, t)[0] for a, t in zip(args, ptys)]
      return '(%s%s %s)' % (coq, ' isnum' if isnum else '', ' '.join(terms)), rty
    if name == '_is_numeric' and len(args) == 1:
      return '(isnum %s)' % self.expr(args[0], env, CELL)[0], BOOL
    if name == 'len' and len(args) == 1:
      a, ta = self.expr(args[0], env)
      if not (is_list(ta) or ta == CELL):
        fail(n, 'len of type %r' % (ta,))
      return '(py_len %s)' % a, INT
    if name == 'str' and len(args) == 1:
      return self.expr(args[0], env, CELL)
    if name == 'isinstance' and len(args) == 2 and dotted(args[1]) == 'str':
      _, ta = self.expr(args[0], env)
      if ta != CELL:
        fail(n, 'isinstance(_, str) on type %r' % (ta,))
      return 'true', BOOL
    if name in ('any', 'all') and len(args) == 1:
      fn = 'existsb' if name == 'any' else 'forallb'
      if isinstance(args[0], ast.GeneratorExp):
        pat, it, body = self.gen_over(args[0], env)
        return '(%s (fun %s => %s) %s)' % (fn, pat, body, it), BOOL
      a, ta = self.expr(args[0], env)
      if not is_list(ta):
        fail(n, '%s of type %r' % (name, ta))
      return '(%s (fun e__ => %s) %s)' % (fn, self.truthy('e__', ta[1], n), a), BOOL
    if name == 'zip' and len(args) == 2:
      a, ta = self.expr(args[0], env)
      b, tb = self.expr(args[1], env)
      if not (is_list(ta) and is_list(tb)):
        fail(n, 'zip of non-lists')
      return '(combine %s %s)' % (a, b), L(T(ta[1], tb[1]))
    if name == 'enumerate' and len(args) == 1:
      a, ta = self.expr(args[0], env)
      if not is_list(ta):
        fail(n, 'enumerate of a non-list')
      return '(py_enumerate %s)' % a, L(T(INT, ta[1]))
    if name == 'itertools.islice' and len(args) == 3 and isinstance(args[2], ast.Constant) and args[2].value is None:
      a, ta = self.expr(args[0], env)
      if not is_list(ta):
        fail(n, 'islice of a non-list')
      return '(py_islice_from %s %s)' % (a, self.expr(args[1], env, INT)[0]), ta
    if name == 'max' and len(args) == 1 and not n.keywords and isinstance(args[0], ast.Call) and \
        dotted(args[0].func) == 'itertools.chain' and len(args[0].args) == 2 and not args[0].keywords:
      a, _ = self.expr(args[0].args[0], env, L(INT))
      b, _ = self.expr(args[0].args[1], env, L(INT))
      return '(py_max (%s ++ %s))' % (a, b), INT
    if name == 'max' and len(args) == 1 and len(n.keywords) == 1 and n.keywords[0].arg == 'key':
      k = n.keywords[0].value
      ok = (isinstance(k, ast.Lambda) and len(k.args.args) == 1 and not k.args.defaults and
            isinstance(k.body, ast.Subscript) and isinstance(k.body.value, ast.Name) and
            k.body.value.id == k.args.args[0].arg and isinstance(k.body.slice, ast.Constant) and
            k.body.slice.value == 1)
      a = args[0]
      ok = ok and (isinstance(a, ast.Call) and dotted(a.func) == 'list' and len(a.args) == 1 and
                   isinstance(a.args[0], ast.Call) and isinstance(a.args[0].func, ast.Attribute) and
                   a.args[0].func.attr == 'items' and not a.args[0].args)
      if not ok:
        fail(n, 'max(..., key=...) of another shape')
      d, td = self.expr(a.args[0].func.value, env)
      if td != COUNTS:
        fail(n, '.items() of type %r' % (td,))
      return '(py_max_by_snd %s)' % d, T(INT, INT)
    if name == 'defaultdict' and len(args) == 1 and dotted(args[0]) == 'int':
      return '([] : counts)', COUNTS
    if name == 'parse_options.get' and len(args) == 2 and isinstance(args[0], ast.Constant):
      if 'parse_options' not in env or env['parse_options'] != OPTS:
        fail(n, 'parse_options')
      key = args[0].value
      if key == 'include_col_names_as_headers':
        return '(opt_headers_get parse_options_ %s)' % self.expr(args[1], env, BOOL)[0], BOOL
      if key == 'NUM_ROWS':
        if not (isinstance(args[1], ast.Constant) and args[1].value == 0 and args[1].value is not False):
          fail(n, 'default of NUM_ROWS is not 0')
        return '(o_num_rows parse_options_)', INT
      fail(n, 'parse option %r' % (key,))
    if name == '_guess_basic_types' and len(args) == 2:
      return '(guess_basic_types %s %s)' % (self.expr(args[0], env, GRID)[0], self.expr(args[1], env, INT)[0]), L(UNIT)
    if name == 'ColumnConverter' and len(args) == 1:
      return '(ColumnConverter %s)' % self.expr(args[0], env, UNIT)[0], L(CELL)
    if isinstance(n.func, ast.Attribute) and not args:
      v, tv = self.expr(n.func.value, env)
      if n.func.attr == 'strip' and tv == CELL:
        return '(strip %s)' % v, CELL
      if n.func.attr == 'get_grist_column' and tv == L(CELL):
        return '(get_grist_column %s)' % v, CD
    if isinstance(n.func, ast.Attribute) and n.func.attr == 'pop' and len(args) == 1 and \
        isinstance(args[0], ast.Constant) and args[0].value == 'data':
      v, tv = self.expr(n.func.value, env)
      if tv == CD:
        return '(cd_data %s)' % v, L(CELL)       # the removal of the key is not observable in the translated part
    fail(n, 'call')

  # ---- statements ----------------------------------------------------------------------------------

  def tuple_term(self, names):
    if not names:
      return 'tt'
    return var(names[0]) if len(names) == 1 else '(' + ', '.join(var(v) for v in names) + ')'

  def tuple_pat(self, names, env):
    if not names:
      return '(_ : unit)'
    if len(names) == 1:
      return '(%s : %s)' % (var(names[0]), coq_type(env[names[0]]))
    return "'((%s) : %s)" % (', '.join(var(v) for v in names), coq_type(T(*[env[v] for v in names])))

  def let_pat(self, names):
    return var(names[0]) if len(names) == 1 else "'(" + ', '.join(var(v) for v in names) + ')'

  def bind(self, env, name, ty, node):
    if name in env and env[name] != ty:
      fail(node, 'variable %s changes type from %r to %r' % (name, env[name], ty))
    env2 = dict(env)
    env2[name] = ty
    return env2

  def block(self, stmts, env, ctx):
    stmts = strip_logs(stmts)
    if not stmts:
      return ctx.fall(env)
    s, rest = stmts[0], stmts[1:]
    if isinstance(s, ast.Return):
      if rest or s.value is None:
        fail(s, 'return')
      return ctx.ret(self.expr(s.value, env, ctx.rettype)[0])
    if isinstance(s, ast.Continue):
      if rest or ctx.cont is None:
        fail(s, 'continue')
      return ctx.cont(env)
    if isinstance(s, ast.Break):
      if rest or ctx.brk is None:
        fail(s, 'break')
      return ctx.brk(env)
    if isinstance(s, ast.Assign) and len(s.targets) == 1:
      t = s.targets[0]
      if isinstance(t, ast.Name):
        term, ty = self.expr(s.value, env, env.get(t.id, LOCAL_TYPES.get(t.id)))
        env2 = self.bind(env, t.id, ty, s)
        return 'let %s : %s := %s in\n%s' % (var(t.id), coq_type(ty), term, self.block(rest, env2, ctx))
      if isinstance(t, ast.Tuple) and all(isinstance(e, ast.Name) for e in t.elts):
        want = T(*[env[e.id] for e in t.elts]) if all(e.id in env for e in t.elts) else None
        term, ty = self.expr(s.value, env, want)
        if not (is_tup(ty) and len(ty) - 1 == len(t.elts)):
          fail(s, 'tuple assignment from type %r' % (ty,))
        env2 = env
        for e, et in zip(t.elts, ty[1:]):
          env2 = self.bind(env2, e.id, et, s)
        return "let '(%s) := %s in\n%s" % (', '.join(var(e.id) for e in t.elts), term, self.block(rest, env2, ctx))
      if isinstance(t, ast.Subscript) and isinstance(t.value, ast.Name) and t.value.id in env:
        x, tx = t.value.id, env[t.value.id]
        if is_list(tx) and not isinstance(t.slice, ast.Slice):
          i, _ = self.expr(t.slice, env, INT)
          v, _ = self.expr(s.value, env, tx[1])
          return 'let %s := py_list_set %s %s %s in\n%s' % (var(x), var(x), i, v, self.block(rest, env, ctx))
        if tx == CD and isinstance(t.slice, ast.Constant) and t.slice.value == 'id':
          v, _ = self.expr(s.value, env, CELL)
          return 'let %s := cd_set_id %s %s in\n%s' % (var(x), var(x), v, self.block(rest, env, ctx))
      fail(s, 'assignment')
    if isinstance(s, ast.AugAssign):
      t = s.target
      if isinstance(t, ast.Name) and env.get(t.id) == INT and isinstance(s.op, (ast.Add, ast.Sub)):
        v, _ = self.expr(s.value, env, INT)
        fn = 'Z.add' if isinstance(s.op, ast.Add) else 'Z.sub'
        return 'let %s := %s %s %s in\n%s' % (var(t.id), fn, var(t.id), v, self.block(rest, env, ctx))
      if isinstance(t, ast.Subscript) and isinstance(t.value, ast.Name) and env.get(t.value.id) == COUNTS and \
          isinstance(s.op, ast.Add):
        k, _ = self.expr(t.slice, env, INT)
        v, _ = self.expr(s.value, env, INT)
        x = var(t.value.id)
        return 'let %s := py_counts_add %s %s %s in\n%s' % (x, k, v, x, self.block(rest, env, ctx))
      fail(s, 'augmented assignment')
    if isinstance(s, ast.Expr) and isinstance(s.value, ast.Call) and isinstance(s.value.func, ast.Attribute) and \
        isinstance(s.value.func.value, ast.Name) and s.value.func.attr in ('append', 'extend') and \
        len(s.value.args) == 1 and not s.value.keywords:
      x = s.value.func.value.id
      if x not in env or not is_list(env[x]):
        fail(s, 'append/extend on a non-list')
      if s.value.func.attr == 'append':
        v, _ = self.expr(s.value.args[0], env, env[x][1])
        v = '[%s]' % v
      else:
        v, _ = self.expr(s.value.args[0], env, env[x])
      return 'let %s := %s ++ %s in\n%s' % (var(x), var(x), v, self.block(rest, env, ctx))
    if isinstance(s, ast.If):
      return self.if_(s, rest, env, ctx)
    if isinstance(s, ast.For):
      return self.for_(s, rest, env, ctx)
    fail(s, 'statement')

  def if_(self, s, rest, env, ctx):
    body, orelse = strip_logs(s.body), strip_logs(s.orelse)
    c = self.cond(s.test, env)
    if not body and not orelse:
      return self.block(rest, env, ctx)          # only logging inside; the test is a pure expression
    if has_exit(body) or has_exit(orelse):
      return '(if %s\n then %s\n else %s)' % (c, self.block(body if always_exits(body) else body + rest, env, ctx),
                                              self.block(orelse if always_exits(orelse) else orelse + rest, env, ctx))
    names = [v for v in env if v in (assigned_names(body) | assigned_names(orelse))]
    if not names:
      fail(s, 'if without effect on the variables in scope')

    def fall(env2):
      for v in names:
        if env2[v] != env[v]:
          fail(s, 'variable %s changes type in a branch' % v)
      return self.tuple_term(names)
    sub = Ctx(ctx.rettype, None, fall)
    return 'let %s := (if %s\n then %s\n else %s) in\n%s' % (
        self.let_pat(names), c, self.block(body, env, sub), self.block(orelse, env, sub), self.block(rest, env, ctx))

  def for_(self, s, rest, env, ctx):
    if s.orelse:
      fail(s, 'for-else')
    z = zip_update_pattern(s)
    if z:
      src, objs, a, b = z
      if env.get(objs) != GRID:
        fail(s, 'zip-update on type %r' % (env.get(objs),))
      st, _ = self.expr(src, env, ROW)
      return 'let %s := py_zip_update (fun (%s : cell) (%s : list cell) => convert_and_add %s %s) %s %s in\n%s' % (
          var(objs), var(a), var(b), var(b), var(a), st, var(objs), self.block(rest, env, ctx))
    it, tit = self.expr(s.iter, env)
    if not is_list(tit):
      fail(s, 'for over type %r' % (tit,))
    pat, lenv = self.pattern(s.target, tit[1], env)
    body = strip_logs(s.body)
    names = [v for v in env if v in assigned_names(body)]
    spat = self.tuple_pat(names, env)
    init = self.tuple_term(names)

    def state(env2):
      for v in names:
        if env2[v] != env[v]:
          fail(s, 'variable %s changes type in the loop' % v)
      return self.tuple_term(names)
    after = self.block(rest, env, ctx)
    if not has_exit(body):
      b = self.block(body, lenv, Ctx(ctx.rettype, None, state))
      if not names:
        fail(s, 'loop without effect')
      return 'let %s := fold_left (fun %s %s =>\n%s) %s %s in\n%s' % (self.let_pat(names), spat, pat, b, it, init, after)
    lctx = Ctx(ctx.rettype, (lambda t: '(Ret %s)' % t) if ctx.ret else None,
               lambda e: '(Nxt %s)' % state(e), lambda e: '(Brk %s)' % state(e), lambda e: '(Nxt %s)' % state(e))
    if has_return(body):
      if ctx.ret is None:
        fail(s, 'return inside a loop that is inside a joined if')
      b = self.block(body, lenv, lctx)
      r, st = self.fresh('r'), self.fresh('st')
      return '(match py_for %s %s (fun %s %s =>\n%s) with\n | inl %s => %s\n | inr %s => let %s := %s in\n%s\n end)' % (
          it, init, spat, pat, b, r, ctx.ret(r), st, self.let_pat(names) if names else '_', st, after)
    lctx.ret = None
    b = self.block(body, lenv, lctx)
    return 'let %s := py_loop %s %s (fun %s %s =>\n%s) in\n%s' % (
        self.let_pat(names) if names else '_', it, init, spat, pat, b, after)


# ------------------------------------------------------------------------------------------------------

def find_def(tree, name):
  for n in tree.body:
    if isinstance(n, ast.FunctionDef) and n.name == name:
      return n
  raise Untranslatable('function %s not found' % name)


def fn_body(fn):
  body = fn.body
  if body and isinstance(body[0], ast.Expr) and isinstance(body[0].value, ast.Constant) and \
      isinstance(body[0].value.value, str):
    body = body[1:]
  return body


def translate_function(tree, pyname):
  coq, ptys, rty, isnum = FUNCS[pyname]
  fn = find_def(tree, pyname)
  a = fn.args
  if a.vararg or a.kwarg or a.kwonlyargs or a.posonlyargs or len(a.args) != len(ptys):
    fail(fn, 'signature of %s' % pyname)
  for d in a.defaults:
    if not (isinstance(d, ast.Constant) and d.value == 0):
      fail(fn, 'default value in the signature of %s' % pyname)
  env = {}
  for p, t in zip(a.args, ptys):
    env[p.arg] = t
  tr = Tr()

  def no_fall(_env):
    raise Untranslatable('%s can end without a return' % pyname)
  body = tr.block(fn_body(fn), env, Ctx(rty, lambda t: t, no_fall))
  params = ''.join(' (%s : %s)' % (var(p.arg), coq_type(t)) for p, t in zip(a.args, ptys))
  return 'Definition %s%s%s : %s :=\n%s.\n' % (coq, ' (isnum : cell -> bool)' if isnum else '', params,
                                               coq_type(rty), body)


def translate_parse_slice(tree):
  """The statements of _parse_open_file after `rows = list(reader)` up to (not including) `if not table_data:`,
  as a function of parse_options and rows that returns (column_metadata, table_data)."""
  fn = find_def(tree, '_parse_open_file')
  body = fn_body(fn)
  start = end = None
  for i, s in enumerate(body):
    if isinstance(s, ast.Assign) and len(s.targets) == 1 and dotted(s.targets[0]) == 'rows' and \
        isinstance(s.value, ast.Call) and dotted(s.value.func) == 'list' and len(s.value.args) == 1 and \
        dotted(s.value.args[0]) == 'reader' and start is None:
      start = i + 1
    if isinstance(s, ast.If) and isinstance(s.test, ast.UnaryOp) and isinstance(s.test.op, ast.Not) and \
        dotted(s.test.operand) == 'table_data' and end is None:
      end = i
  if start is None or end is None or end <= start:
    raise Untranslatable('_parse_open_file: `rows = list(reader)` ... `if not table_data:` not found')
  # what comes before must not touch rows again; what comes after must export exactly the two lists
  for s in body[:start - 1]:
    if 'rows' in assigned_names([s]):
      fail(s, 'rows assigned before list(reader)')
  guard, tail = body[end], body[end + 1:]
  g = strip_logs(guard.body)
  if not (len(g) == 1 and isinstance(g[0], ast.Return) and isinstance(g[0].value, ast.Tuple) and
          len(g[0].value.elts) == 2 and isinstance(g[0].value.elts[0], ast.Dict) and not g[0].value.elts[0].keys and
          isinstance(g[0].value.elts[1], ast.List) and not g[0].value.elts[1].elts and not guard.orelse):
    fail(guard, '`if not table_data:` does not return ({}, [])')
  export = None
  for s in tail:
    for n in ast.walk(s):
      if isinstance(n, ast.Name) and isinstance(n.ctx, ast.Store) and n.id in ('column_metadata', 'table_data'):
        fail(s, 'column_metadata/table_data reassigned after the translated part')
      if isinstance(n, ast.Call) and isinstance(n.func, ast.Attribute) and \
          dotted(n.func.value) in ('column_metadata', 'table_data'):
        fail(s, 'column_metadata/table_data modified after the translated part')
    if isinstance(s, ast.Assign) and dotted(s.targets[0]) == 'export_list':
      if export is not None:
        fail(s, 'export_list assigned twice')
      export = s.value
  ok = (isinstance(export, ast.List) and len(export.elts) == 1 and isinstance(export.elts[0], ast.Dict))
  if ok:
    d = {k.value: v for k, v in zip(export.elts[0].keys, export.elts[0].values) if isinstance(k, ast.Constant)}
    ok = (set(d) == {'table_name', 'column_metadata', 'table_data'} and dotted(d['column_metadata']) == 'column_metadata'
          and dotted(d['table_data']) == 'table_data' and isinstance(d['table_name'], ast.Constant) and
          d['table_name'].value is None)
  last = tail[-1] if tail else None
  ok = ok and isinstance(last, ast.Return) and isinstance(last.value, ast.Tuple) and len(last.value.elts) == 2 and \
      dotted(last.value.elts[1]) == 'export_list'
  if not ok:
    fail(fn, 'the tail of _parse_open_file does not export [{table_name: None, column_metadata, table_data}]')
  env = {'parse_options': OPTS, 'rows': GRID}
  tr = Tr()
  rty = T(L(CD), GRID)

  def fall(env2):
    if env2.get('column_metadata') != L(CD) or env2.get('table_data') != GRID:
      raise Untranslatable('column_metadata/table_data not built in the translated part')
    return '(column_metadata_, table_data_)'

  def no_ret(_t):
    raise Untranslatable('return inside the translated part of _parse_open_file')
  term = tr.block(body[start:end], env, Ctx(rty, no_ret, fall))
  return ('Definition g_parse_rows (isnum : cell -> bool) (parse_options_ : options) (rows_ : grid) : %s :=\n%s.\n'
          % (coq_type(rty), term))


HEADER = '''(* GENERATED by harness/csv2v.py from %s -- do not edit.
   Translated grid logic of the CSV importer; Proofs/Csv_bridge.v relates it to Model/Csv.v. *)
From Coq Require Import ZArith List Bool.
Import ListNotations.
Require Import Grist.Model.Csv Grist.Lib.CsvPrelude.
Open Scope Z_scope.

'''
UTILS_ORDER = ['empty', 'column_count_modal', '_count_nonempty', 'find_first_non_empty_row', '_is_header',
               'expand_headers', 'headers_guess']


def translate_all(grist_dir):
  def parse(rel):
    with open(os.path.join(grist_dir, rel)) as f:
      return ast.parse(f.read())
  utils = parse('imports/import_utils.py')
  pdata = parse('parse_data.py')
  icsv = parse('imports/import_csv.py')
  out = [HEADER % 'sandbox/grist/imports/import_utils.py, parse_data.py, imports/import_csv.py']
  for name in UTILS_ORDER:
    out.append('(* import_utils.%s *)\n' % name + translate_function(utils, name))
  out.append('(* parse_data.get_table_data *)\n' + translate_function(pdata, 'get_table_data'))
  out.append('(* import_csv._parse_open_file, from after `rows = list(reader)` to before `if not table_data:` *)\n' +
             translate_parse_slice(icsv))
  return '\n'.join(out)
