"""
ot2v -- fail-closed translator for the deciding code of property C24: objtypes.encode_object and decode_object
(own module; builds on the expression/statement translation of harness/ut2v.py).

Writes coq/gen/Objtypes_gen.v with
  gen_encode_object fuel v, gen_decode_object fuel v : result value
as Fixpoints over `fuel`, the number of nested calls the interpreter stack still allows: the recursive call `rec_`
raises RecursionError at fuel 0 (which the functions' own `except Exception` then handles, as in CPython).
On top of ut2v: list literals, list +, subscripts and slices, the attribute reads of records / stubs, dict
comprehensions over .items(), the constructors RecordStub / RecordSetStub / UnmarshallableValue / RaisedException(e),
star-argument calls of ReferenceLookup and RaisedException.decode_args, `except Exception as e`.
Methods the two functions call on objects are run-time functions of Model/ValuesPyEnc.v; their source is PINNED by AST
equality: RaisedException.encode_args / decode_args, safe_shift, records.RecordSet._get_encodable_row_ids.
Anything else raises Untranslatable.
"""
import ast
import os

from harness import ut2v
from harness.ut2v import Untranslatable, fail, dotted, strlit

CLASSES = dict(ut2v.CLASSES)
CLASSES.update({'records.Record': 'C_Record', 'records.RecordSet': 'C_RecordSet', 'RecordStub': 'C_RecordStub',
                'RecordSetStub': 'C_RecordSetStub', 'UnmarshallableValue': 'C_Unmarshallable', 'date': 'C_date',
                'datetime': 'C_datetime', 'RaisedException': 'C_RaisedException'})
ATTRS = {'_table.table_id': 'p_table_id', 'table_id': 'p_table_id', '_row_id': 'p_row_id', 'row_id': 'p_row_id',
         'row_ids': 'p_stub_row_ids', 'value_repr': 'p_value_repr'}
CONSTRUCTORS = {'RecordStub': ('PRecordStub', 2), 'RecordSetStub': ('PRecordSetStub', 2), 'UnmarshallableValue': ('PUnmarsh', 1)}
SENTINELS = {'_pending_sentinel': 'PPending', '_censored_sentinel': 'PCensored'}


class EncModule(ut2v.Module):
  def class_tuple(self, node):
    if isinstance(node, ast.Tuple):
      return [c for e in node.elts for c in self.class_tuple(e)]
    d = dotted(node)
    if d in CLASSES:
      return [CLASSES[d]]
    fail('unknown class in isinstance/type test: %s' % ast.dump(node), node)


class EncFn(ut2v.Fn):
  def __init__(self, mod, fdef):
    ut2v.Fn.__init__(self, mod, None, fdef, ())
    self.exc_name = None           # name bound by `except Exception as e` in scope

  def seq_bind(self, nodes, k):
    """evaluate the expressions left to right, then k(list of value terms) : a `result` term"""
    pre, terms, n_binds = '', [], 0
    self.depth = getattr(self, 'depth', 0) + 1
    for i, n in enumerate(nodes):
      t, pure = self.ev(n)
      if pure:
        terms.append(t)
      else:
        name = 'x%d_%d_' % (self.depth, i)
        pre += 'bind (%s) (fun %s => ' % (t, name)
        terms.append(name)
        n_binds += 1
    self.depth -= 1
    return pre + k(terms) + ')' * n_binds

  def is_comp_var(self, name):
    for n in ast.walk(self.fdef):
      if isinstance(n, (ast.GeneratorExp, ast.ListComp, ast.DictComp)):
        for g in n.generators:
          if any(t is name for t in ast.walk(g.target)):
            return True
    return False

  def ev(self, node):
    if isinstance(node, ast.Name) and node.id in SENTINELS:
      return SENTINELS[node.id], True
    if isinstance(node, ast.List):
      if all(self.ev(e)[1] for e in node.elts):
        return '(p_list [%s])' % '; '.join(self.ev(e)[0] for e in node.elts), True
      return self.seq_bind(node.elts, lambda ts: 'Ok (p_list [%s])' % '; '.join(ts)), False
    if isinstance(node, ast.BinOp) and isinstance(node.op, ast.Add):
      return self.seq_bind([node.left, node.right], lambda ts: 'p_list_add %s %s' % tuple(ts)), False
    if isinstance(node, ast.Subscript) and isinstance(node.value, ast.Name):
      sl = node.slice
      if isinstance(sl, ast.Constant) and type(sl.value) is int and sl.value >= 0:
        return self.call1('p_index', node.value, ' %d%%nat' % sl.value), False
      if isinstance(sl, ast.Slice) and sl.upper is None and sl.step is None and isinstance(sl.lower, ast.Constant) \
          and type(sl.lower.value) is int and sl.lower.value >= 0:
        return self.call1('p_slice_from', node.value, ' %d%%nat' % sl.lower.value), False
      fail('subscript shape', node)
    if isinstance(node, ast.IfExp):            # value.tzinfo.zone.name if value.tzinfo else 'UTC'
      b, t, o = dotted(node.body), dotted(node.test), node.orelse
      if b and t and b == t + '.zone.name' and t.endswith('.tzinfo') and isinstance(o, ast.Constant) and o.value == 'UTC':
        return self.call1('p_zone_name', ast.Name(id=t.split('.')[0], ctx=ast.Load())), False
    if isinstance(node, ast.Attribute):
      d = dotted(node)
      if d and d.split('.', 1)[0] in self.names and d.split('.', 1)[1] in ATTRS:
        return self.call1(ATTRS[d.split('.', 1)[1]], ast.Name(id=d.split('.')[0], ctx=ast.Load())), False
      fail('attribute %s' % d, node)
    if isinstance(node, ast.DictComp):
      g = node.generators
      if len(g) != 1 or g[0].ifs or not (isinstance(g[0].target, ast.Tuple) and len(g[0].target.elts) == 2
                                         and all(isinstance(e, ast.Name) for e in g[0].target.elts)):
        fail('dict comprehension shape', node)
      it = g[0].iter
      if not (isinstance(it, ast.Call) and isinstance(it.func, ast.Attribute) and it.func.attr == 'items' and not it.args):
        fail('dict comprehension must iterate over .items()', node)
      kn, vn = [e.id for e in g[0].target.elts]
      self.bound.update([kn, vn])
      body = self.seq_bind([node.key, node.value], lambda ts: 'Ok (%s, %s)' % tuple(ts))
      self.bound.difference_update([kn, vn])
      items = self.call1('p_items', it.func.value)
      return ('bind (%s) (fun l_ => bind (map_result (fun kv_ : value * value => let \'(v_%s, v_%s) := kv_ in %s) l_) '
              '(fun d_ => Ok (PDict d_)))' % (items, kn, vn, body)), False
    return ut2v.Fn.ev(self, node)

  def call(self, node):
    f, args = node.func, node.args
    d = dotted(f)
    if node.keywords:
      return ut2v.Fn.call(self, node)
    if d == self.fdef.name and len(args) == 1:                     # the recursive call
      return self.call1('rec_', args[0]), False
    if d == 'safe_repr' and len(args) == 1:
      t, pure = self.ev(args[0])
      if not pure:
        fail('safe_repr of a compound expression', node)
      return '(p_safe_repr orc %s)' % t, True
    if d == 'bool' and len(args) == 1:
      return self.call1('p_bool', args[0]), False
    if d == 'moment.dt_to_ts' and len(args) == 1:
      return self.call1('p_dt_to_ts orc', args[0], ' None'), False
    if d == 'moment.ts_to_date' and len(args) == 1:
      return self.call1('p_ts_to_date orc', args[0]), False
    if d == 'moment.ts_to_dt' and len(args) == 2 and isinstance(args[1], ast.Call) and dotted(args[1].func) == 'moment.Zone' \
        and len(args[1].args) == 1 and not args[1].keywords:
      return self.seq_bind([args[0], args[1].args[0]], lambda ts: 'p_ts_to_dt orc %s %s' % tuple(ts)), False
    if d in CONSTRUCTORS and len(args) == CONSTRUCTORS[d][1]:
      return self.seq_bind(args, lambda ts: 'Ok (%s %s)' % (CONSTRUCTORS[d][0], ' '.join(ts))), False
    if d == 'RaisedException' and len(args) == 1 and isinstance(args[0], ast.Name) and args[0].id == self.exc_name:
      return '(raised e_)', True
    if len(args) == 1 and isinstance(args[0], ast.Starred) and isinstance(args[0].value, ast.Name):
      if d == 'ReferenceLookup':
        return self.call1('p_reflookup orc', args[0].value), False
      if d == 'RaisedException.decode_args':
        return self.call1('p_decode_args rec_', args[0].value), False
    if isinstance(f, ast.Attribute) and not args and isinstance(f.value, ast.Name) and f.value.id in self.names:
      if f.attr == 'encode_args':
        return self.call1('p_encode_args rec_', f.value), False
      if f.attr == '_get_encodable_row_ids':
        return self.call1('p_encodable_row_ids', f.value), False
    return ut2v.Fn.call(self, node)

  def compare(self, node, pre_names=None):
    if pre_names is None and len(node.ops) == 1 and isinstance(node.ops[0], ast.Eq) and isinstance(node.comparators[0], ast.Name) \
        and node.comparators[0].id in SENTINELS:
      t, pure = self.ev(node.left)
      if not pure:
        fail('comparison with a sentinel', node)
      return '(%s %s)' % ('p_is_pending' if node.comparators[0].id == '_pending_sentinel' else 'p_is_censored', t), True
    return ut2v.Fn.compare(self, node, pre_names)

  def block_(self, stmts):
    s = stmts[0] if stmts else None
    if isinstance(s, ast.Raise) and not stmts[1:] and s.cause is None and isinstance(s.exc, ast.Call):
      name = (dotted(s.exc.func) or '').split('.')[-1]
      if name and name[0].isupper():
        return 'FExc %s %s' % (strlit(name), self.env())          # the message is not observable
    if isinstance(s, ast.Try) and len(s.handlers) == 1 and s.handlers[0].name and not s.orelse and not s.finalbody \
        and dotted(s.handlers[0].type) == 'Exception':
      h = s.handlers[0]
      before = set(self.defined)
      body = self.block(s.body)
      self.defined = set(before)
      self.exc_name = h.name
      handler = self.block(h.body)
      self.exc_name = None
      self.defined = set(before)
      head = 'fl_try_e %s (fun e_ %s => %s)' % (body, self.envpat(), handler)
      if not stmts[1:]:
        return head
      return 'fl_seq (%s) (fun %s => %s)' % (head, self.envpat(), self.block(stmts[1:]))
    return ut2v.Fn.block_(self, stmts)


HEADER = '''(* GENERATED by harness/ot2v.py from sandbox/grist/objtypes.py -- do not edit.
   Regenerated on every run of ./check C24; Proofs/Objtypes_bridge.v proves these definitions equal to encode_f / decode_f
   of Model/Values.v, so a semantic edit of encode_object / decode_object breaks a proof obligation. *)
From Coq Require Import ZArith List Bool String.
Import ListNotations.
Require Import Grist.Lib.PyFloat Grist.Model.Values Grist.Model.ValuesPy Grist.Model.ValuesPyEnc.
Open Scope Z_scope.

Section Gen.
Variable orc : oracles.

Definition gen_is_int_short (v_value : value) : result bool :=
  %s.
'''

PINNED = {
  ('RaisedException', 'encode_args'): '''
def encode_args(self):
  if self._encoded_error is not None:
    return self._encoded_error
  if self.has_user_input():
    user_input = {"u": encode_object(self.user_input)}
  else:
    user_input = None
  result = [self._name, self._message, self.details, user_input]
  while len(result) > 1 and result[-1] is None:
    result.pop()
  self._encoded_error = result
  return result
''',
  ('RaisedException', 'decode_args'): '''
@classmethod
def decode_args(cls, *args):
  exc = cls(None)
  args = list(args)
  assert args
  exc._name = safe_shift(args)
  exc._message = safe_shift(args)
  exc.details = safe_shift(args)
  exc.user_input = safe_shift(args, {})
  exc.user_input = decode_object(exc.user_input.get("u", RaisedException.NO_INPUT))
  if isinstance(exc._name, str):
    stand_in = type(exc._name, (Exception,), {})
    exc.error = stand_in() if exc._message is None else stand_in(exc._message)
  return exc
''',
  ('RaisedException', 'has_user_input'): '''
def has_user_input(self):
  return self.user_input is not RaisedException.NO_INPUT
''',
  (None, 'safe_shift'): '''
def safe_shift(arg, default=None):
  value = arg.pop(0) if arg else None
  return default if value is None else value
''',
}
PINNED_RECORDS = '''
def _get_encodable_row_ids(self):
  if type(self._row_ids) in (list, tuple):
    return self._row_ids
  else:
    return list(self._row_ids)
'''


def strip_doc(fdef):
  fdef.body = [s for s in fdef.body if not (isinstance(s, ast.Expr) and isinstance(s.value, ast.Constant) and isinstance(s.value.value, str))]
  return fdef


def find(tree, cname, mname):
  scope = tree.body
  if cname:
    cs = [n for n in tree.body if isinstance(n, ast.ClassDef) and n.name == cname]
    scope = cs[0].body if cs else []
  fs = [n for n in scope if isinstance(n, ast.FunctionDef) and n.name == mname]
  if len(fs) != 1:
    fail('%s.%s not found' % (cname or 'objtypes', mname))
  return fs[0]


def check_pinned(tree, records_tree):
  for (cname, mname), text in PINNED.items():
    want = ast.dump(strip_doc(ast.parse(text.strip() + '\n').body[0]))
    if ast.dump(strip_doc(find(tree, cname, mname))) != want:
      fail('objtypes %s.%s is not the text its run-time model was written from' % (cname or '', mname))
  want = ast.dump(strip_doc(ast.parse(PINNED_RECORDS.strip() + '\n').body[0]))
  if ast.dump(strip_doc(find(records_tree, 'RecordSet', '_get_encodable_row_ids'))) != want:
    fail('records.RecordSet._get_encodable_row_ids is not the text its run-time model was written from')


def emit_rec(mod, fdef, name):
  fn = EncFn(mod, fdef)
  body = strip_doc(fdef).body
  term = fn.block(body)
  inits = ''.join('let v_%s := PNone in ' % n for n in fn.names if n not in fn.params)
  params = ''.join(' (v_%s : value)' % p for p in fn.params)
  return ('Fixpoint %s (fuel : nat)%s {struct fuel} : result value :=\n'
          '  let rec_ := fun x_ : value => match fuel with O => Raise E_Recursion | S n_ => %s n_ x_ end in\n'
          '  %s@run_flow %s %s.\n' % (name, params, name, inits, fn.ety(), term))


def translate(grist_dir):
  tree = ast.parse(open(os.path.join(grist_dir, 'objtypes.py')).read())
  records_tree = ast.parse(open(os.path.join(grist_dir, 'records.py')).read())
  check_pinned(tree, records_tree)
  mod = EncModule(tree)
  short = ut2v.Fn(mod, None, find(tree, None, 'is_int_short'), ())
  sbody = strip_doc(find(tree, None, 'is_int_short')).body
  if len(sbody) != 1 or not isinstance(sbody[0], ast.Return):
    fail('is_int_short: expected a single return')
  out = [HEADER % short.cond_r(sbody[0].value)]
  out.append(emit_rec(mod, find(tree, None, 'encode_object'), 'gen_encode_object'))
  out.append(emit_rec(mod, find(tree, None, 'decode_object'), 'gen_decode_object'))
  out.append('End Gen.\n')
  return '\n'.join(out)


if __name__ == '__main__':
  import sys
  print(translate(sys.argv[1] if len(sys.argv) > 1 else '/repo/sandbox/grist'))
