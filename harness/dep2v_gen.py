"""dep2v, part 3: the translated functions, the worklist of Graph.invalidate_deps, the pins, the output file."""
import ast
import os

from harness.dep2v import Ex, Untranslatable, dotted, fail, find_func, ast_hash, strip_doc, params
from harness.dep2v_fns import St, unp

IDIOM_ROWS = ['out_rows = recompute_map.setdefault(dirty_node, SortedSet())', 'prev_count = len(out_rows)',
              'out_rows.update(dirty_rows)', 'if len(out_rows) <= prev_count:\n    continue']


class StW(St):
  """The body of the worklist loop of invalidate_deps."""
  def block(self, stmts):
    if stmts:
      s, rest = stmts[0], stmts[1:]
      if isinstance(s, ast.Assign) and unp(s.targets[0]) == 'recompute_map[dirty_node]':
        return '(let g := (g_set_map g dirty_node %s) in %s)' % (self.ex.e(s.value), self.block(rest))
      if isinstance(s, ast.Assign) and unp(s) == 'include_self = True':
        return '(let include_self := true in %s)' % self.block(rest)
      if [unp(x) for x in stmts[:4]] == IDIOM_ROWS:
        # recompute_map[node] |= rows; "did it grow?" decided by set membership (len before/after in the code)
        return ('(let old := gen_old_rows (g_map g) dirty_node in (let g := (g_add_rows g dirty_node dirty_rows_l) in '
                '(if negb (existsb (fun r => negb (zmem r old)) dirty_rows_l) then %s else %s)))'
                % (self.cont, self.block(stmts[4:])))
      if isinstance(s, ast.If) and unp(s.test) == 'dirty_rows == ALL_ROWS' and s.orelse:
        saved = dict(self.ex.env)
        a = self.block(s.body + rest)
        self.ex.env = dict(saved)
        b = self.block(s.orelse + rest)
        self.ex.env = dict(saved)
        return '(match dirty_rows with AllRows => %s | Rows dirty_rows_l => %s end)' % (a, b)
    return St.block(self, stmts)


def tr_simple(fn, name, sig, env, fields, extra_env=None):
  """A function whose body is straight-line code ending in return; sig: coq binders text; returns Definition."""
  ex = Ex(dict(env, **(extra_env or {})), fields)
  body = St(ex, None).block(strip_doc(fn))
  return 'Definition %s %s :=\n  %s.\n' % (name, sig, body)


def tr_state(fn, name, sig, env, fields, state, extra_env=None):
  """A method that mutates threaded state and returns nothing: the result is the final state."""
  ex = Ex(dict(env, **(extra_env or {})), fields)
  body = St(ex, state).block(strip_doc(fn))
  return 'Definition %s %s :=\n  %s.\n' % (name, sig, body)


def tr_invalidate_deps(fn):
  if params(fn) != ['self', 'dirty_node', 'dirty_rows', 'recompute_map', 'include_self'] or \
     unp(fn.args.defaults[0]) != 'True' or len(fn.args.defaults) != 1:
    fail(fn, 'signature of invalidate_deps')
  body = strip_doc(fn)
  if len(body) != 2 or unp(body[0]) != 'to_invalidate = [(dirty_node, dirty_rows)]' or \
     not isinstance(body[1], ast.While) or unp(body[1].test) != 'to_invalidate' or body[1].orelse:
    fail(fn, 'worklist shape')
  loop = body[1].body
  if unp(loop[0]) != 'dirty_node, dirty_rows = to_invalidate.pop()':
    fail(loop[0], 'pop')
  env = {'dirty_node': 'dirty_node', 'dirty_rows': 'dirty_rows', 'include_self': 'include_self',
         'to_invalidate': 'to_invalidate', 'g': 'g'}
  rec = '(gen_inval fuel g to_invalidate include_self)'
  ex = Ex(env, {})
  text = StW(ex, rec, cont=rec).block(loop[1:])
  return ('Fixpoint gen_inval (fuel0 : nat) (g : gst) (to_invalidate : list (node * rowset)) (include_self : bool)\n'
          '  : option gst :=\n  match fuel0 with O => None | S fuel =>\n'
          '  match to_invalidate with [] => Some g | (dirty_node, dirty_rows) :: to_invalidate =>\n  %s\n  end end.\n\n'
          'Definition gen_invalidate_deps (fuel : nat) (g : gst) (dirty_node : node) (dirty_rows : rowset) '
          '(include_self : bool) : option gst :=\n  (let to_invalidate := [(dirty_node, dirty_rows)] in '
          'gen_inval fuel g to_invalidate include_self).\n' % text)


def tr_use_node(fn):
  body = strip_doc(fn)
  tail = ['if self.recompute_map.get(node) is None:\n    return', 'self._recompute(node, row_ids)']
  if params(fn) != ['self', 'node', 'relation', 'row_ids'] or [unp(x) for x in body[2:]] != tail or len(body) != 4:
    fail(fn, 'shape of _use_node')
  if unp(body[0]) != 'if self._peeking:\n    return':
    fail(body[0], 'peeking guard')
  env = {'node': 'node', 'relation': 'relation', 'E': 'E', 'seen': 'seen'}
  fields = {'self._peeking': 'peeking', 'self._is_current_node_formula': 'is_current_node_formula',
            'self._current_node': 'current_node', 'self._recompute_edge_set': 'seen'}
  ex = Ex(env, fields)
  text = St(ex, '(E, seen)').block(body[1:2])
  return ('Definition gen_use_node_record (peeking is_current_node_formula : bool) (current_node : node) '
          '(E seen : list edge)\n  (node : node) (relation : rel) : list edge * list edge :=\n'
          '  (if peeking then (E, seen) else %s).\n' % text)


# glue that is not translated: pinned by the hash of its AST (docstring removed)
PINS = [
  ('table.py', 'Table', '_get_col_obj_subset'), ('table.py', 'Table', '_add_field_to_record_classes'),
  ('table.py', 'Table', '_get_col_obj_value'), ('table.py', 'Table', '_attribute_error'),
  ('records.py', 'Record', '_clone_with_relation'), ('records.py', 'RecordSet', '_clone_with_relation'),
  ('records.py', None, 'adjust_record'), ('records.py', 'RecordSet', '__iter__'), ('records.py', 'RecordSet', 'get_one'),
  ('relation.py', 'Relation', 'compose'), ('relation.py', 'ComposedRelation', '__init__'),
  ('lookup.py', '_RelationTracker', 'update_relation_from_current_node'), ('lookup.py', '_RelationTracker', '_get_relation'),
  ('lookup.py', '_RelationTracker', 'invalidate_affected_keys'), ('lookup.py', '_LookupRelation', 'invalidate_affected_keys'),
  ('lookup.py', '_LookupRelation', 'reset_rows'), ('lookup.py', '_LookupRelation', 'reset_all'),
  ('lookup.py', 'LookupMapColumn', '_do_lookup_with_sort'), ('lookup.py', 'LookupMapColumn', '_recalc_rec_method'),
  ('lookup.py', 'SimpleLookupMapping', 'update_record'),
  ('engine.py', 'Engine', 'invalidate_records'), ('engine.py', 'Engine', 'invalidate_column'),
  ('engine.py', 'Engine', '_recompute_step'), ('engine.py', 'Engine', '_pre_update'),
  ('column.py', 'BaseReferenceColumn', '_update_references'), ('column.py', 'ReferenceColumn', '_make_rich_value'),
  ('column.py', 'ReferenceListColumn', '_make_rich_value'),
]


def pin_hashes(grist):
  out = {}
  trees = {}
  for fname, cls, meth in PINS:
    if fname not in trees:
      with open(os.path.join(grist, fname)) as f:
        trees[fname] = ast.parse(f.read())
    out['%s:%s.%s' % (fname, cls or '', meth)] = ast_hash(find_func(trees[fname], cls, meth))
  return out
