"""
Regeneration of coq/gen/K4_gen.v (harness/k4tr.py, k4tr_specs.py) for the C10 / C11 checks, the AST pins of the glue that
is not translated, and the differential validation of the translator: each generated definition is evaluated with
vm_compute on generated arguments and compared with the RUNNING Python function on the same arguments.
"""
import ast
import os

from harness import core


def regenerate(ctx):
  from harness import k4tr_specs, py2v
  try:
    text = k4tr_specs.generate(core.GRIST)
  except py2v.Untranslatable as ex:
    raise core.TieBroken('outside the translated subset (harness/k4tr.py): %s' % ex)
  core.write_if_changed(os.path.join(core.COQ, 'gen', 'K4_gen.v'), text)
  try:
    bad = k4tr_specs.check_pins(core.GRIST)
  except py2v.Untranslatable as ex:
    raise core.TieBroken('pinned glue: %s' % ex)
  if bad:
    raise core.TieBroken('glue that the model was written from changed (AST differs from harness/k4pins.json): %s'
                         % ', '.join(bad))


IMPORTS = ['Grist.Model.RefIndex', 'Grist.Model.K4Support', 'Grist.Model.TwoWay', 'GristGen.K4_gen', 'Grist.Proofs.K4_bridge']


def enc_map(k4, d):
  return k4.enc_inv(d)


def relation_cases(ctx):
  """ReferenceRelation methods on real objects vs gen_get_affected_rows / gen_add_reference / gen_remove_reference /
  gen_rel_clear."""
  from harness import k4env as k4
  r = ctx.rng
  cases, metas = [], []
  for i in range(ctx.n(200, 3000)):
    rel = k4.relation_mod.ReferenceRelation('T2', 'T1', 'ref')
    for _ in range(r.randint(0, 5)):
      rel.inverse_map.setdefault(r.choice([1, 2, 3, 4, -1]), set()).update(r.sample([1, 2, 3, 4, 5], r.randint(0, 3)))
    before = enc_map(k4, rel.inverse_map)
    op = r.choice(['get', 'get', 'get1', 'add', 'remove', 'clear', 'all'])
    try:
      if op in ('get', 'get1'):
        ts = r.sample([1, 2, 3, 4, 5, -1], 1 if op == 'get1' else r.randint(0, 3))
        arg = ts if r.random() < 0.5 else tuple(ts)
        got = rel.get_affected_rows(arg)
        stored = any(got is s for s in rel.inverse_map.values())
        want = 'ARSet (%s %s)' % ('Alias' if stored else 'Fresh', k4.natlist(sorted(got)))
        term = '(ar_eqb (gen_get_affected_rows %s (Rows %s)) (%s))' % (before, core.zlist(ts), want)
      elif op == 'all':
        import depend
        got = rel.get_affected_rows(depend.ALL_ROWS)
        want = 'ARAll' if got == depend.ALL_ROWS else 'ARSet (Fresh %s)' % k4.natlist(sorted(got))
        term = '(ar_eqb (gen_get_affected_rows %s AllRows) (%s))' % (before, want)
      elif op == 'add':
        a, t = r.randint(1, 6), r.choice([1, 2, 3, 4, 7])
        rel.add_reference(a, t)
        term = '(inv_eqb (gen_add_reference %s %s %s) %s)' % (before, k4.natlit(a), core.zlit(t), enc_map(k4, rel.inverse_map))
      elif op == 'remove':
        a, t = r.randint(1, 6), r.choice([1, 2, 3, 4, 7])
        try:
          rel.remove_reference(a, t)
          want = '(Ok %s)' % enc_map(k4, rel.inverse_map)
        except KeyError:
          want = '(Err EKeyError)'
        term = '(res_eqb inv_eqb (gen_remove_reference %s %s %s) %s)' % (before, k4.natlit(a), core.zlit(t), want)
      else:
        rel.clear()
        term = '(inv_eqb (gen_rel_clear %s) %s)' % (before, enc_map(k4, rel.inverse_map))
    except k4.Unrepresentable:
      continue
    cases.append(term)
    metas.append(op)
    ctx.count(('genrel', term), nontrivial=True, kind='gen:relation.%s' % op)
  defs = ('Definition aset_eqb (a b : aset) := match a, b with Fresh x, Fresh y | Alias x, Alias y => list_eqb Nat.eqb x y '
          '| _, _ => false end.\n'
          'Definition ar_eqb (a b : ar_result) := match a, b with ARAll, ARAll => true | ARSet x, ARSet y => aset_eqb x y '
          '| _, _ => false end.\n')
  bad = ctx.run_cases('genrel', IMPORTS, 'fun c : bool => c', cases, shard=400, extra_defs=defs)
  for i in bad[:5]:
    ctx.broken('translation:generated ReferenceRelation.%s differs from the running method' % metas[i], cases[i][:600])


def list_to_value_cases(ctx):
  from harness import k4env as k4
  fx = k4.Fixture()
  cases = []
  for kind in ('KRef', 'KRefList'):
    col = fx.col(kind)
    for l in ([], [1], [3], [1, 2], [2, 1, 3], [5, 5]):
      try:
        want = '(Ok %s)' % k4.enc_cell(col._list_to_value(list(l)))
      except Exception as ex:      # pylint: disable=broad-except
        want = '(Err %s)' % k4.enc_err(ex)
      cases.append('(res_eqb cell_eqb (gen_list_to_value %s %s) %s)' % (kind, k4.natlist(l), want))
      ctx.count(('genltv', kind, tuple(l)), nontrivial=True, kind='gen:_list_to_value')
  bad = ctx.run_cases('genltv', IMPORTS, 'fun c : bool => c', cases, shard=400)
  for i in bad[:3]:
    ctx.broken('translation:generated _list_to_value differs from the running method', cases[i])


def dedup_cases(ctx):
  """The de-duplication block of doBulkUpdateRecord, executed by Python on sample row id lists, vs gen_dedup."""
  from harness import k4env as k4, k4tr_specs
  with open(os.path.join(core.GRIST, 'useractions.py')) as f:
    tree = ast.parse(f.read())
  fn = k4tr_specs.find_method(tree, 'UserActions', 'doBulkUpdateRecord')
  blk = [s for s in fn.body if isinstance(s, ast.If) and 'len(set(row_ids))' in ast.unparse(s.test)][0]
  code = compile(ast.fix_missing_locations(ast.Module(body=[blk], type_ignores=[])), '<de-duplication block>', 'exec')
  r = ctx.rng
  cases = []
  for i in range(ctx.n(150, 2000)):
    n = r.choice([0, 1, 2, 3, 4, 5, 7])
    rows = [r.choice([1, 2, 3, 4]) if r.random() < 0.7 else r.randint(1, 9) for _ in range(n)]
    vals = [r.choice([None, 0, 5, [1, 2], 'a', i2]) for i2 in range(n)]
    env = {'row_ids': list(rows), 'columns': {'A': list(vals), 'B': list(range(n))}}
    exec(code, env)      # pylint: disable=exec-used
    if env['columns']['B'] != [j for j in range(n) if rows[j] not in rows[j + 1:]]:
      ctx.broken('translation:de-duplication block', 'column B of %r became %r' % (rows, env['columns']['B']))
    cases.append('(let r := gen_dedup %s %s in list_eqb Nat.eqb (fst r) %s && list_eqb cell_eqb (snd r) %s)' % (
      k4.natlist(rows), core.coq_list([k4.enc_cell(v) for v in vals]), k4.natlist(env['row_ids']),
      core.coq_list([k4.enc_cell(v) for v in env['columns']['A']])))
    ctx.count(('gendedup', tuple(rows)), nontrivial=len(set(rows)) != len(rows), kind='gen:dedup')
  bad = ctx.run_cases('gendedup', IMPORTS, 'fun c : bool => c', cases, shard=500)
  for i in bad[:3]:
    ctx.broken('translation:generated de-duplication differs from the running block', cases[i][:400])


def cleanup_condition_cases(ctx):
  """The `continue` condition of doBulkRemoveRecord's clean-up loop, evaluated by Python on real column objects,
  vs gen_cleanup_skips on the same five facts about the column."""
  from harness import k4env as k4, k4tr_specs
  from harness import gristenv as G
  with open(os.path.join(core.GRIST, 'useractions.py')) as f:
    tree = ast.parse(f.read())
  fn = k4tr_specs.find_method(tree, 'UserActions', 'doBulkRemoveRecord')
  loop = [s for s in fn.body if isinstance(s, ast.For) and ast.unparse(s.target) == 'ref_col'][0]
  code = compile(ast.Expression(loop.body[0].test), '<clean-up condition>', 'eval')
  e, _ = G.new_doc()
  G.apply(e, [['AddTable', 'T', [
    {'id': 'A', 'type': 'Text', 'isFormula': False},
    {'id': 'plain', 'type': 'Ref:T', 'isFormula': False}, {'id': 'plainl', 'type': 'RefList:T', 'isFormula': False},
    {'id': 'dflt', 'type': 'Ref:T', 'isFormula': False, 'formula': 'T.lookupOne(id=$id)'},
    {'id': 'trig', 'type': 'RefList:T', 'isFormula': False, 'formula': 'T.lookupRecords(id=$id)', 'recalcWhen': 2},
    {'id': 'form', 'type': 'Ref:T', 'isFormula': True, 'formula': 'T.lookupOne(id=$id)'},
    {'id': 'forml', 'type': 'RefList:T', 'isFormula': True, 'formula': 'T.lookupRecords(id=$id)'},
    {'id': 'anyf', 'type': 'Any', 'isFormula': True, 'formula': 'T.lookupOne(id=$id)'}]]])
  cases = []
  for cid in ('A', 'plain', 'plainl', 'dflt', 'trig', 'form', 'forml', 'anyf'):
    col = e.tables['T'].get_column(cid)
    facts = [col.is_formula(), col.has_formula(), isinstance(col, k4.column_mod.BaseReferenceColumn),
             isinstance(col, k4.column_mod.ReferenceColumn), isinstance(col, k4.column_mod.ReferenceListColumn)]
    got = bool(eval(code, {'ref_col': col, 'column': k4.column_mod}))     # pylint: disable=eval-used
    cases.append('(Bool.eqb (gen_cleanup_skips %s) %s)' % (' '.join(core.boollit(x) for x in facts), core.boollit(got)))
    ctx.count(('gencond', cid), nontrivial=True, kind='gen:cleanup_condition')
  bad = ctx.run_cases('gencond', IMPORTS, 'fun c : bool => c', cases, shard=400)
  for i in bad[:3]:
    ctx.broken('translation:generated clean-up condition differs from the running expression', cases[i])
